package c12

// Round 13: the time plan of a query (range, interval, storage interval, ratio) under
// "with / without an intermediate node".
//
// RootMetricContext.MakePlan runs calcTimeRangeAndInterval on the statement when its chooser is a
// broker.StateManager; IntermediateMetricContext.MakePlan runs it AGAIN on the statement it received
// from the root (root -> JSON -> intermediate -> calc -> JSON -> leafs). Leafs asked directly by the
// root see the statement after one pass, leafs behind an intermediate after two passes: the layout
// invariance of the answer rests on the second pass changing nothing. The layout streams of earlier
// rounds give the root a plain flow.NodeChoose (no calc at the root) and a statement that is already
// aligned, so this glue never ran on an input it could move.
//
// Here both REAL contexts plan generated statements (explicit `group by time(X)` intervals that are /
// are not multiples of the storage interval, no interval, auto group-by-time, ranges from minutes to
// months with unaligned ends, 1-3 storage intervals in the database option) against a
// broker.StateManager stand-in whose Choose mirrors the broker's (group-by + more than one storage
// node -> one intermediate). What each leaf is asked is read from the real TaskRequest payloads.
//
// ops (diffed against LinVerif.TimePlan.calcPlan):
//   `calc <ivs,..> <start> <end> <interval> <auto>` -> `plan <start> <end> <interval> <storage> <ratio>`
//   for the root's pass; `recalc <same> <storage> <ratio>` for the intermediate's pass (input = what
//   the root sent, already planned).
// impl-side oracle: the statement a leaf receives through the intermediate = the statement a leaf
// receives from the root directly (key `intermediate-changes-leaf-time-plan`), and the buckets the
// same points fall into are the same (part of the message).

import (
	"context"
	"fmt"
	"math/rand"
	"sort"
	"strings"

	"github.com/lindb/common/pkg/encoding"

	"github.com/lindb/lindb/coordinator/broker"
	"github.com/lindb/lindb/models"
	"github.com/lindb/lindb/pkg/option"
	"github.com/lindb/lindb/pkg/timeutil"
	protoCommonV1 "github.com/lindb/lindb/proto/gen/v1/common"
	querycontext "github.com/lindb/lindb/query/context"
	"github.com/lindb/lindb/sql/stmt"

	"github.com/lindb/lindb/zzverif/internal/core"
)

// tpStateMgr stands in for the broker state manager: Choose as coordinator/broker
// stateManager.Choose (several compute nodes wanted + more than one storage node + a live broker
// -> the plan targets one intermediate; else the storage nodes).
type tpStateMgr struct {
	broker.StateManager
	leafs     []string
	inter     string // "" = no broker available for computing
	intervals []int64
}

func (m *tpStateMgr) Choose(db string, numOfNodes int) ([]*models.PhysicalPlan, error) {
	p := &models.PhysicalPlan{Database: db}
	if numOfNodes > 1 && len(m.leafs) > 1 && m.inter != "" {
		p.AddTarget(&models.Target{Indicator: m.inter})
		return []*models.PhysicalPlan{p}, nil
	}
	for i, l := range m.leafs {
		p.AddTarget(&models.Target{Indicator: l, ShardIDs: []models.ShardID{models.ShardID(i)}})
	}
	return []*models.PhysicalPlan{p}, nil
}

func (m *tpStateMgr) GetDatabaseCfg(string) (models.Database, bool) {
	var ivs option.Intervals
	for _, iv := range m.intervals {
		ivs = append(ivs, option.Interval{Interval: timeutil.Interval(iv), Retention: timeutil.Interval(400 * 24 * 3600000)})
	}
	return models.Database{Name: database, Option: &option.DatabaseOption{Intervals: ivs}}, true
}

// timePlan is what a node is asked.
type timePlan struct {
	Start, End, Interval, Storage int64
	Ratio                         int
}

func (p timePlan) String() string {
	return fmt.Sprintf("plan %d %d %d %d %d", p.Start, p.End, p.Interval, p.Storage, p.Ratio)
}

func planOfPayload(payload []byte) (timePlan, *stmt.Query, error) {
	q := &stmt.Query{}
	if err := q.UnmarshalJSON(payload); err != nil {
		return timePlan{}, nil, err
	}
	return timePlan{q.TimeRange.Start, q.TimeRange.End, q.Interval.Int64(), q.StorageInterval.Int64(), q.IntervalRatio}, q, nil
}

type tpInput struct {
	Intervals  []int64
	Start, End int64
	Interval   int64
	Auto       bool
}

func (in tpInput) op() string {
	var ivs []string
	for _, iv := range in.Intervals {
		ivs = append(ivs, fmt.Sprint(iv))
	}
	a := 0
	if in.Auto {
		a = 1
	}
	return fmt.Sprintf("calc %s %d %d %d %d", strings.Join(ivs, ","), in.Start, in.End, in.Interval, a)
}

func (in tpInput) statement() *stmt.Query {
	return &stmt.Query{
		Namespace:       namespace,
		MetricName:      metricName,
		SelectItems:     []stmt.Expr{&stmt.SelectItem{Expr: &stmt.FieldExpr{Name: "f"}}},
		GroupBy:         []string{"host"},
		TimeRange:       timeutil.TimeRange{Start: in.Start, End: in.End},
		Interval:        timeutil.Interval(in.Interval),
		AutoGroupByTime: in.Auto,
	}
}

// tpLeafPlans runs the real root (and, when the plan goes through it, the real intermediate) and
// returns what every leaf is asked, plus the intermediate's input when there is one.
func tpLeafPlans(in tpInput, leafs []string, inter string) (leafPlans map[string]timePlan, interIn *tpInput, rootOut timePlan, err error) {
	mgr := &tpStateMgr{leafs: leafs, inter: inter, intervals: in.Intervals}
	root := querycontext.NewRootMetricContext(&querycontext.RootMetricContextDeps{
		Ctx:         context.Background(),
		Request:     &models.Request{RequestID: "r1", DB: database},
		Database:    database,
		CurrentNode: models.StatelessNode{HostIP: "1.1.1.1", GRPCPort: 9000},
		Statement:   in.statement(),
		Choose:      mgr,
	})
	root.SetTracker(newTracker())
	if err = root.MakePlan(); err != nil {
		return nil, nil, timePlan{}, err
	}
	leafPlans = map[string]timePlan{}
	reqs := root.GetRequests()
	var targets []string
	for t := range reqs {
		targets = append(targets, t)
	}
	sort.Strings(targets)
	for _, t := range targets {
		req := reqs[t]
		p, q, e := planOfPayload(req.Payload)
		if e != nil {
			return nil, nil, timePlan{}, e
		}
		rootOut = p
		if t != inter {
			leafPlans[t] = p
			continue
		}
		plan := &models.PhysicalPlan{}
		if e := encoding.JSONUnmarshal(req.PhysicalPlan, plan); e != nil {
			return nil, nil, timePlan{}, e
		}
		var receivers []string
		for _, tg := range plan.Targets {
			receivers = append(receivers, tg.Indicator)
		}
		interIn = &tpInput{Intervals: in.Intervals, Start: q.TimeRange.Start, End: q.TimeRange.End, Interval: q.Interval.Int64(), Auto: q.AutoGroupByTime}
		ic := querycontext.NewIntermediateMetricContext(context.Background(), nil, mgr,
			&protoCommonV1.TaskRequest{RequestID: "r1", RequestType: protoCommonV1.RequestType_Data},
			models.StatelessNode{HostIP: "2.2.2.2", GRPCPort: 9000}, plan, q, receivers)
		ic.SetTracker(newTracker())
		if e := ic.MakePlan(); e != nil {
			return nil, nil, timePlan{}, e
		}
		for l, lr := range ic.GetRequests() {
			lp, _, e := planOfPayload(lr.Payload)
			if e != nil {
				return nil, nil, timePlan{}, e
			}
			leafPlans[l] = lp
		}
	}
	return leafPlans, interIn, rootOut, nil
}

// bucketsOf: which bucket (timestamp) each of the points falls into under a plan ("-" = outside).
func bucketsOf(p timePlan, pts []int64) string {
	var out []string
	for _, t := range pts {
		if p.Interval <= 0 || t < p.Start || t > p.End+p.Interval-1 {
			out = append(out, "-")
			continue
		}
		out = append(out, fmt.Sprint(p.Start+(t-p.Start)/p.Interval*p.Interval))
	}
	return strings.Join(out, " ")
}

var tpIntervalSets = [][]int64{
	{10000}, {10000}, {10000, 300000}, {1000, 60000, 3600000}, {10000, 600000, 3600000}, {5000, 60000},
}

// thresholds of timeutil.CalcQueryInterval (ms)
var tpThresholds = []int64{3600000, 3 * 3600000, 6 * 3600000, 12 * 3600000, 24 * 3600000, 2 * 24 * 3600000, 7 * 24 * 3600000, 30 * 24 * 3600000}

func tpDraw(rng *rand.Rand) tpInput {
	in := tpInput{Intervals: tpIntervalSets[rng.Intn(len(tpIntervalSets))]}
	smallest := in.Intervals[0]
	switch rng.Intn(8) {
	case 0:
		in.Interval = 0
	case 1, 2:
		in.Interval = smallest * int64(1+rng.Intn(6))
	case 3:
		in.Interval = in.Intervals[rng.Intn(len(in.Intervals))] * int64(1+rng.Intn(3))
	case 4, 5:
		// not a multiple of the storage interval: time(25s), time(45s), time(7s) ..
		in.Interval = smallest*int64(1+rng.Intn(5)) + smallest/2*int64(rng.Intn(2)) + 1000*int64(1+rng.Intn(4))
	case 6:
		in.Interval = 1000 * int64(1+rng.Intn(400))
	default:
		in.Interval = int64(1 + rng.Intn(90000))
	}
	in.Auto = rng.Intn(7) == 0
	base := int64(1700000000000) + int64(rng.Intn(86400))*1000
	if rng.Intn(4) == 0 {
		base += int64(rng.Intn(1000))
	}
	var length int64
	switch rng.Intn(10) {
	case 0:
		length = tpThresholds[rng.Intn(len(tpThresholds))] + int64(rng.Intn(600)-300)*1000
	case 1:
		length = int64(3600+rng.Intn(40*86400)) * 1000
	default:
		length = int64(30+rng.Intn(3500)) * 1000
	}
	if rng.Intn(4) == 0 {
		length += int64(rng.Intn(1000))
	}
	in.Start, in.End = base, base+length
	return in
}

// straddles: the truncation of the range moves its length across a threshold of
// timeutil.CalcQueryInterval (the second pass then picks another automatic interval).
func tpRegion(d int64) int {
	r := 0
	for _, th := range tpThresholds {
		if d >= th {
			r++
		}
	}
	return r
}

func timePlanCase(c *core.Ctx, rng *rand.Rand) {
	for rep := 0; rep < 8; rep++ {
		in := tpDraw(rng)
		if rep == 0 {
			// every case: range < 1h, explicit interval that is not a multiple of the storage interval
			in.Intervals = []int64{10000}
			in.Interval = 10000*int64(1+rng.Intn(5)) + 1000*int64(1+rng.Intn(9))
			in.Auto = false
			in.End = in.Start + int64(600+rng.Intn(2900))*1000
		}
		tpCheck(c, in, rng)
	}
}

const keyAutoRollup = "auto-group-by-time-behind-intermediate-replanned-onto-rollup-interval"

// witnessAutoGroupByTimeRollup: finding (h). `group by host, time()` (auto group-by-time) on a database
// with storage intervals 10s and 10m, range of ~57 minutes: the root's pass stores Interval = range + 10s
// in the statement; the intermediate's pass takes that as the user's interval, FindMatchSmallestInterval
// answers 10m, the range is truncated by 10m and the leafs read the rollup interval.
func witnessAutoGroupByTimeRollup(c *core.Ctx) {
	tpCheckW(c, tpInput{Intervals: []int64{10000, 600000}, Start: 1700021063000, End: 1700024484000, Interval: 0, Auto: true}, rand.New(rand.NewSource(1)), true)
}

const keyStraddle = "range-truncated-across-auto-interval-threshold-replanned-behind-intermediate"

// witnessRangeAcrossThreshold: finding (i). One storage interval (10s), no explicit interval, range
// [..07s, ..02s] of 3h - 5s: the root's pass sees a range < 3h (automatic interval 10s) and truncates
// it to exactly 3h; the intermediate's pass sees 3h, CalcQueryInterval answers 30s: leafs behind the
// intermediate answer in 30s buckets, leafs asked directly in 10s buckets.
func witnessRangeAcrossThreshold(c *core.Ctx) {
	tpCheckW(c, tpInput{Intervals: []int64{10000}, Start: 1700000007000, End: 1700000007000 + 3*3600000 - 5000, Interval: 0}, rand.New(rand.NewSource(1)), true)
}

func tpCheck(c *core.Ctx, in tpInput, rng *rand.Rand) { tpCheckW(c, in, rng, false) }

func tpCheckW(c *core.Ctx, in tpInput, rng *rand.Rand, witness bool) {
	nLeafs := 2 + rng.Intn(2)
	var leafs []string
	for i := 0; i < nLeafs; i++ {
		leafs = append(leafs, fmt.Sprintf("10.0.1.%d:2891", i+1))
	}
	const inter = "10.0.0.2:9000"
	direct1, _, _, err := tpLeafPlans(in, leafs[:1], inter) // one storage node: asked directly
	if err != nil {
		panic(err)
	}
	directN, _, rootOut, err := tpLeafPlans(in, leafs, "") // several storage nodes, no compute node
	if err != nil {
		panic(err)
	}
	via, interIn, _, err := tpLeafPlans(in, leafs, inter)
	if err != nil {
		panic(err)
	}
	if interIn == nil {
		c.Fail("timeplan-no-intermediate", "group-by query over several storage nodes was not planned through the intermediate")
		return
	}
	c.Op(in.op(), rootOut.String())
	ref := direct1[leafs[0]]
	c.NonTrivial()
	c.Branch("timeplan")
	if in.Interval > 0 && in.Interval%ref.Storage != 0 {
		c.Branch("timeplan-interval-not-multiple-of-storage")
	}
	if in.Auto {
		c.Branch("timeplan-auto-group-by-time")
	}
	if tpRegion(in.End-in.Start) > 0 {
		c.Branch("timeplan-auto-interval-by-range")
	}
	if ref.Start != in.Start || ref.End != in.End {
		c.Branch("timeplan-range-moved-by-root")
	}
	// the intermediate's pass, as an op of its own (input = what the root sent)
	var viaPlan timePlan
	for _, l := range leafs {
		viaPlan = via[l]
		break
	}
	// `recalc`: the statement arrives planned (storage interval and ratio set)
	c.Op(fmt.Sprintf("re%s %d %d", interIn.op(), rootOut.Storage, rootOut.Ratio), viaPlan.String())

	// sample points around the range to show the buckets
	var pts []int64
	for i := 0; i < 4; i++ {
		pts = append(pts, in.Start+int64(rng.Intn(int(in.End-in.Start)/1000+1))*1000)
	}
	sort.Slice(pts, func(i, j int) bool { return pts[i] < pts[j] })
	straddle := tpRegion(in.End-in.Start) != tpRegion(rootOut.End-rootOut.Start)
	for _, l := range leafs {
		if dp, ok := directN[l]; !ok || dp != ref {
			c.Fail("leaf-count-changes-leaf-time-plan", fmt.Sprintf("%s: one storage node is asked %v, with %d storage nodes (no intermediate) %s is asked %v", in.op(), ref, nLeafs, l, dp))
			return
		}
		vp, ok := via[l]
		if !ok {
			c.Fail("intermediate-drops-leaf", fmt.Sprintf("%s: leaf %s is not asked by the intermediate", in.op(), l))
			return
		}
		if vp != ref {
			key := "intermediate-changes-leaf-time-plan"
			if in.Auto && vp.Storage != ref.Storage {
				// finding (h), replayed by the fixed case witnessAutoGroupByTimeRollup: hazard region,
				// model correspondence only
				c.Branch("timeplan-hazard-auto-group-by-time-replanned-onto-rollup")
				if !witness {
					return
				}
				key = keyAutoRollup
			} else if straddle {
				// finding (i), replayed by the fixed case witnessRangeAcrossThreshold
				c.Branch("timeplan-hazard-truncation-crosses-auto-interval-threshold")
				if !witness {
					return
				}
				key = keyStraddle
			}
			c.Fail(key, fmt.Sprintf("statement {storage intervals %v ms, range [%d,%d], group by host time(%d ms), autoGroupByTime=%v}: a leaf asked by the root directly (one storage node, or several without a compute node) gets `%v`; the same leaf %s behind the intermediate (group-by over %d storage nodes, calcTimeRangeAndInterval applied a second time to the root's statement) gets `%v`. Points at %v fall into buckets [%s] directly and [%s] through the intermediate",
				in.Intervals, in.Start, in.End, in.Interval, in.Auto, ref, l, nLeafs, vp, pts, bucketsOf(ref, pts), bucketsOf(vp, pts)))
			return
		}
	}
}
