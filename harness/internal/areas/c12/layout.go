package c12

import (
	"fmt"
	"math/rand"
	"sort"
	"strconv"
	"strings"
	"time"

	"github.com/cespare/xxhash/v2"
	"github.com/lindb/common/proto/gen/v1/flatMetricsV1"
	commonseries "github.com/lindb/common/series"
	jump "github.com/lithammer/go-jump-consistent-hash"

	"github.com/lindb/lindb/aggregation/function"
	"github.com/lindb/lindb/flow"
	"github.com/lindb/lindb/models"
	"github.com/lindb/lindb/pkg/timeutil"
	protoCommonV1 "github.com/lindb/lindb/proto/gen/v1/common"
	querycontext "github.com/lindb/lindb/query/context"
	"github.com/lindb/lindb/series"
	"github.com/lindb/lindb/series/field"
	"github.com/lindb/lindb/series/metric"

	"github.com/lindb/lindb/zzverif/internal/core"
)

type area struct{}

func init() { core.Register(area{}) }

func (area) Name() string { return "layout" }

// area arguments (checks/C12.json "args"): leaf_timeout_ms = deadline of a leaf's task context
// (the unchanged tree answers in microseconds; a leaf that waits for something that never happens
// must not take a minute per case), case_timeout_s = per-case watchdog, max_fails = the run stops
// after that many oracle failures.
var leafTimeout = 1500 * time.Millisecond

func argInt(c *core.Ctx, name string, def int) int {
	if v, ok := c.Args[name]; ok {
		if n, err := strconv.Atoi(v); err == nil && n > 0 {
			return n
		}
	}
	return def
}

func (area) Run(c *core.Ctx) error {
	leafTimeout = time.Duration(argInt(c, "leaf_timeout_ms", 1500)) * time.Millisecond
	caseTimeout := time.Duration(argInt(c, "case_timeout_s", 30)) * time.Second
	maxFails := argInt(c, "max_fails", 25)
	maxHangs := argInt(c, "max_hangs", 3)
	hangCases := 0
	leafHang.report = func(desc string) { c.Fail("leaf-blocks-until-deadline", desc) }
	for i := 0; i < c.N; i++ {
		if !c.Want(i) {
			continue
		}
		c.Begin(i)
		done := make(chan struct{})
		go func() {
			defer close(done)
			defer func() {
				if r := recover(); r != nil {
					c.Fail("panic", fmt.Sprintf("case %d panicked: %v", i, r))
				}
			}()
			runCase(c, i)
		}()
		select {
		case <-done:
		case <-time.After(caseTimeout):
			// the case's goroutine may still write to c: nothing else may run after it
			c.Fail("case-timeout", fmt.Sprintf("case %d did not finish within %s (a leaf / context waits for something that never happens)", i, caseTimeout))
			c.Flush()
			return nil
		}
		if n, _ := takeLeafHang(); n > 0 {
			hangCases++
		}
		c.Flush()
		if hangCases >= maxHangs {
			c.Note(fmt.Sprintf("stopped after %d cases with a leaf that blocks until its deadline", hangCases))
			return nil
		}
		if c.Fails >= maxFails {
			c.Note(fmt.Sprintf("stopped after %d oracle failures", c.Fails))
			return nil
		}
	}
	return nil
}

func runCase(c *core.Ctx, i int) {
	if i < len(witnesses) {
		witnesses[i](c)
		return
	}
	rng := c.Rng(i)
	if i%53 == 13 {
		layoutCaseL2(c, rng)
		return
	}
	// three real engines per ragged case: every 94th case of a quick run (~26), every 376th of a
	// thorough run (~80 per seed)
	if i%47 == 15 && (i/47)%2 == 1 && (c.Tier != "thorough" || (i/47)%8 == 1) {
		raggedCase(c, rng)
		return
	}
	if i%59 == 31 {
		nextStagesCase(c, rng)
		return
	}
	if i%31 == 17 {
		timePlanCase(c, rng)
		return
	}
	if i%23 == 7 {
		loopbackCase(c, rng)
		return
	}
	if i%41 == 11 {
		concurrentCase(c, rng)
		return
	}
	if i%19 == 3 {
		skewCase(c, rng)
		return
	}
	if i%37 == 5 {
		planShapeCase(c, rng)
		return
	}
	if i%29 == 9 {
		collectCase(c, rng)
		return
	}
	if i%31 == 17 {
		tmCase(c, rng)
		return
	}
	if i%43 == 21 {
		interleaveCase(c, rng)
		return
	}
	// the where stream runs on real storage nodes (two engines per case): every 27th case of a
	// quick run (~92), every 81st of a thorough run (~370 per seed)
	if i%27 == 4 && (c.Tier != "thorough" || i%81 == 4) {
		whereCase(c, rng)
		return
	}
	switch x := rng.Intn(100); {
	case x < 52:
		layoutCase(c, rng, false)
	case x < 64:
		multiAggCase(c, rng)
	case x < 76:
		layoutCase(c, rng, true)
	case x < 88:
		protocolCase(c, rng)
	default:
		routeCase(c, rng)
	}
}

// ---------------------------------------------------------------- protocol encoding

// encodeResp renders a real task response the way handleResponse will see it.
func encodeResp(r *protoCommonV1.TaskResponse) string {
	if r.ErrMsg != "" {
		if strings.Contains(r.ErrMsg, "not found") {
			return "nf"
		}
		return "er"
	}
	l := &protoCommonV1.TimeSeriesList{}
	if err := l.Unmarshal(r.Payload); err != nil {
		return "bad"
	}
	return "ok " + encodeList(l, false)
}

func capOf(l *protoCommonV1.TimeSeriesList) int64 {
	if l.Interval <= 0 {
		return 0
	}
	return (l.End-l.Start)/l.Interval + 1
}

// encodeList renders a TimeSeriesList as protocol tokens (canonical = sorted specs/groups/fields,
// the form the model prints; otherwise wire order).
func encodeList(l *protoCommonV1.TimeSeriesList, canonical bool) string {
	toks := []string{fmt.Sprint(capOf(l))}
	var specs []string
	for _, sp := range l.FieldAggSpecs {
		var fns []string
		ft := append([]uint32(nil), sp.FuncTypeList...)
		if canonical {
			sort.Slice(ft, func(i, j int) bool { return ft[i] < ft[j] })
		}
		for _, f := range ft {
			fns = append(fns, fmt.Sprint(f))
		}
		specs = append(specs, fmt.Sprintf("s:%s:%d:%s", sp.FieldName, sp.FieldType, joinOrDash(fns)))
	}
	if canonical {
		sort.Slice(specs, func(i, j int) bool { return specName(specs[i]) < specName(specs[j]) })
	}
	toks = append(toks, specs...)
	tss := append([]*protoCommonV1.TimeSeries(nil), l.TimeSeriesList...)
	if canonical {
		sort.SliceStable(tss, func(i, j int) bool { return tss[i].Tags < tss[j].Tags })
	}
	for _, ts := range tss {
		toks = append(toks, "t:"+tagTok(ts.Tags))
		var names []string
		for n := range ts.Fields {
			names = append(names, n)
		}
		sort.Strings(names) // Go map: NewGroupedIterator iterates it in map order; names are distinct
		for _, n := range names {
			toks = append(toks, encodeField(n, ts.Fields[n])...)
		}
	}
	return strings.Join(toks, " ")
}

func specName(tok string) string { return strings.SplitN(tok, ":", 3)[1] }

// encodeField decodes one marshalled field with lindb's own binary iterators.
func encodeField(name string, data []byte) []string {
	it := series.NewIterator(field.Name(name), data)
	out := []string{fmt.Sprintf("f:%s:%d", name, it.FieldType())}
	for it.HasNext() {
		_, fit := it.Next()
		if fit == nil {
			continue
		}
		for fit.HasNext() {
			p := fit.Next()
			var pts []string
			for p.HasNext() {
				s, v := p.Next()
				pts = append(pts, fmt.Sprintf("%d=%s", s, fmtVal(v)))
			}
			out = append(out, fmt.Sprintf("p:%d:%s", p.AggType(), joinOrDash(pts)))
		}
	}
	return out
}

func stateLine(m *querycontext.MetricContext) string {
	exp, tol, msg, agg, done := m.VerifState()
	e := "-"
	switch errKind(msg) {
	case "notfound":
		e = "nf"
	case "error":
		e = "er"
	}
	b := func(x bool) int {
		if x {
			return 1
		}
		return 0
	}
	return fmt.Sprintf("exp=%d tol=%d err=%s agg=%d done=%d", exp, tol, e, b(agg), b(done))
}

func fnName(f function.FuncType) string { return f.String() }

func (q *QueryDef) resultOp(id int) string {
	var sel, ord []string
	for _, s := range q.Selects {
		sel = append(sel, fmt.Sprintf("%d:%s", int(s.Func), s.Field))
	}
	for _, o := range q.OrderBy {
		d := 0
		if o.Desc {
			d = 1
		}
		ord = append(ord, fmt.Sprintf("%d:%s:%d", int(o.Func), o.Field, d))
	}
	all := 0
	if q.AllFields {
		all = 1
	}
	if q.Having != nil {
		return fmt.Sprintf("result %d all=%d limit=%d sel=%s ord=%s hav=%d:%d", id, all, q.Limit, joinOrDash(sel), joinOrDash(ord), q.Having.Op, q.Having.Thr)
	}
	return fmt.Sprintf("result %d all=%d limit=%d sel=%s ord=%s", id, all, q.Limit, joinOrDash(sel), joinOrDash(ord))
}

// canonical text of a result (what the model prints for `result`), given the unlimited result
// of the same context for the order-dependence rule.
func (r *Result) line(q *QueryDef, full *Result) string {
	switch r.Err {
	case "pending":
		return "pending"
	case "notfound":
		return "err nf"
	case "error":
		return "err er"
	}
	if full != nil && q.Limit < len(full.Groups) && (len(q.OrderBy) == 0 || full.hasTies(q)) {
		return fmt.Sprintf("count %d", len(r.Groups))
	}
	return r.rowsLine()
}

// answerLine is rowsLine without the groups that carry no point at all. A real storage leaf
// reports such an empty group for a series without data in the queried range only when the series
// shares its shard with one that has data (storage-level behaviour, C11's side of the leaf
// result); the layout oracle compares the answers' data.
func (r *Result) answerLine() string {
	cp := &Result{Err: r.Err, Groups: map[string]map[string][]string{}}
	for t, fm := range r.Groups {
		n := 0
		for _, pts := range fm {
			n += len(pts)
		}
		if n > 0 {
			cp.Groups[t] = fm
		}
	}
	return cp.rowsLine()
}

func (r *Result) rowsLine() string {
	var tags []string
	for t := range r.Groups {
		tags = append(tags, t)
	}
	sort.Strings(tags)
	parts := []string{"rows"}
	for _, t := range tags {
		var names []string
		for n, pts := range r.Groups[t] {
			if len(pts) > 0 {
				names = append(names, n)
			}
		}
		sort.Strings(names)
		row := []string{tagTok(t)}
		for _, n := range names {
			row = append(row, n+"="+strings.ReplaceAll(strings.Join(r.Groups[t][n], ","), "=", ":"))
		}
		parts = append(parts, strings.Join(row, " "))
	}
	return strings.Join(parts, " | ")
}

// ordKeys re-computes the order-by keys of every row of an (unlimited) result: canonicalisation
// only (decides whether the limited answer is determined or depends on map / heap order).
func (r *Result) ordKeys(q *QueryDef, ftypes map[string]field.Type) map[string][]float64 {
	out := map[string][]float64{}
	for t, fm := range r.Groups {
		var ks []float64
		for _, o := range q.OrderBy {
			fn := o.Func
			if fn == function.Unknown {
				fn = ftypes[o.Field].GetOrderByFunc()
			}
			pts := fm[o.Field] // result key must be the bare field name
			var vals []float64
			for _, p := range pts {
				var s int
				var v float64
				fmt.Sscanf(p, "%d=%g", &s, &v)
				vals = append(vals, v)
			}
			k := 0.0
			if len(vals) > 0 {
				switch fn {
				case function.Sum:
					for _, v := range vals {
						k += v
					}
				case function.Min:
					k = vals[0]
					for _, v := range vals {
						if v < k {
							k = v
						}
					}
				case function.Max:
					k = vals[0]
					for _, v := range vals {
						if v > k {
							k = v
						}
					}
				case function.Count:
					k = float64(len(vals))
				case function.Last:
					k = vals[len(vals)-1]
				case function.First:
					k = vals[0]
				}
			}
			if o.Desc {
				k = -k
			}
			ks = append(ks, k)
		}
		out[t] = ks
	}
	return out
}

func (r *Result) hasTies(q *QueryDef) bool {
	keys := r.ordKeys(q, q.ftypes)
	var ts []string
	for t := range keys {
		ts = append(ts, t)
	}
	for i := range ts {
		for j := i + 1; j < len(ts); j++ {
			eq := true
			for k := range keys[ts[i]] {
				if keys[ts[i]][k] != keys[ts[j]][k] {
					eq = false
				}
			}
			if eq {
				return true
			}
		}
	}
	return false
}

// ---------------------------------------------------------------- one layout, executed

// Layout is a physical placement + delivery schedule.
type Layout struct {
	Leaves    []*LeafDef
	Receivers int     // 0: leaves answer the root; r>=1: r intermediates
	LeafPerm  [][]int // per receiver (or [0] for the root): delivery order of the leaf responses
	RootPerm  []int   // delivery order of the intermediates' responses at the root
}

type runOut struct {
	res  *Result
	full *Result
}

// runLayout executes one layout on the real code, mirroring every delivery into the protocol
// (when emit is true), and returns the root's canonical result.
func runLayout(c *core.Ctx, w *World, q *QueryDef, l *Layout, emit bool, ctxBase int) runOut {
	op := func(o, out string) {
		if emit {
			c.Op(o, out)
		}
	}
	recvNames := []string{"root"}
	if l.Receivers > 0 {
		recvNames = nil
		for j := 0; j < l.Receivers; j++ {
			recvNames = append(recvNames, fmt.Sprintf("im%d", j))
		}
	}
	var leafNames []string
	leafResp := make([][]*protoCommonV1.TaskResponse, len(l.Leaves))
	for li, leaf := range l.Leaves {
		leafNames = append(leafNames, leaf.Name)
		rs, rec, plan, err := RunLeafPlan(w, q, leaf, recvNames)
		if err != nil {
			panic(err)
		}
		op(plan.Op, plan.Out)
		leafResp[li] = rs
		for _, r := range rs {
			if r == nil {
				panic("leaf sent no response to a receiver")
			}
		}
		if rs[0].ErrMsg == "" && len(recvNames) > 1 {
			checkPartition(c, w, q, leaf, rs)
		}
		if rs[0].ErrMsg == "" && emit {
			// leaf reduce + BuildResultSet against the model
			first := &protoCommonV1.TimeSeriesList{}
			_ = first.Unmarshal(rs[0].Payload)
			hdr := strings.Fields(encodeList(&protoCommonV1.TimeSeriesList{Start: first.Start, End: first.End, Interval: first.Interval,
				FieldAggSpecs: first.FieldAggSpecs}, false))
			toks := []string{"leaf", fmt.Sprint(len(recvNames))}
			toks = append(toks, hdr...)
			if len(recvNames) > 1 {
				seen := map[string]bool{}
				for _, t := range rec {
					if strings.HasPrefix(t, "t:") && !seen[t] {
						seen[t] = true
						tg := t[2:]
						if tg == "-" {
							tg = ""
						}
						toks = append(toks, fmt.Sprintf("h:%s=%d", tagTok(tg), xxhash.Sum64String(tg)))
					}
				}
			}
			toks = append(toks, rec...)
			var outs []string
			for _, r := range rs {
				pl := &protoCommonV1.TimeSeriesList{}
				_ = pl.Unmarshal(r.Payload)
				outs = append(outs, "ok "+encodeList(pl, true))
			}
			op(strings.Join(toks, " "), strings.Join(outs, " | "))
		}
	}
	rootInputs := make([]*protoCommonV1.TaskResponse, 0)
	rootFrom := []string{}
	if l.Receivers == 0 {
		for li := range l.Leaves {
			rootInputs = append(rootInputs, leafResp[li][0])
			rootFrom = append(rootFrom, leafNames[li])
		}
	} else {
		for j := 0; j < l.Receivers; j++ {
			ic, err := NewIntermediate(w, q, recvNames[j], leafNames, recvNames)
			if err != nil {
				panic(err)
			}
			id := ctxBase + 1 + j
			op(fmt.Sprintf("new %d %d", id, len(l.Leaves)), stateLine(&ic.Ctx.MetricContext))
			for _, li := range l.LeafPerm[j] {
				r := leafResp[li][j]
				ic.Ctx.HandleResponse(r, leafNames[li])
				op(fmt.Sprintf("resp %d %s", id, encodeResp(r)), stateLine(&ic.Ctx.MetricContext))
			}
			out := ic.Finish()
			if out == nil {
				panic("intermediate did not complete")
			}
			el := "er"
			if out.ErrMsg == "" {
				pl := &protoCommonV1.TimeSeriesList{}
				if err := pl.Unmarshal(out.Payload); err == nil {
					el = "ok " + encodeList(pl, true)
				}
			} else if strings.Contains(out.ErrMsg, "not found") {
				el = "nf"
			}
			op(fmt.Sprintf("emit %d", id), el)
			rootInputs = append(rootInputs, out)
			rootFrom = append(rootFrom, recvNames[j])
		}
	}
	perm := l.RootPerm
	if l.Receivers == 0 {
		perm = l.LeafPerm[0]
	}
	// the root's targets spread over 1-3 physical plans (MakePlan: one addRequests per plan)
	plans := splitPlans(rootFrom, perm)
	if len(plans) > 1 {
		c.Branch("root-multi-plan")
	}
	mk := func(lim int) *Root {
		qq := *q
		qq.Limit = lim
		root, err := NewRootPlans(w, &qq, plans)
		if err != nil {
			panic(err)
		}
		return root
	}
	root := mk(q.Limit)
	op(newOp(ctxBase, plans), stateLine(&root.Ctx.MetricContext))
	for _, k := range perm {
		root.Ctx.HandleResponse(rootInputs[k], rootFrom[k])
		op(fmt.Sprintf("resp %d %s", ctxBase, encodeResp(rootInputs[k])), stateLine(&root.Ctx.MetricContext))
	}
	res := root.Finish()
	// the unlimited answer of the same layout and schedule: tells whether the limited answer is
	// determined, and is what every row of a limited answer must be taken from. With a small limit
	// the whole path (leaves included) is run again with the limit lifted, so a limit applied
	// anywhere below the root shows as a row that is not a row of the unlimited answer.
	var full *Result
	if q.Limit >= 100 {
		fullRoot := mk(1 << 20)
		for _, k := range perm {
			fullRoot.Ctx.HandleResponse(rootInputs[k], rootFrom[k])
		}
		full = fullRoot.Finish()
	} else {
		qq := *q
		qq.Limit = 1 << 20
		full = runLayout(c, w, &qq, l, false, ctxBase).res
	}
	op(q.resultOp(ctxBase), res.line(q, full))
	checkTopN(c, q, res, full)
	if q.Having != nil {
		checkHaving(c, w, q, root, res, func() *Result {
			qq := *q
			qq.Having = nil
			plain, err := NewRootPlans(w, &qq, plans)
			if err != nil {
				panic(err)
			}
			for _, k := range perm {
				plain.Ctx.HandleResponse(rootInputs[k], rootFrom[k])
			}
			return plain.Finish()
		})
	}
	return runOut{res: res, full: full}
}

// checkHaving: HAVING evaluated per group independently on the unfiltered answer of the same
// deliveries must be what the root answers — in every rendering (makeResultSet walks the groups in
// Go map order: the same context is rendered several times to sample it).
func checkHaving(c *core.Ctx, w *World, q *QueryDef, root *Root, res *Result, unfiltered func() *Result) {
	if res.Err != "" {
		return
	}
	plain := unfiltered()
	want := &Result{Groups: map[string]map[string][]string{}}
	for t, fm := range plain.Groups {
		out := map[string][]string{}
		for name, pts := range fm {
			var keep []string
			for _, p := range pts {
				var slot int
				var v float64
				fmt.Sscanf(p, "%d=%g", &slot, &v)
				if q.Having.holds(v) {
					keep = append(keep, p)
				}
			}
			out[name] = keep
		}
		want.Groups[t] = out
	}
	for k := 0; k < 12; k++ {
		got := res
		if k > 0 {
			got = root.Finish()
		}
		if got.Err != "" || got.answerLine() != want.answerLine() {
			c.Fail("having-slot-leaks-between-groups", fmt.Sprintf("having %s op%d %d/8, rendering %d: root answers %q (%s), HAVING per group on the unfiltered answer gives %q",
				q.Having.Field, q.Having.Op, q.Having.Thr, k, clip(got.answerLine()), got.Err, clip(want.answerLine())))
			return
		}
	}
	c.Branch("having")
}

// checkTopN: with ORDER BY and a limit below the number of groups, and no two groups tying on
// all order-by keys, the groups of the limited answer must be exactly the `limit` best of the
// unlimited answer by the EXACT comparison of the keys (differences smaller than 1 included).
func checkTopN(c *core.Ctx, q *QueryDef, res, full *Result) {
	if len(q.OrderBy) == 0 || res.Err != "" || full.Err != "" || q.Limit >= len(full.Groups) || full.hasTies(q) {
		return
	}
	keys := full.ordKeys(q, q.ftypes)
	var ts []string
	for t := range keys {
		ts = append(ts, t)
	}
	sort.Slice(ts, func(i, j int) bool {
		a, b := keys[ts[i]], keys[ts[j]]
		for k := range a {
			if a[k] != b[k] {
				return a[k] < b[k]
			}
		}
		return ts[i] < ts[j]
	})
	want := map[string]bool{}
	for _, t := range ts[:q.Limit] {
		want[t] = true
	}
	for t := range res.Groups {
		if !want[t] {
			c.Fail("order-by-limit-keeps-wrong-groups", fmt.Sprintf("limit %d of %d groups: group %q (keys*8 %v) is in the answer, the %d best by the order-by keys are %v (keys*8 of all groups: %v)",
				q.Limit, len(full.Groups), t, keys[t], q.Limit, ts[:q.Limit], keys))
			return
		}
	}
	if len(res.Groups) != q.Limit {
		c.Fail("order-by-limit-keeps-wrong-groups", fmt.Sprintf("limit %d of %d groups: %d groups answered", q.Limit, len(full.Groups), len(res.Groups)))
	}
}

// ---------------------------------------------------------------- generators

func perm(rng *rand.Rand, n int) []int { return rng.Perm(n) }

var simpleTypes = []field.Type{field.SumField, field.MinField, field.MaxField}

func seriesHash(tagKeys, tags []string) uint64 {
	rb, release := commonseries.NewRowBuilder()
	defer release(rb)
	rb.AddMetricName([]byte(metricName))
	for i, k := range tagKeys {
		_ = rb.AddTag([]byte(k), []byte(tags[i]))
	}
	_ = rb.AddSimpleField([]byte("f"), flatMetricsV1.SimpleFieldTypeDeltaSum, 1)
	rb.AddTimestamp(familyStart)
	blk, err := rb.Build()
	if err != nil {
		panic(err)
	}
	var row metric.BrokerRow
	row.FromBlock(blk)
	m := row.Metric()
	return m.KvsHash()
}

func genWorld(rng *rand.Rand, types []field.Type, nSlots int) *World {
	w := &World{}
	nKeys := 1 + rng.Intn(2)
	for k := 0; k < nKeys; k++ {
		w.TagKeys = append(w.TagKeys, []string{"host", "dc"}[k])
	}
	nf := 1 + rng.Intn(3)
	for f := 0; f < nf; f++ {
		w.Fields = append(w.Fields, FieldDef{Name: fmt.Sprintf("f%d", f+1), Type: types[rng.Intn(len(types))]})
	}
	ns := 1 + rng.Intn(6)
	seen := map[string]bool{}
	for len(w.Series) < ns {
		var tags []string
		for k := 0; k < nKeys; k++ {
			tags = append(tags, fmt.Sprintf("%c%d", "hd"[k], rng.Intn(3)))
		}
		key := strings.Join(tags, ",")
		if seen[key] {
			if rng.Intn(4) == 0 {
				break
			}
			continue
		}
		seen[key] = true
		w.Series = append(w.Series, SeriesDef{Tags: tags, Hash: seriesHash(w.TagKeys, tags)})
	}
	np := rng.Intn(4 * len(w.Series) * nf)
	for p := 0; p < np; p++ {
		slot := rng.Intn(nSlots)
		if rng.Intn(8) == 0 {
			slot = rng.Intn(MaxSlot + 1) // sometimes in the family but outside the queried range
		}
		w.Points = append(w.Points, Point{Series: rng.Intn(len(w.Series)), Field: rng.Intn(nf), Slot: slot,
			Val: int64(rng.Intn(321) - 80)}) // eighths: -10.0 .. 30.0 in steps of 0.125
	}
	return w
}

func genQuery(rng *rand.Rand, w *World, multiFunc bool) *QueryDef {
	q := &QueryDef{NumSlots: 2 + rng.Intn(5), Limit: 100, ftypes: map[string]field.Type{}}
	for _, f := range w.Fields {
		q.ftypes[f.Name] = f.Type
	}
	used := map[string]bool{}
	for _, f := range w.Fields {
		if rng.Intn(3) == 0 && len(q.Selects) > 0 {
			continue
		}
		fn := function.Unknown
		if rng.Intn(3) == 0 {
			cands := []function.FuncType{function.Sum, function.Min, function.Max}
			switch f.Type {
			case field.MinField:
				cands = []function.FuncType{function.Min}
			case field.MaxField:
				cands = []function.FuncType{function.Max}
			}
			fn = cands[rng.Intn(len(cands))]
		}
		if multiFunc && rng.Intn(8) == 0 {
			// (hazard stream) any function, supported by the field type or not
			fn = []function.FuncType{function.Sum, function.Min, function.Max, function.Last, function.First}[rng.Intn(5)]
		}
		q.Selects = append(q.Selects, SelectDef{Field: f.Name, Func: fn})
		used[f.Name] = true
		if multiFunc && f.Type == field.SumField && rng.Intn(2) == 0 {
			other := function.Max
			if fn == function.Max {
				other = function.Min
			}
			q.Selects = append(q.Selects, SelectDef{Field: f.Name, Func: other})
		}
	}
	if rng.Intn(3) > 0 {
		for k := range w.TagKeys {
			if rng.Intn(2) == 0 {
				q.GroupBy = append(q.GroupBy, k)
			}
		}
	}
	if len(q.GroupBy) > 0 && !multiFunc && rng.Intn(5) == 0 {
		// HAVING on the single selected field, threshold = one of the written values (so that groups
		// straddle it)
		f := w.Fields[rng.Intn(len(w.Fields))]
		var vals []int64
		for _, p := range w.Points {
			if w.Fields[p.Field].Name == f.Name {
				vals = append(vals, p.Val)
			}
		}
		if len(vals) > 0 {
			q.Selects = []SelectDef{{Field: f.Name, Func: function.Unknown}}
			q.Having = &HavingDef{Field: f.Name, Op: 1 + rng.Intn(4), Thr: vals[rng.Intn(len(vals))]}
			return q
		}
	}
	if len(q.GroupBy) > 0 && rng.Intn(3) == 0 {
		// order by a bare selected field, optionally through a function; sometimes a small limit
		var bare []SelectDef
		for _, s := range q.Selects {
			if s.Func == function.Unknown {
				bare = append(bare, s)
			}
		}
		if len(bare) > 0 {
			s := bare[rng.Intn(len(bare))]
			fn := function.Unknown
			if rng.Intn(2) == 0 {
				fn = []function.FuncType{function.Sum, function.Min, function.Max, function.Count, function.Last, function.First}[rng.Intn(6)]
			}
			q.OrderBy = append(q.OrderBy, OrderDef{Field: s.Field, Func: fn, Desc: rng.Intn(2) == 0})
			q.Limit = 1 + rng.Intn(3)
		}
	} else if len(q.GroupBy) > 0 && rng.Intn(3) == 0 {
		q.Limit = 1 + rng.Intn(2)
	}
	return q
}

func allFieldIdx(w *World, rng *rand.Rand) []int {
	idx := make([]int, len(w.Fields))
	for i := range idx {
		idx[i] = i
	}
	if rng != nil {
		rng.Shuffle(len(idx), func(i, j int) { idx[i], idx[j] = idx[j], idx[i] })
	}
	return idx
}

// genLayout places the series on k shards by the real routing hash, the shards on m leaves,
// optionally adds empty leaves, and draws the delivery orders.
func genLayout(rng *rand.Rand, w *World, q *QueryDef, localSchemas bool) *Layout {
	k := 1 + rng.Intn(4)
	m := 1 + rng.Intn(3)
	shards := make([][]int, k)
	for si, s := range w.Series {
		sh := int(jump.Hash(s.Hash, int32(k)))
		shards[sh] = append(shards[sh], si)
	}
	l := &Layout{}
	for li := 0; li < m; li++ {
		l.Leaves = append(l.Leaves, &LeafDef{Name: fmt.Sprintf("leaf%d", li), KnownFields: allFieldIdx(w, rng)})
	}
	for sh := range shards {
		li := rng.Intn(m)
		l.Leaves[li].Shards = append(l.Leaves[li].Shards, shards[sh])
	}
	for _, leaf := range l.Leaves {
		has := false
		for _, sh := range leaf.Shards {
			if len(sh) > 0 {
				has = true
			}
		}
		if !has && rng.Intn(2) == 0 {
			leaf.NoMetric = true // this node never saw the metric: its metadata lookup answers not-found
		}
		if localSchemas && has {
			// node-local schema: only the fields actually written on this node
			seen := map[int]bool{}
			for _, sh := range leaf.Shards {
				for _, si := range sh {
					for _, p := range w.Points {
						if p.Series == si {
							seen[p.Field] = true
						}
					}
				}
			}
			var kf []int
			for _, f := range leaf.KnownFields {
				if seen[f] {
					kf = append(kf, f)
				}
			}
			if len(kf) == 0 {
				leaf.NoMetric = true
			}
			leaf.KnownFields = kf
		}
	}
	if len(q.GroupBy) > 0 && rng.Intn(2) == 0 {
		l.Receivers = 1 + rng.Intn(5)
	}
	n := l.Receivers
	if n == 0 {
		n = 1
	}
	for j := 0; j < n; j++ {
		l.LeafPerm = append(l.LeafPerm, perm(rng, m))
	}
	l.RootPerm = perm(rng, n)
	return l
}

func reference(w *World) *Layout {
	all := make([]int, len(w.Series))
	for i := range all {
		all[i] = i
	}
	return &Layout{Leaves: []*LeafDef{{Name: "single", Shards: [][]int{all}, KnownFields: allFieldIdx(w, nil)}},
		LeafPerm: [][]int{{0}}, RootPerm: []int{0}}
}

func describeLayout(l *Layout) string {
	var parts []string
	for _, leaf := range l.Leaves {
		parts = append(parts, fmt.Sprintf("%s%v nometric=%v fields=%v", leaf.Name, leaf.Shards, leaf.NoMetric, leaf.KnownFields))
	}
	// the root's targets over physical plans (splitPlans: a function of the targets and the root's delivery order)
	var rootFrom []string
	perm := l.RootPerm
	if l.Receivers == 0 {
		for _, leaf := range l.Leaves {
			rootFrom = append(rootFrom, leaf.Name)
		}
		if len(l.LeafPerm) > 0 {
			perm = l.LeafPerm[0]
		}
	} else {
		for j := 0; j < l.Receivers; j++ {
			rootFrom = append(rootFrom, fmt.Sprintf("im%d", j))
		}
	}
	return fmt.Sprintf("leaves=[%s] receivers=%d leafperm=%v rootperm=%v rootplans=%v", strings.Join(parts, "; "), l.Receivers, l.LeafPerm, l.RootPerm, splitPlans(rootFrom, perm))
}

// layoutCase: one world + query, the reference layout (one shard, one leaf, no intermediates)
// and a generated layout; both go through the real code and the model; the impl-side oracle
// demands equal answers. hazard = true leaves the region the partial theorems cover (node-local
// schemas, first/last fields, two functions on one field): correspondence only, no oracle.
func layoutCase(c *core.Ctx, rng *rand.Rand, hazard bool) {
	types := simpleTypes
	if hazard {
		types = []field.Type{field.SumField, field.MinField, field.MaxField, field.LastField, field.FirstField}
	}
	nSlots := 2 + rng.Intn(5)
	w := genWorld(rng, types, nSlots)
	q := genQuery(rng, w, hazard)
	q.NumSlots = nSlots
	if hazard && rng.Intn(3) == 0 {
		q.AllFields = true
		q.Selects = nil
		q.OrderBy = nil
		q.Limit = 100
	}
	l := genLayout(rng, w, q, hazard && rng.Intn(2) == 0)
	ref := runLayout(c, w, q, reference(w), true, 0)
	got := runLayout(c, w, q, l, true, 10)
	c.Branch(fmt.Sprintf("leaves=%d", len(l.Leaves)))
	c.Branch(fmt.Sprintf("receivers=%d", l.Receivers))
	if len(q.GroupBy) > 0 {
		c.Branch("group-by")
	}
	if len(q.OrderBy) > 0 {
		c.Branch("order-by")
	}
	for _, leaf := range l.Leaves {
		if leaf.NoMetric {
			c.Branch("leaf-unknown-metric")
		}
	}
	if got.res.Err != "" {
		c.Branch("outcome-" + got.res.Err)
	}
	if len(ref.res.Groups) > 0 {
		c.NonTrivial()
	}
	if hazard {
		c.Branch("hazard")
		if ref.res.line(q, ref.full) != got.res.line(q, got.full) {
			c.Branch("hazard-layout-dependent")
		}
		return
	}
	layoutOracle(c, q, l, ref, got)
}

// layoutOracle is the impl-side oracle, C12 itself: the layout's answer is the single shard's answer.
func layoutOracle(c *core.Ctx, q *QueryDef, l *Layout, ref, got runOut) {
	a, b := ref.res.line(q, ref.full), got.res.line(q, got.full)
	if ref.res.Err == "" && len(ref.res.Groups) > 0 && got.res.Err != "" {
		c.Fail("layout-turns-answer-into-error", fmt.Sprintf("single shard answers %q, layout {%s} answers %q", a, describeLayout(l), b))
		return
	}
	if ref.full.rowsLine() != got.full.rowsLine() || ref.res.Err != got.res.Err {
		c.Fail("layout-changes-answer", fmt.Sprintf("single shard: %q / layout {%s}: %q", ref.full.rowsLine(), describeLayout(l), got.full.rowsLine()))
		return
	}
	if a != b {
		c.Fail("layout-changes-limited-answer", fmt.Sprintf("single shard: %q / layout {%s}: %q", a, describeLayout(l), b))
	}
	// a limited answer is always a sub-answer of the unlimited one
	for t, fm := range got.res.Groups {
		if fmt.Sprint(got.full.Groups[t]) != fmt.Sprint(fm) {
			c.Fail("limited-row-not-in-full-answer", fmt.Sprintf("group %q", t))
		}
	}
}

// multiAggCase: queries that need TWO OR MORE aggregate types of one field (max(f)+min(f),
// sum(f)+max(f), ... on sum fields: one primitive series per aggregate type travels in every
// partial result) over series with gaps, uniform schemas, simple field types. Since fix eb2ea99
// (a primitive series is merged into the aggregate of its own type) this region is inside the
// property: the full oracle applies. Every partial result goes over the wire (fieldIterator.
// MarshalBinary -> leaf response -> [intermediate -> MarshalBinary ->] root merge), and a node's
// partial result is sparse exactly when the layout separates series that report alternately.
func multiAggCase(c *core.Ctx, rng *rand.Rand) {
	nSlots := 3 + rng.Intn(5)
	w := genWorld(rng, simpleTypes, nSlots)
	w.Fields[rng.Intn(len(w.Fields))].Type = field.SumField
	if rng.Intn(2) == 0 {
		// alternating reporters: series k reports in the slots congruent to k (gaps on every node
		// that does not hold all of them, a dense merged series where they meet)
		w.Points = nil
		for si := range w.Series {
			for fi := range w.Fields {
				for s := si % 2; s < nSlots; s += 2 {
					if rng.Intn(6) > 0 {
						w.Points = append(w.Points, Point{Series: si, Field: fi, Slot: s, Val: int64(rng.Intn(321) - 80)})
					}
				}
			}
		}
	}
	q := &QueryDef{NumSlots: nSlots, Limit: 100, ftypes: ftypesOf(w)}
	multi := false
	for _, f := range w.Fields {
		if f.Type != field.SumField {
			if rng.Intn(2) == 0 {
				q.Selects = append(q.Selects, SelectDef{Field: f.Name, Func: function.Unknown})
			}
			continue
		}
		fns := []function.FuncType{function.Sum, function.Min, function.Max}
		rng.Shuffle(len(fns), func(i, j int) { fns[i], fns[j] = fns[j], fns[i] })
		for _, fn := range fns[:2+rng.Intn(2)] {
			q.Selects = append(q.Selects, SelectDef{Field: f.Name, Func: fn})
		}
		multi = true
	}
	_ = multi
	if rng.Intn(3) > 0 {
		for k := range w.TagKeys {
			if rng.Intn(2) == 0 {
				q.GroupBy = append(q.GroupBy, k)
			}
		}
	}
	l := genLayout(rng, w, q, false)
	ref := runLayout(c, w, q, reference(w), true, 0)
	got := runLayout(c, w, q, l, true, 10)
	c.Branch("multi-agg")
	c.Branch(fmt.Sprintf("multi-agg-leaves=%d", len(l.Leaves)))
	if l.Receivers > 0 {
		c.Branch("multi-agg-intermediate")
	}
	if len(ref.res.Groups) > 0 {
		c.NonTrivial()
	}
	layoutOracle(c, q, l, ref, got)
}

// protocolCase: the completion / error logic alone — generated mixes of data, empty, not-found,
// failing and undecodable responses delivered to the real root.
func protocolCase(c *core.Ctx, rng *rand.Rand) {
	w := genWorld(rng, simpleTypes, 4)
	q := genQuery(rng, w, false)
	q.NumSlots = 4
	q.OrderBy = nil
	q.Limit = 100
	n := 1 + rng.Intn(4)
	data, _, err := RunLeafRec(w, q, reference(w).Leaves[0], []string{"root"})
	if err != nil {
		panic(err)
	}
	empty, _, _ := RunLeafRec(w, q, &LeafDef{Name: "e", KnownFields: allFieldIdx(w, nil)}, []string{"root"})
	// the answer of a node that planned other functions for the same fields (primitive series of
	// aggregate types the root's aggregator does not have)
	qf := *q
	qf.Selects = nil
	for _, s := range q.Selects {
		fn := function.Max
		if s.Func == function.Max || q.ftypes[s.Field] == field.MaxField {
			fn = function.Min
		}
		if q.ftypes[s.Field] == field.SumField {
			qf.Selects = append(qf.Selects, SelectDef{Field: s.Field, Func: fn})
		} else {
			qf.Selects = append(qf.Selects, s)
		}
	}
	foreign, _, _ := RunLeafRec(w, &qf, reference(w).Leaves[0], []string{"root"})
	var rs []*protoCommonV1.TaskResponse
	var from []string
	kinds := map[string]int{}
	for i := 0; i < n; i++ {
		var r *protoCommonV1.TaskResponse
		switch x := rng.Intn(22); {
		case x >= 20:
			r = foreign[0]
			kinds["foreign"]++
		case x < 7:
			r = data[0]
			kinds["data"]++
		case x < 10:
			r = empty[0]
			kinds["empty"]++
		case x < 16:
			r = &protoCommonV1.TaskResponse{RequestID: "r1", Completed: true, ErrMsg: "metric not found, metric: cpu"}
			kinds["nf"]++
		case x < 18:
			r = &protoCommonV1.TaskResponse{RequestID: "r1", Completed: true, ErrMsg: "timeout"}
			kinds["er"]++
		case x < 19:
			r = &protoCommonV1.TaskResponse{RequestID: "r1", Completed: true, Payload: []byte{0x0a, 0xff}}
			kinds["bad"]++
		default:
			r = &protoCommonV1.TaskResponse{RequestID: "r1", Completed: true} // no payload at all
			kinds["nil"]++
		}
		rs = append(rs, r)
		from = append(from, fmt.Sprintf("n%d", i))
	}
	for k := range kinds {
		c.Branch("resp-" + k)
	}
	if rng.Intn(3) == 0 {
		// the same responses into a real intermediate context, and what it forwards
		ic, err := NewIntermediate(w, q, "im0", from, []string{"im0"})
		if err != nil {
			panic(err)
		}
		c.Op(fmt.Sprintf("new 5 %d", n), stateLine(&ic.Ctx.MetricContext))
		for _, k := range perm(rng, n) {
			ic.Ctx.HandleResponse(rs[k], from[k])
			c.Op(fmt.Sprintf("resp 5 %s", encodeResp(rs[k])), stateLine(&ic.Ctx.MetricContext))
		}
		out := ic.Finish()
		el := "pending"
		if out != nil {
			el = "er"
			if out.ErrMsg == "" {
				pl := &protoCommonV1.TimeSeriesList{}
				if err := pl.Unmarshal(out.Payload); err == nil {
					el = "ok " + encodeList(pl, true)
				}
			} else if strings.Contains(out.ErrMsg, "not found") {
				el = "nf"
			}
		}
		c.Op("emit 5", el)
		c.Branch("protocol-intermediate")
	}
	outs := map[string]bool{}
	var lines []string
	for rep := 0; rep < 2; rep++ {
		root, err := NewRoot(w, q, from)
		if err != nil {
			panic(err)
		}
		c.Op(fmt.Sprintf("new %d %d", rep, n), stateLine(&root.Ctx.MetricContext))
		for _, k := range perm(rng, n) {
			root.Ctx.HandleResponse(rs[k], from[k])
			c.Op(fmt.Sprintf("resp %d %s", rep, encodeResp(rs[k])), stateLine(&root.Ctx.MetricContext))
		}
		res := root.Finish()
		line := res.line(q, nil)
		c.Op(q.resultOp(rep), line)
		outs[line] = true
		lines = append(lines, line)
		// notfound_tolerance, on the implementation
		if kinds["er"] == 0 && kinds["bad"] == 0 && kinds["nf"] < n && res.Err != "" {
			c.Fail("notfound-not-tolerated", fmt.Sprintf("%v responses %v gave %s", n, kinds, line))
		}
		if kinds["nf"] == n && res.Err != "notfound" {
			c.Fail("all-notfound-not-an-error", line)
		}
	}
	if len(outs) > 1 && kinds["foreign"] == 0 {
		c.Fail("arrival-order-changes-outcome", strings.Join(lines, " // "))
	}
	// the same responses in the same order into roots whose targets are spread over several physical
	// plans (every partition shape is drawn: small last plan, small first plan, singletons): the
	// outcome must be that of the single plan, and the tolerance rules hold as they are.
	order := perm(rng, n)
	var single string
	for rep := 2; rep < 5; rep++ {
		plans := [][]string{from}
		if rep > 2 {
			np := 1 + rng.Intn(n)
			plans = make([][]string, np)
			for i, k := range perm(rng, n) {
				j := rng.Intn(np)
				if i < np {
					j = i
				}
				plans[j] = append(plans[j], from[k])
			}
			if rng.Intn(2) == 0 {
				sort.SliceStable(plans, func(a, b int) bool { return len(plans[a]) > len(plans[b]) })
			}
		}
		root, err := NewRootPlans(w, q, plans)
		if err != nil {
			panic(err)
		}
		c.Op(newOp(rep, plans), stateLine(&root.Ctx.MetricContext))
		for _, k := range order {
			root.Ctx.HandleResponse(rs[k], from[k])
			c.Op(fmt.Sprintf("resp %d %s", rep, encodeResp(rs[k])), stateLine(&root.Ctx.MetricContext))
		}
		res := root.Finish()
		line := res.line(q, nil)
		c.Op(q.resultOp(rep), line)
		var shape []string
		for _, p := range plans {
			shape = append(shape, "["+strings.Join(p, ",")+"]")
		}
		if rep == 2 {
			single = line
			continue
		}
		if len(plans) > 1 {
			c.Branch("protocol-multi-plan")
		}
		if line != single {
			c.Fail("plan-split-changes-outcome", fmt.Sprintf("%d targets answering %v delivered in order %v: one plan gives %s, plans %s give %s",
				n, kinds, order, single, strings.Join(shape, ""), line))
		}
		if kinds["er"] == 0 && kinds["bad"] == 0 && kinds["nf"] < n && res.Err != "" {
			c.Fail("notfound-not-tolerated", fmt.Sprintf("%v responses %v over plans %s gave %s", n, kinds, strings.Join(shape, ""), line))
		}
	}
	if kinds["data"] > 0 {
		c.NonTrivial()
	}
}

// routeCase: real rows through the real BrokerBatchRows shard iterator for shard counts 1..k. The
// rows of a batch belong to 1-3 data families (hours) and are NOT time-ordered; every row must
// come out exactly once, in the group of its shard, under the family that contains its timestamp.
func routeCase(c *core.Ctx, rng *rand.Rand) {
	n := 1 + rng.Intn(20)
	nFam := 1 + rng.Intn(3)
	type rowT struct {
		id   int
		hash uint64
	}
	const hour = int64(3600000)
	batch := metric.NewBrokerBatchRows()
	defer batch.Release()
	var rows []rowT
	for id := 0; id < n; id++ {
		rb, release := commonseries.NewRowBuilder()
		rb.AddMetricName([]byte(metricName))
		_ = rb.AddTag([]byte("host"), []byte(fmt.Sprintf("h%d", rng.Intn(5))))
		if rng.Intn(2) == 0 {
			_ = rb.AddTag([]byte("dc"), []byte(fmt.Sprintf("d%d", rng.Intn(2))))
		}
		_ = rb.AddSimpleField([]byte("f"), flatMetricsV1.SimpleFieldTypeDeltaSum, 1)
		// family (hour) drawn per row; the offset inside the hour identifies the row
		rb.AddTimestamp(familyStart + int64(rng.Intn(nFam))*hour + int64(id)*1000 + int64(rng.Intn(1000)))
		blk, err := rb.Build()
		if err != nil {
			panic(err)
		}
		cp := append([]byte(nil), blk...)
		release(rb)
		if err := batch.TryAppend(func(row *metric.BrokerRow) error { row.FromBlock(cp); return nil }); err != nil {
			panic(err)
		}
		var r metric.BrokerRow
		r.FromBlock(cp)
		m := r.Metric()
		rows = append(rows, rowT{id: id, hash: m.KvsHash()})
	}
	idOf := func(ts int64) int { return int(((ts - familyStart) % hour) / 1000) }
	kmax := 1 + rng.Intn(6)
	for k := 1; k <= kmax; k++ {
		toks := []string{"route", fmt.Sprint(k)}
		seenH := map[uint64]bool{}
		for _, r := range rows {
			toks = append(toks, fmt.Sprintf("%d:%d", r.id, r.hash))
		}
		for _, r := range rows {
			if !seenH[r.hash] {
				seenH[r.hash] = true
				toks = append(toks, fmt.Sprintf("j:%d=%d", r.hash, jump.Hash(r.hash, int32(k))))
			}
		}
		it := batch.NewShardGroupIterator(int32(k))
		// the batch as the shard sort left it: the family iterator permutes rows only inside a shard group
		type preRow struct {
			id int
			ts int64
		}
		var pre []preRow
		for _, br := range batch.Rows() {
			m := br.Metric()
			pre = append(pre, preRow{idOf(m.Timestamp()), m.Timestamp()})
		}
		calc := timeutil.Interval(intervalMs).Calculator()
		var groups []string
		total := 0
		byHash := map[uint64]int{}
		last := -1
		for it.HasRowsForNextShard() {
			shard, fam := it.FamilyRowsForNextShard(timeutil.Interval(intervalMs))
			var ids []int
			var famOut []string
			for fam.HasNextFamily() {
				familyTime, frows := fam.NextFamily()
				var fids []int
				for i := range frows {
					fm := frows[i].Metric()
					fids = append(fids, idOf(fm.Timestamp()))
				}
				sort.Ints(fids)
				var fs []string
				for _, id := range fids {
					fs = append(fs, fmt.Sprint(id))
				}
				famOut = append(famOut, fmt.Sprintf("%d:%s", (familyTime-familyStart)/hour, strings.Join(fs, ",")))
				for i := range frows {
					m := frows[i].Metric()
					ts := m.Timestamp()
					ids = append(ids, idOf(ts))
					if ts-ts%hour != familyTime {
						c.Fail("row-filed-under-wrong-family", fmt.Sprintf("%d shards, shard %d: row %d with timestamp family+%dh is handed out under family +%dh (batch of %d rows over %d families, not time-ordered)",
							k, shard, idOf(ts), (ts-ts%hour-familyStart)/hour, (familyTime-familyStart)/hour, n, nFam))
					}
					if prev, ok := byHash[m.KvsHash()]; ok && prev != shard {
						c.Fail("same-series-two-shards", fmt.Sprintf("hash %d in shards %d and %d of %d", m.KvsHash(), prev, shard, k))
					}
					byHash[m.KvsHash()] = shard
				}
			}
			if total+len(ids) <= len(pre) {
				ftoks := []string{"families"}
				for _, r := range pre[total : total+len(ids)] {
					ftoks = append(ftoks, fmt.Sprintf("%d:%d:%d", r.id, r.ts-familyStart, (calc.CalcFamilyTime(r.ts)-familyStart)/hour))
				}
				c.Op(strings.Join(ftoks, " "), strings.Join(famOut, " "))
			}
			sort.Ints(ids)
			for i := 1; i < len(ids); i++ {
				if ids[i] == ids[i-1] {
					c.Fail("routing-loses-or-duplicates-rows", fmt.Sprintf("row %d twice in shard %d of %d", ids[i], shard, k))
				}
			}
			total += len(ids)
			if shard <= last || shard >= k || shard < 0 {
				c.Fail("shard-groups-not-ascending-in-range", fmt.Sprintf("shard %d after %d of %d", shard, last, k))
			}
			last = shard
			var ss []string
			for _, id := range ids {
				ss = append(ss, fmt.Sprint(id))
			}
			groups = append(groups, fmt.Sprintf("%d:%s", shard, strings.Join(ss, ",")))
		}
		if total != n {
			c.Fail("routing-loses-or-duplicates-rows", fmt.Sprintf("%d rows in, %d out for %d shards", n, total, k))
		}
		c.Op(strings.Join(toks, " "), strings.Join(groups, " "))
		c.Branch(fmt.Sprintf("route-shards=%d", k))
	}
	c.Branch(fmt.Sprintf("route-families=%d", nFam))
	c.NonTrivial()
}

// layoutCaseL2: a layout case whose leaves are real storage nodes (level 2). Both the reference
// and the generated layout run on real nodes; the oracle additionally cross-checks the level-1
// leaf construction against the real storage leaf (same layout, same answer).
func layoutCaseL2(c *core.Ctx, rng *rand.Rand) {
	nSlots := 2 + rng.Intn(5)
	w := genWorld(rng, simpleTypes, nSlots)
	q := genQuery(rng, w, false)
	q.NumSlots = nSlots
	l := genLayout(rng, w, q, false)
	// a node the metric's rows never reached does not know the metric (no Declare), like NoMetric
	// (when nothing at all was written the metric is declared everywhere: "does the metric exist"
	// is then not a function of written points)
	for _, leaf := range l.Leaves {
		leaf.NoMetric = false
		if len(w.Points) > 0 && len(writtenFields(w, leaf)) == 0 && rng.Intn(2) == 0 {
			leaf.NoMetric = true
		}
	}
	refL := reference(w)
	limited := q.Limit < 100
	ref, err := runLayoutL2(c, w, q, refL, 0)
	if err != nil {
		panic(err)
	}
	got, err := runLayoutL2(c, w, q, l, 10)
	if err != nil {
		panic(err)
	}
	l1 := runLayout(c, w, q, l, false, 20)
	c.Branch("level2")
	c.Branch(fmt.Sprintf("level2-leaves=%d", len(l.Leaves)))
	if len(ref.res.Groups) > 0 {
		c.NonTrivial()
	}
	a, b := ref.res.line(q, ref.full), got.res.line(q, got.full)
	if ref.res.Err == "" && len(ref.res.Groups) > 0 && got.res.Err != "" {
		c.Fail("layout-turns-answer-into-error", fmt.Sprintf("[level 2] single node answers %q, layout {%s} answers %q", a, describeLayout(l), b))
		return
	}
	if ref.full.answerLine() != got.full.answerLine() || ref.res.Err != got.res.Err {
		c.Fail("layout-changes-answer", fmt.Sprintf("[level 2] single node: %q (%s) / layout {%s}: %q (%s)", ref.full.answerLine(), ref.res.Err, describeLayout(l), got.full.answerLine(), got.res.Err))
		return
	}
	if ref.full.rowsLine() != got.full.rowsLine() {
		c.Branch("level2-empty-group-placement") // observation, see answerLine
	}
	sameGroups := ref.full.rowsLine() == got.full.rowsLine()
	if (sameGroups && a != b) || (!sameGroups && !limited && ref.res.answerLine() != got.res.answerLine()) {
		c.Fail("layout-changes-limited-answer", fmt.Sprintf("[level 2] single node: %q / layout {%s}: %q", a, describeLayout(l), b))
	}
	if l1.full.answerLine() != got.full.answerLine() || l1.res.Err != got.res.Err {
		c.Fail("level1-leaf-differs-from-storage-leaf", fmt.Sprintf("layout {%s}: level 1 %q (%s), level 2 %q (%s)", describeLayout(l),
			l1.full.answerLine(), l1.res.Err, got.full.answerLine(), got.res.Err))
	}
}

// groupTags decodes the group tags of a payload.
func groupTags(r *protoCommonV1.TaskResponse) []string {
	l := &protoCommonV1.TimeSeriesList{}
	if err := l.Unmarshal(r.Payload); err != nil {
		return nil
	}
	var out []string
	for _, ts := range l.TimeSeriesList {
		out = append(out, ts.Tags)
	}
	return out
}

// checkPartition is the direct oracle on what a real leaf sends to n > 1 receivers: the groups of
// the per-receiver payloads together are the leaf's groups (what the same leaf sends to a single
// receiver), each exactly once, each to receiver xxhash(group tags) mod n.
func checkPartition(c *core.Ctx, w *World, q *QueryDef, leaf *LeafDef, rs []*protoCommonV1.TaskResponse) {
	one, err := RunLeaf(w, q, leaf, []string{"root"})
	if err != nil || one[0].ErrMsg != "" {
		return
	}
	want := map[string]bool{}
	for _, t := range groupTags(one[0]) {
		want[t] = true
	}
	n := len(rs)
	seen := map[string]int{}
	for j, r := range rs {
		for _, t := range groupTags(r) {
			seen[t]++
			if int(xxhash.Sum64String(t)%uint64(n)) != j {
				c.Fail("series-sent-to-wrong-receiver", fmt.Sprintf("leaf %s, %d receivers: group %q is in the payload of receiver %d, its hash names receiver %d",
					leaf.Name, n, t, j, xxhash.Sum64String(t)%uint64(n)))
			}
			if !want[t] {
				c.Fail("series-sent-but-not-reduced", fmt.Sprintf("leaf %s, %d receivers: group %q is sent but is not a group of the leaf", leaf.Name, n, t))
			}
		}
	}
	var dist []int
	for j := range rs {
		dist = append(dist, len(groupTags(rs[j])))
	}
	for t := range want {
		if seen[t] == 0 {
			c.Fail("series-not-sent", fmt.Sprintf("leaf %s, %d receivers (groups per receiver %v of %d): group %q of the leaf is in no receiver's payload", leaf.Name, n, dist, len(want), t))
			return
		}
		if seen[t] > 1 {
			c.Fail("series-sent-twice", fmt.Sprintf("leaf %s, %d receivers (groups per receiver %v of %d): group %q is sent %d times", leaf.Name, n, dist, len(want), t, seen[t]))
			return
		}
	}
}

// skewCase: 8-40 groups whose tag values are CHOSEN so that one receiver (of 2-5) gets most of
// them and the next one a few (the receiver of a group is xxhash(tags) mod n: deterministic, so
// the generator searches host names by their hash); group by host, 1-3 leaves; the layout goes
// through the real code and the model, with the partition oracle on every leaf and the usual
// oracle against the reference layout.
func skewCase(c *core.Ctx, rng *rand.Rand) {
	n := 2 + rng.Intn(4)
	heavy := rng.Intn(n)
	total := 8 + rng.Intn(33)
	nextCnt := 1 + rng.Intn(2)
	w := &World{TagKeys: []string{"host"}, Fields: []FieldDef{{Name: "f1", Type: field.SumField}}}
	perRecv := make([]int, n)
	for cand := 0; len(w.Series) < total && cand < 100000; cand++ {
		name := fmt.Sprintf("s%d", cand)
		j := int(xxhash.Sum64String(name) % uint64(n))
		switch {
		case j == heavy:
		case j == (heavy+1)%n && perRecv[j] < nextCnt:
		case rng.Intn(12) == 0 && perRecv[j] < 2:
		default:
			continue
		}
		perRecv[j]++
		w.Series = append(w.Series, SeriesDef{Tags: []string{name}, Hash: seriesHash(w.TagKeys, []string{name})})
	}
	nSlots := 2 + rng.Intn(3)
	for si := range w.Series {
		for k := 0; k < 1+rng.Intn(2); k++ {
			w.Points = append(w.Points, Point{Series: si, Field: 0, Slot: rng.Intn(nSlots), Val: int64(1 + rng.Intn(30))})
		}
	}
	q := &QueryDef{Selects: []SelectDef{{"f1", function.Unknown}}, GroupBy: []int{0}, NumSlots: nSlots, Limit: 1000, ftypes: ftypesOf(w)}
	m := 1 + rng.Intn(3)
	l := &Layout{Receivers: n}
	for li := 0; li < m; li++ {
		l.Leaves = append(l.Leaves, &LeafDef{Name: fmt.Sprintf("leaf%d", li), KnownFields: []int{0}, Shards: [][]int{nil}})
	}
	for si := range w.Series {
		li := 0
		if rng.Intn(4) == 0 { // most groups on the first leaf, so that its heavy receiver overflows a fair share
			li = rng.Intn(m)
		}
		l.Leaves[li].Shards[0] = append(l.Leaves[li].Shards[0], si)
	}
	for j := 0; j < n; j++ {
		l.LeafPerm = append(l.LeafPerm, perm(rng, m))
	}
	l.RootPerm = perm(rng, n)
	ref := runLayout(c, w, q, reference(w), true, 0)
	got := runLayout(c, w, q, l, true, 10)
	c.Branch("skew")
	c.Branch(fmt.Sprintf("skew-receivers=%d", n))
	c.NonTrivial()
	if got.res.Err != ref.res.Err || got.res.answerLine() != ref.res.answerLine() {
		c.Fail("layout-changes-answer", fmt.Sprintf("%d groups, %d receivers (groups per receiver %v), %d leaves: single shard %q (%s) / layout %q (%s)",
			len(w.Series), n, perRecv, m, clip(ref.res.answerLine()), ref.res.Err, clip(got.res.answerLine()), got.res.Err))
	}
}

func clip(s string) string {
	if len(s) > 300 {
		return s[:300] + "..."
	}
	return s
}

func liveBrokers(n int) []models.StatelessNode {
	var out []models.StatelessNode
	for i := 0; i < n; i++ {
		out = append(out, models.StatelessNode{HostIP: fmt.Sprintf("1.1.1.%d", i+1), GRPCPort: 9000})
	}
	return out
}

// checkPlanShape: the real flow.BuildPhysicalPlan over `live` brokers for `n` compute nodes must
// give min(n, live) targets, all distinct live nodes, exactly ONE of which executes (is not
// receive-only) — whatever its (time-seeded) shuffle draws.
func checkPlanShape(c *core.Ctx, live, n int) (targets, execs int, distinct bool) {
	nodes := liveBrokers(live)
	isLive := map[string]bool{}
	for _, nd := range nodes {
		isLive[nd.Indicator()] = true
	}
	plan := flow.BuildPhysicalPlan(database, append([]models.StatelessNode(nil), nodes...), n)
	seen := map[string]bool{}
	distinct = true
	for _, t := range plan.Targets {
		if seen[t.Indicator] || !isLive[t.Indicator] {
			distinct = false
		}
		seen[t.Indicator] = true
		if !t.ReceiveOnly {
			execs++
		}
	}
	targets = len(plan.Targets)
	want := n
	if live < n {
		want = live
	}
	switch {
	case execs == 0 && targets > 0:
		c.Fail("plan-without-executor", fmt.Sprintf("%d live brokers, %d compute nodes: all %d targets of the plan are receive-only, nobody builds the leaf plan", live, n, targets))
	case execs > 1:
		c.Fail("plan-with-several-executors", fmt.Sprintf("%d live brokers, %d compute nodes: %d targets execute", live, n, execs))
	}
	if !distinct || targets != want {
		c.Fail("plan-targets-not-distinct-live-nodes", fmt.Sprintf("%d live brokers, %d compute nodes: %d targets (want %d), distinct live nodes: %v", live, n, targets, want, distinct))
	}
	return
}

// planShapeCase: live brokers 1..12 x compute nodes 1..5, several draws each.
func planShapeCase(c *core.Ctx, rng *rand.Rand) {
	for live := 1; live <= 12; live++ {
		for n := 1; n <= 5; n++ {
			var t, e int
			var d bool
			for draw := 0; draw < 6; draw++ {
				t, e, d = checkPlanShape(c, live, n)
				if c.Fails > 0 && (e != 1 || !d) {
					break
				}
			}
			b := 0
			if d {
				b = 1
			}
			c.Op(fmt.Sprintf("plan-shape %d %d", live, n), fmt.Sprintf("targets=%d executors=%d distinct=%d", t, e, b))
		}
	}
	c.Branch("plan-shape")
	c.NonTrivial()
}
