package c12

// Round 12: the leaf pipeline's glue on real storage nodes, in two regions no other stream reaches.
//
//  (1) RAGGED TAG SETS: series of one metric carry different tag sets, a node has several shards.
//      A shard whose series with data all lack a group-by tag key makes IndexDB.GetGroupingContext
//      answer constants.ErrNotFound; the shard scan plan ignores that (NewPlanNodeWithIgnore +
//      errors.Is) and the node answers with what its other shards hold.
//  (2) HIGH ROARING CONTAINERS: a shard that holds more than 65536 series of the metric, so that the
//      matched series ids sit in the container with high key 1 (or straddle containers 0 and 1):
//      shardScanStage.NextStages forks one grouping / data-load stage per container and hands it the
//      container together with ITS high key.
//
// Both are black-box: the same written series under several placements (nodes x shards), every node
// through the real leaf task processor, responses into a real root (whose targets are spread over
// physical plans); oracle = the answer of one node with one shard.

import (
	"bytes"
	"fmt"
	"math/rand"
	"sort"
	"strings"

	protoMetricsV1 "github.com/lindb/common/proto/gen/v1/linmetrics"

	"github.com/lindb/lindb/aggregation/function"
	"github.com/lindb/lindb/models"
	"github.com/lindb/lindb/series/field"
	"github.com/lindb/lindb/series/metric"

	"github.com/lindb/lindb/zzverif/internal/core"
)

// tSeries is a series with its own tag set and integer points of the sum field f1.
type tSeries struct {
	Tags [][2]string
	Pts  [][2]int // (slot, value), ascending slots
}

func (s *tSeries) String() string {
	var t []string
	for _, kv := range s.Tags {
		t = append(t, kv[0]+"="+kv[1])
	}
	return "{" + strings.Join(t, ",") + "}"
}

// writeSeries writes the points of the given series into shard `shard` of node i, in the given
// order, in batches through the real proto -> flat -> StorageRow conversion and WriteRows.
func (cl *Cluster) writeSeries(i, shard int, ss []*tSeries) error {
	sh, ok := cl.dbs[i].GetShard(models.ShardID(shard))
	if !ok {
		return fmt.Errorf("node %d has no shard %d", i, shard)
	}
	fam, err := sh.GetOrCrateDataFamily(familyStart)
	if err != nil {
		return err
	}
	flush := func(ms []*protoMetricsV1.Metric) error {
		if len(ms) == 0 {
			return nil
		}
		var buf bytes.Buffer
		conv := metric.NewProtoConverter(models.NewDefaultLimits())
		if _, err := conv.MarshalProtoMetricListV1To(protoMetricsV1.MetricList{Metrics: ms}, &buf); err != nil {
			return err
		}
		var br metric.StorageBatchRows
		br.UnmarshalRows(buf.Bytes())
		return fam.WriteRows(br.Rows())
	}
	var ms []*protoMetricsV1.Metric
	for _, s := range ss {
		for _, p := range s.Pts {
			m := &protoMetricsV1.Metric{Name: metricName, Namespace: namespace, Timestamp: familyStart + int64(p[0])*intervalMs}
			for _, kv := range s.Tags {
				m.Tags = append(m.Tags, &protoMetricsV1.KeyValue{Key: kv[0], Value: kv[1]})
			}
			m.SimpleFields = append(m.SimpleFields, &protoMetricsV1.SimpleField{Name: "f1", Value: float64(p[1]), Type: protoMetricsV1.SimpleFieldType_DELTA_SUM})
			ms = append(ms, m)
			if len(ms) >= 2048 {
				if err := flush(ms); err != nil {
					return err
				}
				ms = nil
			}
		}
	}
	return flush(ms)
}

// tPlacement: node -> shard -> series (in write order).
type tPlacement [][][]*tSeries

func (pl tPlacement) String() string {
	var ns []string
	for _, node := range pl {
		var sh []string
		for _, ss := range node {
			var t []string
			for k, s := range ss {
				if k >= 6 {
					t = append(t, fmt.Sprintf("…%d more", len(ss)-k))
					break
				}
				t = append(t, s.String())
			}
			sh = append(sh, "["+strings.Join(t, " ")+"]")
		}
		ns = append(ns, "node("+strings.Join(sh, " ")+")")
	}
	return strings.Join(ns, " ")
}

// runTagged writes the placement on real storage nodes, queries every node through the real leaf
// task processor and hands the responses (in `order`) to a real root. Returns the root's answer and
// what each node answered.
func runTagged(pl tPlacement, w *World, q *QueryDef, order []int) (string, string) {
	a, k := runTaggedQs(pl, w, []*QueryDef{q}, order)
	return a[0], k[0]
}

// runTaggedQs: several queries against the same written cluster.
func runTaggedQs(pl tPlacement, w *World, qs []*QueryDef, order []int) ([]string, []string) {
	shards := make([]int, len(pl))
	for i := range pl {
		shards[i] = len(pl[i])
	}
	cl, err := NewCluster(shards)
	if err != nil {
		panic(err)
	}
	defer cl.Close()
	for i, node := range pl {
		for si, ss := range node {
			if err := cl.writeSeries(i, si+1, ss); err != nil {
				panic(err)
			}
		}
	}
	var names []string
	for i := range pl {
		names = append(names, fmt.Sprintf("n%d", i))
	}
	var answers, nodeKinds []string
	for _, q := range qs {
		root, err := NewRootPlans(w, q, splitPlans(names, order))
		if err != nil {
			panic(err)
		}
		kinds := make([]string, len(pl))
		for _, i := range order {
			rs, err := cl.Query(i, len(pl[i]), w, q, []string{"root"})
			if err != nil {
				panic(err)
			}
			kinds[i] = "data"
			if rs[0].ErrMsg != "" {
				kinds[i] = fmt.Sprintf("%q", rs[0].ErrMsg)
			}
			root.Ctx.HandleResponse(rs[0], names[i])
		}
		res := root.Finish()
		ans := res.answerLine()
		if res.Err != "" {
			ans = "err " + res.Err
		}
		answers = append(answers, ans)
		nodeKinds = append(nodeKinds, strings.Join(kinds, ", "))
	}
	return answers, nodeKinds
}

func taggedQuery(w *World, groupBy []int, cond *CondDef) *QueryDef {
	return &QueryDef{Selects: []SelectDef{{"f1", function.Unknown}}, GroupBy: groupBy, NumSlots: 4, Limit: 100, ftypes: ftypesOf(w), Cond: cond}
}

var taggedWorld = &World{TagKeys: []string{"host", "dc"}, Fields: []FieldDef{{Name: "f1", Type: field.SumField}}}

func groupByText(w *World, g []int) string {
	var ks []string
	for _, k := range g {
		ks = append(ks, w.TagKeys[k])
	}
	if len(ks) == 0 {
		return "no group by"
	}
	return "group by " + strings.Join(ks, ",")
}

// checkTagged compares every placement with the reference placement (one node, one shard).
func checkTagged(c *core.Ctx, key string, all []*tSeries, w *World, q *QueryDef, what string, pls []tPlacement, rng *rand.Rand) {
	ref, refKinds := runTagged(tPlacement{{all}}, w, q, []int{0})
	if strings.HasPrefix(ref, "rows |") {
		c.NonTrivial()
	}
	for _, pl := range pls {
		order := make([]int, len(pl))
		for i := range order {
			order[i] = i
		}
		if rng != nil {
			rng.Shuffle(len(order), func(a, b int) { order[a], order[b] = order[b], order[a] })
		}
		got, kinds := runTagged(pl, w, q, order)
		// the statement protects NON-EMPTY answers: an empty answer of the single shard and an
		// "every node answers not-found" error of the spread placement are both "nothing matches"
		if !strings.HasPrefix(ref, "rows |") && !strings.HasPrefix(got, "rows |") {
			continue
		}
		if got != ref {
			c.Fail(key, fmt.Sprintf("%s: one node with one shard answers %q (node: %s); placement %s answers %q (nodes: %s; delivery order %v)",
				what, ref, refKinds, pl, got, kinds, order))
		}
	}
}

// fixedRaggedGroupBy (case 18): series a{host=a}, b{host=b} and c{dc=x} (no host), group by host.
// Placements: c alone in a shard next to the shard of a, b on the SAME node (both shard orders);
// c's shard on its own node; a and c together, b apart.
func fixedRaggedGroupBy(c *core.Ctx) {
	a := &tSeries{Tags: [][2]string{{"host", "a"}}, Pts: [][2]int{{0, 3}, {1, 4}}}
	b := &tSeries{Tags: [][2]string{{"host", "b"}}, Pts: [][2]int{{1, 5}}}
	x := &tSeries{Tags: [][2]string{{"dc", "x"}}, Pts: [][2]int{{0, 7}, {2, 1}}}
	all := []*tSeries{a, b, x}
	c.Branch("ragged-fixed")
	for _, g := range [][]int{{0}, {1}, {}} {
		q := taggedQuery(taggedWorld, g, nil)
		checkTagged(c, "shard-without-group-by-tag-changes-node-answer", all, taggedWorld, q,
			"select f1 "+groupByText(taggedWorld, g)+" over series a{host=a}, b{host=b}, c{dc=x}",
			[]tPlacement{
				{{{x}, {a, b}}},
				{{{a, b}, {x}}},
				{{{x}}, {{a, b}}},
				{{{a}, {x}}, {{b}}},
			}, nil)
	}
}

// raggedCase: generated series with different tag sets over 1-3 nodes of 1-3 shards.
func raggedCase(c *core.Ctx, rng *rand.Rand) {
	n := 3 + rng.Intn(4)
	seen := map[string]bool{}
	var all []*tSeries
	for len(all) < n {
		s := &tSeries{}
		if rng.Intn(100) < 65 {
			s.Tags = append(s.Tags, [2]string{"host", string(rune('a' + rng.Intn(3)))})
		}
		if rng.Intn(100) < 50 || len(s.Tags) == 0 {
			s.Tags = append(s.Tags, [2]string{"dc", string(rune('x' + rng.Intn(2)))})
		}
		sort.Slice(s.Tags, func(i, j int) bool { return s.Tags[i][0] < s.Tags[j][0] })
		if seen[s.String()] {
			if len(seen) >= 11 {
				break
			}
			continue
		}
		seen[s.String()] = true
		for slot := 0; slot < 4; slot++ {
			if rng.Intn(2) == 0 || (slot == 3 && len(s.Pts) == 0) {
				s.Pts = append(s.Pts, [2]int{slot, 1 + rng.Intn(40)})
			}
		}
		all = append(all, s)
	}
	var g []int
	switch rng.Intn(6) {
	case 0, 1, 2:
		g = []int{0}
	case 3:
		g = []int{1}
	case 4:
		g = []int{0, 1}
	}
	q := taggedQuery(taggedWorld, g, nil)
	var pls []tPlacement
	for k := 0; k < 2; k++ {
		nodes := 1 + rng.Intn(3)
		pl := make(tPlacement, nodes)
		for i := range pl {
			pl[i] = make([][]*tSeries, 1+rng.Intn(3))
		}
		for _, s := range all {
			i := rng.Intn(nodes)
			sh := rng.Intn(len(pl[i]))
			pl[i][sh] = append(pl[i][sh], s)
		}
		// a node that holds nothing never saw the metric: that is the protocol stream's subject
		var kept tPlacement
		for _, node := range pl {
			cnt := 0
			for _, ss := range node {
				cnt += len(ss)
			}
			if cnt > 0 {
				kept = append(kept, node)
			}
		}
		pls = append(pls, kept)
	}
	c.Branch("ragged-generated")
	var names []string
	for _, s := range all {
		names = append(names, s.String())
	}
	checkTagged(c, "ragged-tags-layout-changes-answer", all, taggedWorld, q,
		"select f1 "+groupByText(taggedWorld, g)+" over series "+strings.Join(names, " "), pls, rng)
}

// fixedHighContainer (case 19): a shard with more than 65536 series of the metric. The fillers
// cpu{host=batch,dc=job-i} are created first; then three series cpu{host=web,dc=c0|c1|c2}. With
// `fillers` series in front the web series get ids fillers.. in a one-shard placement (roaring high
// key 1, or straddling containers 0 and 1) and small ids when the fillers sit in another shard.
func fixedHighContainer(c *core.Ctx) {
	highContainer(c, 65536)
	if c.Tier == "thorough" {
		highContainer(c, 65534) // web ids 65534..65536: containers 0 and 1
		highContainer(c, 65537) // first web id is not the first id of container 1
	}
}

func highContainer(c *core.Ctx, fillers int) {
	var batch []*tSeries
	for i := 0; i < fillers; i++ {
		batch = append(batch, &tSeries{Tags: [][2]string{{"dc", fmt.Sprintf("job-%d", i)}, {"host", "batch"}}, Pts: [][2]int{{0, 1}}})
	}
	var web []*tSeries
	for i := 0; i < 3; i++ {
		web = append(web, &tSeries{Tags: [][2]string{{"dc", fmt.Sprintf("c%d", i)}, {"host", "web"}}, Pts: [][2]int{{0, 2 + i}, {1 + i, 10 * (i + 1)}}})
	}
	all := append(append([]*tSeries(nil), batch...), web...)
	c.Branch("high-container")
	cond := &CondDef{Op: "eq", Key: "host", Vals: []string{"web"}}
	pls := []tPlacement{
		{{all}},        // ONE shard holds everything: web ids fillers..fillers+2
		{{batch, web}}, // one node, two shards: web ids 0..2
	}
	if c.Tier == "thorough" {
		pls = append(pls, tPlacement{{batch}, {web}}) // two nodes
		half := fillers / 2
		pls = append(pls, tPlacement{{batch[:half], append(append([]*tSeries(nil), batch[half:]...), web...)}}) // web ids < 65536
	}
	gs := [][]int{{}, {1}}
	// what the written points give (values are printed in eighths)
	wants := []string{"rows | - f1=0:72,1:80,2:160,3:240", "rows | c0 f1=0:16,1:80 | c1 f1=0:24,2:160 | c2 f1=0:32,3:240"}
	qs := []*QueryDef{taggedQuery(taggedWorld, gs[0], cond), taggedQuery(taggedWorld, gs[1], cond)}
	for _, pl := range pls {
		got, kinds := runTaggedQs(pl, taggedWorld, qs, []int{0, 1}[:len(pl)])
		for k := range qs {
			if got[k] != wants[k] {
				c.Fail("series-beyond-first-roaring-container-lost", fmt.Sprintf("select f1 where host='web' %s; %d series cpu{host=batch,dc=job-i} created first, then cpu{host=web,dc=c0|c1|c2} (series ids %d..%d when one shard holds everything): placement %s answers %q (nodes: %s), the written points give %q",
					groupByText(taggedWorld, gs[k]), fillers, fillers, fillers+2, pl, got[k], kinds[k], wants[k]))
			} else {
				c.NonTrivial()
			}
		}
	}
}
