package c12

import (
	"bytes"
	"context"
	"fmt"
	"math/rand"
	"sort"
	"strings"

	protoMetricsV1 "github.com/lindb/common/proto/gen/v1/linmetrics"
	"github.com/lindb/roaring"

	"github.com/lindb/lindb/aggregation/function"
	"github.com/lindb/lindb/flow"
	"github.com/lindb/lindb/models"
	protoCommonV1 "github.com/lindb/lindb/proto/gen/v1/common"
	querycontext "github.com/lindb/lindb/query/context"
	"github.com/lindb/lindb/query/operator"
	"github.com/lindb/lindb/query/tracker"
	"github.com/lindb/lindb/series/field"
	"github.com/lindb/lindb/series/metric"
	"github.com/lindb/lindb/sql/stmt"

	"github.com/lindb/lindb/zzverif/internal/core"
)

// The where stream: the leaf's REAL where-clause path on real storage nodes (level 2). Every node
// of a layout is a database of its own (own metadata database = own tag value dictionary, own
// index per shard); the generated conditions are trees of atomic tag filters (=, in, like) under
// AND / OR / NOT / parentheses whose values are known on SOME nodes only, or on none.
//   * black box: the query goes through the real leaf task processor of every node (metadata stage:
//     metadataLookup + tagValuesLookup; shard scan: seriesFiltering; ...), the responses through the
//     real root / intermediates; oracle: answer(layout) = answer(one node, one shard);
//   * direct: on the same nodes the real operators metadataLookup -> tagValuesLookup ->
//     seriesFiltering (per shard) are run by hand and what they leave in SeriesIDsAfterFiltering is
//     mapped back to the written series: one `filter` op per node, diffed against
//     Model/C12LeafFilter.lean; oracle: the union over the nodes = the union on the single node.

// CondDef is a generated where-condition.
type CondDef struct {
	Op   string // eq | in | like | not | par | and | or
	Key  string
	Vals []string
	L, R *CondDef
}

func (cd *CondDef) expr() stmt.Expr {
	switch cd.Op {
	case "eq":
		return &stmt.EqualsExpr{Key: cd.Key, Value: cd.Vals[0]}
	case "in":
		return &stmt.InExpr{Key: cd.Key, Values: append([]string(nil), cd.Vals...)}
	case "like":
		return &stmt.LikeExpr{Key: cd.Key, Value: cd.Vals[0]}
	case "not":
		return &stmt.NotExpr{Expr: cd.L.expr()}
	case "par":
		return &stmt.ParenExpr{Expr: cd.L.expr()}
	case "and":
		return &stmt.BinaryExpr{Left: cd.L.expr(), Operator: stmt.AND, Right: cd.R.expr()}
	default:
		return &stmt.BinaryExpr{Left: cd.L.expr(), Operator: stmt.OR, Right: cd.R.expr()}
	}
}

// rpn renders the condition in reverse polish notation for the model's driver.
func (cd *CondDef) rpn() []string {
	switch cd.Op {
	case "eq", "like":
		return []string{fmt.Sprintf("%s:%s:%s", cd.Op, cd.Key, cd.Vals[0])}
	case "in":
		return []string{fmt.Sprintf("in:%s:%s", cd.Key, strings.Join(cd.Vals, ";"))}
	case "not", "par":
		return append(cd.L.rpn(), cd.Op)
	default:
		return append(append(cd.L.rpn(), cd.R.rpn()...), cd.Op)
	}
}

// String renders the condition as SQL text.
func (cd *CondDef) String() string {
	switch cd.Op {
	case "eq":
		return fmt.Sprintf("%s='%s'", cd.Key, cd.Vals[0])
	case "like":
		return fmt.Sprintf("%s like '%s'", cd.Key, cd.Vals[0])
	case "in":
		return fmt.Sprintf("%s in ('%s')", cd.Key, strings.Join(cd.Vals, "','"))
	case "not":
		if cd.L.Op == "and" || cd.L.Op == "or" {
			return "not {" + cd.L.String() + "}"
		}
		return "not " + cd.L.String()
	case "par":
		return "(" + cd.L.String() + ")"
	default:
		// {..} shows the tree (the statement has parentheses only where a `par` node is)
		side := func(x *CondDef) string {
			if x.Op == "and" || x.Op == "or" {
				return "{" + x.String() + "}"
			}
			return x.String()
		}
		return side(cd.L) + " " + cd.Op + " " + side(cd.R)
	}
}

func (cd *CondDef) shape(m map[string]bool) {
	m[cd.Op] = true
	if cd.L != nil {
		cd.L.shape(m)
	}
	if cd.R != nil {
		cd.R.shape(m)
	}
}

// genCond: atoms over the world's tag keys (rarely a key nobody has), values drawn from the values
// the world's series carry plus values nobody wrote.
func genCond(rng *rand.Rand, w *World, depth int) *CondDef {
	atom := func() *CondDef {
		ki := rng.Intn(len(w.TagKeys))
		key := w.TagKeys[ki]
		if rng.Intn(40) == 0 {
			key = "rack" // no node's schema has it
		}
		val := func() string {
			if rng.Intn(4) == 0 {
				return fmt.Sprintf("%c%d", "hd"[ki], 7+rng.Intn(2)) // nobody wrote it
			}
			return w.Series[rng.Intn(len(w.Series))].Tags[ki]
		}
		switch x := rng.Intn(10); {
		case x < 5:
			return &CondDef{Op: "eq", Key: key, Vals: []string{val()}}
		case x < 8:
			n := 1 + rng.Intn(3)
			var vs []string
			seen := map[string]bool{}
			for len(vs) < n {
				v := val()
				if !seen[v] {
					seen[v] = true
					vs = append(vs, v)
				} else if rng.Intn(3) == 0 {
					break
				}
			}
			return &CondDef{Op: "in", Key: key, Vals: vs}
		default:
			v := val()
			pats := []string{v[:1] + "*", "*" + v[1:], "*" + v[1:] + "*", "*", v, "x*"}
			return &CondDef{Op: "like", Key: key, Vals: []string{pats[rng.Intn(len(pats))]}}
		}
	}
	if depth <= 0 || rng.Intn(4) == 0 {
		return atom()
	}
	switch x := rng.Intn(10); {
	case x < 4:
		return &CondDef{Op: "or", L: genCond(rng, w, depth-1), R: genCond(rng, w, depth-1)}
	case x < 6:
		return &CondDef{Op: "and", L: genCond(rng, w, depth-1), R: genCond(rng, w, depth-1)}
	case x < 9:
		return &CondDef{Op: "not", L: genCond(rng, w, depth-1)}
	default:
		return &CondDef{Op: "par", L: genCond(rng, w, depth-1)}
	}
}

// l2Inspect, when set, is called by l2Leaves with the cluster of a layout after its rows are
// written and before it is closed.
var l2Inspect func(cl *Cluster, l *Layout)

func errKind3(err error) string {
	msg := err.Error()
	switch {
	case strings.Contains(msg, "metric not found") || strings.Contains(msg, "metricID not found") || strings.Contains(msg, "metric id not found"):
		return "nf-metric"
	case strings.Contains(msg, "tag key not found"):
		return "nf-key"
	case strings.Contains(msg, "tag value not found"):
		return "nf-val"
	case strings.Contains(msg, "not found"):
		return "nf-other"
	}
	return "er"
}

// writtenSeries: the series of the shard that were written on the node (a series without any point
// of a field the node knows never reaches the node).
func writtenSeries(w *World, leaf *LeafDef, shard []int) []int {
	known := map[int]bool{}
	for _, f := range leaf.KnownFields {
		known[f] = true
	}
	var out []int
	for _, si := range shard {
		for _, p := range w.Points {
			if p.Series == si && known[p.Field] {
				out = append(out, si)
				break
			}
		}
	}
	return out
}

// directFilter runs the real metadataLookup, tagValuesLookup and (per shard) seriesFiltering on
// node i of the cluster and maps SeriesIDsAfterFiltering back to the world's series. Returns the
// `filter` op line, the observation line and the matched series (nil on a node-level error).
func directFilter(c *core.Ctx, cl *Cluster, i int, w *World, q *QueryDef, leaf *LeafDef) (string, string, []int) {
	// ---- the op line: what the node holds
	toks := []string{"filter", strings.Join(q.Cond.rpn(), "/"), "tk=" + strings.Join(w.TagKeys, ",")}
	if leaf.NoMetric {
		toks = append(toks, "keys=none")
	} else {
		toks = append(toks, "keys="+strings.Join(w.TagKeys, ","))
	}
	nShards := len(leaf.Shards)
	if nShards < 1 {
		nShards = 1
	}
	shardSeries := make([][]int, nShards)
	for si := 0; si < nShards; si++ {
		var ss []string
		if si < len(leaf.Shards) && !leaf.NoMetric {
			shardSeries[si] = writtenSeries(w, leaf, leaf.Shards[si])
		}
		for _, s := range shardSeries[si] {
			ss = append(ss, fmt.Sprintf("%d/%s", s, strings.Join(w.Series[s].Tags, "/")))
		}
		toks = append(toks, "sh="+joinOrDashWith(ss, ";"))
	}
	opLine := strings.Join(toks, " ")

	// ---- the real operators
	st, err := wireCopy(q.statement(w))
	if err != nil {
		panic(err)
	}
	var ids []models.ShardID
	for s := 1; s <= nShards; s++ {
		ids = append(ids, models.ShardID(s))
	}
	db := cl.dbs[i]
	taskCtx := flow.NewTaskContextWithTimeout(context.Background(), leafTimeout)
	req := &protoCommonV1.TaskRequest{RequestID: "direct", RequestType: protoCommonV1.RequestType_Data}
	lctx := querycontext.NewLeafExecuteContext(taskCtx, tracker.NewStageTracker(taskCtx), st, req, cl.fct,
		&models.Target{Indicator: cl.node.Indicator(), ShardIDs: ids}, []string{"root"}, db)
	sctx := lctx.StorageExecuteCtx
	if err := operator.NewMetadataLookup(sctx, db).Execute(); err != nil {
		return opLine, errKind3(err), nil
	}
	if err := operator.NewTagValuesLookup(sctx, db).Execute(); err != nil {
		return opLine, errKind3(err), nil
	}
	var outs []string
	var matchedAll []int
	for si, id := range ids {
		shard, ok := db.GetShard(id)
		if !ok {
			outs = append(outs, "noshard")
			continue
		}
		shardCtx := flow.NewShardExecuteContext(sctx)
		if err := operator.NewSeriesFiltering(shardCtx, shard).Execute(); err != nil {
			outs = append(outs, errKind3(err))
			continue
		}
		got := shardCtx.SeriesIDsAfterFiltering
		// map the written series of this shard to their local series ids through the real index
		var matched []string
		covered := roaring.New()
		for _, s := range shardSeries[si] {
			var sid *roaring.Bitmap
			for ki, key := range w.TagKeys {
				meta, ok := sctx.Schema.TagKeys.Find(key)
				if !ok {
					panic("schema lacks declared tag key " + key)
				}
				if int(meta.ID) != ki {
					// the model numbers the tag keys by position (Declare creates them in this order on
					// every node, from 0): NOT over a composite ranges over the series of tag key id 0
					panic(fmt.Sprintf("tag key %s has id %d on node %d, expected %d", key, meta.ID, i, ki))
				}
				vids, err := db.MetaDB().FindTagValueDsByExpr(meta.ID, &stmt.EqualsExpr{Key: key, Value: w.Series[s].Tags[ki]})
				if err != nil || vids == nil {
					vids = roaring.New()
				}
				one, err := shard.IndexDB().GetSeriesIDsByTagValueIDs(meta.ID, vids)
				if err != nil || one == nil {
					one = roaring.New()
				}
				if sid == nil {
					sid = one.Clone()
				} else {
					sid.And(one)
				}
			}
			if sid == nil || sid.GetCardinality() != 1 {
				c.Fail("written-series-not-in-index", fmt.Sprintf("node %d shard %d: series %v resolves to %v local series ids", i, si+1, w.Series[s].Tags, sid))
				continue
			}
			if got.Contains(sid.ToArray()[0]) {
				matched = append(matched, fmt.Sprint(s))
				matchedAll = append(matchedAll, s)
				covered.Or(sid)
			}
		}
		if covered.GetCardinality() != got.GetCardinality() {
			c.Fail("filter-matches-unknown-series", fmt.Sprintf("node %d shard %d: %d series ids after filtering, %d of them are written series", i, si+1, got.GetCardinality(), covered.GetCardinality()))
		}
		outs = append(outs, joinOrDashWith(matched, ","))
	}
	if matchedAll == nil {
		matchedAll = []int{}
	}
	return opLine, "ids " + strings.Join(outs, "|"), matchedAll
}

func joinOrDashWith(l []string, sep string) string {
	if len(l) == 0 {
		return "-"
	}
	return strings.Join(l, sep)
}

// whereQuery: 1-2 bare fields (sum types included), optional group by, the condition.
func whereQuery(rng *rand.Rand, w *World, nSlots int) *QueryDef {
	q := &QueryDef{NumSlots: nSlots, Limit: 100, ftypes: ftypesOf(w)}
	for fi, f := range w.Fields {
		if fi == 0 || rng.Intn(2) == 0 {
			q.Selects = append(q.Selects, SelectDef{Field: f.Name, Func: function.Unknown})
		}
	}
	if rng.Intn(3) > 0 {
		for k := range w.TagKeys {
			if rng.Intn(2) == 0 {
				q.GroupBy = append(q.GroupBy, k)
			}
		}
	}
	q.Cond = genCond(rng, w, 1+rng.Intn(3))
	return q
}

// runWhere executes one (world, query, layout) on real storage nodes: black-box answer + the
// direct filter observations (one per node, emitted as `filter` ops when emit is set).
func runWhere(c *core.Ctx, w *World, q *QueryDef, l *Layout, ctxBase int) (runOut, []int, []string, error) {
	var union []int
	var kinds []string
	l2Inspect = func(cl *Cluster, ll *Layout) {
		for i, leaf := range ll.Leaves {
			opLine, out, matched := directFilter(c, cl, i, w, q, leaf)
			c.Op(opLine, out)
			union = append(union, matched...)
			kinds = append(kinds, strings.Fields(out)[0])
		}
	}
	defer func() { l2Inspect = nil }()
	out, err := runLayoutL2(c, w, q, l, ctxBase)
	sort.Ints(union)
	return out, union, kinds, err
}

func whereCase(c *core.Ctx, rng *rand.Rand) {
	nSlots := 3 + rng.Intn(4)
	w := genWorld(rng, simpleTypes, nSlots)
	// every series is written (has a point of the first field in the queried range): its tag values
	// are in the dictionary of the node it lives on, and it shows in the answer when it matches
	has := map[int]bool{}
	for _, p := range w.Points {
		if p.Field == 0 && p.Slot < nSlots {
			has[p.Series] = true
		}
	}
	for si := range w.Series {
		if !has[si] {
			w.Points = append(w.Points, Point{Series: si, Field: 0, Slot: rng.Intn(nSlots), Val: int64(1 + rng.Intn(200))})
		}
	}
	q := whereQuery(rng, w, nSlots)
	var l *Layout
	for try := 0; try < 6; try++ {
		l = genLayout(rng, w, q, false)
		withData := 0
		for _, leaf := range l.Leaves {
			for _, sh := range leaf.Shards {
				if len(sh) > 0 {
					withData++
					break
				}
			}
		}
		if withData >= 2 || len(w.Series) < 2 {
			break
		}
	}
	for _, leaf := range l.Leaves {
		leaf.NoMetric = false
		if len(writtenFields(w, leaf)) == 0 && rng.Intn(2) == 0 {
			leaf.NoMetric = true
		}
	}
	ref, refUnion, _, err := runWhere(c, w, q, reference(w), 0)
	if err != nil {
		panic(err)
	}
	got, gotUnion, kinds, err := runWhere(c, w, q, l, 10)
	if err != nil {
		panic(err)
	}
	c.Branch("where")
	shape := map[string]bool{}
	q.Cond.shape(shape)
	for k := range shape {
		c.Branch("where-" + k)
	}
	for _, k := range kinds {
		c.Branch("where-node-" + k)
	}
	c.Branch(fmt.Sprintf("where-leaves=%d", len(l.Leaves)))
	if len(refUnion) > 0 && len(refUnion) < len(w.Series) {
		c.Branch("where-selective")
		c.NonTrivial()
	}
	desc := fmt.Sprintf("where %s over series %v", q.Cond.String(), seriesTags(w))
	if fmt.Sprint(refUnion) != fmt.Sprint(gotUnion) {
		c.Fail("where-filter-depends-on-placement", fmt.Sprintf("%s: the single node's tag value lookup + series filtering match series %v, the nodes of layout {%s} together match %v (node answers %v)",
			desc, refUnion, describeLayout(l), gotUnion, kinds))
	}
	if ref.res.Err == "" && len(ref.res.Groups) > 0 && got.res.Err != "" {
		c.Fail("layout-turns-answer-into-error", fmt.Sprintf("[where, real storage nodes] %s: single node answers %q, layout {%s} answers error %s (node answers %v)",
			desc, clip(ref.res.answerLine()), describeLayout(l), got.res.Err, kinds))
		return
	}
	if ref.res.Err != got.res.Err || ref.res.answerLine() != got.res.answerLine() {
		c.Fail("layout-changes-answer", fmt.Sprintf("[where, real storage nodes] %s: single node %q (%s) / layout {%s}: %q (%s) (node answers %v)",
			desc, clip(ref.res.answerLine()), ref.res.Err, describeLayout(l), clip(got.res.answerLine()), got.res.Err, kinds))
	}
}

func seriesTags(w *World) []string {
	var out []string
	for _, s := range w.Series {
		out = append(out, strings.Join(s.Tags, ","))
	}
	return out
}

// fixed case: `host = 'web' or host = 'db'`, `not host = 'web'`, `host in ('db','nobody')`, over
// web (node A), db (node A), db2 (node B): node B never saw the value web.
func fixedWhereDisjointValues(c *core.Ctx) {
	w := &World{TagKeys: []string{"host", "dc"}, Fields: []FieldDef{{Name: "f1", Type: field.SumField}}}
	for _, t := range [][]string{{"web", "d1"}, {"db", "d1"}, {"db", "d2"}} {
		w.Series = append(w.Series, SeriesDef{Tags: t, Hash: seriesHash(w.TagKeys, t)})
	}
	w.Points = []Point{{0, 0, 0, 8}, {0, 0, 1, 16}, {1, 0, 1, 80}, {1, 0, 2, 160}, {2, 0, 2, 800}, {2, 0, 3, 2400}}
	eq := func(v string) *CondDef { return &CondDef{Op: "eq", Key: "host", Vals: []string{v}} }
	conds := []*CondDef{
		{Op: "or", L: eq("web"), R: eq("db")},
		{Op: "not", L: eq("web")},
		{Op: "in", Key: "host", Vals: []string{"db", "nobody"}},
		{Op: "and", L: eq("db"), R: &CondDef{Op: "not", L: &CondDef{Op: "par", L: eq("nobody")}}},
	}
	layouts := []*Layout{
		{Leaves: []*LeafDef{{Name: "leafA", Shards: [][]int{{0, 1}, {2}}, KnownFields: []int{0}}}, LeafPerm: [][]int{{0}}, RootPerm: []int{0}},
		{Leaves: []*LeafDef{{Name: "leafA", Shards: [][]int{{0, 1}}, KnownFields: []int{0}}, {Name: "leafB", Shards: [][]int{{2}}, KnownFields: []int{0}}}, LeafPerm: [][]int{{1, 0}}, RootPerm: []int{0}},
	}
	for ci, cd := range conds {
		q := &QueryDef{Selects: []SelectDef{{"f1", function.Unknown}}, GroupBy: []int{0}, NumSlots: 4, Limit: 100, ftypes: ftypesOf(w), Cond: cd}
		ref, refUnion, _, err := runWhere(c, w, q, reference(w), 100*ci)
		if err != nil {
			panic(err)
		}
		for li, l := range layouts {
			got, gotUnion, kinds, err := runWhere(c, w, q, l, 100*ci+10*(li+1))
			if err != nil {
				panic(err)
			}
			if fmt.Sprint(refUnion) != fmt.Sprint(gotUnion) {
				c.Fail("where-filter-depends-on-placement", fmt.Sprintf("where %s: one node matches series %v, layout {%s} matches %v (node answers %v)", cd.String(), refUnion, describeLayout(l), gotUnion, kinds))
			}
			if ref.res.Err != got.res.Err || ref.res.answerLine() != got.res.answerLine() {
				c.Fail("layout-changes-answer", fmt.Sprintf("[where, real storage nodes] where %s: single node %q (%s) / layout {%s}: %q (%s) (node answers %v)",
					cd.String(), ref.res.answerLine(), ref.res.Err, describeLayout(l), got.res.answerLine(), got.res.Err, kinds))
			}
		}
	}
	c.NonTrivial()
}

// ---------------------------------------------------------------- finding (g): NOT over a composite

// writeTagged writes one point of field f1 for a series that carries only the given tags (no
// Declare: the node creates metric, tag keys and field as the rows arrive).
func (cl *Cluster) writeTagged(tags [][2]string, slot int, val float64) error {
	sh, ok := cl.dbs[0].GetShard(models.ShardID(1))
	if !ok {
		return fmt.Errorf("no shard 1")
	}
	fam, err := sh.GetOrCrateDataFamily(familyStart)
	if err != nil {
		return err
	}
	m := &protoMetricsV1.Metric{Name: metricName, Namespace: namespace, Timestamp: familyStart + int64(slot)*intervalMs}
	for _, kv := range tags {
		m.Tags = append(m.Tags, &protoMetricsV1.KeyValue{Key: kv[0], Value: kv[1]})
	}
	m.SimpleFields = append(m.SimpleFields, &protoMetricsV1.SimpleField{Name: "f1", Value: val, Type: protoMetricsV1.SimpleFieldType_DELTA_SUM})
	ml := protoMetricsV1.MetricList{Metrics: []*protoMetricsV1.Metric{m}}
	var buf bytes.Buffer
	conv := metric.NewProtoConverter(models.NewDefaultLimits())
	if _, err := conv.MarshalProtoMetricListV1To(ml, &buf); err != nil {
		return err
	}
	var br metric.StorageBatchRows
	br.UnmarshalRows(buf.Bytes())
	return fam.WriteRows(br.Rows())
}

// (g) `not (host='zz' or host='yy')` over series a {host=a} and b {dc=x, host=b} (nobody is zz or
// yy: both series satisfy the condition). seriesFiltering evaluates NOT as "series of the operand's
// tag key minus the operand's matches", and a composite operand hands up tag key id 0 — the node's
// FIRST-EVER tag key (ids come from a node-wide sequence starting at 0). Rows arriving a, b: host is
// key 0, both series match. Rows arriving b, a: dc is key 0, only b matches — series a is gone. The
// same written data, one node, one shard: the answer depends on which row reached the node first
// (and so on every placement that changes it). `not host='zz'` (atomic operand) is right both times.
func witnessNotComposite(c *core.Ctx) {
	a := [][2]string{{"host", "a"}}
	b := [][2]string{{"dc", "x"}, {"host", "b"}}
	eq := func(v string) *CondDef { return &CondDef{Op: "eq", Key: "host", Vals: []string{v}} }
	composite := &CondDef{Op: "not", L: &CondDef{Op: "par", L: &CondDef{Op: "or", L: eq("zz"), R: eq("yy")}}}
	atomic := &CondDef{Op: "not", L: eq("zz")}
	w := &World{TagKeys: []string{"host"}, Fields: []FieldDef{{Name: "f1", Type: field.SumField}}}
	type obs struct{ keys, matched, answer string }
	run := func(order [][][2]string, cd *CondDef, ctxBase int) obs {
		cl, err := NewCluster([]int{1})
		if err != nil {
			panic(err)
		}
		defer cl.Close()
		for _, s := range order {
			// the point of a series does not depend on the arrival order: a -> slot 0, b -> slot 1
			slot := len(s) - 1
			if err := cl.writeTagged(s, slot, float64(slot+1)); err != nil {
				panic(err)
			}
		}
		q := &QueryDef{Selects: []SelectDef{{"f1", function.Unknown}}, GroupBy: []int{0}, NumSlots: 4, Limit: 100, ftypes: ftypesOf(w), Cond: cd}
		st, err := wireCopy(q.statement(w))
		if err != nil {
			panic(err)
		}
		db := cl.dbs[0]
		taskCtx := flow.NewTaskContextWithTimeout(context.Background(), leafTimeout)
		req := &protoCommonV1.TaskRequest{RequestID: "direct", RequestType: protoCommonV1.RequestType_Data}
		lctx := querycontext.NewLeafExecuteContext(taskCtx, tracker.NewStageTracker(taskCtx), st, req, cl.fct,
			&models.Target{Indicator: cl.node.Indicator(), ShardIDs: []models.ShardID{1}}, []string{"root"}, db)
		sctx := lctx.StorageExecuteCtx
		if err := operator.NewMetadataLookup(sctx, db).Execute(); err != nil {
			panic(err)
		}
		// the node's tag keys by id = the model's numbering
		byID := map[int]string{}
		for _, k := range sctx.Schema.TagKeys {
			byID[int(k.ID)] = k.Key
		}
		var tk []string
		for id := 0; id < len(byID); id++ {
			tk = append(tk, byID[id])
		}
		if err := operator.NewTagValuesLookup(sctx, db).Execute(); err != nil {
			panic(err)
		}
		shard, _ := db.GetShard(1)
		shardCtx := flow.NewShardExecuteContext(sctx)
		if err := operator.NewSeriesFiltering(shardCtx, shard).Execute(); err != nil {
			panic(err)
		}
		got := shardCtx.SeriesIDsAfterFiltering
		hostMeta, _ := sctx.Schema.TagKeys.Find("host")
		var matched, ser []string
		for si, s := range [][][2]string{a, b} {
			host := s[len(s)-1][1]
			vids, _ := db.MetaDB().FindTagValueDsByExpr(hostMeta.ID, &stmt.EqualsExpr{Key: "host", Value: host})
			sid, _ := shard.IndexDB().GetSeriesIDsByTagValueIDs(hostMeta.ID, vids)
			if sid != nil && sid.GetCardinality() == 1 && got.Contains(sid.ToArray()[0]) {
				matched = append(matched, fmt.Sprint(si))
			}
			vals := []string{fmt.Sprint(si)}
			for _, k := range tk {
				v := "~"
				for _, kv := range s {
					if kv[0] == k {
						v = kv[1]
					}
				}
				vals = append(vals, v)
			}
			ser = append(ser, strings.Join(vals, "/"))
		}
		c.Op(fmt.Sprintf("filter %s tk=%s keys=%s sh=%s", strings.Join(cd.rpn(), "/"), strings.Join(tk, ","), strings.Join(tk, ","), strings.Join(ser, ";")),
			"ids "+joinOrDashWith(matched, ","))
		// the same query through the node's real leaf task processor and a real root
		rs, err := cl.Query(0, 1, w, q, []string{"root"})
		if err != nil {
			panic(err)
		}
		root, err := NewRoot(w, q, []string{"n0"})
		if err != nil {
			panic(err)
		}
		root.Ctx.HandleResponse(rs[0], "n0")
		res := root.Finish()
		_ = ctxBase
		return obs{keys: strings.Join(tk, ","), matched: joinOrDashWith(matched, ","), answer: res.answerLine() + " " + res.Err}
	}
	ab := run([][][2]string{a, b}, composite, 0)
	ba := run([][][2]string{b, a}, composite, 10)
	ab1 := run([][][2]string{a, b}, atomic, 20)
	ba1 := run([][][2]string{b, a}, atomic, 30)
	c.NonTrivial()
	c.Branch("level2")
	if ab1.matched != ba1.matched || ab1.answer != ba1.answer {
		c.Fail("not-over-atom-depends-on-arrival-order", fmt.Sprintf("not host='zz': rows a,b -> series %s %q; rows b,a -> series %s %q", ab1.matched, ab1.answer, ba1.matched, ba1.answer))
	}
	if ab.matched != ba.matched || ab.answer != ba.answer {
		c.Fail("not-over-composite-depends-on-tag-key-arrival-order",
			fmt.Sprintf("not (host='zz' or host='yy') over series a{host=a}, b{dc=x,host=b} on ONE node: rows arriving a,b (tag key ids %s from 0) match series %s, answer %q; rows arriving b,a (tag key ids %s) match series %s, answer %q",
				ab.keys, ab.matched, ab.answer, ba.keys, ba.matched, ba.answer))
	}
}
