package c12

// Round 12: shardScanStage.NextStages on the REAL stage, for generated filtered bitmaps with any
// high keys (0..6, gaps, not starting at 0) — the region a shard with hundreds of thousands of series
// reaches — without writing that many series: the stage is built over a ShardExecuteContext whose
// SeriesIDsAfterFiltering is set directly. Each forked grouping stage's DataLoadContext is read
// through the hook query/stage/zz_verif_c12.go (VerifDataLoadContext, read-only).
//
// op `next-stages <hk>:<low>,<low>.. ..` -> `stages <hk>:<low>,.. ..` diffed against
// LinVerif.LeafGlue.nextStages; impl-side oracle: the series ids the stages look up
// (SeriesIDHighKey * 65536 + low) are exactly the members of the filtered bitmap.

import (
	"context"
	"fmt"
	"math/rand"
	"sort"
	"strings"

	"github.com/lindb/roaring"

	"github.com/lindb/lindb/flow"
	"github.com/lindb/lindb/models"
	protoCommonV1 "github.com/lindb/lindb/proto/gen/v1/common"
	querycontext "github.com/lindb/lindb/query/context"
	"github.com/lindb/lindb/query/stage"
	"github.com/lindb/lindb/query/tracker"
	"github.com/lindb/lindb/tsdb"

	"github.com/lindb/lindb/zzverif/internal/core"
)

// ExecutorPool: the stages only store the pools (NextStages never runs them).
func (d *stubDB) ExecutorPool() *tsdb.ExecutorPool { return &tsdb.ExecutorPool{} }

func nextStagesOf(w *World, q *QueryDef, ids []uint32) (string, []uint32, error) {
	st, err := wireCopy(q.statement(w))
	if err != nil {
		return "", nil, err
	}
	db := &stubDB{meta: &metaDB{}}
	taskCtx := flow.NewTaskContextWithTimeout(context.Background(), leafTimeout)
	req := &protoCommonV1.TaskRequest{RequestID: "r1", RequestType: protoCommonV1.RequestType_Data}
	lctx := querycontext.NewLeafExecuteContext(taskCtx, tracker.NewStageTracker(taskCtx), st, req,
		&capFactory{streams: map[string]*capStream{}}, &models.Target{Indicator: "leaf"}, []string{"root"}, db)
	shardCtx := flow.NewShardExecuteContext(lctx.StorageExecuteCtx)
	shardCtx.SeriesIDsAfterFiltering = roaring.BitmapOf(ids...)
	scan := stage.NewShardScanStage(lctx, shardCtx, nil)
	var parts []string
	var looked []uint32
	for _, s := range scan.NextStages() {
		dl, ok := stage.VerifDataLoadContext(s)
		if !ok {
			return "", nil, fmt.Errorf("NextStages returned a %T", s)
		}
		var lows []string
		if dl.LowSeriesIDsContainer != nil {
			for _, low := range dl.LowSeriesIDsContainer.ToArray() {
				lows = append(lows, fmt.Sprint(low))
				looked = append(looked, uint32(dl.SeriesIDHighKey)<<16|uint32(low))
			}
		}
		parts = append(parts, fmt.Sprintf("%d:%s", dl.SeriesIDHighKey, joinOrDashWith(lows, ",")))
	}
	return "stages " + joinOrDashWith(parts, " "), looked, nil
}

func nextStagesCase(c *core.Ctx, rng *rand.Rand) {
	w := taggedWorld
	for rep := 0; rep < 6; rep++ {
		g := []int{}
		if rng.Intn(2) == 0 {
			g = []int{0}
		}
		q := taggedQuery(w, g, nil)
		// 0-4 containers out of high keys 0..6
		nc := rng.Intn(5)
		hks := rng.Perm(7)[:nc]
		sort.Ints(hks)
		if rep == 0 {
			hks = []int{1 + rng.Intn(3)} // the one-container-not-at-0 shape, every case
		}
		var ids []uint32
		toks := []string{"next-stages"}
		for _, hk := range hks {
			n := 1 + rng.Intn(4)
			seen := map[int]bool{}
			var lows []int
			for len(lows) < n {
				low := rng.Intn(8)
				if rng.Intn(3) == 0 {
					low = 65535 - rng.Intn(3)
				}
				if !seen[low] {
					seen[low] = true
					lows = append(lows, low)
				}
			}
			sort.Ints(lows)
			var ls []string
			for _, low := range lows {
				ids = append(ids, uint32(hk)<<16|uint32(low))
				ls = append(ls, fmt.Sprint(low))
			}
			toks = append(toks, fmt.Sprintf("%d:%s", hk, strings.Join(ls, ",")))
		}
		out, looked, err := nextStagesOf(w, q, ids)
		if err != nil {
			panic(err)
		}
		c.Op(strings.Join(toks, " "), out)
		c.Branch(fmt.Sprintf("next-stages-%d-containers", len(hks)))
		if len(hks) > 0 {
			c.NonTrivial()
			if hks[0] != 0 {
				c.Branch("next-stages-first-container-not-0")
			}
		}
		if fmt.Sprint(looked) != fmt.Sprint(ids) {
			c.Fail("stage-looks-up-wrong-series-ids", fmt.Sprintf("filtered series ids %v (roaring containers %s): the stages forked by shardScanStage.NextStages look up series ids %v (%s)",
				ids, strings.Join(toks[1:], " "), looked, out))
		}
	}
}
