package c12

import (
	"bytes"
	"context"
	"fmt"
	"os"
	"sort"
	"strings"
	"time"

	"github.com/lindb/common/pkg/encoding"
	protoMetricsV1 "github.com/lindb/common/proto/gen/v1/linmetrics"
	"google.golang.org/grpc"

	"github.com/lindb/lindb/config"
	"github.com/lindb/lindb/flow"
	"github.com/lindb/lindb/models"
	"github.com/lindb/lindb/pkg/option"
	"github.com/lindb/lindb/pkg/timeutil"
	protoCommonV1 "github.com/lindb/lindb/proto/gen/v1/common"
	"github.com/lindb/lindb/query"
	"github.com/lindb/lindb/rpc"
	"github.com/lindb/lindb/series/field"
	"github.com/lindb/lindb/series/metric"
	"github.com/lindb/lindb/tsdb"

	"github.com/lindb/lindb/zzverif/internal/core"
)

// Level 2: the leaves are real storage nodes. Every node of a layout is one database of a real
// tsdb engine in a temp dir (its own metadata database = node-local schema and tag dictionaries,
// its own index, its own shards and memory databases); rows go through the real ingestion
// conversion (protobuf metric -> flat row -> StorageRow) into dataFamily.WriteRows; queries go
// through the real leaf task processor (query.NewLeafTaskProcessor: metadata lookup, tag
// filtering, grouping, data load, down-sampling, leaf reduce, BuildResultSet, SendResponse) to
// capturing server streams; the responses are fed to the real intermediate / root contexts as in
// level 1. What is not real: the transport (responses are handed over in-process) and the fact
// that the "nodes" are databases of ONE engine with one node indicator (the plan sent to node i
// names database db<i>).

type chanStream struct {
	grpc.ServerStream
	ch chan *protoCommonV1.TaskResponse
}

func (s *chanStream) Send(r *protoCommonV1.TaskResponse) error { s.ch <- r; return nil }
func (s *chanStream) Recv() (*protoCommonV1.TaskRequest, error) {
	return nil, fmt.Errorf("chanStream: no requests")
}
func (s *chanStream) Context() context.Context { return context.Background() }

// Cluster is a set of in-process storage nodes.
type Cluster struct {
	dir     string
	engine  tsdb.Engine
	fct     rpc.TaskServerFactory
	streams map[string]*chanStream
	proc    query.TaskProcessor
	node    *models.StatelessNode
	dbs     []tsdb.Database
	seq     int
}

func dbNameOf(i int) string { return fmt.Sprintf("db%d", i) }

// NewCluster creates the engine and, for node i, database db<i> with shards 1..shards[i]
// (a node with 0 shards still gets shard 1: it exists but never saw the metric).
func NewCluster(shards []int) (*Cluster, error) {
	dir, err := os.MkdirTemp("", "lvh-c12-*")
	if err != nil {
		return nil, err
	}
	cl := &Cluster{dir: dir, streams: map[string]*chanStream{}}
	cfg := config.NewDefaultStorageBase()
	cfg.TSDB.Dir = dir
	config.SetGlobalStorageConfig(cfg)
	cl.node = &models.StatelessNode{HostIP: "1.1.1.1", GRPCPort: 9000}
	cl.fct = rpc.NewTaskServerFactory()
	engine, err := tsdb.NewEngine()
	if err != nil {
		cl.Close()
		return nil, err
	}
	cl.engine = engine
	opt := &option.DatabaseOption{
		Intervals:    option.Intervals{{Interval: timeutil.Interval(intervalMs), Retention: timeutil.Interval(200 * 365 * 24 * 3600000)}},
		AutoCreateNS: true,
	}
	for i, n := range shards {
		if n < 1 {
			n = 1
		}
		var ids []models.ShardID
		for s := 1; s <= n; s++ {
			ids = append(ids, models.ShardID(s))
		}
		if err := engine.CreateShards(dbNameOf(i), opt, ids...); err != nil {
			cl.Close()
			return nil, err
		}
		db, ok := engine.GetDatabase(dbNameOf(i))
		if !ok {
			cl.Close()
			return nil, fmt.Errorf("database %s missing", dbNameOf(i))
		}
		cl.dbs = append(cl.dbs, db)
	}
	cl.proc = query.NewLeafTaskProcessor(cl.node, engine, cl.fct)
	return cl, nil
}

// Close stops the engine and the databases' query pools and removes the directory.
func (cl *Cluster) Close() {
	if cl.engine != nil {
		var pools []*tsdb.ExecutorPool
		for _, db := range cl.dbs {
			pools = append(pools, db.ExecutorPool())
		}
		cl.engine.Close()
		cl.engine = nil
		for _, p := range pools {
			p.Filtering.Stop()
			p.Grouping.Stop()
			p.Scanner.Stop()
		}
	}
	_ = os.RemoveAll(cl.dir)
}

var protoType = map[field.Type]protoMetricsV1.SimpleFieldType{
	field.SumField:   protoMetricsV1.SimpleFieldType_DELTA_SUM,
	field.MinField:   protoMetricsV1.SimpleFieldType_Min,
	field.MaxField:   protoMetricsV1.SimpleFieldType_Max,
	field.LastField:  protoMetricsV1.SimpleFieldType_LAST,
	field.FirstField: protoMetricsV1.SimpleFieldType_FIRST,
}

// Declare registers on node i the metric, its tag keys and the given fields through the real
// metadata database, from this one goroutine (what the first written rows do; done up front so
// that the metadata and index workers only look ids up — their concurrent first-time creation is
// property C09's subject).
func (cl *Cluster) Declare(i int, w *World, fields []int) error {
	mdb := cl.dbs[i].MetaDB()
	mid, err := mdb.GenMetricID([]byte(namespace), []byte(metricName))
	if err != nil {
		return err
	}
	for _, k := range w.TagKeys {
		if _, err := mdb.GenTagKeyID(mid, []byte(k)); err != nil {
			return err
		}
	}
	for _, fi := range fields {
		f := w.Fields[fi]
		if _, err := mdb.GenFieldID(mid, field.Meta{Name: field.Name(f.Name), Type: f.Type}); err != nil {
			return err
		}
	}
	return nil
}

// Write sends one point through the real ingestion conversion into shard `shard` of node i.
func (cl *Cluster) Write(i int, shard int, w *World, p Point) error {
	sh, ok := cl.dbs[i].GetShard(models.ShardID(shard))
	if !ok {
		return fmt.Errorf("node %d has no shard %d", i, shard)
	}
	fam, err := sh.GetOrCrateDataFamily(familyStart)
	if err != nil {
		return err
	}
	m := &protoMetricsV1.Metric{Name: metricName, Namespace: namespace, Timestamp: familyStart + int64(p.Slot)*intervalMs}
	for k, key := range w.TagKeys {
		m.Tags = append(m.Tags, &protoMetricsV1.KeyValue{Key: key, Value: w.Series[p.Series].Tags[k]})
	}
	f := w.Fields[p.Field]
	m.SimpleFields = append(m.SimpleFields, &protoMetricsV1.SimpleField{Name: f.Name, Value: pointValue(p), Type: protoType[f.Type]})
	ml := protoMetricsV1.MetricList{Metrics: []*protoMetricsV1.Metric{m}}
	var buf bytes.Buffer
	conv := metric.NewProtoConverter(models.NewDefaultLimits())
	if _, err := conv.MarshalProtoMetricListV1To(ml, &buf); err != nil {
		return err
	}
	var br metric.StorageBatchRows
	br.UnmarshalRows(buf.Bytes())
	return fam.WriteRows(br.Rows())
}

// Query runs the statement on node i (shards 1..nShards) with the real leaf task processor and
// returns what it sent to each receiver.
func (cl *Cluster) Query(i int, nShards int, w *World, q *QueryDef, receivers []string) ([]*protoCommonV1.TaskResponse, error) {
	st := q.statement(w)
	payload, err := st.MarshalJSON()
	if err != nil {
		return nil, err
	}
	for _, r := range receivers {
		if cl.streams[r] == nil {
			cl.streams[r] = &chanStream{ch: make(chan *protoCommonV1.TaskResponse, 8)}
			cl.fct.Register(r, cl.streams[r])
		}
	}
	var ids []models.ShardID
	for s := 1; s <= nShards; s++ {
		ids = append(ids, models.ShardID(s))
	}
	plan := models.PhysicalPlan{Database: dbNameOf(i),
		Targets:   []*models.Target{{Indicator: cl.node.Indicator(), ShardIDs: ids}},
		Receivers: receivers}
	cl.seq++
	req := &protoCommonV1.TaskRequest{RequestID: fmt.Sprintf("q%d", cl.seq), RequestType: protoCommonV1.RequestType_Data,
		PhysicalPlan: encoding.JSONMarshal(plan), Payload: payload}
	tctx := flow.NewTaskContextWithTimeout(context.Background(), 2*leafTimeout)
	out := make([]*protoCommonV1.TaskResponse, len(receivers))
	t0 := time.Now()
	defer func() {
		noteLeafWait(fmt.Sprintf("%d", i), time.Since(t0), 2*leafTimeout, "level 2 (real storage node, real leaf task processor)")
	}()
	if err := cl.proc.Process(tctx, cl.streams[receivers[0]], req); err != nil {
		// TaskHandler.process answers the requester with the error
		for k := range out {
			out[k] = &protoCommonV1.TaskResponse{RequestID: req.RequestID, Completed: true, ErrMsg: err.Error()}
		}
		return out, nil
	}
	for k, r := range receivers {
		select {
		case out[k] = <-cl.streams[r].ch:
		case <-time.After(2*leafTimeout + 2*time.Second):
			return nil, fmt.Errorf("leaf %d: no response for receiver %s", i, r)
		}
	}
	return out, nil
}

// l2Leaves builds the cluster for a layout, declares the node-local schemas, writes the points
// and queries every node. Returns per leaf the responses per receiver.
func l2Leaves(w *World, q *QueryDef, l *Layout, recv []string) ([][]*protoCommonV1.TaskResponse, error) {
	shards := make([]int, len(l.Leaves))
	for i, leaf := range l.Leaves {
		shards[i] = len(leaf.Shards)
	}
	cl, err := NewCluster(shards)
	if err != nil {
		return nil, err
	}
	defer cl.Close()
	for i, leaf := range l.Leaves {
		if leaf.NoMetric {
			continue
		}
		if err := cl.Declare(i, w, leaf.KnownFields); err != nil {
			return nil, err
		}
		known := map[int]bool{}
		for _, f := range leaf.KnownFields {
			known[f] = true
		}
		// rows are written in timestamp order: out-of-order writes inside the memory database's
		// window lose points (property C11's finding), which is not this property's subject
		pts := append([]Point(nil), w.Points...)
		sort.SliceStable(pts, func(a, b int) bool { return pts[a].Slot < pts[b].Slot })
		for si, shard := range leaf.Shards {
			for _, s := range shard {
				for _, p := range pts {
					if p.Series != s || !known[p.Field] {
						continue
					}
					if err := cl.Write(i, si+1, w, p); err != nil {
						return nil, err
					}
				}
			}
		}
	}
	if l2Inspect != nil {
		l2Inspect(cl, l)
	}
	out := make([][]*protoCommonV1.TaskResponse, len(l.Leaves))
	for i, leaf := range l.Leaves {
		n := len(leaf.Shards)
		if n < 1 {
			n = 1
		}
		rs, err := cl.Query(i, n, w, q, recv)
		if err != nil {
			return nil, err
		}
		out[i] = rs
	}
	return out, nil
}

// runLayoutL2 is runLayout with real storage leaves (no `plan` / `leaf` ops: the leaf is a black
// box here; its responses, the intermediates and the root are mirrored as in level 1).
func runLayoutL2(c *core.Ctx, w *World, q *QueryDef, l *Layout, ctxBase int) (runOut, error) {
	return runLayoutL2e(c, w, q, l, ctxBase, true)
}

func runLayoutL2e(c *core.Ctx, w *World, q *QueryDef, l *Layout, ctxBase int, emit bool) (runOut, error) {
	op := func(o, out string) {
		if emit {
			c.Op(o, out)
		}
	}
	recvNames := []string{"root"}
	if l.Receivers > 0 {
		recvNames = nil
		for j := 0; j < l.Receivers; j++ {
			recvNames = append(recvNames, fmt.Sprintf("im%d", j))
		}
	}
	leafResp, err := l2Leaves(w, q, l, recvNames)
	if err != nil {
		return runOut{}, err
	}
	var leafNames []string
	for _, leaf := range l.Leaves {
		leafNames = append(leafNames, leaf.Name)
	}
	var rootInputs []*protoCommonV1.TaskResponse
	var rootFrom []string
	if l.Receivers == 0 {
		for li := range l.Leaves {
			rootInputs = append(rootInputs, leafResp[li][0])
			rootFrom = append(rootFrom, leafNames[li])
		}
	} else {
		for j := 0; j < l.Receivers; j++ {
			ic, err := NewIntermediate(w, q, recvNames[j], leafNames, recvNames)
			if err != nil {
				return runOut{}, err
			}
			id := ctxBase + 1 + j
			op(fmt.Sprintf("new %d %d", id, len(l.Leaves)), stateLine(&ic.Ctx.MetricContext))
			for _, li := range l.LeafPerm[j] {
				r := leafResp[li][j]
				ic.Ctx.HandleResponse(r, leafNames[li])
				op(fmt.Sprintf("resp %d %s", id, encodeResp(r)), stateLine(&ic.Ctx.MetricContext))
			}
			out := ic.Finish()
			if out == nil {
				return runOut{}, fmt.Errorf("intermediate did not complete")
			}
			el := "er"
			if out.ErrMsg == "" {
				pl := &protoCommonV1.TimeSeriesList{}
				if err := pl.Unmarshal(out.Payload); err == nil {
					el = "ok " + encodeList(pl, true)
				}
			} else if strings.Contains(out.ErrMsg, "not found") {
				el = "nf"
			}
			op(fmt.Sprintf("emit %d", id), el)
			rootInputs = append(rootInputs, out)
			rootFrom = append(rootFrom, recvNames[j])
		}
	}
	mk := func(lim int) (*Root, error) {
		qq := *q
		qq.Limit = lim
		return NewRoot(w, &qq, rootFrom)
	}
	root, err := mk(q.Limit)
	if err != nil {
		return runOut{}, err
	}
	op(fmt.Sprintf("new %d %d", ctxBase, len(rootInputs)), stateLine(&root.Ctx.MetricContext))
	perm := l.RootPerm
	if l.Receivers == 0 {
		perm = l.LeafPerm[0]
	}
	for _, k := range perm {
		root.Ctx.HandleResponse(rootInputs[k], rootFrom[k])
		op(fmt.Sprintf("resp %d %s", ctxBase, encodeResp(rootInputs[k])), stateLine(&root.Ctx.MetricContext))
	}
	res := root.Finish()
	var full *Result
	if q.Limit >= 100 {
		fullRoot, err := mk(1 << 20)
		if err != nil {
			return runOut{}, err
		}
		for _, k := range perm {
			fullRoot.Ctx.HandleResponse(rootInputs[k], rootFrom[k])
		}
		full = fullRoot.Finish()
	} else {
		// the whole path again (real storage leaves included) with the limit lifted
		qq := *q
		qq.Limit = 1 << 20
		fr, err := runLayoutL2e(c, w, &qq, l, ctxBase, false)
		if err != nil {
			return runOut{}, err
		}
		full = fr.res
	}
	op(q.resultOp(ctxBase), res.line(q, full))
	checkTopN(c, q, res, full)
	return runOut{res: res, full: full}, nil
}
