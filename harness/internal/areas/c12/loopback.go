package c12

import (
	"context"
	"fmt"
	"math/rand"
	"sort"
	"strings"
	"sync"
	"time"

	commonmodels "github.com/lindb/common/models"

	"github.com/lindb/lindb/aggregation/function"
	"github.com/lindb/lindb/flow"
	"github.com/lindb/lindb/internal/concurrent"
	"github.com/lindb/lindb/internal/linmetric"
	"github.com/lindb/lindb/metrics"
	"github.com/lindb/lindb/models"
	protoCommonV1 "github.com/lindb/lindb/proto/gen/v1/common"
	"github.com/lindb/lindb/query"
	querycontext "github.com/lindb/lindb/query/context"
	"github.com/lindb/lindb/rpc"
	"github.com/lindb/lindb/series/field"

	"github.com/lindb/lindb/zzverif/internal/core"
)

// Loopback stream: the real query.MetricDataSearch (request manager, pipeline, physical plan
// stage, task send stages, RootMetricContext, WaitResponse) over a transport that answers a
// request either INSIDE SendRequest (the response is handled before the next request is sent) or
// after all requests went out, in a generated order. The interleavings send/response of a fast
// node are thereby part of the delivery schedules. No model ops (which target is sent first is
// the iteration order of a Go map); the impl-side oracle demands the reference answer.

type lbTaskMgr struct {
	mu    sync.Mutex
	ctx   querycontext.TaskContext
	reqID string
}

func (m *lbTaskMgr) AddTask(id string, c querycontext.TaskContext) {
	m.mu.Lock()
	m.ctx, m.reqID = c, id
	m.mu.Unlock()
}
func (m *lbTaskMgr) RemoveTask(string) {}
func (m *lbTaskMgr) Receive(resp *protoCommonV1.TaskResponse, from string) error {
	m.mu.Lock()
	c := m.ctx
	m.mu.Unlock()
	if c == nil {
		// as taskManager.Receive: a response for a request id nobody registered is refused
		return fmt.Errorf("request may be evicted")
	}
	c.HandleResponse(resp, from)
	return nil
}

// realTaskMgr is lindb's own task manager (query.NewTaskManager over a real worker pool): responses
// given to its Receive are looked up by request id and handled by pool workers.
var (
	realTaskMgrOnce sync.Once
	realTaskMgrInst query.TaskManager
)

func realTaskMgr() query.TaskManager {
	realTaskMgrOnce.Do(func() {
		pool := concurrent.NewPool("lvh-c12-task-pool", 16, time.Minute,
			metrics.NewConcurrentStatistics("lvh-c12-task-pool", linmetric.BrokerRegistry))
		realTaskMgrInst = query.NewTaskManager(pool, linmetric.BrokerRegistry)
	})
	return realTaskMgrInst
}

type lbTransport struct {
	recv   rpc.TaskReceiver
	reqID  string
	resp   map[string]*protoCommonV1.TaskResponse
	inline map[string]bool // this target's request is answered inside SendRequest
	rng    *rand.Rand
	total  int
	sent   []string
	later  []string
	wg     sync.WaitGroup
}

func (t *lbTransport) answer(target string) *protoCommonV1.TaskResponse {
	r := *t.resp[target]
	r.RequestID = t.reqID
	return &r
}

func (t *lbTransport) SendRequest(target string, req *protoCommonV1.TaskRequest) error {
	t.reqID = req.RequestID
	t.sent = append(t.sent, target)
	if t.inline[target] {
		_ = t.recv.Receive(t.answer(target), target)
	} else {
		t.later = append(t.later, target)
	}
	if len(t.sent) == t.total {
		order := append([]string(nil), t.later...)
		t.rng.Shuffle(len(order), func(i, j int) { order[i], order[j] = order[j], order[i] })
		t.wg.Add(1)
		go func() {
			defer t.wg.Done()
			// "later" = after the search pipeline's completion callback (it removes the pipeline
			// from the pipeline manager right after ctx.Complete)
			for end := time.Now().Add(2 * time.Second); time.Now().Before(end) && query.GetPipelineManager().GetPipeline(t.reqID) != nil; {
				time.Sleep(100 * time.Microsecond)
			}
			for _, tg := range order {
				_ = t.recv.Receive(t.answer(tg), tg)
			}
		}()
	}
	return nil
}

func (t *lbTransport) SendResponse(string, *protoCommonV1.TaskResponse) error { return nil }

// searchLoopback runs the real MetricDataSearch over the given per-target responses.
func searchLoopback(w *World, q *QueryDef, resp map[string]*protoCommonV1.TaskResponse, inline map[string]bool, rng *rand.Rand) *Result {
	return searchLoopbackVia(w, q, resp, inline, rng, false)
}

// searchLoopbackVia: real = true hands the responses to lindb's real task manager (Receive ->
// worker pool -> HandleResponse) instead of handling them on the sender's goroutine.
func searchLoopbackVia(w *World, q *QueryDef, resp map[string]*protoCommonV1.TaskResponse, inline map[string]bool, rng *rand.Rand, real bool) *Result {
	var targets []string
	for t := range resp {
		targets = append(targets, t)
	}
	var mgr query.TaskManager = &lbTaskMgr{}
	if real {
		mgr = realTaskMgr()
	}
	// round 12: on the direct schedules the targets sit in TWO physical plans (sorted, alternating):
	// the real search pipeline then sends one request per plan's targets
	plans := [][]string{targets}
	if !real && len(targets) >= 2 {
		st := append([]string(nil), targets...)
		sort.Strings(st)
		plans = [][]string{nil, nil}
		for i, t := range st {
			plans[i%2] = append(plans[i%2], t)
		}
	}
	tr := &lbTransport{recv: mgr, resp: resp, inline: inline, rng: rng, total: len(targets)}
	ctx, cancel := context.WithTimeout(context.Background(), 3*time.Second)
	defer cancel()
	rs, err := query.MetricDataSearch(ctx, &models.ExecuteParam{Database: database, SQL: "q"}, q.statement(w), &query.SearchMgr{
		Timeout:      2 * time.Second,
		CurNode:      models.StatelessNode{HostIP: "1.1.1.1", GRPCPort: 9000},
		Choose:       &plainChooser{plans: plans},
		TaskMgr:      mgr,
		TransportMgr: tr,
	})
	tr.wg.Wait()
	if err != nil {
		if strings.Contains(err.Error(), "timeout") {
			return &Result{Err: "pending"}
		}
		return &Result{Err: errKind(err.Error())}
	}
	return resultOf(rs.(*commonmodels.ResultSet))
}

// loopbackCase: one world/query/layout (leaves answer the root directly); the reference answer is
// the level-1 direct run; several send/response schedules of the real search must give it.
func loopbackCase(c *core.Ctx, rng *rand.Rand) {
	nSlots := 2 + rng.Intn(5)
	w := genWorld(rng, simpleTypes, nSlots)
	q := genQuery(rng, w, false)
	q.NumSlots = nSlots
	q.OrderBy = nil
	q.Limit = 100
	l := genLayout(rng, w, q, false)
	l.Receivers = 0
	ref := runLayout(c, w, q, l, false, 0)
	resp := map[string]*protoCommonV1.TaskResponse{}
	emptyLeaf := ""
	for _, leaf := range l.Leaves {
		rs, err := RunLeaf(w, q, leaf, []string{"root"})
		if err != nil {
			panic(err)
		}
		resp[leaf.Name] = rs[0]
		if !leaf.NoMetric && len(writtenFields(w, leaf)) == 0 {
			emptyLeaf = leaf.Name
		}
	}
	withErr := rng.Intn(5) == 0
	if withErr {
		resp["failing"] = &protoCommonV1.TaskResponse{RequestID: "r", Completed: true, ErrMsg: "disk broken"}
	}
	c.Branch("loopback")
	var names []string
	for n := range resp {
		names = append(names, n)
	}
	sort.Strings(names)
	for rep := 0; rep < 3; rep++ {
		inline := map[string]bool{}
		for _, n := range names {
			// (a failing node answering in-line is the dedicated witness case)
			inline[n] = n != "failing" && rng.Intn(2) == 0
		}
		real := rep == 2
		got := searchLoopbackVia(w, q, resp, inline, rng, real)
		sched := fmt.Sprintf("answered inside SendRequest: %v, real task manager: %v", inline, real)
		if real && got.Err == "pending" && ref.res.Err == "" && emptyLeaf != "" {
			c.Fail("empty-leaf-turns-answer-into-timeout",
				fmt.Sprintf("leaf %s knows the metric, has no matching series and answers successfully; through taskManager.Receive the query ends with the deadline instead of %q", emptyLeaf, ref.res.answerLine()))
			noteTimeoutCase()
			continue
		}
		if withErr {
			if got.Err != "error" {
				c.Fail("failing-node-not-reported",
					fmt.Sprintf("%s: one node answers with an error after the plan completed, the search returns %q / %s", sched, got.Err, got.rowsLine()))
			}
			continue
		}
		if got.Err == "pending" && ref.res.Err == "" {
			c.Fail("answer-turns-into-timeout", fmt.Sprintf("%s: every target answered, the real search ends with the deadline instead of %q", sched, ref.res.answerLine()))
			noteTimeoutCase() // every such case costs the search's whole deadline: the run stops after max_hangs of them
			break
		}
		if got.Err != ref.res.Err || got.answerLine() != ref.res.answerLine() {
			c.Fail("send-response-interleaving-changes-answer",
				fmt.Sprintf("%s: handled in order %q (%s), real search %q (%s)", sched, ref.res.answerLine(), ref.res.Err, got.answerLine(), got.Err))
		}
	}
	if len(ref.res.Groups) > 0 {
		c.NonTrivial()
	}
}

// (f) a node that fails fast: its error response is handled while the root is still in its plan /
// send stage; the pipeline's completion callback then calls Complete(nil), which overwrites
// ctx.err. The real search returns a successful (empty) answer; the same response handled after
// the callback fails the query. Mirrored on the real context for the model: new, resp er,
// complete ok, result.
func witnessErrorBeforeComplete(c *core.Ctx) {
	w := twoSeriesWorld(field.SumField)
	w.Points = []Point{{0, 0, 1, 5}}
	q := &QueryDef{Selects: []SelectDef{{"f1", function.Unknown}}, NumSlots: 4, Limit: 100, ftypes: ftypesOf(w)}
	failing := &protoCommonV1.TaskResponse{RequestID: "r", Completed: true, ErrMsg: "disk broken"}
	rng := rand.New(rand.NewSource(1))
	early := searchLoopback(w, q, map[string]*protoCommonV1.TaskResponse{"n1": failing}, map[string]bool{"n1": true}, rng)
	late := searchLoopback(w, q, map[string]*protoCommonV1.TaskResponse{"n1": failing}, map[string]bool{"n1": false}, rng)
	// the same steps on a context driven by hand, for the model
	root, err := NewRoot(w, q, []string{"n1"})
	if err != nil {
		panic(err)
	}
	c.Op("new 0 1", stateLine(&root.Ctx.MetricContext))
	root.Ctx.HandleResponse(failing, "n1")
	c.Op("resp 0 er", stateLine(&root.Ctx.MetricContext))
	root.Ctx.Complete(nil)
	c.Op("complete 0 ok", stateLine(&root.Ctx.MetricContext))
	c.Op(q.resultOp(0), root.Finish().line(q, nil))
	c.NonTrivial()
	if late.Err != "error" {
		c.Fail("failing-node-not-reported", fmt.Sprintf("error response after plan completion: search returns %q", late.Err))
	}
	if early.Err != late.Err {
		c.Fail("error-response-before-plan-completion-is-erased",
			fmt.Sprintf("the only node answers 'disk broken': handled before the pipeline's Complete(nil) the search returns %q (%s), handled after it %q",
				early.Err, early.rowsLine(), late.Err))
	}
}

// fixed case: a not-found answer delivered LAST (after data) must stay tolerated.
func fixedNotFoundLast(c *core.Ctx) {
	w := twoSeriesWorld(field.SumField)
	w.Points = []Point{{0, 0, 1, 5}, {1, 0, 1, 7}}
	q := &QueryDef{Selects: []SelectDef{{"f1", function.Unknown}}, NumSlots: 4, Limit: 100, ftypes: ftypesOf(w)}
	leaves := []*LeafDef{
		{Name: "leafA", Shards: [][]int{{0}}, KnownFields: []int{0}},
		{Name: "leafB", Shards: [][]int{{1}}, KnownFields: []int{0}},
		{Name: "leafC", NoMetric: true},
		{Name: "leafD", NoMetric: true},
	}
	ref := runLayout(c, w, q, reference(w), true, 0)
	for k, p := range [][]int{{0, 1, 2, 3}, {2, 0, 3, 1}, {2, 3, 0, 1}, {0, 2, 1, 3}} {
		got := runLayout(c, w, q, &Layout{Leaves: leaves, LeafPerm: [][]int{p}}, true, 10*(k+1))
		if got.res.Err != "" || got.res.answerLine() != ref.res.answerLine() {
			c.Fail("notfound-not-tolerated", fmt.Sprintf("delivery order %v (leaves C, D answer not-found): %q (%s) instead of %q", p, got.res.answerLine(), got.res.Err, ref.res.answerLine()))
		}
	}
	c.NonTrivial()
}

// fixed case: group by host over series of two leaves, more groups than the limit, no order by:
// whichever groups survive, their values must be the full sums (a limit applied below the root
// would give partial ones).
func fixedLimitSpread(c *core.Ctx) {
	w := &World{TagKeys: []string{"host", "dc"}, Fields: []FieldDef{{Name: "f1", Type: field.SumField}}}
	for _, h := range []string{"h0", "h1", "h2", "h3"} {
		for _, d := range []string{"d0", "d1"} {
			w.Series = append(w.Series, SeriesDef{Tags: []string{h, d}, Hash: seriesHash(w.TagKeys, []string{h, d})})
		}
	}
	for si := range w.Series {
		w.Points = append(w.Points, Point{Series: si, Field: 0, Slot: 1, Val: int64(10 + si)})
	}
	q := &QueryDef{Selects: []SelectDef{{"f1", function.Unknown}}, GroupBy: []int{0}, NumSlots: 4, Limit: 2, ftypes: ftypesOf(w)}
	// every host has its d0 series on leaf A and its d1 series on leaf B
	l := &Layout{Leaves: []*LeafDef{
		{Name: "leafA", Shards: [][]int{{0, 2}, {4, 6}}, KnownFields: []int{0}},
		{Name: "leafB", Shards: [][]int{{1, 3, 5, 7}}, KnownFields: []int{0}},
	}, LeafPerm: [][]int{{1, 0}}}
	for k, recv := range []int{0, 2} {
		ll := *l
		ll.Receivers = recv
		if recv > 0 {
			ll.LeafPerm = [][]int{{0, 1}, {1, 0}}
			ll.RootPerm = []int{1, 0}
		}
		got := runLayout(c, w, q, &ll, true, 10*k)
		if len(got.res.Groups) != 2 {
			c.Fail("limit-not-applied", fmt.Sprintf("limit 2 over 4 groups: %d groups", len(got.res.Groups)))
		}
		for t, fm := range got.res.Groups {
			if fmt.Sprint(got.full.Groups[t]) != fmt.Sprint(fm) {
				c.Fail("limited-row-not-in-full-answer", fmt.Sprintf("receivers=%d group %q: %v, unlimited answer has %v", recv, t, fm, got.full.Groups[t]))
			}
		}
	}
	c.NonTrivial()
}

// fixed case: three leaves, one of which knows the metric, has NO matching series and answers
// successfully (empty answer). Its answer must be counted: through lindb's real task manager
// (Receive -> pool -> HandleResponse) the real search gives the answer of the two others, in every
// arrival order — "a node that holds no matching data never turns a non-empty answer into an
// error".
func fixedEmptyLeafCounts(c *core.Ctx) {
	w := twoSeriesWorld(field.SumField)
	w.Points = []Point{{0, 0, 1, 5}, {1, 0, 1, 7}}
	q := &QueryDef{Selects: []SelectDef{{"f1", function.Unknown}}, NumSlots: 4, Limit: 100, ftypes: ftypesOf(w)}
	leaves := []*LeafDef{
		{Name: "leafA", Shards: [][]int{{0}}, KnownFields: []int{0}},
		{Name: "leafB", Shards: [][]int{{1}}, KnownFields: []int{0}},
		{Name: "leafC", KnownFields: []int{0}}, // metric and field known, no series
	}
	ref := runLayout(c, w, q, reference(w), true, 0)
	resp := map[string]*protoCommonV1.TaskResponse{}
	for _, leaf := range leaves {
		rs, err := RunLeaf(w, q, leaf, []string{"root"})
		if err != nil {
			panic(err)
		}
		resp[leaf.Name] = rs[0]
	}
	rng := rand.New(rand.NewSource(7))
	for _, inline := range []map[string]bool{{}, {"leafC": true}, {"leafA": true, "leafB": true}} {
		got := searchLoopbackVia(w, q, resp, inline, rng, true)
		if got.Err == "pending" {
			c.Fail("empty-leaf-turns-answer-into-timeout",
				fmt.Sprintf("leaves A, B have data, leaf C has no matching series and answers successfully (sent inside SendRequest: %v): the search ends with the deadline instead of %q", inline, ref.res.answerLine()))
		} else if got.Err != "" || got.answerLine() != ref.res.answerLine() {
			c.Fail("layout-changes-answer", fmt.Sprintf("through the real task manager: %q (%s) instead of %q", got.answerLine(), got.Err, ref.res.answerLine()))
		}
	}
	c.NonTrivial()
}

// concurrentCase: the responses of k leaves are handed over AT ONCE by k goroutines (barrier),
// directly to HandleResponse and through the real task manager's pool; moderately large payloads
// (hundreds of groups), several trials. handleResponse is one critical section, so every trial
// must give the answer of the sequential delivery.
func concurrentCase(c *core.Ctx, rng *rand.Rand) {
	nHosts := 120 + rng.Intn(120)
	m := 3 + rng.Intn(4)
	w := &World{TagKeys: []string{"host", "node"}, Fields: []FieldDef{{Name: "f1", Type: field.SumField}, {Name: "f2", Type: field.MaxField}}}
	leaves := make([]*LeafDef, m)
	for li := 0; li < m; li++ {
		leaves[li] = &LeafDef{Name: fmt.Sprintf("leaf%d", li), KnownFields: []int{0, 1}, Shards: [][]int{nil}}
	}
	for h := 0; h < nHosts; h++ {
		for li := 0; li < m; li++ {
			if rng.Intn(4) == 0 {
				continue
			}
			si := len(w.Series)
			w.Series = append(w.Series, SeriesDef{Tags: []string{fmt.Sprintf("host%03d", h), fmt.Sprintf("n%d", li)}})
			leaves[li].Shards[0] = append(leaves[li].Shards[0], si)
			for s := 0; s < 3; s++ {
				w.Points = append(w.Points, Point{Series: si, Field: rng.Intn(2), Slot: rng.Intn(5), Val: int64(1 + rng.Intn(50))})
			}
		}
	}
	q := &QueryDef{Selects: []SelectDef{{"f1", function.Unknown}, {"f2", function.Unknown}}, GroupBy: []int{0}, NumSlots: 5, Limit: 1 << 20, ftypes: ftypesOf(w)}
	var names []string
	var resps []*protoCommonV1.TaskResponse
	for _, leaf := range leaves {
		rs, err := RunLeaf(w, q, leaf, []string{"root"})
		if err != nil {
			panic(err)
		}
		names = append(names, leaf.Name)
		resps = append(resps, rs[0])
	}
	seq, err := NewRoot(w, q, names)
	if err != nil {
		panic(err)
	}
	for i := range resps {
		seq.Ctx.HandleResponse(resps[i], names[i])
	}
	want := seq.Finish()
	c.Branch("concurrent")
	for trial := 0; trial < 6; trial++ {
		root, err := NewRoot(w, q, names)
		if err != nil {
			panic(err)
		}
		viaMgr := trial%2 == 1
		id := fmt.Sprintf("conc-%d-%d", rng.Int63(), trial)
		if viaMgr {
			realTaskMgr().AddTask(id, root.Ctx)
		}
		start := make(chan struct{})
		var wg sync.WaitGroup
		for i := range resps {
			wg.Add(1)
			go func(i int) {
				defer wg.Done()
				r := *resps[i]
				r.RequestID = id
				<-start
				if viaMgr {
					_ = realTaskMgr().Receive(&r, names[i])
				} else {
					root.Ctx.HandleResponse(&r, names[i])
				}
			}(i)
		}
		close(start)
		wg.Wait()
		for k := 0; k < 50000; k++ { // the pool's workers finish asynchronously
			if _, _, _, _, done := root.Ctx.VerifState(); done {
				break
			}
			time.Sleep(100 * time.Microsecond)
		}
		if viaMgr {
			realTaskMgr().RemoveTask(id)
		}
		got := root.Finish()
		if got.Err != want.Err || got.answerLine() != want.answerLine() {
			c.Fail("concurrent-delivery-changes-answer",
				fmt.Sprintf("%d responses (%d groups) handed over at once (through the task manager: %v), trial %d: outcome %q, %d groups / sequential delivery: outcome %q, %d groups; first difference: %s",
					len(resps), nHosts, viaMgr, trial, got.Err, len(got.Groups), want.Err, len(want.Groups), firstDiff(want, got)))
			break
		}
	}
	c.NonTrivial()
}

func firstDiff(a, b *Result) string {
	var ts []string
	for t := range a.Groups {
		ts = append(ts, t)
	}
	sort.Strings(ts)
	for _, t := range ts {
		if fmt.Sprint(a.Groups[t]) != fmt.Sprint(b.Groups[t]) {
			return fmt.Sprintf("group %s: %v vs %v", t, a.Groups[t], b.Groups[t])
		}
	}
	return "group sets differ"
}

// fixed case: ORDER BY with keys closer than 1.0 to each other (1.0, 1.125, ... 1.875), limit 2,
// ascending and descending, direct and through intermediates: the answer must be the two best
// groups by the exact comparison, whatever order the groups are pushed in.
func fixedCloseKeys(c *core.Ctx) {
	w := &World{TagKeys: []string{"host"}, Fields: []FieldDef{{Name: "f1", Type: field.SumField}}}
	for h := 0; h < 8; h++ {
		name := fmt.Sprintf("k%d", h)
		w.Series = append(w.Series, SeriesDef{Tags: []string{name}, Hash: seriesHash(w.TagKeys, []string{name})})
		w.Points = append(w.Points, Point{Series: h, Field: 0, Slot: 1, Val: int64(8 + (h*3)%8)}) // (8 + j)/8, all distinct
	}
	l := &Layout{Leaves: []*LeafDef{
		{Name: "leafA", Shards: [][]int{{0, 1, 2}, {3}}, KnownFields: []int{0}},
		{Name: "leafB", Shards: [][]int{{4, 5, 6, 7}}, KnownFields: []int{0}},
	}, LeafPerm: [][]int{{1, 0}}}
	k := 0
	for _, desc := range []bool{false, true} {
		for _, recv := range []int{0, 3} {
			q := &QueryDef{Selects: []SelectDef{{"f1", function.Unknown}}, GroupBy: []int{0}, NumSlots: 4, Limit: 2,
				OrderBy: []OrderDef{{Field: "f1", Func: function.Unknown, Desc: desc}}, ftypes: ftypesOf(w)}
			ll := *l
			ll.Receivers = recv
			if recv > 0 {
				ll.LeafPerm = [][]int{{0, 1}, {1, 0}, {0, 1}}
				ll.RootPerm = []int{2, 0, 1}
			}
			runLayout(c, w, q, &ll, true, 10*k) // checkTopN inside
			k++
		}
	}
	c.NonTrivial()
}

// fixed case: HAVING f1 > 2.0 over two groups, slot 1: group a has 1.0 (rejected), group b 5.0
// (kept), slot 2: both above. Whatever order the groups are rendered in (12 renderings), group b
// keeps its slot 1; direct and through intermediates, one and two leaves.
func fixedHaving(c *core.Ctx) {
	w := twoSeriesWorld(field.SumField)
	w.Points = []Point{{0, 0, 1, 8}, {1, 0, 1, 40}, {0, 0, 2, 24}, {1, 0, 2, 32}}
	q := &QueryDef{Selects: []SelectDef{{"f1", function.Unknown}}, GroupBy: []int{0}, NumSlots: 4, Limit: 100,
		Having: &HavingDef{Field: "f1", Op: 1, Thr: 16}, ftypes: ftypesOf(w)}
	ref := runLayout(c, w, q, reference(w), true, 0)
	two := &Layout{Leaves: twoLeaves([]int{0}, []int{0}), LeafPerm: [][]int{{1, 0}}}
	got := runLayout(c, w, q, two, true, 10)
	via := &Layout{Leaves: twoLeaves([]int{0}, []int{0}), Receivers: 2, LeafPerm: [][]int{{0, 1}, {1, 0}}, RootPerm: []int{1, 0}}
	got2 := runLayout(c, w, q, via, true, 20)
	for _, g := range []runOut{got, got2} {
		if g.res.Err != ref.res.Err || g.res.answerLine() != ref.res.answerLine() {
			c.Fail("layout-changes-answer", fmt.Sprintf("having: single shard %q / layout %q", ref.res.answerLine(), g.res.answerLine()))
		}
	}
	c.NonTrivial()
}

// fixed case: a group-by query with 8 live brokers (more than the 5 compute nodes the root asks
// for): real RootMetricContext.MakePlan over real flow.BuildPhysicalPlan, then every target
// handles the root's request with the real intermediate task processor. Exactly one target must
// be the executor (not receive-only); 40 plans (the shuffle is time-seeded).
func fixedManyBrokers(c *core.Ctx) {
	w := twoSeriesWorld(field.SumField)
	q := &QueryDef{Selects: []SelectDef{{"f1", function.Unknown}}, GroupBy: []int{0}, NumSlots: 4, Limit: 100, ftypes: ftypesOf(w)}
	live := liveBrokers(8)
	for draw := 0; draw < 40; draw++ {
		deps := &querycontext.RootMetricContextDeps{
			Ctx: context.Background(), Request: &models.Request{RequestID: "r1", DB: database}, Database: database,
			CurrentNode: live[0], Statement: q.statement(w), Choose: &planChooser{live: live},
		}
		root := querycontext.NewRootMetricContext(deps)
		root.SetTracker(newTracker())
		if err := root.MakePlan(); err != nil {
			panic(err)
		}
		reqs := root.GetRequests()
		execs, silent := 0, 0
		for t, req := range reqs {
			plan := &models.PhysicalPlan{}
			if err := jsonUnmarshal(req.PhysicalPlan, plan); err != nil {
				panic(err)
			}
			for _, tg := range plan.Targets {
				if tg.Indicator != t {
					continue
				}
				if !tg.ReceiveOnly {
					execs++
					continue
				}
				// the real processor of a receive-only target: returns without answering
				cur := models.StatelessNode{}
				for _, n := range live {
					if n.Indicator() == t {
						cur = n
					}
				}
				st := &capStream{}
				taskCtx := flow.NewTaskContextWithTimeout(context.Background(), time.Second)
				err := query.NewIntermediateTaskProcessor(cur, time.Second, nil, nil, nil).Process(taskCtx, st, req)
				taskCtx.Release()
				if err == nil && len(st.got) == 0 {
					silent++
				}
			}
		}
		if execs != 1 {
			key := "plan-with-several-executors"
			if execs == 0 {
				key = "plan-without-executor"
			}
			c.Fail(key, fmt.Sprintf("8 live brokers, group-by query: the root's plan has %d targets, %d executors, %d receive-only targets that answer nothing (draw %d)", len(reqs), execs, silent, draw))
			break
		}
	}
	c.Op("plan-shape 8 5", func() string {
		t, e, d := checkPlanShape(c, 8, 5)
		b := 0
		if d {
			b = 1
		}
		return fmt.Sprintf("targets=%d executors=%d distinct=%d", t, e, b)
	}())
	c.NonTrivial()
}
