package c12

import (
	"context"
	"fmt"
	"math/rand"
	"sort"
	"strings"
	"sync"
	"time"

	commonmodels "github.com/lindb/common/models"

	"github.com/lindb/lindb/aggregation/function"
	"github.com/lindb/lindb/models"
	protoCommonV1 "github.com/lindb/lindb/proto/gen/v1/common"
	"github.com/lindb/lindb/query"
	querycontext "github.com/lindb/lindb/query/context"
	"github.com/lindb/lindb/series/field"

	"github.com/lindb/lindb/zzverif/internal/core"
)

// Loopback stream: the real query.MetricDataSearch (request manager, pipeline, physical plan
// stage, task send stages, RootMetricContext, WaitResponse) over a transport that answers a
// request either INSIDE SendRequest (the response is handled before the next request is sent) or
// after all requests went out, in a generated order. The interleavings send/response of a fast
// node are thereby part of the delivery schedules. No model ops (which target is sent first is
// the iteration order of a Go map); the impl-side oracle demands the reference answer.

type lbTaskMgr struct {
	mu    sync.Mutex
	ctx   querycontext.TaskContext
	reqID string
}

func (m *lbTaskMgr) AddTask(id string, c querycontext.TaskContext) {
	m.mu.Lock()
	m.ctx, m.reqID = c, id
	m.mu.Unlock()
}
func (m *lbTaskMgr) RemoveTask(string) {}
func (m *lbTaskMgr) Receive(resp *protoCommonV1.TaskResponse, from string) error {
	m.mu.Lock()
	c := m.ctx
	m.mu.Unlock()
	c.HandleResponse(resp, from)
	return nil
}

type lbTransport struct {
	mgr    *lbTaskMgr
	resp   map[string]*protoCommonV1.TaskResponse
	inline map[string]bool // this target's request is answered inside SendRequest
	rng    *rand.Rand
	total  int
	sent   []string
	later  []string
	wg     sync.WaitGroup
}

func (t *lbTransport) SendRequest(target string, _ *protoCommonV1.TaskRequest) error {
	t.sent = append(t.sent, target)
	if t.inline[target] {
		_ = t.mgr.Receive(t.resp[target], target)
	} else {
		t.later = append(t.later, target)
	}
	if len(t.sent) == t.total {
		order := append([]string(nil), t.later...)
		t.rng.Shuffle(len(order), func(i, j int) { order[i], order[j] = order[j], order[i] })
		t.wg.Add(1)
		go func() {
			defer t.wg.Done()
			// "later" = after the search pipeline's completion callback (it removes the pipeline
			// from the pipeline manager right after ctx.Complete)
			for i := 0; i < 20000 && query.GetPipelineManager().GetPipeline(t.mgr.reqID) != nil; i++ {
				time.Sleep(100 * time.Microsecond)
			}
			for _, tg := range order {
				_ = t.mgr.Receive(t.resp[tg], tg)
			}
		}()
	}
	return nil
}

func (t *lbTransport) SendResponse(string, *protoCommonV1.TaskResponse) error { return nil }

// searchLoopback runs the real MetricDataSearch over the given per-target responses.
func searchLoopback(w *World, q *QueryDef, resp map[string]*protoCommonV1.TaskResponse, inline map[string]bool, rng *rand.Rand) *Result {
	var targets []string
	for t := range resp {
		targets = append(targets, t)
	}
	mgr := &lbTaskMgr{}
	tr := &lbTransport{mgr: mgr, resp: resp, inline: inline, rng: rng, total: len(targets)}
	ctx, cancel := context.WithTimeout(context.Background(), 3*time.Second)
	defer cancel()
	rs, err := query.MetricDataSearch(ctx, &models.ExecuteParam{Database: database, SQL: "q"}, q.statement(w), &query.SearchMgr{
		Timeout:      2 * time.Second,
		CurNode:      models.StatelessNode{HostIP: "1.1.1.1", GRPCPort: 9000},
		Choose:       &plainChooser{targets: targets},
		TaskMgr:      mgr,
		TransportMgr: tr,
	})
	tr.wg.Wait()
	if err != nil {
		if strings.Contains(err.Error(), "timeout") {
			return &Result{Err: "pending"}
		}
		return &Result{Err: errKind(err.Error())}
	}
	return resultOf(rs.(*commonmodels.ResultSet))
}

// loopbackCase: one world/query/layout (leaves answer the root directly); the reference answer is
// the level-1 direct run; several send/response schedules of the real search must give it.
func loopbackCase(c *core.Ctx, rng *rand.Rand) {
	nSlots := 2 + rng.Intn(5)
	w := genWorld(rng, simpleTypes, nSlots)
	q := genQuery(rng, w, false)
	q.NumSlots = nSlots
	q.OrderBy = nil
	q.Limit = 100
	l := genLayout(rng, w, q, false)
	l.Receivers = 0
	ref := runLayout(c, w, q, l, false, 0)
	resp := map[string]*protoCommonV1.TaskResponse{}
	for _, leaf := range l.Leaves {
		rs, err := RunLeaf(w, q, leaf, []string{"root"})
		if err != nil {
			panic(err)
		}
		resp[leaf.Name] = rs[0]
	}
	withErr := rng.Intn(5) == 0
	if withErr {
		resp["failing"] = &protoCommonV1.TaskResponse{RequestID: "r", Completed: true, ErrMsg: "disk broken"}
	}
	c.Branch("loopback")
	var names []string
	for n := range resp {
		names = append(names, n)
	}
	sort.Strings(names)
	for rep := 0; rep < 3; rep++ {
		inline := map[string]bool{}
		for _, n := range names {
			// (a failing node answering in-line is the dedicated witness case)
			inline[n] = n != "failing" && rng.Intn(2) == 0
		}
		got := searchLoopback(w, q, resp, inline, rng)
		sched := fmt.Sprintf("answered inside SendRequest: %v", inline)
		if withErr {
			if got.Err != "error" {
				c.Fail("failing-node-not-reported",
					fmt.Sprintf("%s: one node answers with an error after the plan completed, the search returns %q / %s", sched, got.Err, got.rowsLine()))
			}
			continue
		}
		if got.Err != ref.res.Err || got.answerLine() != ref.res.answerLine() {
			c.Fail("send-response-interleaving-changes-answer",
				fmt.Sprintf("%s: handled in order %q (%s), real search %q (%s)", sched, ref.res.answerLine(), ref.res.Err, got.answerLine(), got.Err))
		}
	}
	if len(ref.res.Groups) > 0 {
		c.NonTrivial()
	}
}

// (f) a node that fails fast: its error response is handled while the root is still in its plan /
// send stage; the pipeline's completion callback then calls Complete(nil), which overwrites
// ctx.err. The real search returns a successful (empty) answer; the same response handled after
// the callback fails the query. Mirrored on the real context for the model: new, resp er,
// complete ok, result.
func witnessErrorBeforeComplete(c *core.Ctx) {
	w := twoSeriesWorld(field.SumField)
	w.Points = []Point{{0, 0, 1, 5}}
	q := &QueryDef{Selects: []SelectDef{{"f1", function.Unknown}}, NumSlots: 4, Limit: 100, ftypes: ftypesOf(w)}
	failing := &protoCommonV1.TaskResponse{RequestID: "r", Completed: true, ErrMsg: "disk broken"}
	rng := rand.New(rand.NewSource(1))
	early := searchLoopback(w, q, map[string]*protoCommonV1.TaskResponse{"n1": failing}, map[string]bool{"n1": true}, rng)
	late := searchLoopback(w, q, map[string]*protoCommonV1.TaskResponse{"n1": failing}, map[string]bool{"n1": false}, rng)
	// the same steps on a context driven by hand, for the model
	root, err := NewRoot(w, q, []string{"n1"})
	if err != nil {
		panic(err)
	}
	c.Op("new 0 1", stateLine(&root.Ctx.MetricContext))
	root.Ctx.HandleResponse(failing, "n1")
	c.Op("resp 0 er", stateLine(&root.Ctx.MetricContext))
	root.Ctx.Complete(nil)
	c.Op("complete 0 ok", stateLine(&root.Ctx.MetricContext))
	c.Op(q.resultOp(0), root.Finish().line(q, nil))
	c.NonTrivial()
	if late.Err != "error" {
		c.Fail("failing-node-not-reported", fmt.Sprintf("error response after plan completion: search returns %q", late.Err))
	}
	if early.Err != late.Err {
		c.Fail("error-response-before-plan-completion-is-erased",
			fmt.Sprintf("the only node answers 'disk broken': handled before the pipeline's Complete(nil) the search returns %q (%s), handled after it %q",
				early.Err, early.rowsLine(), late.Err))
	}
}

// fixed case: a not-found answer delivered LAST (after data) must stay tolerated.
func fixedNotFoundLast(c *core.Ctx) {
	w := twoSeriesWorld(field.SumField)
	w.Points = []Point{{0, 0, 1, 5}, {1, 0, 1, 7}}
	q := &QueryDef{Selects: []SelectDef{{"f1", function.Unknown}}, NumSlots: 4, Limit: 100, ftypes: ftypesOf(w)}
	leaves := []*LeafDef{
		{Name: "leafA", Shards: [][]int{{0}}, KnownFields: []int{0}},
		{Name: "leafB", Shards: [][]int{{1}}, KnownFields: []int{0}},
		{Name: "leafC", NoMetric: true},
		{Name: "leafD", NoMetric: true},
	}
	ref := runLayout(c, w, q, reference(w), true, 0)
	for k, p := range [][]int{{0, 1, 2, 3}, {2, 0, 3, 1}, {2, 3, 0, 1}, {0, 2, 1, 3}} {
		got := runLayout(c, w, q, &Layout{Leaves: leaves, LeafPerm: [][]int{p}}, true, 10*(k+1))
		if got.res.Err != "" || got.res.answerLine() != ref.res.answerLine() {
			c.Fail("notfound-not-tolerated", fmt.Sprintf("delivery order %v (leaves C, D answer not-found): %q (%s) instead of %q", p, got.res.answerLine(), got.res.Err, ref.res.answerLine()))
		}
	}
	c.NonTrivial()
}

// fixed case: group by host over series of two leaves, more groups than the limit, no order by:
// whichever groups survive, their values must be the full sums (a limit applied below the root
// would give partial ones).
func fixedLimitSpread(c *core.Ctx) {
	w := &World{TagKeys: []string{"host", "dc"}, Fields: []FieldDef{{Name: "f1", Type: field.SumField}}}
	for _, h := range []string{"h0", "h1", "h2", "h3"} {
		for _, d := range []string{"d0", "d1"} {
			w.Series = append(w.Series, SeriesDef{Tags: []string{h, d}, Hash: seriesHash(w.TagKeys, []string{h, d})})
		}
	}
	for si := range w.Series {
		w.Points = append(w.Points, Point{Series: si, Field: 0, Slot: 1, Val: int64(10 + si)})
	}
	q := &QueryDef{Selects: []SelectDef{{"f1", function.Unknown}}, GroupBy: []int{0}, NumSlots: 4, Limit: 2, ftypes: ftypesOf(w)}
	// every host has its d0 series on leaf A and its d1 series on leaf B
	l := &Layout{Leaves: []*LeafDef{
		{Name: "leafA", Shards: [][]int{{0, 2}, {4, 6}}, KnownFields: []int{0}},
		{Name: "leafB", Shards: [][]int{{1, 3, 5, 7}}, KnownFields: []int{0}},
	}, LeafPerm: [][]int{{1, 0}}}
	for k, recv := range []int{0, 2} {
		ll := *l
		ll.Receivers = recv
		if recv > 0 {
			ll.LeafPerm = [][]int{{0, 1}, {1, 0}}
			ll.RootPerm = []int{1, 0}
		}
		got := runLayout(c, w, q, &ll, true, 10*k)
		if len(got.res.Groups) != 2 {
			c.Fail("limit-not-applied", fmt.Sprintf("limit 2 over 4 groups: %d groups", len(got.res.Groups)))
		}
		for t, fm := range got.res.Groups {
			if fmt.Sprint(got.full.Groups[t]) != fmt.Sprint(fm) {
				c.Fail("limited-row-not-in-full-answer", fmt.Sprintf("receivers=%d group %q: %v, unlimited answer has %v", recv, t, fm, got.full.Groups[t]))
			}
		}
	}
	c.NonTrivial()
}
