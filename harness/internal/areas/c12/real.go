// Package c12 drives lindb's real query merge path (leaf reduce -> [intermediate] -> root) on
// generated data split over shards / leaf nodes, in generated response orders, and mirrors every
// response delivery in the C12 line protocol. See design_notes/C12.md for what is real.
package c12

import (
	"context"
	"encoding/binary"
	"fmt"
	"sort"
	"strings"
	"sync"
	"time"

	commonmodels "github.com/lindb/common/models"
	"github.com/lindb/common/pkg/encoding"
	"github.com/lindb/roaring"

	"github.com/lindb/lindb/aggregation"
	"github.com/lindb/lindb/aggregation/function"
	"github.com/lindb/lindb/constants"
	"github.com/lindb/lindb/coordinator/broker"
	"github.com/lindb/lindb/flow"
	"github.com/lindb/lindb/index"
	"github.com/lindb/lindb/models"
	"github.com/lindb/lindb/pkg/option"
	"github.com/lindb/lindb/pkg/timeutil"
	protoCommonV1 "github.com/lindb/lindb/proto/gen/v1/common"
	querycontext "github.com/lindb/lindb/query/context"
	"github.com/lindb/lindb/query/operator"
	"github.com/lindb/lindb/query/tracker"
	"github.com/lindb/lindb/rpc"
	"github.com/lindb/lindb/series"
	"github.com/lindb/lindb/series/field"
	"github.com/lindb/lindb/series/metric"
	"github.com/lindb/lindb/series/tag"
	"github.com/lindb/lindb/sql/stmt"
	"github.com/lindb/lindb/tsdb"
)

// ---------------------------------------------------------------- generated world

const (
	intervalMs = int64(10000)         // 10s storage == query interval (ratio 1)
	baseTime   = int64(1700000000000) // rounded down to the hour below
	metricName = "cpu"
	namespace  = "default-ns"
	database   = "db"
)

var familyStart = baseTime - baseTime%3600000

// MaxSlot is the last slot of the family a generated point may fall into (the queried range is a
// prefix of it).
const MaxSlot = 9

// FieldDef is one field of the metric (cluster-wide identity: name + type).
type FieldDef struct {
	Name string
	Type field.Type
}

// SeriesDef is one time series: values for the metric's tag keys (in tag-key order).
type SeriesDef struct {
	Tags []string
	Hash uint64 // routing hash of the tags (KvsHash of the written row)
}

// Point is one already bucketed data point: series, field, slot (offset from the query start
// in units of the interval), value in EIGHTHS (the written float is Val/8: exactly representable,
// sums stay exact; the line protocol and the model carry every value scaled by 8, as integers).
type Point struct {
	Series, Field, Slot int
	Val                 int64
}

// SelectDef is one select item: a field, optionally wrapped in one function call.
type SelectDef struct {
	Field string
	Func  function.FuncType // function.Unknown: bare field
}

// QueryDef is the generated query.
type QueryDef struct {
	Selects   []SelectDef
	GroupBy   []int // indexes into World.TagKeys
	OrderBy   []OrderDef
	Limit     int
	NumSlots  int
	AllFields bool
	Having    *HavingDef // only with exactly one bare select item
	Cond      *CondDef   // where-condition (the where stream: real storage nodes only)

	ftypes map[string]field.Type // field name -> type (for the canonicalisation of order-by answers)
}

// HavingDef is `having <field> <op> <thr/8>`; Op 1 >, 2 >=, 3 <, 4 <=; Thr in eighths.
type HavingDef struct {
	Field string
	Op    int
	Thr   int64
}

func (h *HavingDef) holds(scaled float64) bool {
	t := float64(h.Thr)
	switch h.Op {
	case 1:
		return scaled > t
	case 2:
		return scaled >= t
	case 3:
		return scaled < t
	default:
		return scaled <= t
	}
}

// OrderDef is one order-by item.
type OrderDef struct {
	Field string
	Func  function.FuncType
	Desc  bool
}

// World is the data written to the cluster.
type World struct {
	TagKeys []string
	Fields  []FieldDef
	Series  []SeriesDef
	Points  []Point
}

// LeafDef says what one leaf node holds: its shards (each a list of series indexes) and its
// node-local schema (which fields of the metric this node has ever seen; nil = metric unknown).
type LeafDef struct {
	Name        string
	Shards      [][]int
	KnownFields []int // indexes into World.Fields, in local field-id order
	NoMetric    bool
}

// ---------------------------------------------------------------- statements

func (q *QueryDef) statement(w *World) *stmt.Query {
	s := &stmt.Query{
		Namespace:       namespace,
		MetricName:      metricName,
		AllFields:       q.AllFields,
		TimeRange:       timeutil.TimeRange{Start: familyStart, End: familyStart + int64(q.NumSlots-1)*intervalMs},
		Interval:        timeutil.Interval(intervalMs),
		StorageInterval: timeutil.Interval(intervalMs),
		IntervalRatio:   1,
		Limit:           q.Limit,
	}
	for _, it := range q.Selects {
		var e stmt.Expr = &stmt.FieldExpr{Name: it.Field}
		if it.Func != function.Unknown {
			e = &stmt.CallExpr{FuncType: it.Func, Params: []stmt.Expr{e}}
		}
		s.SelectItems = append(s.SelectItems, &stmt.SelectItem{Expr: e})
	}
	for _, g := range q.GroupBy {
		s.GroupBy = append(s.GroupBy, w.TagKeys[g])
	}
	if q.Cond != nil {
		s.Condition = q.Cond.expr()
	}
	if q.Having != nil {
		op := map[int]stmt.BinaryOP{1: stmt.GREATER, 2: stmt.GREATEREQUAL, 3: stmt.LESS, 4: stmt.LESSEQUAL}[q.Having.Op]
		s.Having = &stmt.BinaryExpr{Left: &stmt.FieldExpr{Name: q.Having.Field}, Operator: op,
			Right: &stmt.NumberLiteral{Val: float64(q.Having.Thr) / ValueScale}}
	}
	for _, o := range q.OrderBy {
		var e stmt.Expr = &stmt.FieldExpr{Name: o.Field}
		if o.Func != function.Unknown {
			e = &stmt.CallExpr{FuncType: o.Func, Params: []stmt.Expr{e}}
		}
		s.OrderByItems = append(s.OrderByItems, &stmt.OrderByExpr{Expr: e, Desc: o.Desc})
	}
	return s
}

// wireCopy is what a remote node sees: the statement after MarshalJSON / UnmarshalJSON
// (RootMetricContext.MakePlan marshals, leafTaskProcessor.processDataSearch unmarshals).
func wireCopy(s *stmt.Query) (*stmt.Query, error) {
	b, err := s.MarshalJSON()
	if err != nil {
		return nil, err
	}
	c := &stmt.Query{}
	if err := c.UnmarshalJSON(b); err != nil {
		return nil, err
	}
	return c, nil
}

// ---------------------------------------------------------------- stubs (not lindb code)

// metaDB answers the two lookups metadataLookup.Execute makes, from a node-local schema.
type metaDB struct {
	index.MetricMetaDatabase
	schema *metric.Schema // nil: metric unknown on this node
	// the node's tag value dictionary: tag key id -> tag value id -> value (what the leaf's
	// collectGroupByTagValues asks for); failKey != 0: the lookup for that tag key id fails
	dict    func(keyID tag.KeyID) map[uint32]string
	failKey tag.KeyID
}

// CollectTagValues as index.metricMetaDatabase does: fills tagValues for the ids it knows.
func (m *metaDB) CollectTagValues(keyID tag.KeyID, ids *roaring.Bitmap, tagValues map[uint32]string) error {
	if m.failKey != 0 && keyID == m.failKey {
		return fmt.Errorf("collect tag values of key %d: dictionary unavailable", keyID)
	}
	if m.dict == nil {
		return nil
	}
	d := m.dict(keyID)
	it := ids.Iterator()
	for it.HasNext() {
		id := it.Next()
		if v, ok := d[id]; ok {
			tagValues[id] = v
		}
	}
	return nil
}

func (m *metaDB) GetMetricID(_, name string) (metric.ID, error) {
	if m.schema == nil {
		// same error value as index.metricMetaDatabase.GetMetricID
		return 0, fmt.Errorf("%w, metric: %s", constants.ErrMetricIDNotFound, name)
	}
	return 7, nil
}
func (m *metaDB) GetSchema(metric.ID) (*metric.Schema, error) { return m.schema, nil }

type stubDB struct {
	tsdb.Database
	meta *metaDB
}

func (d *stubDB) MetaDB() index.MetricMetaDatabase { return d.meta }

// capture collects what a node sends to each receiver.
type capStream struct {
	protoCommonV1.TaskService_HandleServer
	got []*protoCommonV1.TaskResponse
}

func (s *capStream) Send(r *protoCommonV1.TaskResponse) error { s.got = append(s.got, r); return nil }

type capFactory struct {
	rpc.TaskServerFactory
	streams map[string]*capStream
}

func (f *capFactory) GetStream(node string) protoCommonV1.TaskService_HandleServer {
	s, ok := f.streams[node]
	if !ok {
		s = &capStream{}
		f.streams[node] = s
	}
	return s
}

// chooser returns a fixed physical plan (stands in for the broker state manager).
type chooser struct {
	broker.StateManager
	targets []string
}

func (c *chooser) Choose(db string, _ int) ([]*models.PhysicalPlan, error) {
	p := &models.PhysicalPlan{Database: db}
	for _, t := range c.targets {
		p.AddTarget(&models.Target{Indicator: t})
	}
	return []*models.PhysicalPlan{p}, nil
}

func (c *chooser) GetDatabaseCfg(string) (models.Database, bool) {
	return models.Database{Name: database, Option: &option.DatabaseOption{
		Intervals: option.Intervals{{Interval: timeutil.Interval(intervalMs), Retention: timeutil.Interval(30 * 24 * 3600000)}}}}, true
}

// plainChooser implements only flow.NodeChoose (so RootMetricContext.MakePlan skips
// calcTimeRangeAndInterval, which needs a broker state manager).
// plans: one physical plan per entry (root / federated deployment: Choose answers one plan per
// broker cluster; MakePlan calls addRequests once per plan).
type plainChooser struct{ plans [][]string }

func (c *plainChooser) Choose(db string, _ int) ([]*models.PhysicalPlan, error) {
	var out []*models.PhysicalPlan
	for _, targets := range c.plans {
		p := &models.PhysicalPlan{Database: db}
		for _, t := range targets {
			p.AddTarget(&models.Target{Indicator: t})
		}
		out = append(out, p)
	}
	return out, nil
}

// newOp is the op line that creates context id over these plans (`new` for one plan).
func newOp(id int, plans [][]string) string {
	if len(plans) == 1 {
		return fmt.Sprintf("new %d %d", id, len(plans[0]))
	}
	toks := []string{"newp", fmt.Sprint(id)}
	for _, p := range plans {
		toks = append(toks, fmt.Sprint(len(p)))
	}
	return strings.Join(toks, " ")
}

// splitPlans places the targets into 1-3 physical plans as a function of the delivery order
// (deterministic; every plan non-empty): about two thirds of the contexts with >= 2 targets get
// several plans.
func splitPlans(names []string, perm []int) [][]string {
	n := len(names)
	if n < 2 || len(perm) != n || (perm[0]+n)%3 == 0 {
		return [][]string{names}
	}
	p := 2 + perm[n-1]%2
	if p > n {
		p = n
	}
	plans := make([][]string, p)
	for j, k := range perm {
		plans[j%p] = append(plans[j%p], names[k])
	}
	return plans
}

type sliceGetter map[uint16]float64

func (g sliceGetter) GetValue(slot uint16) (float64, bool) { v, ok := g[slot]; return v, ok }

func newTracker() *tracker.StageTracker {
	return tracker.NewStageTracker(flow.NewTaskContextWithTimeout(context.Background(), leafTimeout))
}

// ---------------------------------------------------------------- the real leaf

// RunLeaf executes the leaf side for one node with lindb's real code:
// operator.NewMetadataLookup(...).Execute() (real select-list planning against the node-local
// schema), flow.DataLoadContext + aggregation.DownSampling into the real series aggregators
// (one DataLoadContext per shard), LeafReduceContext.Reduce, LeafExecuteContext.SendResponse
// (-> BuildResultSet, hash split over receivers, protobuf marshal). Returns one response per receiver.
func RunLeaf(w *World, q *QueryDef, leaf *LeafDef, receivers []string) ([]*protoCommonV1.TaskResponse, error) {
	rs, _, err := RunLeafRec(w, q, leaf, receivers)
	return rs, err
}

// RunLeafRec is RunLeaf that also returns the grouped iterators the node's reduce saw, in reduce
// order, as protocol tokens (tags already translated from node-local tag value ids). The iterators
// are produced twice from the same points (reading one consumes it): once for the record, once
// for the real LeafReduceContext.
func RunLeafRec(w *World, q *QueryDef, leaf *LeafDef, receivers []string) ([]*protoCommonV1.TaskResponse, []string, error) {
	rs, rec, _, err := RunLeafPlan(w, q, leaf, receivers)
	return rs, rec, err
}

// PlanOp is the `plan` protocol line of one leaf and the real metadata lookup's outcome for it.
type PlanOp struct{ Op, Out string }

// RunLeafPlan is RunLeafRec that also reports the metadata-lookup step for the model.
func RunLeafPlan(w *World, q *QueryDef, leaf *LeafDef, receivers []string) ([]*protoCommonV1.TaskResponse, []string, PlanOp, error) {
	st, err := wireCopy(q.statement(w))
	if err != nil {
		return nil, nil, PlanOp{}, err
	}
	var plan PlanOp
	{
		var sel, sch []string
		for _, s := range q.Selects {
			sel = append(sel, fmt.Sprintf("%d:%s", int(s.Func), s.Field))
		}
		schema := "none"
		if !leaf.NoMetric {
			for _, fi := range leaf.KnownFields {
				sch = append(sch, fmt.Sprintf("%s:%d", w.Fields[fi].Name, w.Fields[fi].Type))
			}
			schema = joinOrDash(sch)
		}
		all := 0
		if q.AllFields {
			all = 1
		}
		plan.Op = fmt.Sprintf("plan all=%d sel=%s schema=%s", all, joinOrDash(sel), schema)
	}
	var recorded []string
	var schema *metric.Schema
	if !leaf.NoMetric {
		schema = &metric.Schema{}
		for i, fi := range leaf.KnownFields {
			schema.Fields = append(schema.Fields, field.Meta{Name: field.Name(w.Fields[fi].Name), Type: w.Fields[fi].Type, ID: field.ID(i + 1)})
		}
		for i, k := range w.TagKeys {
			schema.TagKeys = append(schema.TagKeys, tag.Meta{Key: k, ID: tag.KeyID(10 + i)})
		}
	}
	mdb := &metaDB{schema: schema}
	db := &stubDB{meta: mdb}
	fct := &capFactory{streams: map[string]*capStream{}}
	taskCtx := flow.NewTaskContextWithTimeout(context.Background(), leafTimeout)
	req := &protoCommonV1.TaskRequest{RequestID: "r1", RequestType: protoCommonV1.RequestType_Data}
	target := &models.Target{Indicator: leaf.Name}
	lctx := querycontext.NewLeafExecuteContext(taskCtx, tracker.NewStageTracker(taskCtx), st, req, fct, target, receivers, db)

	collect := func() []*protoCommonV1.TaskResponse {
		out := make([]*protoCommonV1.TaskResponse, len(receivers))
		for i, r := range receivers {
			if s := fct.streams[r]; s != nil && len(s.got) > 0 {
				out[i] = s.got[len(s.got)-1]
			}
		}
		return out
	}

	if err := operator.NewMetadataLookup(lctx.StorageExecuteCtx, db).Execute(); err != nil {
		plan.Out = "er"
		if strings.Contains(err.Error(), "not found") {
			plan.Out = "nf"
		}
		lctx.SendResponse(err)
		return collect(), nil, plan, nil
	}
	sctx := lctx.StorageExecuteCtx
	{
		var specs []string
		for _, sp := range sctx.AggregatorSpecs {
			var fns []int
			for f := range sp.Functions() {
				fns = append(fns, int(f))
			}
			sort.Ints(fns)
			var fs []string
			for _, f := range fns {
				fs = append(fs, fmt.Sprint(f))
			}
			specs = append(specs, fmt.Sprintf("s:%s:%d:%s", sp.FieldName(), sp.GetFieldType(), joinOrDash(fs)))
		}
		sort.Strings(specs)
		plan.Out = strings.Join(append([]string{"specs"}, specs...), " ")
	}
	// node-local tag value ids: dictionary per group-by key, ids assigned in first-seen order
	// offset by a node-specific base (ids are node-local in lindb).
	base := uint32(100 * (1 + len(leaf.Name)))
	dicts := make([]map[string]uint32, len(q.GroupBy))
	rev := make([]map[uint32]string, len(q.GroupBy))
	for i := range dicts {
		dicts[i] = map[string]uint32{}
		rev[i] = map[uint32]string{}
	}
	fieldIdx := map[string]int{} // field name -> index in the query's (sorted) field list
	for i, fm := range sctx.Fields {
		fieldIdx[string(fm.Name)] = i
	}
	grouped := false
	// the node's dictionary, as the real collectGroupByTagValues reads it through MetaDB().CollectTagValues
	mdb.dict = func(keyID tag.KeyID) map[uint32]string {
		for gi, g := range q.GroupBy {
			if tag.KeyID(10+g) == keyID {
				return rev[gi]
			}
		}
		return nil
	}
	// what storage hands to the down-sampling of one series: field index -> slot -> value. A series
	// takes part in the query on this node iff it has a point of a selected field in the family
	// (possibly outside the queried slot range: then its aggregator exists but stays empty).
	bySeries := map[int][]Point{}
	for _, p := range w.Points {
		bySeries[p.Series] = append(bySeries[p.Series], p)
	}
	seriesData := func(si int) map[int]sliceGetter {
		perField := map[int]sliceGetter{}
		for _, p := range bySeries[si] {
			fi, ok := fieldIdx[w.Fields[p.Field].Name]
			if !ok {
				continue // field not selected
			}
			if perField[fi] == nil {
				perField[fi] = sliceGetter{}
			}
			// same-slot points of one series were already combined by storage (C11's domain)
			if old, ok := perField[fi][uint16(p.Slot)]; ok {
				perField[fi][uint16(p.Slot)] = w.Fields[p.Field].Type.AggType().Aggregate(old, pointValue(p))
			} else {
				perField[fi][uint16(p.Slot)] = pointValue(p)
			}
		}
		return perField
	}
	for pass := 0; pass < 2; pass++ {
		for _, shardAll := range leaf.Shards {
			var shard []int
			for _, si := range shardAll {
				if len(seriesData(si)) > 0 {
					shard = append(shard, si)
				}
			}
			// the leaf pipeline's grouping tasks, as query/stage does: every local shard's scan stage
			// forks one when it is created and completes it when it is done (also when the shard holds
			// nothing); a shard with series forks a grouping stage before the scan stage completes.
			// The LAST completion runs the real collectGroupByTagValues against the node's dictionary.
			if pass == 1 {
				lctx.GroupingCtx.ForkGroupingTask()
			}
			if len(shard) == 0 {
				if pass == 1 {
					lctx.GroupingCtx.CompleteGroupingTask()
				}
				continue // storage finds no series of the metric in this shard
			}
			if pass == 1 {
				lctx.GroupingCtx.ForkGroupingTask()   // NewGroupingStage
				lctx.GroupingCtx.CompleteGroupingTask() // shardScanStage.Complete
			}
			shardCtx := flow.NewShardExecuteContext(sctx)
			dl := &flow.DataLoadContext{ShardExecuteCtx: shardCtx, IsMultiField: len(sctx.Fields) > 1, IsGrouping: st.HasGroupBy()}
			if !dl.IsGrouping {
				dl.PrepareAggregatorWithoutGrouping()
			} else {
				dl.GroupingSeriesAggRefs = make([]uint16, len(shard))
				keyIdx := map[string]uint16{}
				for li, si := range shard {
					key := make([]byte, 4*len(q.GroupBy))
					for gi, g := range q.GroupBy {
						v := w.Series[si].Tags[g]
						id, ok := dicts[gi][v]
						if !ok {
							id = base + uint32(len(dicts[gi]))
							dicts[gi][v] = id
							rev[gi][id] = v
						}
						binary.LittleEndian.PutUint32(key[4*gi:], id)
					}
					idx, ok := keyIdx[string(key)]
					if !ok {
						idx = dl.NewSeriesAggregator(string(key))
						keyIdx[string(key)] = idx
						grouped = true
					}
					dl.GroupingSeriesAggRefs[li] = idx
				}
			}
			if pass == 1 {
				// groupingStage.Complete: the groups of this shard are built (their tag value ids
				// collected); the data load stages that follow fork no grouping task
				lctx.GroupingCtx.CompleteGroupingTask()
			}
			for li, si := range shard {
				// per series, per field: one GetAggregator(familyTime) + DownSampling, as dataLoad.Execute does
				perField := seriesData(si)
				var fis []int
				for fi := range perField {
					fis = append(fis, fi)
				}
				sort.Ints(fis)
				for _, fi := range fis {
					sa := dl.GetSeriesAggregator(uint16(li), fi)
					agg := sa.GetAggregator(familyStart)
					src := timeutil.SlotRange{Start: 0, End: uint16(MaxSlot)}
					tgt := timeutil.SlotRange{Start: 0, End: uint16(q.NumSlots - 1)}
					aggregation.DownSampling(src, tgt, 1, 0, perField[fi], agg.AggregateBySlot)
				}
			}
			if pass == 0 {
				dl.Reduce(func(it series.GroupedIterator) {
					recorded = append(recorded, recordIterator(it, rev)...)
				})
			} else {
				dl.Reduce(lctx.ReduceCtx.Reduce)
			}
		}
	}
	_ = grouped
	t0 := time.Now()
	lctx.SendResponse(nil)
	noteLeafWait(leaf.Name, time.Since(t0), leafTimeout, fmt.Sprintf("level 1, group by %v, %d shards of the leaf with data (grouped=%v)", q.GroupBy, len(leaf.Shards), grouped))
	return collect(), recorded, plan, nil
}

// leafHang records a leaf whose answer took (nearly) its task context's whole deadline: on the
// unchanged tree a leaf answers in microseconds whatever it holds, so a leaf that waits for its
// deadline waits for something that never happens (a channel nobody closes, a task never forked).
// Reported as oracle failure `leaf-blocks-until-deadline` (once per case); the case loop stops the
// run after `max_hangs` such cases, so a tree on which every such leaf hangs ends in seconds.
var leafHang struct {
	sync.Mutex
	n      int
	desc   string
	report func(string)
}

func noteLeafWait(name string, took, deadline time.Duration, what string) {
	if took < deadline*3/4 {
		return
	}
	leafHang.Lock()
	defer leafHang.Unlock()
	leafHang.n++
	if leafHang.desc == "" {
		leafHang.desc = fmt.Sprintf("leaf %s answered after %s (task deadline %s): %s", name, took.Round(10*time.Millisecond), deadline, what)
		if leafHang.report != nil {
			leafHang.report(leafHang.desc) // first of the case: reported at once, before the answer comparison
		}
	}
}

// noteTimeoutCase counts a case in which a real search / context sat out its deadline although
// every target had answered (already reported under its own oracle key).
func noteTimeoutCase() {
	leafHang.Lock()
	leafHang.n++
	if leafHang.desc == "" {
		leafHang.desc = "-"
	}
	leafHang.Unlock()
}

// takeLeafHang returns and clears the record.
func takeLeafHang() (int, string) {
	leafHang.Lock()
	defer leafHang.Unlock()
	n, d := leafHang.n, leafHang.desc
	leafHang.n, leafHang.desc = 0, ""
	return n, d
}

// recordIterator renders one grouped iterator as `t:` / `f:` / `p:` tokens.
func recordIterator(it series.GroupedIterator, rev []map[uint32]string) []string {
	key := []byte(it.Tags())
	vals := make([]string, len(rev))
	for i := range rev {
		vals[i] = rev[i][binary.LittleEndian.Uint32(key[4*i:])]
	}
	out := []string{"t:" + tagTok(tag.ConcatTagValues(vals))}
	for it.HasNext() {
		sit := it.Next()
		out = append(out, fmt.Sprintf("f:%s:%d", sit.FieldName(), sit.FieldType()))
		for sit.HasNext() {
			_, fit := sit.Next()
			if fit == nil {
				continue
			}
			for fit.HasNext() {
				p := fit.Next()
				var pts []string
				for p.HasNext() {
					s, v := p.Next()
					pts = append(pts, fmt.Sprintf("%d=%s", s, fmtVal(v)))
				}
				out = append(out, fmt.Sprintf("p:%d:%s", p.AggType(), joinOrDash(pts)))
			}
		}
	}
	return out
}

func tagTok(t string) string {
	if t == "" {
		return "-"
	}
	return t
}

func joinOrDash(l []string) string {
	if len(l) == 0 {
		return "-"
	}
	return strings.Join(l, ",")
}

// ---------------------------------------------------------------- root / intermediate

// Root wraps a real RootMetricContext whose plan has the given targets.
type Root struct {
	Ctx *querycontext.RootMetricContext
}

// NewRoot builds the real root context and runs its real MakePlan (expectResults /
// tolerantNotFounds are set by addRequests from the plan's targets).
func NewRoot(w *World, q *QueryDef, targets []string) (*Root, error) {
	return NewRootPlans(w, q, [][]string{targets})
}

// NewRootPlans: the real root over several physical plans (real MakePlan: one addRequests per plan).
func NewRootPlans(w *World, q *QueryDef, plans [][]string) (*Root, error) {
	st := q.statement(w)
	deps := &querycontext.RootMetricContextDeps{
		Ctx:         context.Background(),
		Request:     &models.Request{RequestID: "r1", DB: database},
		Database:    database,
		CurrentNode: models.StatelessNode{HostIP: "1.1.1.1", GRPCPort: 9000},
		Statement:   st,
		Choose:      &plainChooser{plans: plans},
	}
	r := querycontext.NewRootMetricContext(deps)
	r.SetTracker(newTracker())
	if err := r.MakePlan(); err != nil {
		return nil, err
	}
	return &Root{Ctx: r}, nil
}

// Result is the canonical form of the root's answer.
type Result struct {
	Err    string                         // "" | "notfound" | "error" | "pending"
	Groups map[string]map[string][]string // tag values -> result field -> "slot=value" sorted by slot
	Order  []string                       // tag values in result order
}

func errKind(msg string) string {
	if msg == "" {
		return ""
	}
	if strings.Contains(msg, "not found") {
		return "notfound"
	}
	return "error"
}

// Finish reads the outcome (WaitResponse of the real root; never blocks: if the context has not
// completed it reports "pending").
func (r *Root) Finish() *Result {
	if _, _, _, _, done := r.Ctx.VerifState(); !done {
		// not completed: WaitResponse would park on doneCh until the context's deadline
		return &Result{Err: "pending"}
	}
	rs, err := r.Ctx.WaitResponse()
	if err != nil {
		return &Result{Err: errKind(err.Error())}
	}
	return resultOf(rs.(*commonmodels.ResultSet))
}

// resultOf canonicalises a result set.
func resultOf(set *commonmodels.ResultSet) *Result {
	out := &Result{Groups: map[string]map[string][]string{}}
	for _, s := range set.Series {
		fm := map[string][]string{}
		for name, pts := range s.Fields {
			var ts []int64
			for t := range pts {
				ts = append(ts, t)
			}
			sort.Slice(ts, func(i, j int) bool { return ts[i] < ts[j] })
			var ps []string
			for _, t := range ts {
				ps = append(ps, fmt.Sprintf("%d=%s", (t-set.StartTime)/set.Interval, fmtVal(pts[t])))
			}
			fm[name] = ps
		}
		out.Groups[s.TagValues] = fm
		out.Order = append(out.Order, s.TagValues)
	}
	return out
}

// ValueScale: every value on the line protocol is the real float times 8 (an integer).
const ValueScale = 8

func fmtVal(v float64) string {
	x := v * ValueScale
	if x == float64(int64(x)) {
		return fmt.Sprintf("%d", int64(x))
	}
	return fmt.Sprintf("%g", x) // not an eighth: the model will reject the line
}

func pointValue(p Point) float64 { return float64(p.Val) / ValueScale }

// Intermediate wraps a real IntermediateMetricContext.
type Intermediate struct {
	Ctx *querycontext.IntermediateMetricContext
}

// NewIntermediate builds a real intermediate context expecting one response from every leaf.
func NewIntermediate(w *World, q *QueryDef, self string, leaves, receivers []string) (*Intermediate, error) {
	st, err := wireCopy(q.statement(w))
	if err != nil {
		return nil, err
	}
	req := &protoCommonV1.TaskRequest{RequestID: "r1", RequestType: protoCommonV1.RequestType_Data}
	plan := &models.PhysicalPlan{Database: database}
	ic := querycontext.NewIntermediateMetricContext(context.Background(), nil, &chooser{targets: leaves}, req,
		models.StatelessNode{HostIP: self, GRPCPort: 9000}, plan, st, receivers)
	ic.SetTracker(newTracker())
	if err := ic.MakePlan(); err != nil {
		return nil, err
	}
	return &Intermediate{Ctx: ic}, nil
}

// Finish returns the intermediate's response to the root (or an error response, as
// TaskHandler.process sends when the processor fails).
func (i *Intermediate) Finish() *protoCommonV1.TaskResponse {
	if _, _, _, _, done := i.Ctx.VerifState(); !done {
		return nil
	}
	rs, err := i.Ctx.WaitResponse()
	if err != nil {
		return &protoCommonV1.TaskResponse{RequestID: "r1", Completed: true, ErrMsg: err.Error()}
	}
	return rs.(*protoCommonV1.TaskResponse)
}

func jsonUnmarshal(b []byte, v any) error { return encoding.JSONUnmarshal(b, v) }
