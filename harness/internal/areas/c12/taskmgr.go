package c12

import (
	"fmt"
	"math/rand"
	"sync/atomic"
	"time"

	protoCommonV1 "github.com/lindb/lindb/proto/gen/v1/common"

	"github.com/lindb/lindb/zzverif/internal/core"
)

// tmCase: a real root context behind lindb's OWN task manager (query.NewTaskManager over a real
// worker pool): AddTask / Receive / RemoveTask in generated orders (model: LinVerif.TaskMgr, ops
// `tm-*`). A response received while the request id is registered is handled by a pool worker
// (`delivered`), one received before AddTask or after RemoveTask is refused with "request may be
// evicted" (`dropped`) and never reaches the context.
//
// Oracle (exec's order: AddTask first, RemoveTask last): no response is refused, and when every
// target has answered successfully the root is complete.

var tmSeq int64

func tmCase(c *core.Ctx, rng *rand.Rand) {
	w := genWorld(rng, simpleTypes, 4)
	q := genQuery(rng, w, false)
	q.NumSlots = 4
	q.OrderBy = nil
	q.Limit = 100
	q.Having = nil
	data, _, err := RunLeafRec(w, q, reference(w).Leaves[0], []string{"root"})
	if err != nil {
		panic(err)
	}
	empty, _, _ := RunLeafRec(w, q, &LeafDef{Name: "e", KnownFields: allFieldIdx(w, nil)}, []string{"root"})
	mgr := realTaskMgr()
	for rep := 0; rep < 2; rep++ {
		n := 1 + rng.Intn(4)
		var from []string
		for i := 0; i < n; i++ {
			from = append(from, fmt.Sprintf("n%d", i))
		}
		root, err := NewRoot(w, q, from)
		if err != nil {
			panic(err)
		}
		reqID := fmt.Sprintf("lvh-tm-%d", atomic.AddInt64(&tmSeq, 1))
		id := 7 + rep
		c.Op(fmt.Sprintf("new %d %d", id, n), stateLine(&root.Ctx.MetricContext))
		// shape: 0 = exec's order; 1 = registration after the first k responses; 2 = removed before the last ones
		shape := 0
		if rep == 1 {
			shape = 1 + rng.Intn(2)
		}
		early, lateFrom := 0, n
		if shape == 1 {
			early = 1 + rng.Intn(n)
		}
		if shape == 2 {
			lateFrom = rng.Intn(n)
		}
		allOK := true
		refused := 0
		wait := 4 * time.Second // a pool worker handles an accepted response within microseconds; generous under load
		recv := func(i int) {
			var r protoCommonV1.TaskResponse
			switch x := rng.Intn(10); {
			case x < 6:
				r = *data[0]
			case x < 8:
				r = *empty[0]
			case x < 9:
				r = protoCommonV1.TaskResponse{Completed: true, ErrMsg: "metric not found, metric: cpu"}
				allOK = false
			default:
				r = protoCommonV1.TaskResponse{Completed: true, ErrMsg: "timeout"}
				allOK = false
			}
			r.RequestID = reqID
			before, _, _, _, _ := root.Ctx.VerifState()
			err := mgr.Receive(&r, from[i])
			verdict := "delivered"
			if err != nil {
				verdict = "dropped"
				refused++
			} else {
				// handled by a pool worker: wait until handleResponse has run (it always counts the response)
				handled := false
				for end := time.Now().Add(wait); time.Now().Before(end); {
					if now, _, _, _, _ := root.Ctx.VerifState(); now != before {
						handled = true
						break
					}
					time.Sleep(100 * time.Microsecond)
				}
				if !handled {
					wait = 200 * time.Millisecond // accepted by Receive and never handled: do not sit out every later one
					noteTimeoutCase()
				}
			}
			c.Op(fmt.Sprintf("tm-recv %d %s", id, encodeResp(&r)), verdict+" "+stateLine(&root.Ctx.MetricContext))
		}
		i := 0
		for ; i < early; i++ {
			recv(i)
		}
		mgr.AddTask(reqID, root.Ctx)
		c.Op(fmt.Sprintf("tm-add %d", id), "ok")
		for ; i < n && i < lateFrom; i++ {
			recv(i)
		}
		mgr.RemoveTask(reqID)
		c.Op(fmt.Sprintf("tm-remove %d", id), "ok")
		for ; i < n; i++ {
			recv(i)
		}
		_, _, _, _, done := root.Ctx.VerifState()
		if shape == 0 {
			if refused > 0 {
				c.Fail("registered-response-refused", fmt.Sprintf("%d targets, context registered before the first response and removed after the last: %d responses refused by TaskManager.Receive", n, refused))
			}
			if allOK && !done {
				c.Fail("all-targets-answered-root-not-complete", fmt.Sprintf("%d targets answered successfully through the task manager, the root context is not complete: %s", n, stateLine(&root.Ctx.MetricContext)))
			}
		}
		c.Branch(fmt.Sprintf("taskmgr-shape-%d", shape))
	}
	c.NonTrivial()
}
