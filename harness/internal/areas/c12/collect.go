package c12

import (
	"context"
	"encoding/binary"
	"fmt"
	"math/rand"
	"sort"
	"strings"
	"sync"
	"time"

	"github.com/lindb/lindb/flow"
	"github.com/lindb/lindb/internal/verifhook"
	"github.com/lindb/lindb/models"
	protoCommonV1 "github.com/lindb/lindb/proto/gen/v1/common"
	querycontext "github.com/lindb/lindb/query/context"
	"github.com/lindb/lindb/query/operator"
	"github.com/lindb/lindb/query/tracker"
	"github.com/lindb/lindb/series/field"
	"github.com/lindb/lindb/series/metric"
	"github.com/lindb/lindb/series/tag"

	"github.com/lindb/lindb/zzverif/internal/core"
)

// The leaf's grouping-collect protocol, event by event, on the REAL LeafExecuteContext /
// LeafGroupingContext / StorageExecuteContext (model: LinVerif.LeafCollect, ops `lc-*`).
//
//   lc-fork      LeafGroupingContext.ForkGroupingTask            (a scan / grouping stage is created)
//   lc-ids       flow.DataLoadContext.NewSeriesAggregator(key)   (a group is built: its tag value ids
//                                                                 are collected)
//   lc-complete  LeafGroupingContext.CompleteGroupingTask        (a stage completes; the last one runs
//                                                                 collectGroupByTagValues against the
//                                                                 node's dictionary, which may fail)
//   lc-send      LeafExecuteContext.SendResponse(nil)            (the pipeline's completion callback)
//   lc-tr        LeafGroupingContext.getTagValues                (BuildResultSet renders a group key)
//
// Oracle: a leaf whose events follow the pipeline's discipline (ids only while a task is pending,
// completions matched by forks, the callback when nothing is pending) answers at once — never with
// its task deadline — and renders every collected id the dictionary knows.

type lcEvent struct {
	kind string // fork ids complete send tr
	ids  []uint32
	fail int // complete: failing key index, -1 none
}

type lcLeaf struct {
	cancel context.CancelFunc // cancels the leaf's task context (stands in for its deadline in free event lists)
	lctx   *querycontext.LeafExecuteContext
	mdb  *metaDB
	fct  *capFactory
	k    int
	dl   *flow.DataLoadContext
	recv string
}

func newLcLeaf(k int, holes map[[2]uint32]bool, deadline time.Duration) (*lcLeaf, error) {
	w := &World{Fields: []FieldDef{{Name: "f1", Type: field.SumField}}}
	q := &QueryDef{Selects: []SelectDef{{Field: "f1"}}, NumSlots: 4, Limit: 100}
	for i := 0; i < k; i++ {
		w.TagKeys = append(w.TagKeys, fmt.Sprintf("k%d", i))
		q.GroupBy = append(q.GroupBy, i)
	}
	st, err := wireCopy(q.statement(w))
	if err != nil {
		return nil, err
	}
	schema := &metric.Schema{Fields: field.Metas{{Name: "f1", Type: field.SumField, ID: 1}}}
	for i, key := range w.TagKeys {
		schema.TagKeys = append(schema.TagKeys, tag.Meta{Key: key, ID: tag.KeyID(10 + i)})
	}
	mdb := &metaDB{schema: schema}
	mdb.dict = func(keyID tag.KeyID) map[uint32]string {
		// the dictionary knows every id 1..12 except the holes
		ki := uint32(keyID) - 10
		d := map[uint32]string{}
		for id := uint32(1); id <= 12; id++ {
			if !holes[[2]uint32{ki, id}] {
				d[id] = fmt.Sprintf("v%d", id)
			}
		}
		return d
	}
	db := &stubDB{meta: mdb}
	fct := &capFactory{streams: map[string]*capStream{}}
	parent, cancel := context.WithCancel(context.Background())
	taskCtx := flow.NewTaskContextWithTimeout(parent, deadline)
	req := &protoCommonV1.TaskRequest{RequestID: "lc", RequestType: protoCommonV1.RequestType_Data}
	l := &lcLeaf{cancel: cancel, mdb: mdb, fct: fct, k: k, recv: "root"}
	l.lctx = querycontext.NewLeafExecuteContext(taskCtx, tracker.NewStageTracker(taskCtx), st, req, fct,
		&models.Target{Indicator: "leaf"}, []string{l.recv}, db)
	if err := operator.NewMetadataLookup(l.lctx.StorageExecuteCtx, db).Execute(); err != nil {
		return nil, err
	}
	shardCtx := flow.NewShardExecuteContext(l.lctx.StorageExecuteCtx)
	l.dl = &flow.DataLoadContext{ShardExecuteCtx: shardCtx, IsMultiField: false, IsGrouping: k > 0}
	return l, nil
}

func lcKey(ids []uint32) string {
	key := make([]byte, 4*len(ids))
	for i, id := range ids {
		binary.LittleEndian.PutUint32(key[4*i:], id)
	}
	return string(key)
}

func (l *lcLeaf) state() string {
	pend, rem, closed, maps := l.lctx.GroupingCtx.VerifCollectState()
	ans := "-"
	if s := l.fct.streams[l.recv]; s != nil && len(s.got) > 0 {
		r := s.got[0]
		switch {
		case r.ErrMsg == "":
			ans = "ok"
		case strings.Contains(r.ErrMsg, "deadline"), strings.Contains(r.ErrMsg, "context canceled"):
			ans = "deadline"
		default:
			ans = "cerr"
		}
		if len(s.got) > 1 {
			ans += fmt.Sprintf("x%d", len(s.got))
		}
	}
	showNats := func(v []uint32) string {
		if len(v) == 0 {
			return "-"
		}
		sort.Slice(v, func(i, j int) bool { return v[i] < v[j] })
		var p []string
		for _, x := range v {
			p = append(p, fmt.Sprint(x))
		}
		return strings.Join(p, ".")
	}
	var ids, ms []string
	for _, bm := range l.lctx.StorageExecuteCtx.GroupingTagValueIDs {
		if bm == nil {
			ids = append(ids, "-")
		} else {
			ids = append(ids, showNats(bm.ToArray()))
		}
	}
	for _, m := range maps {
		if m == nil {
			ms = append(ms, "nil")
		} else {
			ms = append(ms, showNats(m))
		}
	}
	c := 0
	if closed {
		c = 1
	}
	return fmt.Sprintf("pend=%d rem=%d closed=%d ans=%s ids=%s maps=%s", pend, rem, c, ans, joinOr(ids, ";"), joinOr(ms, ";"))
}

func joinOr(l []string, sep string) string {
	if len(l) == 0 {
		return "-"
	}
	return strings.Join(l, sep)
}

func natList(ids []uint32) string {
	var p []string
	for _, x := range ids {
		p = append(p, fmt.Sprint(x))
	}
	return joinOr(p, ",")
}

// runLcEvents applies the events to a real leaf; disciplined = the list follows the pipeline's discipline.
func runLcEvents(c *core.Ctx, k int, holes map[[2]uint32]bool, evs []lcEvent, disciplined bool, what string) {
	// the task context's deadline is never near: in a free event list a send that is going to sit in
	// the select (ids collected, channel not closed — read off the real state) is ended by cancelling
	// the context after 30 ms, so no send races with a deadline
	deadline := leafTimeout
	var hs []string
	for h := range holes {
		hs = append(hs, fmt.Sprintf("%d:%d", h[0], h[1]))
	}
	sort.Strings(hs)
	l, err := newLcLeaf(k, holes, deadline)
	if err != nil {
		c.Fail("harness", "collect stream: "+err.Error())
		return
	}
	defer l.cancel()
	c.Op(fmt.Sprintf("lc-new %d %s", k, joinOr(hs, ",")), l.state())
	collected := make([]map[uint32]bool, k)
	for i := range collected {
		collected[i] = map[uint32]bool{}
	}
	sent := false
	for _, e := range evs {
		switch e.kind {
		case "fork":
			c.Guard("lc-fork", func() string { l.lctx.GroupingCtx.ForkGroupingTask(); return l.state() })
		case "ids":
			c.Guard("lc-ids "+natList(e.ids), func() string {
				l.dl.NewSeriesAggregator(lcKey(e.ids))
				return l.state()
			})
			for i, id := range e.ids {
				collected[i][id] = true
			}
		case "complete":
			f := "-"
			l.mdb.failKey = 0
			if e.fail >= 0 {
				f = fmt.Sprint(e.fail)
				l.mdb.failKey = tag.KeyID(10 + e.fail)
			}
			c.Guard("lc-complete "+f, func() string { l.lctx.GroupingCtx.CompleteGroupingTask(); return l.state() })
			l.mdb.failKey = 0
		case "send":
			if !disciplined {
				if st := l.state(); strings.Contains(st, "closed=0") && strings.Contains(st, "ans=-") && l.lctx.StorageExecuteCtx.HasGroupingTagValueIDs() {
					go func() { time.Sleep(30 * time.Millisecond); l.cancel() }()
				}
			}
			t0 := time.Now()
			var line string
			c.Guard("lc-send", func() string { l.lctx.SendResponse(nil); line = l.state(); return line })
			if disciplined && !sent {
				sent = true
				took := time.Since(t0)
				if strings.Contains(line, "ans=deadline") || took >= deadline*3/4 {
					c.Fail("leaf-blocks-until-deadline", fmt.Sprintf("%s: %d group-by keys, events %s: SendResponse(nil) answered after %s (task deadline %s): %s",
						what, k, describeLc(evs), took.Round(10*time.Millisecond), deadline, line))
				}
			}
		case "tr":
			var out string
			c.Guard("lc-tr "+natList(e.ids), func() string {
				vals := strings.Split(l.lctx.GroupingCtx.VerifTagValues(lcKey(e.ids)), ",")
				var p []string
				for i, v := range vals {
					if i < len(e.ids) && v == fmt.Sprintf("v%d", e.ids[i]) {
						p = append(p, fmt.Sprint(e.ids[i]))
					} else {
						p = append(p, "nf")
					}
				}
				out = strings.Join(p, ",")
				return out
			})
			if disciplined && sent && strings.Contains(l.state(), "ans=ok") {
				// every id some shard collected and the dictionary knows must be rendered
				for i, id := range e.ids {
					if collected[i][id] && !holes[[2]uint32{uint32(i), id}] && strings.Split(out, ",")[i] == "nf" {
						c.Fail("collected-tag-value-rendered-as-not-found", fmt.Sprintf("%s: %d keys, events %s: key %s is rendered %q although id %d of key %d was collected and is in the node's dictionary",
							what, k, describeLc(evs), natList(e.ids), out, id, i))
					}
				}
			}
		}
	}
}

func describeLc(evs []lcEvent) string {
	var p []string
	for _, e := range evs {
		switch e.kind {
		case "ids", "tr":
			p = append(p, e.kind+":"+natList(e.ids))
		case "complete":
			if e.fail >= 0 {
				p = append(p, fmt.Sprintf("complete!%d", e.fail))
			} else {
				p = append(p, "complete")
			}
		default:
			p = append(p, e.kind)
		}
	}
	return clip(strings.Join(p, " "))
}

// genLcDisciplined draws an execution the leaf pipeline can produce: `shards` scan stages forked up
// front, each completes after optionally forking grouping stages that collect ids; completions in
// any interleaving; then the callback and the rendering of some keys.
func genLcDisciplined(rng *rand.Rand, k int, allowFail bool) []lcEvent {
	var evs []lcEvent
	shards := rng.Intn(4) // 0 = no local shard of the plan
	type task struct{ kind int } // 0 scan, 1 grouping
	var open []task
	var keys [][]uint32
	for s := 0; s < shards; s++ {
		evs = append(evs, lcEvent{kind: "fork"})
		open = append(open, task{0})
	}
	// sometimes the first stage completes before the others are created (pending reaches 0 early)
	early := shards > 0 && rng.Intn(3) == 0
	if early {
		evs = append(evs[:1], append([]lcEvent{{kind: "complete", fail: -1}}, evs[1:]...)...)
		open = open[1:]
	}
	for len(open) > 0 {
		i := rng.Intn(len(open))
		t := open[i]
		if t.kind == 0 && rng.Intn(2) == 0 {
			// the scan stage found series: a grouping stage is created before the scan completes
			evs = append(evs, lcEvent{kind: "fork"})
			open = append(open, task{1})
		}
		if t.kind == 1 && k > 0 {
			for g := rng.Intn(3); g > 0; g-- {
				ids := make([]uint32, k)
				for j := range ids {
					ids[j] = uint32(1 + rng.Intn(8))
				}
				keys = append(keys, ids)
				evs = append(evs, lcEvent{kind: "ids", ids: ids})
			}
		}
		fail := -1
		if allowFail && k > 0 && rng.Intn(6) == 0 {
			fail = rng.Intn(k)
		}
		evs = append(evs, lcEvent{kind: "complete", fail: fail})
		open = append(open[:i], open[i+1:]...)
	}
	evs = append(evs, lcEvent{kind: "send"})
	if k > 0 {
		for _, key := range keys {
			if rng.Intn(2) == 0 {
				evs = append(evs, lcEvent{kind: "tr", ids: key})
			}
		}
		if len(keys) > 0 && rng.Intn(2) == 0 {
			// the same key again (memo), and a key mixing ids of two groups
			evs = append(evs, lcEvent{kind: "tr", ids: keys[0]})
			mix := append([]uint32(nil), keys[0]...)
			mix[0] = keys[len(keys)-1][0]
			evs = append(evs, lcEvent{kind: "tr", ids: mix})
		}
		if rng.Intn(3) == 0 {
			unk := make([]uint32, k)
			for j := range unk {
				unk[j] = uint32(9 + rng.Intn(3)) // never collected
			}
			evs = append(evs, lcEvent{kind: "tr", ids: unk})
		}
	}
	return evs
}

// genLcFree draws any event list (correspondence only): completions without forks, ids with nothing
// pending, keys rendered before the collect, the callback while tasks are pending.
func genLcFree(rng *rand.Rand, k int) []lcEvent {
	var evs []lcEvent
	n := 2 + rng.Intn(8)
	sends := 0
	for i := 0; i < n; i++ {
		switch x := rng.Intn(10); {
		case x < 3:
			evs = append(evs, lcEvent{kind: "fork"})
		case x < 6:
			fail := -1
			if k > 0 && rng.Intn(5) == 0 {
				fail = rng.Intn(k)
			}
			evs = append(evs, lcEvent{kind: "complete", fail: fail})
		case x < 8 && k > 0:
			ids := make([]uint32, k)
			for j := range ids {
				ids[j] = uint32(1 + rng.Intn(5))
			}
			evs = append(evs, lcEvent{kind: "ids", ids: ids})
		case x < 9 && k > 0:
			ids := make([]uint32, k)
			for j := range ids {
				ids[j] = uint32(1 + rng.Intn(5))
			}
			evs = append(evs, lcEvent{kind: "tr", ids: ids})
		default:
			if sends < 2 {
				sends++
				evs = append(evs, lcEvent{kind: "send"})
			}
		}
	}
	return evs
}

func genHoles(rng *rand.Rand, k int) map[[2]uint32]bool {
	holes := map[[2]uint32]bool{}
	if k > 0 && rng.Intn(3) == 0 {
		for n := 1 + rng.Intn(2); n > 0; n-- {
			holes[[2]uint32{uint32(rng.Intn(k)), uint32(1 + rng.Intn(8))}] = true
		}
	}
	return holes
}

// collectCase: several disciplined executions (oracle + correspondence) and one free event list.
func collectCase(c *core.Ctx, rng *rand.Rand) {
	for n := 0; n < 4; n++ {
		k := rng.Intn(4)
		runLcEvents(c, k, genHoles(rng, k), genLcDisciplined(rng, k, n == 3), true, "generated execution")
		c.Branch(fmt.Sprintf("collect-keys-%d", k))
	}
	k := rng.Intn(3)
	runLcEvents(c, k, genHoles(rng, k), genLcFree(rng, k), false, "free event list")
	c.Branch("collect-free")
	c.NonTrivial()
}

// fixedIdleLeaf (fixed case): the leaves C12's statement names — a target node of a GROUP BY query
// without any local shard of the plan (no stage is ever created), one whose only shard holds nothing,
// and one where an empty shard completes before the shard with the data is even created.
func fixedIdleLeaf(c *core.Ctx) {
	for k := 0; k <= 3; k++ {
		runLcEvents(c, k, nil, []lcEvent{{kind: "send"}}, true, "target node without a local shard")
		runLcEvents(c, k, nil, []lcEvent{{kind: "fork"}, {kind: "complete", fail: -1}, {kind: "send"}}, true, "node whose only shard holds no matching series")
		if k > 0 {
			a := make([]uint32, k)
			b := make([]uint32, k)
			for i := range a {
				a[i], b[i] = uint32(1+i), uint32(5+i)
			}
			runLcEvents(c, k, nil, []lcEvent{{kind: "fork"}, {kind: "complete", fail: -1}, {kind: "fork"}, {kind: "fork"}, {kind: "complete", fail: -1},
				{kind: "ids", ids: a}, {kind: "ids", ids: b}, {kind: "complete", fail: -1}, {kind: "send"}, {kind: "tr", ids: a}, {kind: "tr", ids: b}}, true,
				"an empty shard completes (and closes the channel) before the shard with the data collects its ids")
		}
	}
	c.Branch("collect-fixed")
	c.NonTrivial()
}

// ---------------------------------------------------------------- the protocol step by atomic step
//
// interleaveCase realises, on the real code, interleavings of the ATOMIC steps of stage completions
// (model: LinVerif.LeafCollect.GI, ops `li-*`): CompleteGroupingTask = Dec | Load (the guard of
// collectGroupByTagValues) | body (under StorageExecuteContext.CollectTagValues). Each completion
// runs on its own goroutine, parked by a deterministic scheduler at the two verif yield points
// (query.leafgrouping.complete.afterDec, query.leafgrouping.collect.afterLoad); other stages' forks,
// id collections and completion steps are placed between them. One goroutine runs at a time.

type liThread struct {
	resume chan struct{}
	parked chan string
	done   chan struct{}
	at     string // "" running / finished, else the yield id it is parked at
}

type liSched struct {
	mu  sync.Mutex
	cur *liThread
}

func (s *liSched) hook(id string) {
	if !strings.HasPrefix(id, "query.leafgrouping.") {
		return
	}
	s.mu.Lock()
	t := s.cur
	s.mu.Unlock()
	if t == nil {
		return
	}
	t.parked <- id
	<-t.resume
}

// run lets t run (start it with f if it is new) until it parks again or finishes.
func (s *liSched) run(t *liThread, f func()) bool {
	s.mu.Lock()
	s.cur = t
	s.mu.Unlock()
	if f != nil {
		go func() {
			defer close(t.done)
			defer func() { _ = recover() }()
			f()
		}()
	} else {
		t.resume <- struct{}{}
	}
	ok := true
	select {
	case id := <-t.parked:
		t.at = id
	case <-t.done:
		t.at = ""
	case <-time.After(5 * time.Second):
		ok = false
	}
	s.mu.Lock()
	s.cur = nil
	s.mu.Unlock()
	return ok
}

func interleaveCase(c *core.Ctx, rng *rand.Rand) {
	sch := &liSched{}
	verifhook.Set(sch.hook)
	defer verifhook.Set(nil)
	for rep := 0; rep < 3; rep++ {
		k := 1 + rng.Intn(3)
		holes := genHoles(rng, k)
		var hs []string
		for h := range holes {
			hs = append(hs, fmt.Sprintf("%d:%d", h[0], h[1]))
		}
		sort.Strings(hs)
		l, err := newLcLeaf(k, holes, leafTimeout)
		if err != nil {
			c.Fail("harness", "interleave stream: "+err.Error())
			return
		}
		defer l.cancel()
		var afterDec, afterLoad []*liThread
		state := func() string {
			return fmt.Sprintf("%s ndec=%d nload0=%d", l.state(), len(afterDec), len(afterLoad))
		}
		c.Op(fmt.Sprintf("li-new %d %s", k, joinOr(hs, ",")), state())
		running, spawned := 0, 0
		collected := make([]map[uint32]bool, k)
		for i := range collected {
			collected[i] = map[uint32]bool{}
		}
		var trace []string
		stuck := false
		for step := 0; step < 60 && !stuck; step++ {
			// the steps some thread can take now
			var opts []string
			if spawned < 4 {
				opts = append(opts, "spawn")
			}
			if running > 0 {
				opts = append(opts, "ids", "dec", "dec")
			}
			if len(afterDec) > 0 {
				opts = append(opts, "load", "load")
			}
			if len(afterLoad) > 0 {
				opts = append(opts, "body", "body")
			}
			if running == 0 && len(afterDec) == 0 && len(afterLoad) == 0 && (spawned >= 1 || rng.Intn(4) == 0) {
				if spawned >= 4 || rng.Intn(2) == 0 {
					break
				}
			}
			if len(opts) == 0 {
				break
			}
			switch o := opts[rng.Intn(len(opts))]; o {
			case "spawn":
				spawned++
				running++
				trace = append(trace, "spawn")
				c.Guard("li-spawn", func() string { l.lctx.GroupingCtx.ForkGroupingTask(); return state() })
			case "ids":
				ids := make([]uint32, k)
				for j := range ids {
					ids[j] = uint32(1 + rng.Intn(8))
					collected[j][ids[j]] = true
				}
				trace = append(trace, "ids:"+natList(ids))
				c.Guard("li-ids "+natList(ids), func() string { l.dl.NewSeriesAggregator(lcKey(ids)); return state() })
			case "dec":
				running--
				t := &liThread{resume: make(chan struct{}), parked: make(chan string), done: make(chan struct{})}
				trace = append(trace, "dec")
				if !sch.run(t, func() { l.lctx.GroupingCtx.CompleteGroupingTask() }) || t.at != "query.leafgrouping.complete.afterDec" {
					c.Fail("harness", "interleave stream: a completion did not reach the yield point after Dec (at "+t.at+")")
					stuck = true
					break
				}
				afterDec = append(afterDec, t)
				c.Op("li-dec", state())
			case "load":
				i := rng.Intn(len(afterDec))
				t := afterDec[i]
				afterDec = append(afterDec[:i], afterDec[i+1:]...)
				trace = append(trace, "load")
				if !sch.run(t, nil) {
					c.Fail("harness", "interleave stream: a completion is stuck after its Load")
					stuck = true
					break
				}
				if t.at == "query.leafgrouping.collect.afterLoad" {
					afterLoad = append(afterLoad, t)
				}
				c.Op("li-load", state())
			case "body":
				i := rng.Intn(len(afterLoad))
				t := afterLoad[i]
				afterLoad = append(afterLoad[:i], afterLoad[i+1:]...)
				f := "-"
				l.mdb.failKey = 0
				if rng.Intn(8) == 0 {
					fk := rng.Intn(k)
					f = fmt.Sprint(fk)
					l.mdb.failKey = tag.KeyID(10 + fk)
				}
				trace = append(trace, "body"+map[bool]string{true: "", false: "!" + f}[f == "-"])
				if !sch.run(t, nil) || t.at != "" {
					c.Fail("harness", "interleave stream: a collect body did not finish")
					stuck = true
					break
				}
				l.mdb.failKey = 0
				c.Op("li-body "+f, state())
			}
		}
		if stuck {
			return
		}
		// drain: every stage completes, then the callback
		for running > 0 || len(afterDec) > 0 || len(afterLoad) > 0 {
			switch {
			case len(afterLoad) > 0:
				t := afterLoad[0]
				afterLoad = afterLoad[1:]
				trace = append(trace, "body")
				if !sch.run(t, nil) {
					c.Fail("harness", "interleave stream: a collect body did not finish")
					return
				}
				c.Op("li-body -", state())
			case len(afterDec) > 0:
				t := afterDec[0]
				afterDec = afterDec[1:]
				trace = append(trace, "load")
				if !sch.run(t, nil) {
					c.Fail("harness", "interleave stream: a completion is stuck after its Load")
					return
				}
				if t.at == "query.leafgrouping.collect.afterLoad" {
					afterLoad = append(afterLoad, t)
				}
				c.Op("li-load", state())
			default:
				running--
				t := &liThread{resume: make(chan struct{}), parked: make(chan string), done: make(chan struct{})}
				trace = append(trace, "dec")
				if !sch.run(t, func() { l.lctx.GroupingCtx.CompleteGroupingTask() }) {
					c.Fail("harness", "interleave stream: a completion did not reach the yield point after Dec")
					return
				}
				if t.at == "query.leafgrouping.complete.afterDec" {
					afterDec = append(afterDec, t)
				}
				c.Op("li-dec", state())
			}
		}
		t0 := time.Now()
		var line string
		c.Guard("li-send", func() string { l.lctx.SendResponse(nil); line = state(); return line })
		if took := time.Since(t0); strings.Contains(line, "ans=deadline") || took >= leafTimeout*3/4 {
			c.Fail("leaf-blocks-until-deadline", fmt.Sprintf("interleaving of atomic completion steps, %d group-by keys: %s: SendResponse(nil) answered after %s: %s",
				k, clip(strings.Join(trace, " ")), took.Round(10*time.Millisecond), line))
		} else if strings.Contains(line, "ans=ok") {
			// every collected id the dictionary knows is in the collected maps
			_, _, _, maps := l.lctx.GroupingCtx.VerifCollectState()
			for i := range collected {
				have := map[uint32]bool{}
				if i < len(maps) {
					for _, id := range maps[i] {
						have[id] = true
					}
				}
				for id := range collected[i] {
					if !holes[[2]uint32{uint32(i), id}] && !have[id] {
						c.Fail("collected-tag-value-rendered-as-not-found", fmt.Sprintf("interleaving of atomic completion steps, %d keys: %s: id %d of key %d was collected and is in the dictionary, but the leaf answers without it in tagValuesMap (%s)",
							k, clip(strings.Join(trace, " ")), id, i, line))
					}
				}
			}
		}
		c.Branch("collect-interleaved")
	}
	c.NonTrivial()
}
