package c17

import (
	"fmt"
	"math"
	"math/big"
	"math/rand"
	"strconv"
	"strings"
	"sync"

	"github.com/lindb/lindb/sql/stmt"

	"github.com/lindb/lindb/zzverif/internal/core"
)

// Round 8: decode histories on one worker (decode must be a function of the payload alone),
// decoding into an existing receiver, boundary number literals, and the parser glue
// (parseDuration / visitLimit / the where-condition stack machine) against the model.

// ---- decode histories -----------------------------------------------------------------------

// sparseQuery: a statement whose payload carries almost nothing (every field of innerQuery is
// omitempty) — whatever a not-cleared scratch value still holds would show through.
func sparseQuery(r *rand.Rand) *stmt.Query {
	q := &stmt.Query{MetricName: plainIdents[r.Intn(len(plainIdents))]}
	switch r.Intn(4) {
	case 0:
		q.AllFields = true
	case 1:
		q.SelectItems = []stmt.Expr{&stmt.SelectItem{Expr: &stmt.FieldExpr{Name: "f"}}}
	case 2:
		q.Limit = 1 + r.Intn(50)
	}
	return q
}

// richQuery: every field set, slices with several elements.
func richQuery(r *rand.Rand) *stmt.Query {
	for {
		q := randQuery(r, 1+r.Intn(2))
		q.Explain = true
		q.AllFields = true
		q.AutoGroupByTime = true
		q.Namespace = "ns" + fmt.Sprint(r.Intn(100))
		q.GroupBy = []string{"host", "zone", fmt.Sprintf("k%d", r.Intn(100))}
		q.IntervalRatio = 1 + r.Intn(9)
		q.Limit = 1 + r.Intn(1000)
		q.Condition = &stmt.BinaryExpr{Left: &stmt.EqualsExpr{Key: "host", Value: fmt.Sprint(r.Intn(100))}, Operator: stmt.AND,
			Right: &stmt.InExpr{Key: "zone", Values: []string{"a", "b"}}}
		q.Having = &stmt.BinaryExpr{Left: &stmt.FieldExpr{Name: "f"}, Operator: stmt.GREATER, Right: &stmt.NumberLiteral{Val: float64(r.Intn(100))}}
		q.SelectItems = append(q.SelectItems, &stmt.SelectItem{Expr: &stmt.CallExpr{FuncType: 1, Params: []stmt.Expr{&stmt.FieldExpr{Name: "f"}}}, Alias: "s"})
		q.OrderByItems = append(q.OrderByItems, &stmt.OrderByExpr{Expr: &stmt.FieldExpr{Name: "f"}, Desc: true})
		if queryWellFormed(q) {
			return q
		}
	}
}

func decodeQuery(data []byte) (q *stmt.Query, res string) {
	defer func() {
		if rec := recover(); rec != nil {
			q, res = nil, fmt.Sprintf("panic: %v", rec)
		}
	}()
	var back stmt.Query
	if err := back.UnmarshalJSON(data); err != nil {
		return nil, errKind(err)
	}
	return &back, "ok " + queryDump(&back)
}

// caseWorker: a request history on one worker. Every payload is first decoded on its own
// (`solo`); then the payloads are decoded one after the other on this goroutine in several orders
// and concurrently: each decode must give exactly the solo result (key decode-depends-on-history),
// and rewriting one decoded statement in place must not change another (decoded-statements-share-memory).
func caseWorker(c *core.Ctx, r *rand.Rand) {
	c.Branch("worker-history")
	n := 3 + r.Intn(4)
	var payloads [][]byte
	var solo []string
	var tokens []string
	for k := 0; k < n; k++ {
		var q *stmt.Query
		switch {
		case k%2 == 1 || r.Intn(4) == 0:
			q = sparseQuery(r)
		case r.Intn(3) == 0:
			g := &sqlGen{r: r}
			if st, err := parse(c, g.query(2)); err == nil {
				if qq, ok := st.(*stmt.Query); ok && g.absTime && queryWellFormed(qq) {
					q = qq
				}
			}
			if q == nil {
				q = richQuery(r)
			}
		default:
			q = richQuery(r)
		}
		data, _ := q.MarshalJSON()
		j, err := parseWire(data)
		if err != nil {
			c.Fail("marshal-invalid-json", err.Error())
			return
		}
		payloads = append(payloads, data)
		tokens = append(tokens, j.String())
		_, res := decodeQuery(data)
		solo = append(solo, res)
	}
	// the history, in order: also what the model's worker is asked
	var results []string
	var decoded []*stmt.Query
	for k, p := range payloads {
		q, res := decodeQuery(p)
		results = append(results, res)
		decoded = append(decoded, q)
		if res != solo[k] {
			c.Fail("decode-depends-on-history", fmt.Sprintf("request %d of a history of %d on one worker decodes to a statement different from the one the same payload gives on its own: alone %s, after the history %s", k, n, clip(solo[k]), clip(res)))
		}
	}
	c.Op(fmt.Sprintf("wseq %d %s", n, strings.Join(tokens, " ")), strings.Join(results, " ; "))
	c.NonTrivial()
	// other orders
	order := r.Perm(n)
	for rep := 0; rep < 2; rep++ {
		for _, k := range order {
			if _, res := decodeQuery(payloads[k]); res != solo[k] {
				c.Fail("decode-depends-on-history", fmt.Sprintf("payload %d decoded after other requests differs from decoding it alone: alone %s, now %s", k, clip(solo[k]), clip(res)))
			}
		}
		for i, j := 0, len(order)-1; i < j; i, j = i+1, j-1 {
			order[i], order[j] = order[j], order[i]
		}
	}
	// decoded statements own their memory: rewrite each in place, the others must not move
	for k, q := range decoded {
		if q == nil {
			continue
		}
		safe(c, "scramble", func() { scramble(q) })
		for m, o := range decoded {
			if m == k || o == nil || m < k { // the ones before k are already rewritten
				continue
			}
			if d := "ok " + queryDump(o); d != solo[m] {
				c.Fail("decoded-statements-share-memory", fmt.Sprintf("rewriting the statement decoded for request %d changed the statement decoded for request %d (was %s, now %s)", k, m, clip(solo[m]), clip(d)))
			}
		}
		if _, res := decodeQuery(payloads[(k+1)%n]); res != solo[(k+1)%n] {
			c.Fail("decoded-statements-share-memory", fmt.Sprintf("after rewriting a decoded statement in place, decoding payload %d gives %s instead of %s", (k+1)%n, clip(res), clip(solo[(k+1)%n])))
		}
	}
	// concurrent requests on the leaf
	var wg sync.WaitGroup
	var mu sync.Mutex
	bad := ""
	for w := 0; w < 4; w++ {
		wg.Add(1)
		go func(w int) {
			defer wg.Done()
			for rep := 0; rep < 6; rep++ {
				for k := range payloads {
					i := (k*(w+1) + rep) % n
					q, res := decodeQuery(payloads[i])
					if res != solo[i] {
						mu.Lock()
						bad = fmt.Sprintf("payload %d: alone %s, concurrently %s", i, clip(solo[i]), clip(res))
						mu.Unlock()
					}
					if q != nil {
						func() {
							defer func() { _ = recover() }()
							scramble(q)
						}()
					}
				}
			}
		}(w)
	}
	wg.Wait()
	if bad != "" {
		c.Fail("decode-depends-on-history", "concurrent requests on one node: "+bad)
	}
	// decoding into a receiver that was used before (NOT what the processors do; correspondence
	// with the model's unmarshalQueryInto only)
	if n >= 2 {
		i, j := r.Intn(n), r.Intn(n)
		recv, _ := decodeQuery(payloads[i])
		if recv != nil {
			d := queryDump(recv)
			res := ""
			if safe(c, "Query.UnmarshalJSON", func() {
				if err := recv.UnmarshalJSON(payloads[j]); err != nil {
					res = errKind(err)
				} else {
					res = "ok " + queryDump(recv)
				}
			}) {
				c.Branch("decode-into-used-receiver")
				c.Op("qinto "+d+" "+tokens[j], res)
			}
		}
	}
	// the same for metadata statements (oracle only)
	var mp [][]byte
	var msolo []string
	for k := 0; k < 4; k++ {
		m := randMeta(r, 1)
		if k%2 == 1 {
			m = &stmt.MetricMetadata{MetricName: "cpu", Type: stmt.MetricMetadataType(1 + r.Intn(5))}
		} else if m.Condition != nil && !wellFormed(m.Condition) {
			m.Condition = &stmt.EqualsExpr{Key: "host", Value: "a"}
		}
		data, _ := m.MarshalJSON()
		mp = append(mp, data)
		var back stmt.MetricMetadata
		if err := back.UnmarshalJSON(data); err != nil {
			msolo = append(msolo, errKind(err))
		} else {
			msolo = append(msolo, "ok "+metaDump(&back))
		}
	}
	for rep := 0; rep < 2; rep++ {
		for k := len(mp) - 1; k >= 0; k-- {
			var back stmt.MetricMetadata
			res := ""
			if err := back.UnmarshalJSON(mp[k]); err != nil {
				res = errKind(err)
			} else {
				res = "ok " + metaDump(&back)
			}
			if res != msolo[k] {
				c.Fail("decode-depends-on-history", fmt.Sprintf("metadata payload %d decoded after other requests differs: alone %s, now %s", k, clip(msolo[k]), clip(res)))
			}
		}
	}
}

// ---- boundary number literals ---------------------------------------------------------------

var boundaryFloats = []float64{
	0.1, 0.2, 0.1 + 0.2, 0.9999999, 0.99999999999, 1e-6, 1e-7, 4e-7, 4.9e-7, 5e-7, 0.000001234567, 12345.6789012, 3.1415926535, math.Pi, math.E,
	2.718281828459045, 1e6 + 0.000001, 8.4e7 + 0.0000001, 3.0000000000000004, -1.5e-10, 1e100, 1e-100, 1e20, 1e21, 1e22, 123456789012345680000,
	9007199254740992, 9007199254740993, 9007199254740994, 9223372036854775807, 9223372036854775808, 9223372036854774784, -9223372036854775808,
	18446744073709551615, 4294967296.5, 5e-324, 2.2250738585072014e-308, 2.225073858507201e-308, 1.7976931348623157e308, -1.7976931348623157e308,
	math.Copysign(0, -1), 0, 1, -1, 100.1, 19.0, 3.5, 0.3333333333333333, 2.0 / 3.0, 1.0000000000000002, 0.30000000000000004,
}

var boundaryLiterals = []string{
	"0.9999999", "0.99999999999", "3.1415926535", "0.0000004", "0.00000049", "12345.6789012", "0.000001234567", "1000000.000001",
	"84000000.0000001", "9223372036854775807", "9223372036854775808", "9223372036854774784", "100000000000000000000", "1000000000000000000000",
	"10000000000000000000000", "9007199254740993", "18446744073709551615", "0.1", "0.30000000000000004", "0.3333333333333333", ".5", "00012.50",
	"2.2250738585072014", "179769313486231570000000000000000000000.5", "0.000000000000000000000000000001", "4294967296.5",
	"1e21", "1.5e-7", "2.5E+10", "-0.0", "+1.25",
}

// caseNumbers (fixed): number literals at the edges of what a float text has to carry — many
// fractional digits, values below 1e-6, 1e21 (where strconv switches to exponent form), 2^53+1,
// 2^63±1, subnormals, the largest finite value, -0 — as trees and as SQL literals. Each must reach
// the leaf bit for bit.
func caseNumbers(c *core.Ctx) {
	c.Branch("number-boundaries")
	for _, v := range boundaryFloats {
		exprOps(c, &stmt.NumberLiteral{Val: v}, "number-text-roundtrip")
	}
	// round 12: one literal per (significant decimal digits 1..17) x (decimal exponent -12..24), each
	// inside a different node shape, so a float writer that is exact only up to some digit count or
	// only inside some magnitude window has a failing input whatever Marshal path carries the number
	for d := 1; d <= 17; d++ {
		for e := -12; e <= 24; e += 3 {
			digits := "1234567891234567891"[:d]
			if d > 1 {
				digits = digits[:1] + "." + digits[1:]
			}
			v, err := strconv.ParseFloat(fmt.Sprintf("%se%d", digits, e+d%3), 64)
			if err != nil {
				continue
			}
			if (d+e)%2 != 0 {
				v = -v
			}
			var n stmt.Expr = &stmt.NumberLiteral{Val: v}
			switch (d + (e+12)/3) % 6 {
			case 1:
				n = &stmt.ParenExpr{Expr: n}
			case 2:
				n = &stmt.CallExpr{FuncType: 9, Params: []stmt.Expr{&stmt.FieldExpr{Name: "f"}, n}}
			case 3:
				n = &stmt.BinaryExpr{Left: n, Operator: stmt.MUL, Right: &stmt.FieldExpr{Name: "f"}}
			case 4:
				n = &stmt.SelectItem{Expr: &stmt.BinaryExpr{Left: &stmt.FieldExpr{Name: "f"}, Operator: stmt.DIV, Right: n}, Alias: "a"}
			case 5:
				n = &stmt.OrderByExpr{Expr: &stmt.CallExpr{FuncType: 9, Params: []stmt.Expr{n}}, Desc: true}
			}
			c.Branch(fmt.Sprintf("number-digits-%02d", d))
			exprOps(c, n, "number-text-roundtrip")
		}
	}
	var params []stmt.Expr
	for _, v := range boundaryFloats[:12] {
		params = append(params, &stmt.NumberLiteral{Val: v})
	}
	exprOps(c, &stmt.SelectItem{Expr: &stmt.CallExpr{FuncType: 9, Params: params}, Alias: "q"}, "number-text-roundtrip")
	q := &stmt.Query{MetricName: "cpu", Having: &stmt.BinaryExpr{Left: &stmt.FieldExpr{Name: "f"}, Operator: stmt.LESS, Right: &stmt.NumberLiteral{Val: 0.9999999}}}
	for _, v := range boundaryFloats {
		q.SelectItems = append(q.SelectItems, &stmt.SelectItem{Expr: &stmt.BinaryExpr{Left: &stmt.FieldExpr{Name: "f"}, Operator: stmt.DIV, Right: &stmt.NumberLiteral{Val: v}}})
	}
	queryOps(c, q, "number-text-roundtrip", "statement with boundary number literals")
	for _, lit := range boundaryLiterals {
		for _, text := range []string{
			"select f+" + lit + " from cpu" + absRange,
			"select quantile(" + lit + ") as p from cpu" + absRange + " group by host having f/" + lit + " > 1",
		} {
			st, err := parse(c, text)
			if err != nil {
				c.Branch("number-literal-rejected")
				continue
			}
			pq, ok := st.(*stmt.Query)
			if !ok {
				continue
			}
			c.Branch("number-literal-accepted")
			want, perr := strconv.ParseFloat(lit, 64)
			if perr == nil {
				found := false
				var walk func(e stmt.Expr)
				walk = func(e stmt.Expr) {
					switch x := e.(type) {
					case *stmt.NumberLiteral:
						if math.Float64bits(x.Val) == math.Float64bits(want) || (want == 0 && x.Val == 0) {
							found = true
						}
					case *stmt.SelectItem:
						walk(x.Expr)
					case *stmt.BinaryExpr:
						walk(x.Left)
						walk(x.Right)
					case *stmt.CallExpr:
						for _, p := range x.Params {
							walk(p)
						}
					case *stmt.ParenExpr:
						walk(x.Expr)
					}
				}
				for _, it := range pq.SelectItems {
					walk(it)
				}
				if !found {
					c.Fail("number-literal-not-from-text", fmt.Sprintf("%q: no number literal of the parsed statement has the value of %s", text, lit))
				}
			}
			queryOps(c, pq, "number-text-roundtrip", "parsed from "+text)
		}
	}
}

// ---- parser glue ----------------------------------------------------------------------------

var durUnits = []struct {
	text, tok string
	ms        int64
}{{"s", "T_SECOND", 1000}, {"m", "T_MINUTE", 60000}, {"h", "T_HOUR", 3600000}, {"d", "T_DAY", 86400000},
	{"w", "T_WEEK", 7 * 86400000}, {"M", "T_MONTH", 30 * 86400000}, {"y", "T_YEAR", 365 * 86400000},
	{"S", "T_SECOND", 1000}, {"H", "T_HOUR", 3600000}, {"D", "T_DAY", 86400000}, {"Y", "T_YEAR", 365 * 86400000}}

func glueDuration(c *core.Ctx, r *rand.Rand) {
	u := durUnits[r.Intn(len(durUnits))]
	maxq := math.MaxInt64 / u.ms
	var d string
	switch r.Intn(9) {
	case 0:
		d = fmt.Sprint(maxq)
	case 1:
		d = fmt.Sprint(maxq + 1)
	case 2:
		d = fmt.Sprint(maxq - int64(r.Intn(3)))
	case 3:
		d = new(big.Int).Add(big.NewInt(maxq), big.NewInt(int64(r.Intn(1000)))).String()
	case 4:
		d = []string{"9223372036854775807", "9223372036854775808", "18446744073709551616", "18446744073709551617", "99999999999999999999999"}[r.Intn(5)]
	case 5:
		d = []string{"-", "+"}[r.Intn(2)] + fmt.Sprint(r.Int63n(maxq+2))
	case 6:
		// a product that wraps to a small positive value: k*2^64/unit rounded up
		k := big.NewInt(int64(1 + r.Intn(3)))
		x := new(big.Int).Lsh(k, 64)
		x.Div(x, big.NewInt(u.ms)).Add(x, big.NewInt(1))
		d = x.String()
	case 7:
		d = fmt.Sprint(r.Intn(1000))
	default:
		d = fmt.Sprint(r.Int63n(1 << uint(1+r.Intn(62))))
	}
	text := "select f from cpu" + absRange + " group by time(" + d + u.text + ")"
	st, err := parse(c, text)
	out := ""
	if err != nil {
		if !strings.Contains(err.Error(), "out of range") {
			c.Branch("glue-duration-other-error")
			return
		}
		out = "err range"
		c.Branch("glue-duration-rejected")
	} else {
		q, ok := st.(*stmt.Query)
		if !ok {
			return
		}
		out = fmt.Sprintf("ok %d", int64(q.Interval))
		c.Branch("glue-duration-accepted")
		want, _ := new(big.Int).SetString(d, 10)
		want.Mul(want, big.NewInt(u.ms))
		if !want.IsInt64() || want.Int64() != int64(q.Interval) || int64(q.Interval)%1000 != 0 {
			c.Fail("interval-not-from-text", fmt.Sprintf("%q accepted with Interval=%d, the text says %s ms", text, int64(q.Interval), want))
		}
		queryOps(c, q, "", "parsed from "+text)
	}
	c.Op("duration s"+hx(d)+" "+u.tok, out)
	c.NonTrivial()
}

func glueLimit(c *core.Ctx, r *rand.Rand) {
	var d string
	switch r.Intn(6) {
	case 0:
		d = []string{"2147483647", "2147483648", "2147483646", "4294967296", "4294967297", "9223372036854775808", "99999999999999999999"}[r.Intn(7)]
	case 1:
		d = "00" + fmt.Sprint(r.Intn(100))
	case 2:
		d = "0"
	default:
		d = fmt.Sprint(r.Int63n(1 << uint(1+r.Intn(40))))
	}
	text := "select f from cpu" + absRange + " limit " + d
	if r.Intn(3) == 0 && strings.Trim(d, "0") != "" {
		// (metricMetadataStmtParser.build replaces a limit of 0 by its default)
		text = "show tag values from cpu with key=host limit " + d
	}
	st, err := parse(c, text)
	out := ""
	if err != nil {
		if !strings.Contains(err.Error(), "out of range") {
			c.Branch("glue-limit-other-error")
			return
		}
		out = "err range"
		c.Branch("glue-limit-rejected")
	} else {
		lim := 0
		switch x := st.(type) {
		case *stmt.Query:
			lim = x.Limit
		case *stmt.MetricMetadata:
			lim = x.Limit
		}
		out = fmt.Sprintf("ok %d", lim)
		c.Branch("glue-limit-accepted")
		if want, perr := strconv.ParseInt(d, 10, 64); perr != nil || want != int64(lim) {
			c.Fail("limit-not-from-text", fmt.Sprintf("%q accepted with Limit=%d", text, lim))
		}
	}
	c.Op("limit s"+hx(d), out)
	c.NonTrivial()
}

// condGen builds a derivation of tagFilterExpr: the op tokens for the model and the SQL text.
type condGen struct {
	r *rand.Rand
}

var condKeys = []string{"host", "ip", "zone", "app", "dc_1"}
var condVals = []string{"a", "b", "web-1", "10.0.0.1", "x*", "", "日本", "a b"}

func (g *condGen) atom() (tok, sql string) {
	key := condKeys[g.r.Intn(len(condKeys))]
	kname := strings.Trim(key, "`")
	val := func() string { return condVals[g.r.Intn(len(condVals))] }
	q := func(v string) string { return "'" + v + "'" }
	kinds := []struct{ name, op string }{{"eq", "="}, {"neq", "!="}, {"neq", "<>"}, {"like", "like"}, {"notlike", "not like"},
		{"regex", "=~"}, {"neqregex", "!~"}, {"in", "in"}, {"notin", "not in"}}
	k := kinds[g.r.Intn(len(kinds))]
	if k.name == "in" || k.name == "notin" {
		n := 1 + g.r.Intn(3)
		var vs, qs []string
		for i := 0; i < n; i++ {
			v := val()
			vs = append(vs, "x"+hx(v))
			qs = append(qs, q(v))
		}
		return fmt.Sprintf("atom %s x%s %d %s", k.name, hx(kname), n, strings.Join(vs, " ")), key + " " + k.op + " (" + strings.Join(qs, ",") + ")"
	}
	v := val()
	return fmt.Sprintf("atom %s x%s 1 x%s", k.name, hx(kname), hx(v)), key + " " + k.op + " " + q(v)
}

// operand of a binary node: an atom or a parenthesised derivation (so the text has one reading)
func (g *condGen) operand(d int) (tok, sql string) {
	if d <= 0 || g.r.Intn(2) == 0 {
		return g.atom()
	}
	t, s := g.cond(d - 1)
	return "paren " + t, "(" + s + ")"
}

func (g *condGen) cond(d int) (tok, sql string) {
	switch k := g.r.Intn(10); {
	case d <= 0 || k < 3:
		return g.atom()
	case k < 5:
		t, s := g.cond(d - 1)
		return "paren " + t, "(" + s + ")"
	default:
		op, word := 1, "and"
		if g.r.Intn(2) == 0 {
			op, word = 2, "or"
		}
		lt, ls := g.operand(d - 1)
		rt, rs := g.operand(d - 1)
		return fmt.Sprintf("bin %d %s %s", op, lt, rt), ls + " " + word + " " + rs
	}
}

func glueCond(c *core.Ctx, r *rand.Rand) {
	g := &condGen{r: r}
	tok, sqlText := g.cond(1 + r.Intn(3))
	var text string
	meta := r.Intn(4) == 0
	if meta {
		text = "show tag values from cpu with key=host where " + sqlText
	} else {
		text = "select f from cpu where " + sqlText
	}
	st, err := parse(c, text)
	if err != nil {
		c.Fail("condition-derivation-rejected", fmt.Sprintf("%q is a derivation of tagFilterExpr but is rejected: %v", text, err))
		return
	}
	var cond stmt.Expr
	switch x := st.(type) {
	case *stmt.Query:
		cond = x.Condition
	case *stmt.MetricMetadata:
		cond = x.Condition
	}
	var sb strings.Builder
	dumpOpt(&sb, "c", cond)
	c.Op("cond "+tok, strings.TrimSpace(sb.String())+" stack 0")
	c.NonTrivial()
	c.Branch("glue-condition")
	if cond == nil || !wellFormed(cond) {
		c.Fail("nil-child-in-condition", fmt.Sprintf("%q: the where-condition has a missing operand: %s", text, exprDump(cond)))
	}
}

func caseGlue(c *core.Ctx, r *rand.Rand) {
	for k := 0; k < 3; k++ {
		switch r.Intn(5) {
		case 0, 1:
			glueDuration(c, r)
		case 2:
			glueLimit(c, r)
		default:
			glueCond(c, r)
		}
	}
}

// caseGlueFixed (fixed): the edges of parseDuration's guard for every unit, of visitLimit, and a few
// condition derivations.
func caseGlueFixed(c *core.Ctx, r *rand.Rand) {
	c.Branch("glue-fixed")
	for _, u := range durUnits[:7] {
		maxq := math.MaxInt64 / u.ms
		for _, d := range []string{fmt.Sprint(maxq), fmt.Sprint(maxq + 1), "0", "1", "-1", "+2", "9223372036854775807", "9223372036854775808"} {
			text := "select f from cpu" + absRange + " group by time(" + d + u.text + ")"
			st, err := parse(c, text)
			out := ""
			if err != nil {
				if !strings.Contains(err.Error(), "out of range") {
					c.Branch("glue-duration-other-error")
					continue
				}
				out = "err range"
			} else {
				q := st.(*stmt.Query)
				out = fmt.Sprintf("ok %d", int64(q.Interval))
				want, _ := new(big.Int).SetString(d, 10)
				want.Mul(want, big.NewInt(u.ms))
				if !want.IsInt64() || want.Int64() != int64(q.Interval) {
					c.Fail("interval-not-from-text", fmt.Sprintf("%q accepted with Interval=%d, the text says %s ms", text, int64(q.Interval), want))
				}
				queryOps(c, q, "", "parsed from "+text)
			}
			c.Op("duration s"+hx(d)+" "+u.tok, out)
		}
	}
	for k := 0; k < 12; k++ {
		glueLimit(c, r)
		glueCond(c, r)
	}
	c.NonTrivial()
}
