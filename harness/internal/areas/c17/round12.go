package c17

// Round 12: SIZE as an input region. Every list the generator builds has 1-3 entries and every
// string a few bytes; a fixed-size or pooled buffer, a fast path for short lists, a nesting limit
// would never be reached. Fixed case 12 sends large values through the real Marshal / Unmarshal /
// MarshalJSON / UnmarshalJSON and the model: long in-lists, long strings, wide calls, deep
// parentheses / negations, long arithmetic chains, statements with hundreds of select items and
// group-by keys — as trees built directly and as SQL text through the real parser.

import (
	"fmt"
	"math/rand"
	"strings"

	"github.com/lindb/lindb/sql/stmt"

	"github.com/lindb/lindb/zzverif/internal/core"
)

func caseLarge(c *core.Ctx, r *rand.Rand) {
	c.Branch("large-values")
	const key = "large-value-roundtrip"
	// ---- trees
	var vals []string
	for i := 0; i < 3000; i++ {
		vals = append(vals, fmt.Sprintf("host-%04d", i))
	}
	exprOps(c, &stmt.InExpr{Key: "host", Values: vals}, key)
	long := strings.Repeat("abcdefghij-é\"\\<", 1400) // > 16 KiB, with characters that need escaping
	exprOps(c, &stmt.LikeExpr{Key: "path", Value: long}, key)
	exprOps(c, &stmt.EqualsExpr{Key: long[:5000], Value: long[:9000]}, key)
	var params []stmt.Expr
	for i := 0; i < 600; i++ {
		if i%7 == 3 {
			params = append(params, &stmt.NumberLiteral{Val: float64(i) + 0.0000001})
		} else {
			params = append(params, &stmt.FieldExpr{Name: fmt.Sprintf("f%d", i)})
		}
	}
	exprOps(c, &stmt.CallExpr{FuncType: 1, Params: params}, key)
	var chain stmt.Expr = &stmt.FieldExpr{Name: "f"}
	for i := 1; i <= 400; i++ {
		chain = &stmt.BinaryExpr{Left: chain, Operator: stmt.BinaryOP(int(stmt.ADD) + i%4), Right: &stmt.NumberLiteral{Val: float64(i) / 8}}
	}
	exprOps(c, chain, key)
	var rchain stmt.Expr = &stmt.FieldExpr{Name: "g"}
	for i := 1; i <= 200; i++ {
		rchain = &stmt.BinaryExpr{Left: &stmt.FieldExpr{Name: fmt.Sprintf("f%d", i)}, Operator: stmt.MUL, Right: rchain}
	}
	exprOps(c, rchain, key)
	var deep stmt.Expr = &stmt.FieldExpr{Name: "f"}
	for i := 0; i < 150; i++ {
		deep = &stmt.ParenExpr{Expr: deep}
	}
	exprOps(c, &stmt.SelectItem{Expr: deep, Alias: "deep"}, key)
	var neg stmt.Expr = &stmt.EqualsExpr{Key: "host", Value: "a"}
	for i := 0; i < 100; i++ {
		neg = &stmt.NotExpr{Expr: neg}
	}
	exprOps(c, neg, key)
	var cond stmt.Expr = &stmt.EqualsExpr{Key: "k0", Value: "v0"}
	for i := 1; i < 300; i++ {
		op := stmt.AND
		if i%5 == 0 {
			op = stmt.OR
		}
		cond = &stmt.BinaryExpr{Left: cond, Operator: op, Right: &stmt.EqualsExpr{Key: fmt.Sprintf("k%d", i), Value: fmt.Sprintf("v%d", i)}}
	}
	// ---- a statement value
	q := &stmt.Query{Namespace: "ns", MetricName: "cpu", Condition: cond, Limit: 100,
		Having: &stmt.BinaryExpr{Left: chain, Operator: stmt.GREATER, Right: &stmt.NumberLiteral{Val: 1}}}
	for i := 0; i < 400; i++ {
		q.SelectItems = append(q.SelectItems, &stmt.SelectItem{Expr: &stmt.CallExpr{FuncType: 1, Params: []stmt.Expr{&stmt.FieldExpr{Name: fmt.Sprintf("field_%d", i)}}}, Alias: fmt.Sprintf("a%d", i)})
	}
	for i := 0; i < 150; i++ {
		q.GroupBy = append(q.GroupBy, fmt.Sprintf("tag_%d", (i*37)%150))
	}
	for i := 0; i < 50; i++ {
		q.OrderByItems = append(q.OrderByItems, &stmt.OrderByExpr{Expr: &stmt.FieldExpr{Name: fmt.Sprintf("field_%d", i)}, Desc: i%2 == 0})
	}
	queryOps(c, q, key, "large statement value")
	metaOps(c, &stmt.MetricMetadata{Namespace: "ns", MetricName: "cpu", Type: stmt.TagValue, TagKey: "host", Prefix: long[:3000],
		Condition: &stmt.InExpr{Key: "host", Values: vals[:2000]}, Limit: 10}, "large metadata statement value")

	// ---- the same sizes as SQL text through the real parser
	var fields, keys, ins, sum []string
	for i := 0; i < 300; i++ {
		fields = append(fields, fmt.Sprintf("max(f%d) as m%d", i, i))
	}
	for i := 0; i < 100; i++ {
		keys = append(keys, fmt.Sprintf("k%d", (i*13)%100))
	}
	for i := 0; i < 3000; i++ {
		ins = append(ins, fmt.Sprintf("'h%04d'", r.Intn(10000)))
	}
	for i := 0; i < 250; i++ {
		sum = append(sum, fmt.Sprintf("f%d", i%9))
	}
	texts := []string{
		"select " + strings.Join(fields, ",") + " from cpu" + absRange + " and host in (" + strings.Join(ins, ",") + ") group by " + strings.Join(keys, ","),
		"select " + strings.Join(sum, "+") + " as s, " + strings.Repeat("(", 60) + "f*2" + strings.Repeat(")", 60) + " as p from cpu" + absRange + " and path like '" + strings.Repeat("x/y-z_", 2500) + "*'",
		"select sum(" + strings.Join(sum[:120], ",") + ") from cpu" + absRange + " having " + strings.Join(sum[:100], "*") + " > 0.0000001",
	}
	for _, text := range texts {
		st, err := parse(c, text)
		if err != nil {
			c.Branch("large-sql-rejected")
			continue
		}
		if pq, ok := st.(*stmt.Query); ok {
			c.Branch("large-sql-accepted")
			if where := illFormedWhere(pq); where != "" {
				c.Fail("nil-child-in-"+where, fmt.Sprintf("large statement accepted with a missing operand (%d bytes of SQL)", len(text)))
				continue
			}
			queryOps(c, pq, key, fmt.Sprintf("parsed from a large statement (%d bytes of SQL, starts %q)", len(text), text[:40]))
		}
	}
	mt := "show tag values from cpu with key=host where host in (" + strings.Join(ins[:2000], ",") + ") limit 10"
	if st, err := parse(c, mt); err == nil {
		if m, ok := st.(*stmt.MetricMetadata); ok {
			c.Branch("large-sql-accepted")
			metaOps(c, m, "parsed from a large SHOW statement")
		}
	} else {
		c.Branch("large-sql-rejected")
	}
}
