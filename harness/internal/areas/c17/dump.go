// Package c17 drives lindb's real SQL parser and sql/stmt's JSON (un)marshalling and mirrors
// every operation in the C17 line protocol (see lean/LinVerif/Driver/C17.lean for the token
// grammar of expressions, statements and abstract JSON values).
package c17

import (
	"bytes"
	"encoding/hex"
	"encoding/json"
	"fmt"
	"math"
	"reflect"
	"strconv"
	"strings"

	"github.com/lindb/lindb/sql/stmt"
)

func hx(s string) string { return hex.EncodeToString([]byte(s)) }

func b01(b bool) string {
	if b {
		return "1"
	}
	return "0"
}

// ---------------------------------------------------------------- canonical dumps of Go values

func dumpExpr(sb *strings.Builder, e stmt.Expr) {
	if e == nil || (reflect.ValueOf(e).Kind() == reflect.Ptr && reflect.ValueOf(e).IsNil()) {
		sb.WriteString("nil")
		return
	}
	switch x := e.(type) {
	case *stmt.FieldExpr:
		fmt.Fprintf(sb, "field x%s", hx(x.Name))
	case *stmt.NumberLiteral:
		fmt.Fprintf(sb, "number %016x", math.Float64bits(x.Val))
	case *stmt.CallExpr:
		fmt.Fprintf(sb, "call %d %d", int(x.FuncType), len(x.Params))
		for _, p := range x.Params {
			sb.WriteByte(' ')
			dumpExpr(sb, p)
		}
	case *stmt.ParenExpr:
		sb.WriteString("paren ")
		dumpExpr(sb, x.Expr)
	case *stmt.BinaryExpr:
		fmt.Fprintf(sb, "binary %d ", int(x.Operator))
		dumpExpr(sb, x.Left)
		sb.WriteByte(' ')
		dumpExpr(sb, x.Right)
	case *stmt.EqualsExpr:
		fmt.Fprintf(sb, "equals x%s x%s", hx(x.Key), hx(x.Value))
	case *stmt.InExpr:
		fmt.Fprintf(sb, "in x%s %d", hx(x.Key), len(x.Values))
		for _, v := range x.Values {
			fmt.Fprintf(sb, " x%s", hx(v))
		}
	case *stmt.LikeExpr:
		fmt.Fprintf(sb, "like x%s x%s", hx(x.Key), hx(x.Value))
	case *stmt.RegexExpr:
		fmt.Fprintf(sb, "regex x%s x%s", hx(x.Key), hx(x.Regexp))
	case *stmt.NotExpr:
		sb.WriteString("not ")
		dumpExpr(sb, x.Expr)
	case *stmt.SelectItem:
		fmt.Fprintf(sb, "selectItem x%s ", hx(x.Alias))
		dumpExpr(sb, x.Expr)
	case *stmt.OrderByExpr:
		fmt.Fprintf(sb, "orderBy %s ", b01(x.Desc))
		dumpExpr(sb, x.Expr)
	default:
		panic(fmt.Sprintf("c17: unknown stmt.Expr implementation %T", e))
	}
}

func exprDump(e stmt.Expr) string {
	var sb strings.Builder
	dumpExpr(&sb, e)
	return sb.String()
}

func dumpOpt(sb *strings.Builder, tag string, e stmt.Expr) {
	sb.WriteString(" " + tag + " ")
	if e == nil {
		sb.WriteString("0")
		return
	}
	sb.WriteString("1 ")
	dumpExpr(sb, e)
}

func dumpList(sb *strings.Builder, tag string, es []stmt.Expr) {
	fmt.Fprintf(sb, " %s %d", tag, len(es))
	for _, e := range es {
		sb.WriteByte(' ')
		dumpExpr(sb, e)
	}
}

// queryFieldNames is what queryDump covers; checkStructs makes the harness fail loudly when
// stmt.Query / stmt.MetricMetadata gain or lose a field (the dump would silently ignore it).
var queryFieldNames = []string{"Explain", "Namespace", "MetricName", "SelectItems", "AllFields", "Condition", "TimeRange",
	"Interval", "StorageInterval", "IntervalRatio", "AutoGroupByTime", "GroupBy", "Having", "OrderByItems", "Limit"}
var metaFieldNames = []string{"Namespace", "MetricName", "Type", "TagKey", "Prefix", "Condition", "Limit"}

func checkStructs() error {
	chk := func(t reflect.Type, want []string) error {
		var got []string
		for i := 0; i < t.NumField(); i++ {
			got = append(got, t.Field(i).Name)
		}
		if !reflect.DeepEqual(got, want) {
			return fmt.Errorf("%s fields are %v, the C17 dump covers %v", t, got, want)
		}
		return nil
	}
	if err := chk(reflect.TypeOf(stmt.Query{}), queryFieldNames); err != nil {
		return err
	}
	return chk(reflect.TypeOf(stmt.MetricMetadata{}), metaFieldNames)
}

func queryDump(q *stmt.Query) string {
	var sb strings.Builder
	fmt.Fprintf(&sb, "query %s x%s x%s %s %d %d %d %d %d %s %d", b01(q.Explain), hx(q.Namespace), hx(q.MetricName),
		b01(q.AllFields), q.TimeRange.Start, q.TimeRange.End, int64(q.Interval), int64(q.StorageInterval),
		q.IntervalRatio, b01(q.AutoGroupByTime), q.Limit)
	fmt.Fprintf(&sb, " g %d", len(q.GroupBy))
	for _, g := range q.GroupBy {
		fmt.Fprintf(&sb, " x%s", hx(g))
	}
	dumpList(&sb, "s", q.SelectItems)
	dumpOpt(&sb, "c", q.Condition)
	dumpOpt(&sb, "h", q.Having)
	dumpList(&sb, "o", q.OrderByItems)
	return sb.String()
}

func metaDump(m *stmt.MetricMetadata) string {
	var sb strings.Builder
	fmt.Fprintf(&sb, "meta x%s x%s %d x%s x%s %d", hx(m.Namespace), hx(m.MetricName), int(m.Type), hx(m.TagKey), hx(m.Prefix), m.Limit)
	dumpOpt(&sb, "c", m.Condition)
	return sb.String()
}

// ---------------------------------------------------------------- abstract JSON values

type jkind int

const (
	jNull jkind = iota
	jBool
	jInt
	jFlt
	jStr
	jArr
	jObj
)

type jkv struct {
	k string
	v *jv
}

// jv mirrors the Lean model's Json (numbers typed by the Go field they are decoded into).
type jv struct {
	kind jkind
	b    bool
	i    int64
	f    uint64 // float64 bits
	s    string
	arr  []*jv
	obj  []jkv
}

func (j *jv) clone() *jv {
	c := *j
	c.arr = nil
	c.obj = nil
	for _, x := range j.arr {
		c.arr = append(c.arr, x.clone())
	}
	for _, kv := range j.obj {
		c.obj = append(c.obj, jkv{kv.k, kv.v.clone()})
	}
	return &c
}

// tokens renders the value in the protocol's prefix notation.
func (j *jv) tokens(sb *strings.Builder) {
	switch j.kind {
	case jNull:
		sb.WriteString("null")
	case jBool:
		if j.b {
			sb.WriteString("true")
		} else {
			sb.WriteString("false")
		}
	case jInt:
		fmt.Fprintf(sb, "i%d", j.i)
	case jFlt:
		fmt.Fprintf(sb, "f%016x", j.f)
	case jStr:
		sb.WriteString("s" + hx(j.s))
	case jArr:
		fmt.Fprintf(sb, "arr %d", len(j.arr))
		for _, x := range j.arr {
			sb.WriteByte(' ')
			x.tokens(sb)
		}
	case jObj:
		fmt.Fprintf(sb, "obj %d", len(j.obj))
		for _, kv := range j.obj {
			sb.WriteString(" k:" + kv.k + " ")
			kv.v.tokens(sb)
		}
	}
}

func (j *jv) String() string {
	var sb strings.Builder
	j.tokens(&sb)
	return sb.String()
}

// text renders real JSON text (what is handed to lindb's Unmarshal in the malformed stream).
func (j *jv) text(sb *bytes.Buffer) {
	switch j.kind {
	case jNull:
		sb.WriteString("null")
	case jBool:
		sb.WriteString(strconv.FormatBool(j.b))
	case jInt:
		sb.WriteString(strconv.FormatInt(j.i, 10))
	case jFlt:
		sb.WriteString(strconv.FormatFloat(math.Float64frombits(j.f), 'g', -1, 64))
	case jStr:
		b, _ := json.Marshal(j.s)
		sb.Write(b)
	case jArr:
		sb.WriteByte('[')
		for i, x := range j.arr {
			if i > 0 {
				sb.WriteByte(',')
			}
			x.text(sb)
		}
		sb.WriteByte(']')
	case jObj:
		sb.WriteByte('{')
		for i, kv := range j.obj {
			if i > 0 {
				sb.WriteByte(',')
			}
			b, _ := json.Marshal(kv.k)
			sb.Write(b)
			sb.WriteByte(':')
			kv.v.text(sb)
		}
		sb.WriteByte('}')
	}
}

func (j *jv) bytes() []byte {
	var b bytes.Buffer
	j.text(&b)
	return b.Bytes()
}

// parseWire reads JSON text produced by lindb into the abstract form, keeping the key order.
// Numbers are typed the way the receiving Go structs type them: the only float64 field on the
// wire is NumberLiteral.Val (json key "val"); every other number is an integer field.
func parseWire(data []byte) (*jv, error) {
	dec := json.NewDecoder(bytes.NewReader(data))
	dec.UseNumber()
	v, err := parseValue(dec, "")
	if err != nil {
		return nil, err
	}
	if _, err := dec.Token(); err == nil {
		return nil, fmt.Errorf("trailing data after JSON value")
	}
	return v, nil
}

func parseValue(dec *json.Decoder, key string) (*jv, error) {
	tok, err := dec.Token()
	if err != nil {
		return nil, err
	}
	switch t := tok.(type) {
	case json.Delim:
		switch t {
		case '{':
			o := &jv{kind: jObj}
			for dec.More() {
				kt, err := dec.Token()
				if err != nil {
					return nil, err
				}
				k, ok := kt.(string)
				if !ok {
					return nil, fmt.Errorf("object key is not a string")
				}
				if strings.ContainsAny(k, " \t") || k == "" {
					return nil, fmt.Errorf("object key %q is not a plain identifier", k)
				}
				v, err := parseValue(dec, k)
				if err != nil {
					return nil, err
				}
				o.obj = append(o.obj, jkv{k, v})
			}
			if _, err := dec.Token(); err != nil {
				return nil, err
			}
			return o, nil
		case '[':
			a := &jv{kind: jArr}
			for dec.More() {
				v, err := parseValue(dec, key)
				if err != nil {
					return nil, err
				}
				a.arr = append(a.arr, v)
			}
			if _, err := dec.Token(); err != nil {
				return nil, err
			}
			return a, nil
		}
		return nil, fmt.Errorf("unexpected delimiter %v", t)
	case string:
		return &jv{kind: jStr, s: t}, nil
	case bool:
		return &jv{kind: jBool, b: t}, nil
	case nil:
		return &jv{kind: jNull}, nil
	case json.Number:
		if key == "val" {
			f, err := strconv.ParseFloat(string(t), 64)
			if err != nil {
				return nil, err
			}
			return &jv{kind: jFlt, f: math.Float64bits(f)}, nil
		}
		i, err := strconv.ParseInt(string(t), 10, 64)
		if err != nil {
			return nil, fmt.Errorf("number %s under key %q is not an integer", t, key)
		}
		return &jv{kind: jInt, i: i}, nil
	}
	return nil, fmt.Errorf("unexpected token %v", tok)
}

// errKind maps a Go error of the unmarshal side to the protocol's small enum.
func errKind(err error) string {
	msg := err.Error()
	const tm = "expr type not match:"
	if i := strings.Index(msg, tm); i >= 0 {
		return "err type-tag x" + hx(msg[i+len(tm):])
	}
	if strings.Contains(msg, "unknown interval") {
		return "err interval-unknown"
	}
	if strings.Contains(msg, "invalid interval") {
		return "err interval-invalid"
	}
	return "err json"
}
