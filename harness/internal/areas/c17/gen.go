package c17

import (
	"fmt"
	"math"
	"math/rand"
	"strings"
	"time"

	"github.com/lindb/lindb/aggregation/function"
	"github.com/lindb/lindb/pkg/timeutil"
	"github.com/lindb/lindb/sql/stmt"
)

// ---------------------------------------------------------------- grammar-directed SQL text

var (
	plainIdents = []string{"cpu", "load", "usage_idle", "host", "ip", "zone", "disk.used", "req_count", "latency", "f1", "f2", "g_1", "system.cpu.load", "reqs", "errs", "temp"}
	funcNames   = []string{"sum", "min", "max", "avg", "count", "last", "first", "stddev", "quantile", "rate"}
	orderFuncs  = []string{"sum", "min", "max", "avg", "count", "last", "first", "stddev"}
	quotedBody  = []string{"a b", "héllo", "x-1", "10.0.0.1", "a*", "^web-[0-9]+$", "日本", "", "{json}", "a,b", "it s", "100%", "<tag>&", "tab\there", "😀"}
	units       = []string{"s", "m", "h", "d", "w", "M", "y", "S", "H", "D"}
)

type sqlGen struct {
	r        *rand.Rand
	names    []string // field names / aliases usable in order by
	absTime  bool     // both time bounds absolute (statement is time independent)
	future   bool     // an absolute bound lies after the wall clock
	// number of `*` / duration operands emitted inside expressions
	badOperands int
	hasWhere bool
	// the absolute bounds in epoch milliseconds (valid when absTime)
	wantStart, wantEnd int64
}

func (g *sqlGen) pick(xs []string) string { return xs[g.r.Intn(len(xs))] }

// ident: mostly plain identifiers, sometimes quoted (single, double, back quote) with blanks,
// unicode and JSON-special characters inside.
func (g *sqlGen) ident() string {
	switch k := g.r.Intn(100); {
	case k < 12:
		return "'" + g.pick(quotedBody) + "'"
	case k < 13: // double quotes lex as a JSON STRING token: the statement is rejected
		return "\"" + g.pick(quotedBody) + "\""
	case k < 22:
		return "`" + g.pick(quotedBody) + "`"
	default:
		return g.pick(plainIdents)
	}
}

func (g *sqlGen) value() string {
	if g.r.Intn(3) == 0 {
		return g.pick(plainIdents)
	}
	q := "'"
	if g.r.Intn(60) == 0 {
		q = "\""
	}
	return q + g.pick(quotedBody) + q
}

func (g *sqlGen) number() string {
	var s string
	switch g.r.Intn(8) {
	case 0:
		s = "0"
	case 1:
		s = fmt.Sprintf("%d", g.r.Intn(1000))
	case 2:
		s = fmt.Sprintf("%d.%d", g.r.Intn(100), g.r.Intn(1000))
	case 3:
		s = fmt.Sprintf(".%d", g.r.Intn(100))
	case 4:
		s = "0.99"
	case 5:
		// long but finite digit strings (float64 rounds them)
		n := 17 + g.r.Intn(40)
		var sb strings.Builder
		sb.WriteByte(byte('1' + g.r.Intn(9)))
		for i := 1; i < n; i++ {
			sb.WriteByte(byte('0' + g.r.Intn(10)))
		}
		s = sb.String()
	case 6:
		s = fmt.Sprintf("%d.%09d", g.r.Intn(10), g.r.Intn(1000000000))
	default:
		s = fmt.Sprintf("%d", g.r.Int63n(1<<40))
	}
	return s
}

// badOperand: `*` or a duration literal used as an operand — the grammar allows both as a
// fieldExpr, the listener builds no node for them, so the enclosing node is left with a nil child;
// validation() must reject such a statement.
func (g *sqlGen) badOperand() string {
	g.badOperands++
	if g.r.Intn(2) == 0 {
		return "*"
	}
	return g.duration()
}

func (g *sqlGen) fieldExpr(d int, top bool) string {
	if !top && g.r.Intn(60) == 0 {
		switch g.r.Intn(3) {
		case 0:
			return g.fieldExpr(d-1, false) + " + " + g.badOperand()
		case 1:
			return "(" + g.badOperand() + ")"
		default:
			return g.badOperand() + " * " + g.fieldExpr(d-1, false)
		}
	}
	k := g.r.Intn(10)
	if d <= 0 {
		k = g.r.Intn(4)
	}
	switch {
	case k < 3: // field name
		n := g.ident()
		if top {
			g.names = append(g.names, n)
		}
		if g.r.Intn(25) == 0 {
			return n + "[" + g.tagFilter(1) + "]"
		}
		return n
	case k == 3:
		if top && g.r.Intn(4) != 0 { // a bare number as a select item is dropped by the parser
			return g.fieldExpr(d, top)
		}
		if g.r.Intn(8) == 0 {
			return "-" + g.number()
		}
		return g.number()
	case k < 7: // function call
		fn := g.pick(funcNames)
		n := 1
		switch g.r.Intn(8) {
		case 0:
			n = 0
		case 1:
			n = 2
		}
		var ps []string
		for i := 0; i < n; i++ {
			ps = append(ps, g.fieldExpr(d-1, false))
		}
		s := fn + "(" + strings.Join(ps, ", ") + ")"
		if top && n == 1 && !strings.ContainsAny(ps[0], "()+-*/[ ") && g.r.Intn(2) == 0 {
			for _, of := range orderFuncs {
				if of == fn {
					g.names = append(g.names, fn+"("+ps[0]+")")
				}
			}
		}
		return s
	case k < 9:
		op := []string{"+", "-", "*", "/"}[g.r.Intn(4)]
		sp := []string{"", " "}[g.r.Intn(2)]
		return g.fieldExpr(d-1, false) + sp + op + sp + g.fieldExpr(d-1, false)
	default:
		return "(" + g.fieldExpr(d-1, false) + ")"
	}
}

func (g *sqlGen) tagFilter(d int) string {
	k := g.r.Intn(12)
	if d <= 0 {
		k = g.r.Intn(8)
	}
	key := g.ident()
	switch {
	case k < 8:
		switch g.r.Intn(9) {
		case 0:
			return key + " = " + g.value()
		case 1:
			return key + "!=" + g.value()
		case 2:
			return key + " <> " + g.value()
		case 3:
			return key + " like " + g.value()
		case 4:
			return key + " not like " + g.value()
		case 5:
			return key + " =~ " + g.value()
		case 6:
			return key + " !~ " + g.value()
		default:
			n := 1 + g.r.Intn(3)
			var vs []string
			for i := 0; i < n; i++ {
				vs = append(vs, g.value())
			}
			not := ""
			if g.r.Intn(3) == 0 {
				not = "not "
			}
			return key + " " + not + "in (" + strings.Join(vs, ",") + ")"
		}
	case k < 11:
		op := " and "
		if g.r.Intn(2) == 0 {
			op = " or "
		}
		return g.tagFilter(d-1) + op + g.tagFilter(d-1)
	default:
		return "(" + g.tagFilter(d-1) + ")"
	}
}

// absTimestamp renders the UTC second `sec` in one of the layouts ParseTimestamp knows.
func (g *sqlGen) absTimestamp(sec int64) string {
	t := time.Unix(sec, 0).UTC()
	layout := []string{"20060102 15:04:05", "2006-01-02 15:04:05", "2006/01/02 15:04:05"}[g.r.Intn(3)]
	return "'" + t.Format(layout) + "'"
}

func (g *sqlGen) timeRange() string {
	if g.r.Intn(10) < 6 {
		// both bounds absolute: 2019..2023, or AFTER the wall clock (2030..2099), or straddling it.
		// The statement then does not depend on the clock: TimeRange must be exactly these literals.
		const y2019, y2030, year = 1546300800, 1893456000, 365 * 86400
		var a, b int64
		switch g.r.Intn(10) {
		case 0, 1, 2:
			a = y2030 + g.r.Int63n(69*year)
			b = a + 1 + g.r.Int63n(300*86400)
			g.future = true
		case 3:
			a = y2019 + g.r.Int63n(4*year)
			b = y2030 + g.r.Int63n(69*year)
			g.future = true
		default:
			a = y2019 + g.r.Int63n(4*year)
			b = a + 1 + g.r.Int63n(300*86400)
		}
		g.absTime = true
		g.wantStart, g.wantEnd = a*1000, b*1000
		lo := []string{">", ">="}[g.r.Intn(2)]
		hi := []string{"<", "<="}[g.r.Intn(2)]
		if g.r.Intn(4) == 0 {
			return "time " + hi + " " + g.absTimestamp(b) + " and time " + lo + " " + g.absTimestamp(a)
		}
		return "time " + lo + " " + g.absTimestamp(a) + " and time " + hi + " " + g.absTimestamp(b)
	}
	switch g.r.Intn(4) {
	case 0:
		return "time > now()-" + g.duration()
	case 1:
		return "time > now()-" + g.duration() + " and time < now()"
	case 2:
		return "time >= now() - " + g.duration() + " and time <= now() + 1h"
	default:
		return "time < now()"
	}
}

func (g *sqlGen) duration() string {
	return fmt.Sprintf("%d%s", 1+g.r.Intn(90), g.pick(units))
}

func (g *sqlGen) boolExpr(d int) string {
	k := g.r.Intn(10)
	if d <= 0 {
		k = 0
	}
	switch {
	case k < 6:
		op := []string{"=", "!=", "<>", "<", "<=", ">", ">=", "like", "=~"}[g.r.Intn(9)]
		return g.fieldExpr(1, false) + " " + op + " " + g.fieldExpr(1, false)
	case k < 9:
		op := " and "
		if g.r.Intn(2) == 0 {
			op = " or "
		}
		return g.boolExpr(d-1) + op + g.boolExpr(d-1)
	default:
		return "(" + g.boolExpr(d-1) + ")"
	}
}

// query returns one SELECT statement derived from the grammar with nesting bound d.
func (g *sqlGen) query(d int) string {
	var sb strings.Builder
	if g.r.Intn(10) == 0 {
		sb.WriteString("explain ")
	}
	// select list
	var fields string
	if g.r.Intn(12) == 0 {
		fields = "*"
	} else {
		n := 1 + g.r.Intn(3)
		var fs []string
		for i := 0; i < n; i++ {
			f := g.fieldExpr(d, true)
			if g.r.Intn(4) == 0 {
				a := g.ident()
				f += " as " + a
				g.names = append(g.names, a)
			}
			fs = append(fs, f)
		}
		fields = strings.Join(fs, ", ")
	}
	from := "from " + g.ident()
	if g.r.Intn(4) == 0 {
		from += " on " + g.ident()
	}
	if g.r.Intn(5) == 0 {
		sb.WriteString(from + " select " + fields)
	} else {
		sb.WriteString("select " + fields + " " + from)
	}
	// where
	switch g.r.Intn(10) {
	case 0, 1, 2:
		g.hasWhere = true
		sb.WriteString(" where " + g.tagFilter(d))
	case 3, 4, 5:
		g.hasWhere = true
		sb.WriteString(" where " + g.tagFilter(d) + " and " + g.timeRange())
	case 6:
		g.hasWhere = true
		sb.WriteString(" where " + g.timeRange())
	case 7:
		g.hasWhere = true
		sb.WriteString(" where " + g.timeRange() + " and " + g.tagFilter(d))
	}
	// group by
	if g.r.Intn(10) < 4 {
		n := 1 + g.r.Intn(3)
		var ks []string
		for i := 0; i < n; i++ {
			switch g.r.Intn(6) {
			case 0:
				ks = append(ks, "time("+g.duration()+")")
			case 1:
				ks = append(ks, "time()")
			default:
				ks = append(ks, g.ident())
			}
		}
		sb.WriteString(" group by " + strings.Join(ks, ","))
		if g.r.Intn(3) == 0 {
			sb.WriteString(" having " + g.boolExpr(d))
		}
	}
	// order by (names that the select list defines, so that the parser's check passes)
	if g.r.Intn(10) < 3 && len(g.names) > 0 {
		n := 1 + g.r.Intn(2)
		var ss []string
		for i := 0; i < n; i++ {
			s := g.pick(g.names)
			if g.r.Intn(5) == 0 && !strings.ContainsAny(s, "(") {
				s = g.pick(orderFuncs) + "(" + s + ")"
			}
			switch g.r.Intn(3) {
			case 0:
				s += " desc"
			case 1:
				s += " asc"
			}
			ss = append(ss, s)
		}
		sb.WriteString(" order by " + strings.Join(ss, ", "))
	}
	if g.r.Intn(10) < 4 {
		fmt.Fprintf(&sb, " limit %d", []int{0, 1, 10, 100, 5000, 123456}[g.r.Intn(6)])
	}
	return sb.String()
}

// metadata returns one of the SHOW statements that travel as stmt.MetricMetadata.
func (g *sqlGen) metadata(d int) string {
	lim := ""
	if g.r.Intn(2) == 0 {
		lim = fmt.Sprintf(" limit %d", g.r.Intn(500))
	}
	from := " from " + g.ident()
	if g.r.Intn(3) == 0 {
		from += " on " + g.ident()
	}
	switch g.r.Intn(6) {
	case 0:
		s := "show namespaces"
		if g.r.Intn(2) == 0 {
			s += " where namespace = " + g.value()
		}
		return s + lim
	case 1:
		s := "show metrics"
		if g.r.Intn(2) == 0 {
			s += " on " + g.ident()
		}
		if g.r.Intn(2) == 0 {
			s += " where metric = " + g.value()
		}
		return s + lim
	case 2:
		return "show fields" + from
	case 3:
		return "show tag keys" + from
	default:
		s := "show tag values" + from + " with key = " + g.ident()
		if g.r.Intn(3) != 0 {
			s += " where " + g.tagFilter(d)
		}
		return s + lim
	}
}

// ---------------------------------------------------------------- random expression trees

var strPool = []string{"", "f", "host", "a b", "héllo", "日本語", "😀", "\"q\"", "back\\slash", "<html>&amp;", " sep", "tab\tnl\n", "\x00nul", "ctl\x1f", "{\"type\":\"field\"}", "null", "[]", "1e400", "NaN", "a,b", "%d", "long-" + strings.Repeat("x", 70)}

func randStr(r *rand.Rand) string {
	if r.Intn(6) == 0 {
		n := r.Intn(6)
		rs := make([]rune, n)
		for i := range rs {
			switch r.Intn(4) {
			case 0:
				rs[i] = rune(0x20 + r.Intn(0x5f))
			case 1:
				rs[i] = rune(0xa0 + r.Intn(0x500))
			case 2:
				rs[i] = rune(0x4e00 + r.Intn(0x1000))
			default:
				rs[i] = rune(0x1f600 + r.Intn(0x40))
			}
		}
		return string(rs)
	}
	return strPool[r.Intn(len(strPool))]
}

var floatPool = []uint64{0, 0x8000000000000000, 0x3ff0000000000000, 0xbff8000000000000, 1, 0x000fffffffffffff, 0x0010000000000000,
	0x7fefffffffffffff, 0xffefffffffffffff, 0x3fb999999999999a, 0x3fefae147ae147ae, 0x4340000000000000, 0x4341c37937e08000, 0x3e7ad7f29abcaf48}

func randFinite(r *rand.Rand) float64 {
	if r.Intn(2) == 0 {
		return math.Float64frombits(floatPool[r.Intn(len(floatPool))])
	}
	if r.Intn(3) == 0 {
		return float64(r.Intn(2000) - 1000)
	}
	for {
		b := r.Uint64()
		if (b>>52)&0x7ff != 0x7ff {
			return math.Float64frombits(b)
		}
	}
}

func randInt(r *rand.Rand) int {
	switch r.Intn(6) {
	case 0:
		return 0
	case 1:
		return -1 - r.Intn(100)
	case 2:
		return r.Intn(1 << 30)
	case 3:
		return int(r.Int63())
	case 4:
		return -int(r.Int63())
	default:
		return 1 + r.Intn(14)
	}
}

func randStrs(r *rand.Rand) []string {
	n := r.Intn(4)
	if n == 0 {
		return nil // Go's empty non-nil slice would be written "[]" instead of null: identified with nil here
	}
	vs := make([]string, n)
	for i := range vs {
		vs[i] = randStr(r)
	}
	return vs
}

// randExpr builds an arbitrary stmt.Expr tree: every kind may appear in every position
// (a SelectItem inside a NotExpr inside a CallExpr ...), which the parser never does.
func randExpr(r *rand.Rand, d int) stmt.Expr {
	k := r.Intn(12)
	if d <= 0 {
		k = r.Intn(6)
	}
	switch k {
	case 0:
		return &stmt.FieldExpr{Name: randStr(r)}
	case 1:
		return &stmt.NumberLiteral{Val: randFinite(r)}
	case 2:
		return &stmt.EqualsExpr{Key: randStr(r), Value: randStr(r)}
	case 3:
		return &stmt.InExpr{Key: randStr(r), Values: randStrs(r)}
	case 4:
		return &stmt.LikeExpr{Key: randStr(r), Value: randStr(r)}
	case 5:
		return &stmt.RegexExpr{Key: randStr(r), Regexp: randStr(r)}
	case 6:
		n := r.Intn(4)
		var ps []stmt.Expr
		for i := 0; i < n; i++ {
			ps = append(ps, randExpr(r, d-1))
		}
		ft := function.FuncType(randInt(r))
		if r.Intn(2) == 0 {
			ft = function.FuncType(r.Intn(11))
		}
		return &stmt.CallExpr{FuncType: ft, Params: ps}
	case 7:
		return &stmt.ParenExpr{Expr: randExpr(r, d-1)}
	case 8:
		return &stmt.BinaryExpr{Left: randExpr(r, d-1), Right: randExpr(r, d-1), Operator: stmt.BinaryOP(randInt(r))}
	case 9:
		return &stmt.NotExpr{Expr: randExpr(r, d-1)}
	case 10:
		return &stmt.SelectItem{Expr: randExpr(r, d-1), Alias: randStr(r)}
	default:
		return &stmt.OrderByExpr{Expr: randExpr(r, d-1), Desc: r.Intn(2) == 0}
	}
}

func randExprs(r *rand.Rand, d int) []stmt.Expr {
	n := r.Intn(4)
	var es []stmt.Expr
	for i := 0; i < n; i++ {
		es = append(es, randExpr(r, d))
	}
	return es
}

func randSeconds(r *rand.Rand) timeutil.Interval {
	switch r.Intn(6) {
	case 0:
		return 0
	case 1:
		return timeutil.Interval(int64(r.Intn(100000)) * 1000)
	case 2:
		return timeutil.Interval(-int64(r.Intn(100000)) * 1000)
	case 3:
		return timeutil.Interval([]int64{60000, 3600000, 86400000, 7 * 86400000, 30 * 86400000, 365 * 86400000, 31 * 86400000, 366 * 86400000}[r.Intn(8)] * int64(1+r.Intn(5)))
	default:
		return timeutil.Interval(int64(1+r.Intn(360)) * 10000)
	}
}

// randQuery builds a statement value directly (what a planner could hand to MarshalJSON).
func randQuery(r *rand.Rand, d int) *stmt.Query {
	q := &stmt.Query{
		Explain: r.Intn(3) == 0, Namespace: randStr(r), MetricName: randStr(r), AllFields: r.Intn(3) == 0,
		SelectItems: randExprs(r, d), OrderByItems: randExprs(r, d),
		TimeRange:       timeutil.TimeRange{Start: int64(randInt(r)), End: int64(randInt(r))},
		Interval:        randSeconds(r),
		StorageInterval: randSeconds(r), IntervalRatio: randInt(r), AutoGroupByTime: r.Intn(3) == 0,
		GroupBy: randStrs(r), Limit: randInt(r),
	}
	if r.Intn(2) == 0 {
		q.Condition = randExpr(r, d)
	}
	if r.Intn(3) == 0 {
		q.Having = randExpr(r, d)
	}
	return q
}

func randMeta(r *rand.Rand, d int) *stmt.MetricMetadata {
	m := &stmt.MetricMetadata{Namespace: randStr(r), MetricName: randStr(r), Type: stmt.MetricMetadataType(r.Intn(7)),
		TagKey: randStr(r), Prefix: randStr(r), Limit: randInt(r)}
	if r.Intn(2) == 0 {
		m.Condition = randExpr(r, d)
	}
	return m
}

// ---------------------------------------------------------------- malformed wire values

var tagPool = []string{"regex", "like", "in", "equals", "number", "field", "paren", "binary", "selectItem", "orderBy", "call", "not",
	"", "Field", "unknown", "nope", "select", "expr"}

var intervalTexts = []string{"10s", "5", "", "s", "10x", "1 0 s", " 1 h ", "+10s", "-5m", "3H", "2D", "1Y", "7S", "1M", "90m", "1.5h", "0s", "-0d", "1_0s", "١٠s", "10 ", "9223372036854775s", "1e3s", "0x10s", "--1s", "1w"}

func randReplacement(r *rand.Rand, key string) *jv {
	for {
		switch r.Intn(8) {
		case 0, 1:
			return &jv{kind: jNull}
		case 2:
			return &jv{kind: jStr, s: randStr(r)}
		case 3:
			return &jv{kind: jBool, b: r.Intn(2) == 0}
		case 4:
			return &jv{kind: jArr}
		case 5:
			return &jv{kind: jObj}
		case 6:
			if key != "val" { // a number under the float field is always typed flt
				return &jv{kind: jInt, i: int64(r.Intn(50) - 10)}
			}
		default:
			if key == "val" {
				return &jv{kind: jFlt, f: math.Float64bits(randFinite(r))}
			}
		}
	}
}

// walk collects pointers to every object in the value.
func (j *jv) objects(acc *[]*jv) {
	switch j.kind {
	case jObj:
		*acc = append(*acc, j)
		for _, kv := range j.obj {
			kv.v.objects(acc)
		}
	case jArr:
		for _, x := range j.arr {
			x.objects(acc)
		}
	}
}

func (j *jv) arrays(acc *[]*jv) {
	switch j.kind {
	case jObj:
		for _, kv := range j.obj {
			kv.v.arrays(acc)
		}
	case jArr:
		*acc = append(*acc, j)
		for _, x := range j.arr {
			x.arrays(acc)
		}
	}
}

// mutate applies ONE structural mutation (so at most one decoding error is introduced and the
// order in which jsoniter reports several errors never matters). Returns the mutation's name.
func mutate(r *rand.Rand, root *jv) string {
	var objs []*jv
	root.objects(&objs)
	if len(objs) == 0 {
		*root = *randReplacement(r, "")
		return "replace-root"
	}
	o := objs[r.Intn(len(objs))]
	if r.Intn(8) == 0 { // statement-level interval texts
		for i := range root.obj {
			if root.obj[i].k == "interval" || root.obj[i].k == "storageInterval" {
				if r.Intn(2) == 0 {
					root.obj[i].v = &jv{kind: jStr, s: intervalTexts[r.Intn(len(intervalTexts))]}
					return "interval-text"
				}
			}
		}
	}
	if len(o.obj) == 0 {
		o.obj = append(o.obj, jkv{"type", &jv{kind: jStr, s: tagPool[r.Intn(len(tagPool))]}})
		return "add-type"
	}
	idx := r.Intn(len(o.obj))
	key := o.obj[idx].k
	switch r.Intn(9) {
	case 0: // drop a key
		o.obj = append(o.obj[:idx:idx], o.obj[idx+1:]...)
		return "drop-key"
	case 1, 2: // change the tag (or the first string field) of this object
		for i := range o.obj {
			if o.obj[i].k == "type" && o.obj[i].v.kind == jStr {
				o.obj[i].v = &jv{kind: jStr, s: tagPool[r.Intn(len(tagPool))]}
				return "retag"
			}
		}
		o.obj[idx].v = randReplacement(r, key)
		return "replace-value"
	case 3, 4:
		o.obj[idx].v = randReplacement(r, key)
		return "replace-value"
	case 5: // duplicate key, later one wins (never null: for int/bool/struct fields jsoniter treats a
		// later null as "keep the earlier value", which is outside the model's last-wins lookup)
		// and never for the struct-typed field: a second object is merged into the first by jsoniter)
		if key == "timeRange" {
			o.obj = append(o.obj, jkv{"zz_extra", randReplacement(r, "zz_extra")})
			return "extra-key"
		}
		v := randReplacement(r, key)
		for v.kind == jNull {
			v = randReplacement(r, key)
		}
		o.obj = append(o.obj, jkv{key, v})
		return "duplicate-key"
	case 6: // interval text
		for i := range o.obj {
			if o.obj[i].k == "interval" || o.obj[i].k == "storageInterval" {
				o.obj[i].v = &jv{kind: jStr, s: intervalTexts[r.Intn(len(intervalTexts))]}
				return "interval-text"
			}
		}
		o.obj[idx].v = randReplacement(r, key)
		return "replace-value"
	case 7: // null / foreign element inside an array
		var arrs []*jv
		root.arrays(&arrs)
		if len(arrs) > 0 {
			a := arrs[r.Intn(len(arrs))]
			pos := r.Intn(len(a.arr) + 1)
			el := randReplacement(r, "")
			a.arr = append(a.arr[:pos:pos], append([]*jv{el}, a.arr[pos:]...)...)
			return "array-element"
		}
		o.obj[idx].v = randReplacement(r, key)
		return "replace-value"
	default: // unknown extra key (ignored by the decoder)
		o.obj = append(o.obj, jkv{"zz_extra", randReplacement(r, "zz_extra")})
		return "extra-key"
	}
}
