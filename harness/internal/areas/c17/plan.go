package c17

import (
	"context"
	"fmt"
	"math/rand"
	"sort"

	"github.com/lindb/lindb/coordinator/broker"
	"github.com/lindb/lindb/models"
	"github.com/lindb/lindb/pkg/option"
	"github.com/lindb/lindb/pkg/timeutil"
	protoCommonV1 "github.com/lindb/lindb/proto/gen/v1/common"
	querycontext "github.com/lindb/lindb/query/context"
	"github.com/lindb/lindb/sql/stmt"

	"github.com/lindb/lindb/zzverif/internal/core"
)

// "... so a leaf node executes the statement the root planned": the REAL plan stages
// (RootMetricContext / IntermediateMetricContext / MetadataContext .MakePlan) are run against a
// stub state manager; the payload each task request carries is unmarshalled the way
// query/leaf_processor.go and query/intermediate_processor.go do (`stmtQuery.UnmarshalJSON(req.Payload)`)
// and must equal the statement the planning node holds after MakePlan.

// stubState is a broker.StateManager of which only Choose and GetDatabaseCfg are ever called.
type stubState struct {
	broker.StateManager
	cfg     models.Database
	targets int
}

func (s *stubState) Choose(database string, _ int) ([]*models.PhysicalPlan, error) {
	var plans []*models.PhysicalPlan
	for p := 0; p < 2; p++ {
		pl := &models.PhysicalPlan{Database: database}
		for t := 0; t < s.targets; t++ {
			pl.Targets = append(pl.Targets, &models.Target{Indicator: fmt.Sprintf("10.0.%d.%d:2891", p, t), ShardIDs: []models.ShardID{models.ShardID(t)}})
		}
		plans = append(plans, pl)
	}
	return plans, nil
}

func (s *stubState) GetDatabaseCfg(string) (models.Database, bool) { return s.cfg, true }

func randCfg(r *rand.Rand) models.Database {
	sets := [][]int64{{10000, 600000, 3600000}, {60000, 3600000}, {10000}, {5000, 300000}}
	var o option.DatabaseOption
	for _, v := range sets[r.Intn(len(sets))] {
		o.Intervals = append(o.Intervals, option.Interval{Interval: timeutil.Interval(v), Retention: timeutil.Interval(400 * 365 * 86400000)})
	}
	return models.Database{Name: "db", Option: &o}
}

func payloadsSorted(m map[string][]byte) [][]byte {
	var ks []string
	for k := range m {
		ks = append(ks, k)
	}
	sort.Strings(ks)
	var out [][]byte
	for _, k := range ks {
		out = append(out, m[k])
	}
	return out
}

// checkQueryPayloads: every payload decodes (as the leaf does) to the statement the planner holds.
func checkQueryPayloads(c *core.Ctx, stage, what string, payloads map[string][]byte, held *stmt.Query) {
	if len(payloads) == 0 {
		c.Fail("plan-no-requests", stage+" produced no task request for "+what)
		return
	}
	want := queryDump(held)
	for _, p := range payloadsSorted(payloads) {
		var got stmt.Query
		if err := got.UnmarshalJSON(p); err != nil {
			c.Fail("leaf-statement-differs", fmt.Sprintf("%s: the leaf cannot decode the payload (%s) for %s", stage, errKind(err), what))
			return
		}
		if d := queryDump(&got); d != want {
			c.Fail("leaf-statement-differs", fmt.Sprintf("%s: the leaf decodes a statement different from the one the planning node holds: %s: root holds %s, leaf gets %s", stage, what, clip(want), clip(d)))
			return
		}
	}
}

// alignStatement moves q into the `plan-already-aligned` region: absolute bounds aligned to one
// hour (a multiple of every configured storage interval), an explicit group-by interval of k hours
// (a multiple of the storage interval, not below the interval CalcQueryInterval would pick for a
// range under a month), nothing planned yet. calcTimeRangeAndInterval then leaves TimeRange and
// Interval as they are and only fills StorageInterval / IntervalRatio.
func alignStatement(r *rand.Rand, q *stmt.Query, k int64) {
	const hour = 3600000
	start := (1546300800000/hour + r.Int63n(30000)) * hour
	q.TimeRange = timeutil.TimeRange{Start: start, End: start + (1+r.Int63n(600))*hour}
	q.Interval = timeutil.Interval(k * hour)
	q.AutoGroupByTime = false
	q.StorageInterval = 0
	q.IntervalRatio = 0
}

// planStages runs the real plan stages on q (a parse result or a directly built statement).
// aligned > 0 first moves the statement into the plan-already-aligned region with k = aligned.
func planStages(c *core.Ctx, r *rand.Rand, q *stmt.Query, what string, aligned int64) {
	cfg := randCfg(r)
	node := models.StatelessNode{HostIP: "1.1.1.1", GRPCPort: 9000}
	base := *q
	if aligned > 0 {
		c.Branch("plan-already-aligned")
		alignStatement(r, &base, aligned)
		what = fmt.Sprintf("(aligned, interval %dh) %s", aligned, what)
	}
	// root
	root := base
	st := &stubState{cfg: cfg, targets: 1 + r.Intn(3)}
	rctx := querycontext.NewRootMetricContext(&querycontext.RootMetricContextDeps{
		Ctx: context.Background(), Request: &models.Request{RequestID: "r1"}, Database: "db",
		CurrentNode: node, Statement: &root, Choose: st,
	})
	var err error
	if !quiet(func() { err = rctx.MakePlan() }) || err != nil {
		c.Branch("plan-stage-refused")
		return
	}
	c.Branch("plan-stage-root")
	if aligned > 0 && (root.TimeRange != base.TimeRange || root.Interval != base.Interval) {
		c.Branch("plan-aligned-region-moved") // the planner did change range/interval: region not hit
	}
	checkQueryPayloads(c, "RootMetricContext.MakePlan", what, rctx.VerifRequestPayloads(), rctx.Deps.Statement)
	// the op line: the statement the root holds after planning goes through the model as well
	queryOps(c, rctx.Deps.Statement, "", "held by the root after MakePlan: "+what)

	// intermediate (root -> broker path): it receives a task request whose payload is the upstream
	// statement — either as the root sent it after its own planning or un-planned — decodes it
	// (intermediate_processor.processDataSearch) and plans the decoded statement against the
	// database config of its own cluster.
	var received []byte
	if r.Intn(2) == 0 {
		received, _ = base.MarshalJSON()
		c.Branch("intermediate-receives-unplanned")
	} else {
		for _, p := range payloadsSorted(rctx.VerifRequestPayloads()) {
			received = p
			break
		}
		if r.Intn(2) == 0 {
			st = &stubState{cfg: randCfg(r), targets: 1 + r.Intn(3)} // another cluster's config
		}
		c.Branch("intermediate-receives-root-planned")
	}
	var mid stmt.Query
	if err := mid.UnmarshalJSON(received); err != nil {
		return // statements that do not survive the wire are reported by queryOps
	}
	ictx := querycontext.NewIntermediateMetricContext(context.Background(), nil, st,
		&protoCommonV1.TaskRequest{RequestID: "r1", Payload: received}, node,
		&models.PhysicalPlan{Database: "db"}, &mid, []string{"1.1.1.1:9000"})
	if quiet(func() { err = ictx.MakePlan() }) && err == nil {
		c.Branch("plan-stage-intermediate")
		checkQueryPayloads(c, "IntermediateMetricContext.MakePlan", what, ictx.VerifRequestPayloads(), ictx.VerifStatement())
	}
}

func planMetaStage(c *core.Ctx, m *stmt.MetricMetadata, what string) {
	held := *m
	st := &stubState{targets: 2}
	var mctx *querycontext.MetadataContext
	var err error
	if !quiet(func() {
		mctx = querycontext.NewMetadataContext(&querycontext.MetadataDeps{Ctx: context.Background(), Request: &models.Request{RequestID: "r1"},
			Database: "db", Statement: &held, CurrentNode: models.StatelessNode{HostIP: "1.1.1.1", GRPCPort: 9000}, Choose: st})
		err = mctx.MakePlan()
	}) || err != nil {
		c.Branch("plan-stage-refused")
		return
	}
	c.Branch("plan-stage-metadata")
	payloads := mctx.VerifRequestPayloads()
	if len(payloads) == 0 {
		c.Fail("plan-no-requests", "MetadataContext.MakePlan produced no task request for "+what)
		return
	}
	want := metaDump(mctx.Deps.Statement)
	for _, p := range payloadsSorted(payloads) {
		var got stmt.MetricMetadata
		if err := got.UnmarshalJSON(p); err != nil || metaDump(&got) != want {
			c.Fail("leaf-statement-differs", fmt.Sprintf("MetadataContext.MakePlan: the leaf decodes %v / a statement different from the one the root holds for %s: root %s", err, what, clip(want)))
			return
		}
	}
}
