package c17

// Round 10: derivations of fieldExpr / boolExpr / sortField rendered to SQL, parsed by the real
// parser and compared with the model's field-expression stack machine (op fq); parse-side
// stability (a returned statement must not change when the next statement is parsed); string
// literals with control characters and non-BMP runes in every literal position.

import (
	"fmt"
	"math"
	"math/rand"
	"strconv"
	"strings"

	"github.com/lindb/lindb/sql/stmt"
	"github.com/lindb/lindb/zzverif/internal/core"
)

// literal bodies for quoted identifiers / values: control characters, DEL, line separators,
// backslash, non-BMP runes, the empty string
var hardBodies = []string{"\x01ctl", "nl\nline", "cr\rx", "\x7f", " ls", "😀𐍈", "bs\\x", "tab\tx", "\x1f", "é́", "a b", "", "\U0010FFFF"}

type fqGen struct {
	r     *rand.Rand
	hard  bool
	names []string // SQL text of the identifiers used in the select list
}

var fqFuncs = []struct {
	name string
	n    int
}{{"sum", 1}, {"min", 2}, {"max", 3}, {"count", 4}, {"avg", 5}, {"last", 6}, {"first", 7}, {"quantile", 8}, {"stddev", 9}, {"rate", 10}}

var fqNumbers = []string{"1", "0", "0.5", "100", "2.25", "3.14159", "12345678901234567890", ".5"}

// ident returns (value, SQL text)
func (g *fqGen) ident() (string, string) {
	if g.hard && g.r.Intn(2) == 0 {
		b := hardBodies[g.r.Intn(len(hardBodies))]
		return b, "'" + b + "'"
	}
	switch g.r.Intn(12) {
	case 0:
		b := quotedBody[g.r.Intn(len(quotedBody))]
		return b, "'" + b + "'"
	case 1:
		return "", "''"
	default:
		n := []string{"f", "g", "h", "usage", "load", "f1", "x_2"}[g.r.Intn(7)]
		return n, n
	}
}

// atom: an operand that needs no parentheses
func (g *fqGen) atom(d int) (tok, sql string) {
	switch k := g.r.Intn(20); {
	case k < 8:
		v, s := g.ident()
		g.names = append(g.names, s)
		return "ident x" + hx(v), s
	case k < 11:
		s := fqNumbers[g.r.Intn(len(fqNumbers))]
		if g.r.Intn(40) == 0 {
			s = "1" + strings.Repeat("0", 400)
		}
		v, _ := strconv.ParseFloat(s, 64)
		return fmt.Sprintf("num %016x x%s", math.Float64bits(v), hx(fmt.Sprintf("%.2f", v))), s
	case k < 12:
		return "star", "*"
	case k < 13:
		return "dur", []string{"10s", "5m", "1h"}[g.r.Intn(3)]
	case k < 17 && d > 0:
		f := fqFuncs[g.r.Intn(len(fqFuncs))]
		n := 1
		switch g.r.Intn(8) {
		case 0:
			n = 0
		case 1:
			n = 2
		}
		var ts, ss []string
		for i := 0; i < n; i++ {
			t, s := g.expr(d - 1)
			ts = append(ts, t)
			ss = append(ss, s)
		}
		return strings.TrimSpace(fmt.Sprintf("call %d %d %s", f.n, n, strings.Join(ts, " "))), f.name + "(" + strings.Join(ss, ", ") + ")"
	case d > 0:
		t, s := g.expr(d - 1)
		return "paren " + t, "(" + s + ")"
	default:
		v, s := g.ident()
		g.names = append(g.names, s)
		return "ident x" + hx(v), s
	}
}

func (g *fqGen) expr(d int) (tok, sql string) {
	if d > 0 && g.r.Intn(3) == 0 {
		op := []struct{ t, s string }{{"mul", "*"}, {"div", "/"}, {"add", "+"}, {"sub", "-"}}[g.r.Intn(4)]
		lt, ls := g.atom(d - 1)
		rt, rs := g.atom(d - 1)
		return "bin " + op.t + " " + lt + " " + rt, ls + " " + op.s + " " + rs
	}
	return g.atom(d)
}

func (g *fqGen) boolExpr(d int) (tok, sql string) {
	cmp := func() (string, string) {
		op := []struct {
			n int
			s string
		}{{7, "="}, {8, "!="}, {8, "<>"}, {11, "<"}, {12, "<="}, {9, ">"}, {10, ">="}}[g.r.Intn(7)]
		lt, ls := g.expr(1)
		rt, rs := g.expr(1)
		return fmt.Sprintf("batom %d %s %s", op.n, lt, rt), ls + " " + op.s + " " + rs
	}
	operand := func() (string, string) {
		if d > 0 && g.r.Intn(3) == 0 {
			t, s := g.boolExpr(d - 1)
			return "bparen " + t, "(" + s + ")"
		}
		return cmp()
	}
	switch k := g.r.Intn(6); {
	case d <= 0 || k < 3:
		return cmp()
	case k < 4:
		t, s := g.boolExpr(d - 1)
		return "bparen " + t, "(" + s + ")"
	default:
		op, w := 1, "and"
		if g.r.Intn(2) == 0 {
			op, w = 2, "or"
		}
		lt, ls := operand()
		rt, rs := operand()
		return fmt.Sprintf("blogic %d %s %s", op, lt, rt), ls + " " + w + " " + rs
	}
}

// fqErrKind maps the parser's error to the model's error names.
func fqErrKind(err error) string {
	m := err.Error()
	switch {
	case strings.Contains(m, "select fields cannbe be empty"):
		return "empty-select"
	case strings.Contains(m, "select field expression is incomplete"):
		return "incomplete-select"
	case strings.Contains(m, "order by expression is incomplete"):
		return "incomplete-order-by"
	case strings.Contains(m, "having expression is incomplete"):
		return "incomplete-having"
	case strings.Contains(m, "function not support order by"):
		return "order-by-func"
	case strings.Contains(m, "order by function params length invalid"):
		return "order-by-params"
	case strings.Contains(m, "order by field not in select fields"):
		return "order-by-field"
	case strings.Contains(m, "value out of range"):
		return "parse-float"
	case strings.Contains(m, "nil pointer dereference") || strings.Contains(m, "invalid memory address"):
		return "panic"
	}
	return "other:" + m
}

func fqDump(q *stmt.Query) string {
	var sb strings.Builder
	sb.WriteString("ok")
	dumpList(&sb, "sel", q.SelectItems)
	sb.WriteString(" all " + b01(q.AllFields))
	dumpOpt(&sb, "h", q.Having)
	dumpList(&sb, "ob", q.OrderByItems)
	return sb.String()
}

// glueFieldQuery: one derivation of the select list / having / order by through the real parser
// and the model's stack machine.
func glueFieldQuery(c *core.Ctx, r *rand.Rand, hard bool) (text string, q *stmt.Query) {
	g := &fqGen{r: r, hard: hard}
	nf := 1 + r.Intn(3)
	var toks, sqls []string
	for i := 0; i < nf; i++ {
		t, s := g.expr(1 + r.Intn(2))
		if r.Intn(5) == 0 {
			av, as := g.ident()
			t += " alias x" + hx(av)
			s += " as " + as
			g.names = append(g.names, as)
		} else {
			t += " noalias"
		}
		toks = append(toks, t)
		sqls = append(sqls, s)
	}
	text = "select " + strings.Join(sqls, ", ") + " from cpu"
	op := fmt.Sprintf("fq %d %s", nf, strings.Join(toks, " "))
	if r.Intn(3) == 0 {
		t, s := g.boolExpr(1 + r.Intn(2))
		op += " having 1 " + t
		text += " group by host having " + s
	} else {
		op += " having 0"
	}
	ns := 0
	if r.Intn(2) == 0 {
		ns = 1 + r.Intn(2)
	}
	op += fmt.Sprintf(" sorts %d", ns)
	var sorts []string
	for i := 0; i < ns; i++ {
		var t, s string
		switch k := r.Intn(10); {
		case k < 5 && len(g.names) > 0: // a selected name
			s = g.names[r.Intn(len(g.names))]
			v := s
			if strings.HasPrefix(s, "'") {
				v = s[1 : len(s)-1]
			}
			t = "ident x" + hx(v)
		case k < 7 && len(g.names) > 0: // a supported / unsupported call over a selected name
			f := fqFuncs[r.Intn(len(fqFuncs))]
			s = g.names[r.Intn(len(g.names))]
			v := s
			if strings.HasPrefix(s, "'") {
				v = s[1 : len(s)-1]
			}
			t = fmt.Sprintf("call %d 1 ident x%s", f.n, hx(v))
			s = f.name + "(" + s + ")"
		default:
			t, s = g.expr(1)
		}
		desc := r.Intn(2) == 0
		op += " " + b01(desc) + " " + t
		if desc {
			s += " desc"
		} else if r.Intn(2) == 0 {
			s += " asc"
		}
		sorts = append(sorts, s)
	}
	if ns > 0 {
		text += " order by " + strings.Join(sorts, ", ")
	}
	st, err := parse(c, text)
	out := ""
	if err != nil {
		out = "err " + fqErrKind(err)
		c.Branch("fq-" + out)
		if strings.HasPrefix(out, "err other:") {
			// the text is not a derivation the grammar accepts the way the generator meant it
			// (e.g. a keyword-like identifier): not comparable
			c.Branch("fq-not-comparable")
			return text, nil
		}
	} else {
		var ok bool
		q, ok = st.(*stmt.Query)
		if !ok {
			c.Fail("fq-not-a-query", fmt.Sprintf("%q parsed to %T", text, st))
			return text, nil
		}
		out = fqDump(q)
		c.Branch("fq-accepted")
		if w := illFormedWhere(q); w != "" {
			c.Fail("nil-child-in-"+w, fmt.Sprintf("%q is accepted with a missing operand in %s: %s", text, w, clip(queryDump(q))))
		}
	}
	c.Op(op, out)
	c.NonTrivial()
	return text, q
}

// caseFieldMachine: derivations against the model, then parse-side stability: the statement
// returned for A must read the same after B was parsed, and the same as a fresh parse of A.
func caseFieldMachine(c *core.Ctx, r *rand.Rand, n int) {
	type parsed struct {
		text   string
		q      *stmt.Query
		dump   string
		marsh  string
		before string
	}
	var got []parsed
	for k := 0; k < n; k++ {
		text, q := glueFieldQuery(c, r, r.Intn(3) == 0)
		if q == nil {
			continue
		}
		var data []byte
		safe(c, "Query.MarshalJSON", func() { data, _ = q.MarshalJSON() })
		got = append(got, parsed{text: text, q: q, dump: timeless(q), marsh: string(data)})
		// every earlier statement still reads as when it was returned
		for _, p := range got[:len(got)-1] {
			if d := timeless(p.q); d != p.dump {
				c.Fail("parse-result-overwritten-by-next-parse", fmt.Sprintf("the statement returned for %q changed after %q was parsed: was %s, now %s", p.text, text, clip(p.dump), clip(d)))
			}
			var again []byte
			safe(c, "Query.MarshalJSON", func() { again, _ = p.q.MarshalJSON() })
			if string(again) != p.marsh {
				c.Fail("parse-result-overwritten-by-next-parse", fmt.Sprintf("the wire form of the statement returned for %q changed after %q was parsed", p.text, text))
			}
		}
	}
	for _, p := range got {
		st, err := parse(c, p.text)
		if err != nil {
			c.Fail("parser-nondeterministic", fmt.Sprintf("%q was accepted, the same text is now rejected: %v", p.text, err))
			continue
		}
		if fq, ok := st.(*stmt.Query); ok {
			if d := timeless(fq); d != p.dump {
				c.Fail("parse-result-differs-from-fresh-parse", fmt.Sprintf("%q: the statement held since the first parse reads %s, a fresh parse gives %s", p.text, clip(timeless(p.q)), clip(d)))
			}
			queryOps(c, fq, "", "parsed from "+p.text)
		}
	}
}

// caseLiterals: control characters, DEL, line separators, backslash and non-BMP runes in every
// literal position of a statement, through parse -> MarshalJSON -> UnmarshalJSON, and as trees.
func caseLiterals(c *core.Ctx, r *rand.Rand) {
	c.Branch("literals")
	for _, b := range hardBodies {
		q := "'" + b + "'"
		texts := []string{
			"select f from cpu where host = " + q,
			"select f from cpu where host like " + q,
			"select f from cpu where host =~ " + q,
			"select f from cpu where host in (" + q + ", 'a')",
			"select f from cpu where " + q + " = 'v'",
			"select " + q + " from cpu",
			"select f as " + q + " from cpu",
			"select f from " + q,
			"select f from cpu on " + q,
			"select f from cpu group by " + q,
			"show tag values from " + q + " with key = " + q + " where host = " + q,
		}
		for _, text := range texts {
			st, err := parse(c, text)
			if err != nil {
				c.Branch("literal-rejected")
				continue
			}
			c.Branch("literal-accepted")
			switch x := st.(type) {
			case *stmt.Query:
				if b != "" && !strings.Contains(queryDump(x), hx(b)) {
					c.Fail("literal-not-from-text", fmt.Sprintf("%q is accepted but the literal %q is nowhere in the statement: %s", text, b, clip(queryDump(x))))
				}
				queryOps(c, x, "", "parsed from "+text)
			case *stmt.MetricMetadata:
				metaOps(c, x, "parsed from "+text)
			}
		}
		for _, e := range []stmt.Expr{
			&stmt.EqualsExpr{Key: "k", Value: b}, &stmt.EqualsExpr{Key: b, Value: "v"}, &stmt.LikeExpr{Key: "k", Value: b},
			&stmt.RegexExpr{Key: "k", Regexp: b}, &stmt.InExpr{Key: "k", Values: []string{b, "z"}}, &stmt.FieldExpr{Name: b},
			&stmt.SelectItem{Expr: &stmt.FieldExpr{Name: "f"}, Alias: b}, &stmt.NotExpr{Expr: &stmt.EqualsExpr{Key: "k", Value: b}},
		} {
			exprOps(c, e, "")
		}
		// two filters that differ only in the literal must have different Marshal bytes (map key)
		other := hardBodies[r.Intn(len(hardBodies))]
		if other != b {
			a1 := string(stmt.Marshal(&stmt.EqualsExpr{Key: "k", Value: b}))
			a2 := string(stmt.Marshal(&stmt.EqualsExpr{Key: "k", Value: other}))
			if a1 == a2 {
				c.Fail("marshal-not-injective", fmt.Sprintf("tag values %q and %q marshal to the same bytes %s", b, other, a1))
			}
		}
	}
	c.NonTrivial()
}

// caseRound10Fixed: fixed statements for the field machine's corners, then random derivations.
func caseRound10Fixed(c *core.Ctx, r *rand.Rand) {
	c.Branch("round10-fixed")
	caseLiterals(c, r)
	caseFieldMachine(c, r, 40)
}
