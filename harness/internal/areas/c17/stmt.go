package c17

import (
	"bytes"
	"fmt"
	"math"
	"math/rand"
	"strings"
	"sync"
	"time"

	"github.com/lindb/lindb/pkg/timeutil"
	"github.com/lindb/lindb/sql"
	"github.com/lindb/lindb/sql/stmt"

	"github.com/lindb/lindb/zzverif/internal/core"
)

type area struct{}

func init() { core.Register(area{}) }

func (area) Name() string { return "stmt" }

// stable failure keys (known_findings.json refers to the first four)
const (
	keyInfSQL      = "inf-number-literal-from-long-digit-string"
	keyNilStar     = "nil-child-star-operand"
	keyNilDuration = "nil-child-duration-operand"
	keyIntervalOvf = "interval-overflow-not-whole-seconds"
	keyNonFinite   = "nonfinite-number-literal-tree"
)

const absRange = " where time > '20190410 00:00:00' and time < '20190410 10:00:00'"

// parse runs the real parser; a panic is reported, never propagated.
func parse(c *core.Ctx, text string) (st stmt.Statement, err error) {
	defer func() {
		if r := recover(); r != nil {
			c.Fail("panic", fmt.Sprintf("sql.Parse(%q) panicked: %v", text, r))
			err = fmt.Errorf("panic")
		}
	}()
	return sql.Parse(text)
}

func safe(c *core.Ctx, what string, f func()) (ok bool) {
	defer func() {
		if r := recover(); r != nil {
			c.Fail("panic", fmt.Sprintf("%s panicked: %v", what, r))
			ok = false
		}
	}()
	f()
	return true
}

// quiet runs f; a panic inside it is not C17's business (used for the planner step only).
func quiet(f func()) (ok bool) {
	defer func() {
		if r := recover(); r != nil {
			ok = false
		}
	}()
	f()
	return true
}

// wellFormed: no nil child and no NaN/±Inf literal (the guard of the model's theorems).
func wellFormed(e stmt.Expr) bool {
	switch x := e.(type) {
	case nil:
		return false
	case *stmt.NumberLiteral:
		return !math.IsNaN(x.Val) && !math.IsInf(x.Val, 0)
	case *stmt.CallExpr:
		for _, p := range x.Params {
			if !wellFormed(p) {
				return false
			}
		}
		return true
	case *stmt.ParenExpr:
		return wellFormed(x.Expr)
	case *stmt.BinaryExpr:
		return wellFormed(x.Left) && wellFormed(x.Right)
	case *stmt.NotExpr:
		return wellFormed(x.Expr)
	case *stmt.SelectItem:
		return wellFormed(x.Expr)
	case *stmt.OrderByExpr:
		return wellFormed(x.Expr)
	}
	return true
}

// illFormedWhere names the clause of a parsed statement that holds a nil child or a non-finite
// literal ("" if none): the stable key of the "accepted => well formed" oracle.
func illFormedWhere(q *stmt.Query) string {
	for _, e := range q.SelectItems {
		if !wellFormed(e) {
			return "nil-child-in-select"
		}
	}
	if q.Having != nil && !wellFormed(q.Having) {
		if hasCallWithBadParam(q.Having) {
			return "nil-child-in-having-call"
		}
		return "nil-child-in-having"
	}
	for _, e := range q.OrderByItems {
		if !wellFormed(e) {
			return "nil-child-in-order-by"
		}
	}
	if q.Condition != nil && !wellFormed(q.Condition) {
		return "nil-child-in-condition"
	}
	return ""
}

// hasCallWithBadParam: some CallExpr in e has a parameter that is not well formed.
func hasCallWithBadParam(e stmt.Expr) bool {
	switch x := e.(type) {
	case *stmt.CallExpr:
		for _, p := range x.Params {
			if !wellFormed(p) {
				return true
			}
		}
	case *stmt.ParenExpr:
		return hasCallWithBadParam(x.Expr)
	case *stmt.BinaryExpr:
		return hasCallWithBadParam(x.Left) || hasCallWithBadParam(x.Right)
	case *stmt.NotExpr:
		return hasCallWithBadParam(x.Expr)
	case *stmt.SelectItem:
		return hasCallWithBadParam(x.Expr)
	case *stmt.OrderByExpr:
		return hasCallWithBadParam(x.Expr)
	}
	return false
}

func queryWellFormed(q *stmt.Query) bool {
	for _, e := range q.SelectItems {
		if !wellFormed(e) {
			return false
		}
	}
	for _, e := range q.OrderByItems {
		if !wellFormed(e) {
			return false
		}
	}
	return (q.Condition == nil || wellFormed(q.Condition)) && (q.Having == nil || wellFormed(q.Having))
}

// ---- the operations -------------------------------------------------------------------------

// exprOps: emarshal + eround on one tree; the oracle is the property itself.
func exprOps(c *core.Ctx, e stmt.Expr, key string) {
	d := exprDump(e)
	var data []byte
	if !safe(c, "stmt.Marshal", func() { data = stmt.Marshal(e) }) {
		return
	}
	out := "empty"
	if len(data) > 0 {
		j, err := parseWire(data)
		if err != nil {
			c.Fail("marshal-invalid-json", fmt.Sprintf("stmt.Marshal(%s) is not valid JSON: %v: %s", d, err, data))
			out = "invalid"
		} else {
			out = j.String()
		}
	}
	c.Op("emarshal "+d, out)
	var back stmt.Expr
	var err error
	if !safe(c, "stmt.Unmarshal", func() { back, err = stmt.Unmarshal(data) }) {
		return
	}
	res := ""
	if err != nil {
		res = errKind(err)
	} else {
		res = "ok " + exprDump(back)
	}
	c.Op("eround "+d, res)
	c.NonTrivial()
	if res != "ok "+d {
		if key == "" {
			key = "expr-roundtrip"
		}
		c.Fail(key, fmt.Sprintf("expression tree does not survive Marshal/Unmarshal: %s => %s", d, res))
	}
}

// queryOps: qmarshal + qround on one statement. Returns false if the round trip changed it.
func queryOps(c *core.Ctx, q *stmt.Query, key, what string) bool {
	d := queryDump(q)
	var data []byte
	if !safe(c, "Query.MarshalJSON", func() { data, _ = q.MarshalJSON() }) {
		return false
	}
	j, err := parseWire(data)
	out := "invalid"
	if err != nil {
		c.Fail("marshal-invalid-json", fmt.Sprintf("Query.MarshalJSON of %s is not valid JSON: %v", what, err))
	} else {
		out = j.String()
	}
	c.Op("qmarshal "+d, out)
	var back stmt.Query
	if !safe(c, "Query.UnmarshalJSON", func() { err = back.UnmarshalJSON(data) }) {
		return false
	}
	res := ""
	if err != nil {
		res = errKind(err)
	} else {
		res = "ok " + queryDump(&back)
	}
	c.Op("qround "+d, res)
	c.NonTrivial()
	if res != "ok "+d {
		if key == "" {
			key = "query-roundtrip"
		}
		c.Fail(key, fmt.Sprintf("statement does not survive MarshalJSON/UnmarshalJSON: %s: sent %s, leaf gets %s", what, d, clip(res)))
		return false
	}
	// the leaf's statement marshals to the same bytes again (nothing hidden from the dump)
	if again, _ := back.MarshalJSON(); !bytes.Equal(again, data) {
		c.Fail("query-remarshal", fmt.Sprintf("re-marshalling the leaf's statement gives different bytes: %s", what))
		return false
	}
	return true
}

func metaOps(c *core.Ctx, m *stmt.MetricMetadata, what string) {
	d := metaDump(m)
	var data []byte
	if !safe(c, "MetricMetadata.MarshalJSON", func() { data, _ = m.MarshalJSON() }) {
		return
	}
	j, err := parseWire(data)
	out := "invalid"
	if err != nil {
		c.Fail("marshal-invalid-json", fmt.Sprintf("MetricMetadata.MarshalJSON of %s is not valid JSON: %v", what, err))
	} else {
		out = j.String()
	}
	c.Op("mmarshal "+d, out)
	var back stmt.MetricMetadata
	if !safe(c, "MetricMetadata.UnmarshalJSON", func() { err = back.UnmarshalJSON(data) }) {
		return
	}
	res := ""
	if err != nil {
		res = errKind(err)
	} else {
		res = "ok " + metaDump(&back)
	}
	c.Op("mround "+d, res)
	c.NonTrivial()
	if res != "ok "+d {
		c.Fail("metadata-roundtrip", fmt.Sprintf("metadata statement does not survive the wire: %s: sent %s, leaf gets %s", what, d, clip(res)))
	}
}

func clip(s string) string {
	if len(s) > 400 {
		return s[:400] + "..."
	}
	return s
}

// timeless renders a statement with its time range blanked (for statements whose range depends
// on the wall clock).
func timeless(q *stmt.Query) string {
	c := *q
	c.TimeRange = timeutil.TimeRange{}
	return queryDump(&c)
}

func stmtDump(st stmt.Statement, abs bool) string {
	switch x := st.(type) {
	case *stmt.Query:
		if abs {
			return queryDump(x)
		}
		return timeless(x)
	case *stmt.MetricMetadata:
		return metaDump(x)
	case nil:
		return "<nil>"
	}
	return fmt.Sprintf("<%T>", st)
}

// plan mimics what the root does between Parse and MarshalJSON (calcTimeRangeAndInterval):
// storage interval from the database's interval list, ratio, query interval = storage*ratio,
// time range truncated to the storage interval.
func plan(r *rand.Rand, q *stmt.Query) {
	storage := []int64{10000, 60000, 300000, 3600000}[r.Intn(4)]
	ratio := 1 + r.Intn(6)
	q.StorageInterval = timeutil.Interval(storage)
	q.IntervalRatio = ratio
	q.Interval = timeutil.Interval(storage * int64(ratio))
	q.TimeRange.Start -= q.TimeRange.Start % storage
	q.TimeRange.End -= q.TimeRange.End % storage
}

// ---- the case kinds -------------------------------------------------------------------------

func witnessSQL(c *core.Ctx, text, key string) {
	st, err := parse(c, text)
	if err != nil {
		c.Note("witness no longer parses: " + err.Error())
		c.Branch("witness-rejected-by-parser")
		return
	}
	q, ok := st.(*stmt.Query)
	if !ok {
		c.Fail("witness-shape", "witness did not parse to a query: "+text)
		return
	}
	if len(text) > 120 {
		text = text[:60] + "...(" + fmt.Sprint(len(text)) + " bytes)"
	}
	queryOps(c, q, key, text)
}

// witnessWellFormed: the statement is rejected, or else its tree is well formed and survives.
func witnessWellFormed(c *core.Ctx, text, key string) {
	st, err := parse(c, text)
	if err != nil {
		c.Branch("witness-rejected-by-parser")
		return
	}
	q, ok := st.(*stmt.Query)
	if !ok {
		c.Fail("witness-shape", "witness did not parse to a query: "+text)
		return
	}
	c.Branch("witness-accepted")
	if w := illFormedWhere(q); w != "" {
		if key == "" {
			key = w
		}
		c.Fail(key, fmt.Sprintf("sql.Parse accepts %q but leaves an operand nil: %s", text, clip(queryDump(q))))
	}
	queryOps(c, q, key, text)
}

func caseWitnesses(c *core.Ctx, i int) {
	switch i {
	case 0:
		// a digit string beyond float64: strconv.ParseFloat returns +Inf and a range error that
		// visitExprAtom ignores
		c.Branch("witness-inf-literal")
		witnessSQL(c, "select f+1"+strings.Repeat("0", 309)+" from cpu"+absRange, keyInfSQL)
		witnessSQL(c, "select f+1"+strings.Repeat("0", 308)+" from cpu"+absRange, "") // still finite: must survive
	case 1:
		c.Branch("witness-nil-child")
		witnessSQL(c, "select f+* from cpu"+absRange, keyNilStar)
		witnessSQL(c, "select (*) from cpu"+absRange, keyNilStar)
		witnessSQL(c, "select f+10s from cpu"+absRange, keyNilDuration)
		witnessSQL(c, "select sum(*) from cpu"+absRange, "") // params stay empty: survives
		// the same operands inside function-call parameters, in every clause that takes expressions:
		// each must be rejected, or else be well formed and survive
		g := " group by host having "
		for _, w := range []struct{ text, key string }{
			{"select f from cpu" + absRange + g + "sum(f + *) > 1", "nil-child-in-having-call"},
			{"select f from cpu" + absRange + g + "max((*)) > 1", "nil-child-in-having-call"},
			{"select f from cpu" + absRange + g + "sum(f + 10s) > 1", "nil-child-in-having-call"},
			{"select f from cpu" + absRange + g + "f < 2 and (g > 1 or min(h, (*) / 2) > 1)", "nil-child-in-having-call"},
			{"select f from cpu" + absRange + g + "f + * > 1", "nil-child-in-having"},
			{"select f from cpu" + absRange + g + "10s > 1", "nil-child-in-having"},
			{"select f from cpu" + absRange + g + "sum(*) > 1", ""}, // empty params: fine
			{"select sum(f + *) from cpu" + absRange, "nil-child-in-select"},
			{"select sum((*)) as s from cpu" + absRange, "nil-child-in-select"},
			{"select g, max(sum(f+10s)) from cpu" + absRange, "nil-child-in-select"},
			{"select sum(10s) from cpu" + absRange, ""}, // params stay empty
			{"select f from cpu" + absRange + " order by sum(f + *)", "nil-child-in-order-by"},
			{"select f from cpu" + absRange + " order by sum((*)) desc", "nil-child-in-order-by"},
			{"select f from cpu" + absRange + " order by f + 10s", "nil-child-in-order-by"},
		} {
			witnessWellFormed(c, w.text, w.key)
		}
	case 2:
		c.Branch("witness-interval-overflow")
		witnessSQL(c, "select f from cpu"+absRange+" group by time(100000000000000y)", keyIntervalOvf)
		witnessSQL(c, "select f from cpu"+absRange+" group by time(292471208y)", "") // largest whole-year interval that fits int64
	case 3:
		c.Branch("witness-nonfinite-tree")
		for _, v := range []float64{math.NaN(), math.Inf(1), math.Inf(-1)} {
			exprOps(c, &stmt.NumberLiteral{Val: v}, keyNonFinite)
			exprOps(c, &stmt.SelectItem{Expr: &stmt.CallExpr{FuncType: 8, Params: []stmt.Expr{&stmt.FieldExpr{Name: "f"}, &stmt.NumberLiteral{Val: v}}}, Alias: "p"}, keyNonFinite)
		}
		// nil children built directly
		exprOps(c, &stmt.NotExpr{}, "nil-child-tree")
		exprOps(c, &stmt.BinaryExpr{Left: &stmt.FieldExpr{Name: "a"}, Operator: stmt.ADD}, "nil-child-tree")
	}
}

func caseIntervals(c *core.Ctx, r *rand.Rand) {
	c.Branch("intervals")
	vals := []int64{0, 1, 999, 1000, 1500, -1, -1000, -1500, -60000, 60000, 90000, 3600000, 86400000, 7 * 86400000, 30 * 86400000,
		31 * 86400000, 365 * 86400000, 366 * 86400000, 730 * 86400000, -26609163815616512}
	for k := 0; k < 12; k++ {
		switch r.Intn(3) {
		case 0:
			vals = append(vals, int64(r.Intn(1000000))*1000)
		case 1:
			vals = append(vals, r.Int63n(1<<45)-(1<<44))
		default:
			vals = append(vals, []int64{1000, 60000, 3600000, 86400000, 30 * 86400000, 365 * 86400000}[r.Intn(6)]*int64(r.Intn(400)-50))
		}
	}
	for _, v := range vals {
		iv := timeutil.Interval(v)
		s := iv.String()
		var back timeutil.Interval
		err := back.ValueOf(s)
		out := "s" + hx(s) + " "
		if err != nil {
			out += errKind(err)
		} else {
			out += fmt.Sprintf("ok %d", int64(back))
		}
		c.Op(fmt.Sprintf("interval %d", v), out)
		c.NonTrivial()
		if v%1000 == 0 {
			if err != nil || int64(back) != v {
				c.Fail("interval-roundtrip", fmt.Sprintf("Interval(%d).String()=%q parses back to %d err=%v", v, s, int64(back), err))
			}
		} else {
			c.Branch("interval-not-whole-seconds")
		}
	}
	for k := 0; k < 10; k++ {
		s := intervalTexts[r.Intn(len(intervalTexts))]
		var back timeutil.Interval
		err := back.ValueOf(s)
		out := fmt.Sprintf("ok %d", int64(back))
		if err != nil {
			out = errKind(err)
		}
		c.Op("valueof s"+hx(s), out)
	}
}

func caseSQL(c *core.Ctx, r *rand.Rand) {
	g := &sqlGen{r: r}
	depth := 1 + r.Intn(3)
	text := g.query(depth)
	c.Note("sql: " + clip(text))
	st, err := parse(c, text)
	if err != nil {
		c.Branch("sql-rejected")
		if g.badOperands > 0 {
			c.Branch("sql-rejected-star-or-duration-operand")
		}
		// determinism also covers rejection
		if _, err2 := parse(c, text); err2 == nil || err2.Error() != err.Error() {
			c.Fail("parser-nondeterministic", fmt.Sprintf("%q rejected with %q, then %v", text, err, err2))
		}
		return
	}
	q, ok := st.(*stmt.Query)
	if !ok {
		c.Fail("sql-shape", fmt.Sprintf("%q parsed to %T", text, st))
		return
	}
	c.Branch("sql-accepted")
	c.Branch(fmt.Sprintf("sql-depth-%d", depth))
	// (iii) same text again: equal statements (modulo the clock for now()-relative ranges).
	// `fresh` is the snapshot of the first parse, taken before anything touches the result.
	fresh := stmtDump(st, g.absTime)
	if g.absTime {
		// both bounds are literals of the text: the range is exactly these, whatever the clock says
		c.Branch("time-literals-checked")
		if g.future {
			c.Branch("time-literal-after-now")
		}
		if q.TimeRange.Start != g.wantStart || q.TimeRange.End != g.wantEnd {
			c.Fail("time-range-not-from-text", fmt.Sprintf("%q: TimeRange is [%d,%d], the literals say [%d,%d]", clip(text), q.TimeRange.Start, q.TimeRange.End, g.wantStart, g.wantEnd))
		}
		if g.future || r.Intn(4) == 0 {
			time.Sleep(2 * time.Millisecond) // a value taken from the clock differs on the next parse
		}
	}
	st2, err2 := parse(c, text)
	if err2 != nil || stmtDump(st2, g.absTime) != fresh {
		c.Fail("parser-nondeterministic", fmt.Sprintf("%q parsed twice gives different statements (err=%v)", text, err2))
	}
	defer reparseAfterMutation(c, r, text, g.absTime, fresh, st, st2)
	if !g.absTime {
		// make the case reproducible: the wall clock is replaced by values from the case's PRNG
		c.Branch("time-now-relative")
		end := 1500000000000 + r.Int63n(300000000000)
		q.TimeRange = timeutil.TimeRange{Start: end - 1 - r.Int63n(86400000*30), End: end}
	} else {
		c.Branch("time-absolute")
	}
	if q.Condition != nil {
		c.Branch("has-condition")
	}
	if q.Having != nil {
		c.Branch("has-having")
	}
	if len(q.OrderByItems) > 0 {
		c.Branch("has-order-by")
	}
	if len(q.GroupBy) > 0 || q.Interval != 0 || q.AutoGroupByTime {
		c.Branch("has-group-by")
	}
	if g.badOperands > 0 {
		c.Branch("sql-accepted-with-star-or-duration-operand")
	}
	// accepted => the tree is well formed (no nil child, no NaN/Inf literal) and survives the wire
	rtKey := ""
	if w := illFormedWhere(q); w != "" {
		rtKey = w
		c.Fail(w, fmt.Sprintf("sql.Parse accepts %q but leaves an operand nil (or a non-finite literal): %s", clip(text), clip(queryDump(q))))
	}
	queryOps(c, q, rtKey, "parsed from "+clip(text))
	switch r.Intn(6) {
	case 0, 1:
		c.Branch("planned")
		plan(r, q)
		queryOps(c, q, "", "planned from "+clip(text))
	case 2:
		// the real planner step of the root (query/context.calcTimeRangeAndInterval)
		c.Branch("planned-real")
		if quiet(func() { realPlan(r, q) }) {
			queryOps(c, q, "", "planned (calcTimeRangeAndInterval) from "+clip(text))
		}
	case 3, 4:
		// the real plan stages: what the leaves decode must be what the planning node holds
		if queryWellFormed(q) {
			aligned := int64(0)
			if r.Intn(3) == 0 {
				aligned = 1 + r.Int63n(6)
			}
			planStages(c, r, q, "parsed from "+clip(text), aligned)
		}
	}
}

// reparseAfterMutation is the aliasing oracle: the results handed out so far are rewritten in
// place (every field, every node), then the byte-identical text is parsed again and must still
// give the statement a fresh parse gave. A parser that hands out shared mutable structure (a
// statement cache, pooled nodes, shared slices) fails here.
func reparseAfterMutation(c *core.Ctx, r *rand.Rand, text string, abs bool, fresh string, results ...stmt.Statement) {
	for _, st := range results {
		safe(c, "scramble", func() { scramble(st) })
	}
	c.Branch("reparse-after-mutation")
	n := 1 + r.Intn(2)
	for k := 0; k < n; k++ {
		st, err := parse(c, text)
		if err != nil {
			c.Fail("parse-result-shared", fmt.Sprintf("%q parsed before, rejected after its earlier result was mutated: %v", clip(text), err))
			return
		}
		if got := stmtDump(st, abs); got != fresh {
			c.Fail("parse-result-shared", fmt.Sprintf("%q: a parse AFTER the earlier parse result was planned/mutated differs from the fresh parse (Parse hands out shared mutable state): fresh %s, now %s", clip(text), clip(fresh), clip(got)))
			return
		}
		safe(c, "scramble", func() { scramble(st) })
	}
}

func caseMetaSQL(c *core.Ctx, r *rand.Rand) {
	g := &sqlGen{r: r}
	text := g.metadata(1 + r.Intn(2))
	c.Note("sql: " + clip(text))
	st, err := parse(c, text)
	if err != nil {
		c.Branch("meta-rejected")
		return
	}
	m, ok := st.(*stmt.MetricMetadata)
	if !ok {
		c.Fail("sql-shape", fmt.Sprintf("%q parsed to %T", text, st))
		return
	}
	c.Branch("meta-accepted")
	fresh := stmtDump(st, true)
	st2, err2 := parse(c, text)
	if err2 != nil || stmtDump(st2, true) != fresh {
		c.Fail("parser-nondeterministic", fmt.Sprintf("%q parsed twice gives different statements", text))
	}
	metaOps(c, m, "parsed from "+clip(text))
	if m.Condition == nil || wellFormed(m.Condition) {
		planMetaStage(c, m, "parsed from "+clip(text))
	}
	reparseAfterMutation(c, r, text, true, fresh, st, st2)
}

// tagFilterPair: Marshal is used as a map key for tag filter results (query/operator), so two
// filters must have equal bytes exactly when they are equal filters.
func tagFilterPair(c *core.Ctx, r *rand.Rand) {
	c.Branch("marshal-injective")
	small := []string{"a", "b", "", "a\",\"value\":\"b", "host"}
	mk := func() stmt.Expr {
		k, v := small[r.Intn(len(small))], small[r.Intn(len(small))]
		var e stmt.Expr
		switch r.Intn(5) {
		case 0:
			e = &stmt.EqualsExpr{Key: k, Value: v}
		case 1:
			e = &stmt.LikeExpr{Key: k, Value: v}
		case 2:
			e = &stmt.RegexExpr{Key: k, Regexp: v}
		case 3:
			e = &stmt.InExpr{Key: k, Values: []string{v}}
		default:
			e = &stmt.InExpr{Key: k, Values: []string{v, small[r.Intn(len(small))]}}
		}
		if r.Intn(4) == 0 {
			e = &stmt.NotExpr{Expr: e}
		}
		return e
	}
	for k := 0; k < 6; k++ {
		a, b := mk(), mk()
		same := exprDump(a) == exprDump(b)
		if bytes.Equal(stmt.Marshal(a), stmt.Marshal(b)) != same {
			c.Fail("marshal-not-injective", fmt.Sprintf("Marshal bytes equal=%v for filters %s and %s", !same, exprDump(a), exprDump(b)))
		}
	}
	exprOps(c, mk(), "")
}

func caseTrees(c *core.Ctx, r *rand.Rand) {
	if r.Intn(8) == 0 {
		tagFilterPair(c, r)
		return
	}
	switch r.Intn(4) {
	case 0:
		c.Branch("random-query-value")
		q := randQuery(r, 1+r.Intn(3))
		queryOps(c, q, "", "random statement value")
		if r.Intn(3) == 0 {
			planStages(c, r, q, "random statement value", 0)
		}
	case 1:
		c.Branch("random-metadata-value")
		metaOps(c, randMeta(r, 1+r.Intn(3)), "random metadata value")
	default:
		c.Branch("random-tree")
		n := 1 + r.Intn(3)
		for k := 0; k < n; k++ {
			exprOps(c, randExpr(r, 1+r.Intn(4)), "")
		}
	}
}

func caseMalformed(c *core.Ctx, r *rand.Rand) {
	switch r.Intn(3) {
	case 0: // an expression envelope
		base := stmt.Marshal(randExpr(r, 1+r.Intn(3)))
		j, err := parseWire(base)
		if err != nil {
			c.Fail("marshal-invalid-json", err.Error())
			return
		}
		if r.Intn(12) == 0 {
			c.Branch("malformed-empty")
			_, err := stmt.Unmarshal(nil)
			out := "ok ?"
			if err != nil {
				out = errKind(err)
			}
			c.Op("eunmarshal empty", out)
			return
		}
		m := mutate(r, j)
		c.Branch("malformed-expr-" + m)
		var e stmt.Expr
		if !safe(c, "stmt.Unmarshal", func() { e, err = stmt.Unmarshal(j.bytes()) }) {
			return
		}
		out := ""
		if err != nil {
			out = errKind(err)
			c.Branch("malformed-" + strings.Fields(out)[1])
		} else {
			out = "ok " + exprDump(e)
			c.Branch("malformed-accepted")
		}
		c.Op("eunmarshal "+j.String(), out)
	case 1: // a statement
		var q *stmt.Query
		if r.Intn(2) == 0 {
			q = randQuery(r, 1+r.Intn(2))
		} else {
			g := &sqlGen{r: r}
			st, err := parse(c, g.query(2))
			if err != nil {
				q = randQuery(r, 1)
			} else if qq, ok := st.(*stmt.Query); ok {
				q = qq
				q.TimeRange = timeutil.TimeRange{Start: 1500000000000, End: 1500003600000}
			} else {
				q = randQuery(r, 1)
			}
		}
		base, _ := q.MarshalJSON()
		j, err := parseWire(base)
		if err != nil {
			c.Fail("marshal-invalid-json", err.Error())
			return
		}
		m := mutate(r, j)
		c.Branch("malformed-query-" + m)
		var back stmt.Query
		if !safe(c, "Query.UnmarshalJSON", func() { err = back.UnmarshalJSON(j.bytes()) }) {
			return
		}
		out := ""
		if err != nil {
			out = errKind(err)
			c.Branch("malformed-" + strings.Fields(out)[1])
		} else {
			out = "ok " + queryDump(&back)
			c.Branch("malformed-accepted")
		}
		c.Op("qunmarshal "+j.String(), out)
	default:
		mm := randMeta(r, 1+r.Intn(2))
		base, _ := mm.MarshalJSON()
		j, err := parseWire(base)
		if err != nil {
			c.Fail("marshal-invalid-json", err.Error())
			return
		}
		m := mutate(r, j)
		c.Branch("malformed-meta-" + m)
		var back stmt.MetricMetadata
		if !safe(c, "MetricMetadata.UnmarshalJSON", func() { err = back.UnmarshalJSON(j.bytes()) }) {
			return
		}
		out := ""
		if err != nil {
			out = errKind(err)
		} else {
			out = "ok " + metaDump(&back)
		}
		c.Op("munmarshal "+j.String(), out)
	}
}

// caseDeterminism: (iii) the same texts parsed in order, in reverse order and concurrently
// (the antlr DFA/prediction caches and lindb's lexer/parser pools are shared) give equal
// statements every time. Oracle only; one of the statements is also sent through the model.
func caseDeterminism(c *core.Ctx, r *rand.Rand) {
	c.Branch("determinism-batch")
	type item struct {
		text string
		abs  bool
		want string
	}
	var items []item
	n := 4 + r.Intn(5)
	for k := 0; k < n; k++ {
		g := &sqlGen{r: r}
		var text string
		if r.Intn(5) == 0 {
			text = g.metadata(2)
			g.absTime = true
		} else {
			text = g.query(1 + r.Intn(3))
		}
		items = append(items, item{text: text, abs: g.absTime})
	}
	// every result is dumped and then rewritten in place: a later parse of the same text that
	// returns (parts of) an earlier result shows up as a difference
	res := func(text string, abs bool) string {
		st, err := parse(c, text)
		if err != nil {
			return "error: " + err.Error()
		}
		d := stmtDump(st, abs)
		if q, ok := st.(*stmt.Query); ok && r.Intn(3) == 0 {
			quiet(func() { realPlan(r, q) })
		}
		safe(c, "scramble", func() { scramble(st) })
		return d
	}
	for k := range items {
		items[k].want = res(items[k].text, items[k].abs)
	}
	for k := len(items) - 1; k >= 0; k-- {
		if got := res(items[k].text, items[k].abs); got != items[k].want {
			c.Fail("parser-nondeterministic", fmt.Sprintf("%q: second parse (reverse order) differs", items[k].text))
		}
	}
	var mu sync.Mutex
	var bad []string
	var wg sync.WaitGroup
	workers := 4
	for w := 0; w < workers; w++ {
		wg.Add(1)
		go func(w int) {
			defer wg.Done()
			for rep := 0; rep < 3; rep++ {
				for k := range items {
					it := items[(k+w*3+rep)%len(items)]
					var got string
					func() {
						defer func() {
							if rec := recover(); rec != nil {
								got = fmt.Sprintf("panic: %v", rec)
							}
						}()
						st, err := sql.Parse(it.text)
						if err != nil {
							got = "error: " + err.Error()
						} else {
							got = stmtDump(st, it.abs)
							scramble(st) // concurrent requests own their statement
						}
					}()
					if got != it.want {
						mu.Lock()
						bad = append(bad, it.text)
						mu.Unlock()
					}
				}
			}
		}(w)
	}
	wg.Wait()
	if len(bad) > 0 {
		c.Fail("parser-nondeterministic", fmt.Sprintf("concurrent parse (each goroutine mutates its own result) differs from the fresh sequential one for %q (%d mismatches)", bad[0], len(bad)))
	}
	// one of them through the model as well
	for _, it := range items {
		if it.abs && !strings.HasPrefix(it.want, "error") {
			if st, err := parse(c, it.text); err == nil {
				if q, ok := st.(*stmt.Query); ok {
					queryOps(c, q, "", "parsed from "+clip(it.text))
					break
				}
			}
		}
	}
}

// caseAliasing: the fixed replay of the aliasing oracle — a statement with two absolute time
// bounds, one relative to now(), one without a range and a metadata statement; each is parsed,
// planned by the real planner step, rewritten in place, and parsed again (sequentially and by
// concurrent requests that each plan + rewrite their own result).
func caseAliasing(c *core.Ctx, r *rand.Rand) {
	c.Branch("aliasing-fixed")
	texts := []struct {
		text string
		abs  bool
	}{
		{"select f*2, sum(g) as s from cpu" + absRange + " and host='a' group by host,time(10s) having f>1.5 order by s desc", true},
		{"select f from cpu where time > now()-1h and host in ('a','b')", false},
		{"select max(f) from cpu where host like 'a*'", false},
		{"show tag values from cpu with key=host where ip='1.1.1.1' limit 5", true},
	}
	for _, t := range texts {
		st, err := parse(c, t.text)
		if err != nil {
			c.Fail("aliasing-witness-rejected", t.text+": "+err.Error())
			continue
		}
		fresh := stmtDump(st, t.abs)
		if q, ok := st.(*stmt.Query); ok {
			quiet(func() { realPlan(r, q) })
			if stmtDump(st, t.abs) == fresh && t.abs {
				c.Note("planner step did not change the statement")
			}
		}
		reparseAfterMutation(c, r, t.text, t.abs, fresh, st)
		// concurrent requests with the same text
		var wg sync.WaitGroup
		var mu sync.Mutex
		bad := 0
		for w := 0; w < 4; w++ {
			wg.Add(1)
			go func(seed int64) {
				defer wg.Done()
				lr := rand.New(rand.NewSource(seed))
				for k := 0; k < 20; k++ {
					func() {
						defer func() {
							if rec := recover(); rec != nil {
								mu.Lock()
								bad++
								mu.Unlock()
							}
						}()
						s2, err := sql.Parse(t.text)
						if err != nil || stmtDump(s2, t.abs) != fresh {
							mu.Lock()
							bad++
							mu.Unlock()
							return
						}
						if q, ok := s2.(*stmt.Query); ok {
							quiet(func() { realPlan(lr, q) })
						}
						scramble(s2)
					}()
				}
			}(r.Int63())
		}
		wg.Wait()
		if bad > 0 {
			c.Fail("parse-result-shared", fmt.Sprintf("%q: %d of 80 concurrent parse+plan requests did not get a fresh statement", t.text, bad))
		}
	}
	c.NonTrivial()
}

// caseTimeFixed: absolute bounds before, around and after the wall clock: TimeRange is exactly the
// literals, and the same on a parse a few milliseconds later.
func caseTimeFixed(c *core.Ctx) {
	c.Branch("time-fixed")
	for _, t := range []struct {
		text       string
		start, end int64
	}{
		{"select f from cpu where time > '20200101 00:00:00' and time < '20990101 00:00:00'", 1577836800000, 4070908800000},
		{"select f from cpu where time >= '2090-06-01 12:00:00' and time <= '2090-06-02 12:00:00' and host='a'", 3800001600000, 3800088000000},
		{"select f from cpu where host='a' and time < '2021/03/04 05:06:07' and time > '2021/03/04 05:06:06'", 1614834366000, 1614834367000},
	} {
		st, err := parse(c, t.text)
		if err != nil {
			c.Fail("time-witness-rejected", t.text+": "+err.Error())
			continue
		}
		q := st.(*stmt.Query)
		if q.TimeRange.Start != t.start || q.TimeRange.End != t.end {
			c.Fail("time-range-not-from-text", fmt.Sprintf("%q: TimeRange is [%d,%d], the literals say [%d,%d]", t.text, q.TimeRange.Start, q.TimeRange.End, t.start, t.end))
		}
		time.Sleep(3 * time.Millisecond)
		st2, err2 := parse(c, t.text)
		if err2 != nil || stmtDump(st2, true) != stmtDump(st, true) {
			c.Fail("parser-nondeterministic", fmt.Sprintf("%q parsed again 3ms later gives a different statement", t.text))
		}
		queryOps(c, q, "", "parsed from "+t.text)
	}
}

// casePlanFixed: fixed statements through the real plan stages — several grouping keys NOT in
// lexicographic order, several select items with aliases, having, order by, limit, time().
func casePlanFixed(c *core.Ctx, r *rand.Rand) {
	c.Branch("plan-fixed")
	for _, text := range []string{
		"select sum(f) as s, max(g)/2, h from cpu on ns" + absRange + " and (zone='z' or app in ('b','a')) group by zone,host,app,time(1m) having s>1 order by s desc, h limit 7",
		"select f from cpu" + absRange + " group by host,app",
		"select * from cpu where time > now()-2h group by time(),b,a",
		"select f from cpu",
	} {
		st, err := parse(c, text)
		if err != nil {
			c.Fail("plan-witness-rejected", text+": "+err.Error())
			continue
		}
		q := st.(*stmt.Query)
		if !strings.Contains(text, "'2019") {
			q.TimeRange = timeutil.TimeRange{Start: 1554854400000, End: 1554861600000}
		}
		planStages(c, r, q, "parsed from "+text, 0)
		for _, k := range []int64{1, 2, 3, 24} {
			planStages(c, r, q, "parsed from "+text, k)
		}
	}
	for _, text := range []string{"show tag values from cpu with key=host where zone='z' and app in ('b','a') limit 5", "show fields from cpu", "show metrics on ns where metric='a'"} {
		st, err := parse(c, text)
		if err != nil {
			c.Fail("plan-witness-rejected", text+": "+err.Error())
			continue
		}
		planMetaStage(c, st.(*stmt.MetricMetadata), "parsed from "+text)
	}
}

func (area) Run(c *core.Ctx) error {
	if err := checkStructs(); err != nil {
		return err
	}
	for i := 0; i < c.N; i++ {
		if !c.Want(i) {
			continue
		}
		c.Begin(i)
		r := c.Rng(i)
		switch {
		case i < 4:
			caseWitnesses(c, i)
		case i == 4:
			caseIntervals(c, r)
		case i == 5:
			caseAliasing(c, r)
		case i == 6:
			casePlanFixed(c, r)
		case i == 7:
			caseTimeFixed(c)
		case i == 8:
			caseNumbers(c)
		case i == 9:
			caseGlueFixed(c, r)
		case i == 10:
			caseWorker(c, r)
		case i == 11:
			caseRound10Fixed(c, r)
		case i == 12:
			caseLarge(c, r)
		default:
			switch k := r.Intn(100); {
			case k < 42:
				caseSQL(c, r)
			case k < 50:
				caseMetaSQL(c, r)
			case k < 69:
				caseTrees(c, r)
			case k < 82:
				caseMalformed(c, r)
			case k < 85:
				caseIntervals(c, r)
			case k < 91:
				caseDeterminism(c, r)
			case k < 94:
				caseWorker(c, r)
			case k < 97:
				caseGlue(c, r)
			default:
				caseFieldMachine(c, r, 3)
			}
		}
	}
	return nil
}
