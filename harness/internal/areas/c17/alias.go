package c17

import (
	"math/rand"

	"github.com/lindb/lindb/models"
	"github.com/lindb/lindb/pkg/option"
	"github.com/lindb/lindb/pkg/timeutil"
	querycontext "github.com/lindb/lindb/query/context"
	"github.com/lindb/lindb/sql/stmt"
)

// Determinism as the harness observes it: sql.Parse behaves like a FUNCTION of the text, i.e.
// whatever a caller does to a statement it got from Parse, a later (or concurrent) Parse of the
// byte-identical text yields a statement equal to a fresh parse. The oracle therefore keeps the
// dump taken right after the first parse, then mutates that result adversarially (the real
// planner step calcTimeRangeAndInterval and/or an in-place rewrite of every reachable field) and
// only then parses the text again.

// realPlan runs lindb's own planner step (query/context.calcTimeRangeAndInterval through the
// verif hook): it rewrites TimeRange, Interval, StorageInterval and IntervalRatio in place.
func realPlan(r *rand.Rand, q *stmt.Query) {
	sets := [][]int64{{10000, 600000, 3600000}, {60000, 3600000}, {10000}, {5000, 300000}}
	var o option.DatabaseOption
	for _, v := range sets[r.Intn(len(sets))] {
		o.Intervals = append(o.Intervals, option.Interval{Interval: timeutil.Interval(v), Retention: timeutil.Interval(400 * 365 * 86400000)})
	}
	querycontext.VerifCalcTimeRangeAndInterval(q, models.Database{Name: "db", Option: &o})
}

// scrambleExpr rewrites every field of every node reachable from e, in place.
func scrambleExpr(e stmt.Expr) {
	switch x := e.(type) {
	case *stmt.FieldExpr:
		x.Name += "~"
	case *stmt.NumberLiteral:
		x.Val = x.Val*2 + 1
	case *stmt.CallExpr:
		x.FuncType += 3
		for i, p := range x.Params {
			scrambleExpr(p)
			x.Params[i] = &stmt.FieldExpr{Name: "~"}
		}
	case *stmt.ParenExpr:
		scrambleExpr(x.Expr)
		x.Expr = nil
	case *stmt.BinaryExpr:
		scrambleExpr(x.Left)
		scrambleExpr(x.Right)
		x.Left, x.Right = x.Right, x.Left
		x.Operator++
	case *stmt.EqualsExpr:
		x.Key += "~"
		x.Value += "~"
	case *stmt.InExpr:
		x.Key += "~"
		for i := range x.Values {
			x.Values[i] = "~"
		}
	case *stmt.LikeExpr:
		x.Key += "~"
		x.Value += "~"
	case *stmt.RegexExpr:
		x.Key += "~"
		x.Regexp += "~"
	case *stmt.NotExpr:
		scrambleExpr(x.Expr)
		x.Expr = nil
	case *stmt.SelectItem:
		scrambleExpr(x.Expr)
		x.Alias += "~"
		x.Expr = &stmt.FieldExpr{Name: "~"}
	case *stmt.OrderByExpr:
		scrambleExpr(x.Expr)
		x.Desc = !x.Desc
	}
}

// scramble rewrites every field of a parse result in place (slices element-wise, so that a
// shared backing array is hit as well).
func scramble(st stmt.Statement) {
	switch q := st.(type) {
	case *stmt.Query:
		q.Explain = !q.Explain
		q.Namespace += "~"
		q.MetricName += "~"
		q.AllFields = !q.AllFields
		for i, e := range q.SelectItems {
			scrambleExpr(e)
			q.SelectItems[i] = &stmt.FieldExpr{Name: "~"}
		}
		scrambleExpr(q.Condition)
		q.Condition = &stmt.EqualsExpr{Key: "~", Value: "~"}
		q.TimeRange.Start += 7777
		q.TimeRange.End += 8888
		q.Interval += 123000
		q.StorageInterval += 456000
		q.IntervalRatio += 5
		q.AutoGroupByTime = !q.AutoGroupByTime
		for i := range q.GroupBy {
			q.GroupBy[i] = "~"
		}
		q.GroupBy = append(q.GroupBy, "~")
		scrambleExpr(q.Having)
		q.Having = &stmt.FieldExpr{Name: "~"}
		for i, e := range q.OrderByItems {
			scrambleExpr(e)
			q.OrderByItems[i] = &stmt.FieldExpr{Name: "~"}
		}
		q.Limit += 1000
	case *stmt.MetricMetadata:
		q.Namespace += "~"
		q.MetricName += "~"
		q.Type++
		q.TagKey += "~"
		q.Prefix += "~"
		scrambleExpr(q.Condition)
		q.Condition = &stmt.EqualsExpr{Key: "~", Value: "~"}
		q.Limit += 1000
	}
}
