package c11

import (
	"context"
	"fmt"
	"math/rand"
	"sort"
	"strings"
	"sync"

	"github.com/lindb/roaring"

	"github.com/lindb/lindb/flow"
	"github.com/lindb/lindb/internal/concurrent"
	"github.com/lindb/lindb/zzverif/internal/core"
)

// ---- round 12 -------------------------------------------------------------------------------------
//
// (1) queries CONCURRENT with a flush, third sequentialised point: the flush runs and completes
//     between the query's shard-scan stage (dataFamily.Filter: memory databases + kv snapshot) and its
//     data-load stages. The query then reads the points from the memory database the flush has
//     meanwhile closed (write buffers released) and NOT from the new file (its snapshot is older).
// (2) region sparse-series-filter: many series, every storage unit holds only a subset of them, tag
//     conditions select subsets — DataLoadContext.IterateLowSeriesIDs has to map the query's series
//     onto storage positions when the query's smallest series is absent from a unit that holds
//     smaller, unselected ones.

// hookPool wraps the database's scanner pool (the pool of the data-load stages only): fn runs once,
// before the first task is handed on.
type hookPool struct {
	concurrent.Pool
	once sync.Once
	fn   func()
}

func (p *hookPool) Submit(ctx context.Context, task *concurrent.Task) {
	p.once.Do(p.fn)
	p.Pool.Submit(ctx, task)
}

// placementFree: every select item asks the field's own commutative aggregate — the answer does not
// depend on where the flush is placed (query_eq_naive_partial), so model (flush after the query)
// and implementation (flush inside the query) must both answer the reference.
func placementFree(q qSpec) bool {
	for _, it := range q.items {
		ft := schema[it.fld].ftype
		a := funcAgg(ft, it.fn)
		if a != aggOfFieldType(ft) || !commutative(a) {
			return false
		}
	}
	return true
}

// queryFlushBeforeLoad asks q; the family's Flush runs to completion inside the query, after its
// filtering and before its first load. For the model the history is "query, then flush" (the query
// filtered the state before the flush; the writes all completed before the query started).
func (r *run) queryFlushBeforeLoad(q qSpec, fam int) {
	if r.sh.fam(fam).mem == nil || !placementFree(q) {
		r.query(q)
		return
	}
	ran := false
	var ferr error
	r.e.scanHook = func() {
		ran = true
		ferr = r.e.flush(fam)
	}
	r.query(q)
	r.e.scanHook = nil
	if !ran {
		// no data-load stage (no series for the query): nothing happened
		r.c.Branch("query/flush-before-load:not-reached")
		return
	}
	out := "ok"
	if ferr != nil {
		out = "err"
		r.c.Fail("flush-error", fmt.Sprintf("Flush (inside a query) failed: %v", ferr))
	}
	r.c.Op(fmt.Sprintf("flush %d", fam), out)
	r.sh.flush(fam)
	r.c.Branch("op/flush-between-filter-and-load")
}

// sparseSubset draws the series a family's current memory database may receive.
func sparseSubset(rng *rand.Rand, sdefs []seriesDef) []seriesDef {
	for {
		var out []seriesDef
		for _, s := range sdefs {
			if rng.Intn(5) < 3 {
				out = append(out, s)
			}
		}
		if len(out) >= 2 {
			return out
		}
	}
}

// runSparseFixed: fixed case 23. Series ids are given by the index database in the order of the first
// write: A=1, B=2, C=3, D=4 (k1 = 1, 2, 3, 3). A memory database flushes every series of the metric's
// shard-level in-memory index (a series without rows in it gets an empty entry), so a storage unit
// lacks a series only when the in-memory index lacked it: after a restart the index starts empty.
// After the reopen only A, B, D are written: memory database and then file of family 0 hold {1,2,4};
// a query `k1 = 3` selects {3,4}, its smallest series is absent from the unit, 1 and 2 precede it
// there — series 4 sits at position 2. The unit is asked as a memory database, as a file, next to a
// second unit that holds all four, after compaction and reopen; plus selections whose first series is
// present / that have nothing before them.
func runSparseFixed(r *run) {
	r.oracleOn = true
	qs, qe := fullRange(r.spf, 0)
	sC := seriesDef{id: 3, tags: map[int]int{1: 3, 2: 1}}
	sD := seriesDef{id: 4, tags: map[int]int{1: 3, 2: 2}}
	eq := func(k, v int) cond { return cond{kind: "eq", k: k, vs: []int{v}} }
	qk3 := qSpec{qs: qs, qe: qe, ratio: 1, cond: eq(1, 3), items: []qItem{{1, fnSum}}}
	qk3by := qSpec{qs: qs, qe: qe, ratio: 1, cond: eq(1, 3), by: []int{2}, items: []qItem{{1, fnSum}}}
	qin := qSpec{qs: qs, qe: qe, ratio: 1, cond: cond{kind: "in", k: 1, vs: []int{2, 3}}, by: []int{1, 2}, items: []qItem{{1, fnSum}}}
	qall := qSpec{qs: qs, qe: qe, ratio: 1, cond: allCond(), by: []int{1, 2}, items: []qItem{{1, fnSum}}}
	ask := func() { r.query(qk3); r.query(qk3by); r.query(qin); r.query(qall) }
	// ids: every series gets its id in family 1 first; the restart empties the in-memory index
	for k, s := range []seriesDef{sA, sB, sC, sD} {
		r.writeRow(1, s, 2+k, 0, w1(1, float64(1000*(k+1))), nil, false)
	}
	r.reopen()
	for k, s := range []seriesDef{sA, sB, sD} {
		r.writeRow(0, s, 5+k, 0, w1(1, float64(1+k)), nil, false)
		r.writeRow(0, s, 6+k, 0, w1(1, float64(10*(1+k))), nil, false)
	}
	ask() // memory database {A,B,D}
	r.flush(0)
	ask() // file {A,B,D}
	for k, s := range []seriesDef{sA, sB, sC, sD} {
		r.writeRow(0, s, 7+k, 0, w1(1, float64(100*(1+k))), nil, false)
	}
	ask() // file {A,B,D} + memory database {A,B,C,D}
	r.flush(0)
	ask() // two files
	r.compact(0)
	ask()
	r.reopen()
	ask()
	// the helper itself on the shapes of this case
	iterOp(r.c, []uint16{3, 4}, []uint16{1, 2, 4})
	iterOp(r.c, []uint16{3, 4}, []uint16{1, 2, 3, 4})
	iterOp(r.c, []uint16{3, 4}, []uint16{2, 4})
	iterOp(r.c, []uint16{2, 3, 4}, []uint16{1, 2, 4})
	iterOp(r.c, []uint16{0, 9}, []uint16{0, 1, 9, 10})
	r.c.Branch("fixed/sparse-series-filter")
}

// runFlushBeforeLoadFixed: fixed case 24. The minimal shape of "flush completes between the query's
// filtering and its loading": slot 3 in a file; 3 again, 9 (series A) and 12 (series B) in the memory
// database; the query starts, filters, the flush runs and closes the memory database, the query loads.
func runFlushBeforeLoadFixed(r *run) {
	r.oracleOn = true
	qs, qe := fullRange(r.spf, 0)
	q := qSpec{qs: qs, qe: qe, ratio: 1, cond: allCond(), items: []qItem{{1, fnSum}}}
	qby := qSpec{qs: qs, qe: qe, ratio: 6, cond: allCond(), by: []int{1}, items: []qItem{{1, fnSum}}}
	r.writeRow(0, sA, 3, 0, w1(1, 1), nil, false)
	r.flush(0)
	r.writeRow(0, sA, 3, 0, w1(1, 2), nil, false)
	r.writeRow(0, sA, 9, 0, w1(1, 4), nil, false)
	r.writeRow(0, sB, 12, 0, w1(1, 50), nil, false)
	r.queryFlushBeforeLoad(q, 0)
	r.query(q)
	// a window that was left (slot 30: slots 5.. are in the compress buffer) and the current window
	r.writeRow(0, sA, 5, 0, w1(1, 8), nil, false)
	r.writeRow(0, sB, 30, 0, w1(1, 16), nil, false)
	r.writeRow(0, sA, 31, 0, w1(1, 32), nil, false)
	r.queryFlushBeforeLoad(qby, 0)
	r.query(qby)
	r.query(q)
	r.c.Branch("fixed/flush-between-filter-and-load")
}

// ---- op `iter`: the real DataLoadContext.Grouping + IterateLowSeriesIDs against the Lean model -------

// iterOp runs the real helper on a query container and a storage container (low series ids,
// ascending) and compares the callback's arguments with the model (op line) and with the property's
// own statement: every stored id the query selects is visited once, with ITS position in the storage.
func iterOp(c *core.Ctx, q, st []uint16) {
	if len(q) == 0 || len(st) == 0 {
		return // neither loader is built for an empty container (the stores drop emptied containers)
	}
	qb := roaring.New()
	for _, x := range q {
		qb.Add(uint32(x))
	}
	sb := roaring.New()
	for _, x := range st {
		sb.Add(uint32(x))
	}
	var got []string
	func() {
		defer func() {
			if r := recover(); r != nil {
				got = []string{fmt.Sprintf("panic")}
				c.Fail("panic", fmt.Sprintf("IterateLowSeriesIDs(query %v, storage %v) panicked: %v", q, st, r))
			}
		}()
		ctx := &flow.DataLoadContext{LowSeriesIDsContainer: qb.GetContainerAtIndex(0)}
		ctx.Grouping()
		ctx.IterateLowSeriesIDs(sb.GetContainerAtIndex(0), func(qi uint16, si int) {
			got = append(got, fmt.Sprintf("%d:%d", qi, si))
		})
	}()
	var want []string
	inQ := map[uint16]bool{}
	for _, x := range q {
		inQ[x] = true
	}
	for i, s := range st {
		if inQ[s] {
			want = append(want, fmt.Sprintf("%d:%d", s-q[0], i))
		}
	}
	line := func(ps []string) string {
		if len(ps) == 0 {
			return "pairs"
		}
		return "pairs " + strings.Join(ps, ",")
	}
	csv := func(xs []uint16) string {
		if len(xs) == 0 {
			return "-"
		}
		var p []string
		for _, x := range xs {
			p = append(p, fmt.Sprint(x))
		}
		return strings.Join(p, ",")
	}
	c.Op("iter "+csv(q)+" | "+csv(st), line(got))
	c.Branch("op/iter")
	if len(st) > 0 && len(q) > 0 {
		below := 0
		for _, s := range st {
			if s < q[0] {
				below++
			}
		}
		if below >= 2 && !func() bool {
			for _, s := range st {
				if s == q[0] {
					return true
				}
			}
			return false
		}() && len(want) > 0 {
			c.Branch("iter/shape:first-selected-absent-after-smaller-ids")
		}
	}
	if line(got) != line(want) {
		c.Fail("iterate-series-position-ne-own", fmt.Sprintf("query low series ids %v over a storage unit holding %v: IterateLowSeriesIDs passed (query index:storage position) %v, the selected series sit at %v", q, st, got, want))
	}
	if len(want) > 0 {
		c.NonTrivial()
	}
}

// iterRandom draws a query container and a storage container; one in three in the shape "ids below
// the query's smallest, the smallest itself absent".
func iterRandom(c *core.Ctx, rng *rand.Rand) {
	pool := []uint16{0, 1, 2, 3, 4, 5, 6, 7, 8, 9, 10, 11, 12, 13, 14, 15, 16, 17, 18, 19, 20, 300, 4096, 4097, 65534, 65535}
	draw := func(n int, from []uint16) []uint16 {
		if n > len(from) {
			n = len(from)
		}
		perm := rng.Perm(len(from))[:n]
		sort.Ints(perm)
		var out []uint16
		for _, p := range perm {
			out = append(out, from[p])
		}
		return out
	}
	q := draw(1+rng.Intn(7), pool)
	st := draw(rng.Intn(11), pool)
	if rng.Intn(3) == 0 {
		// storage = some ids below q's smallest + some of q's other ids + strangers
		var below, rest []uint16
		for _, x := range pool {
			if x < q[0] {
				below = append(below, x)
			} else if x != q[0] {
				rest = append(rest, x)
			}
		}
		st = append(draw(rng.Intn(4), below), draw(rng.Intn(6), rest)...)
	}
	iterOp(c, q, st)
}
