package c11

import (
	"fmt"
	"math/big"
	"math/rand"
	"sort"
	"strconv"
	"strings"

	"github.com/lindb/lindb/pkg/timeutil"

	"github.com/lindb/lindb/aggregation"
	"github.com/lindb/lindb/aggregation/function"
	"github.com/lindb/lindb/series"
	"github.com/lindb/lindb/series/field"
	"github.com/lindb/lindb/sql"
	"github.com/lindb/lindb/sql/stmt"
)

// ---- select-item expressions (the function/expression layer on top of the leaf answer) --------

// xnode is a select item: field | call(fn, x) | number | (x) | x op y.
type xnode struct {
	kind string // "f", "c", "n", "p", "b"
	fld  int
	fn   int
	num  int
	op   int // 0 + , 1 - , 2 * , 3 /
	l, r *xnode
}

var opText = []string{"+", "-", "*", "/"}

func fieldSQL(fld int) string {
	name := schema[fld].name
	if strings.HasPrefix(name, "__") {
		return "'" + name + "'"
	}
	return name
}

func (x *xnode) sql() string {
	switch x.kind {
	case "f":
		return fieldSQL(x.fld)
	case "c":
		return fnName[x.fn] + "(" + x.l.sql() + ")"
	case "n":
		return strconv.Itoa(x.num)
	case "p":
		return "(" + x.l.sql() + ")"
	case "b":
		return x.l.sql() + opText[x.op] + x.r.sql()
	}
	panic("xnode")
}

// proto is the prefix form the Lean driver parses.
func (x *xnode) proto() string {
	switch x.kind {
	case "f":
		return fmt.Sprintf("f %d", x.fld)
	case "c":
		return fmt.Sprintf("c %d %s", x.fn, x.l.proto())
	case "n":
		return fmt.Sprintf("n %d", x.num)
	case "p":
		return "p " + x.l.proto()
	case "b":
		return fmt.Sprintf("b %d %s %s", x.op, x.l.proto(), x.r.proto())
	}
	panic("xnode")
}

// xField / xStore: what expression.prepare puts into its field store for one group: per field the
// type and one array per agg type that the grouped iterator delivers (possibly without values).
type xField struct {
	ftype int
	aggs  []int // delivery order
	arrs  map[int]map[int]float64
}

type xStore struct {
	order []int
	flds  map[int]*xField
}

func (s *xStore) proto() string {
	var toks []string
	for _, f := range s.order {
		fv := s.flds[f]
		if len(fv.aggs) == 0 {
			toks = append(toks, fmt.Sprintf("%d:%d:-", f, fv.ftype))
			continue
		}
		for _, a := range fv.aggs {
			var idx []int
			for i := range fv.arrs[a] {
				idx = append(idx, i)
			}
			sort.Ints(idx)
			var cells []string
			for _, i := range idx {
				cells = append(cells, fmt.Sprintf("%d=%d", i, int64(fv.arrs[a][i])))
			}
			toks = append(toks, fmt.Sprintf("%d:%d:%d:%s", f, fv.ftype, a, strings.Join(cells, ",")))
		}
	}
	return strings.Join(toks, " ")
}

// integral reports whether every stored value is a (small) integer, so that the exact model applies.
func (s *xStore) integral() bool {
	for _, fv := range s.flds {
		for _, arr := range fv.arrs {
			for _, v := range arr {
				if v != float64(int64(v)) || v > 1e9 || v < -1e9 {
					return false
				}
			}
		}
	}
	return true
}

// ---- the oracle: the item point by point in exact arithmetic ------------------------------------

// xval: outcome of the evaluation of one (sub)expression.
type xval struct {
	status string // "empty", "nilarr", "crash", "arr"
	single bool
	vals   map[int]*big.Rat
}

func paramOf(ftype int, parent int) int {
	if parent == 0 {
		return aggOfFieldType(ftype)
	}
	return funcAgg(ftype, parent)
}

func evalOp(op int, a, b *big.Rat) *big.Rat {
	r := new(big.Rat)
	switch op {
	case 0:
		return r.Add(a, b)
	case 1:
		return r.Sub(a, b)
	case 2:
		return r.Mul(a, b)
	default:
		if b.Sign() == 0 {
			return r
		}
		return r.Quo(a, b)
	}
}

func (x *xnode) eval(n, sec int, st *xStore, parent int) xval {
	switch x.kind {
	case "f":
		fv, ok := st.flds[x.fld]
		if !ok {
			return xval{status: "empty"}
		}
		arr, ok := fv.arrs[paramOf(fv.ftype, parent)]
		if !ok {
			return xval{status: "empty"}
		}
		out := xval{status: "arr", vals: map[int]*big.Rat{}}
		for i, v := range arr {
			if i >= 0 && i < n {
				out.vals[i] = new(big.Rat).SetInt64(int64(v))
			}
		}
		return out
	case "n":
		out := xval{status: "arr", single: true, vals: map[int]*big.Rat{}}
		for i := 0; i < n; i++ {
			out.vals[i] = new(big.Rat).SetInt64(int64(x.num))
		}
		return out
	case "p":
		return x.l.eval(n, sec, st, 0)
	case "c":
		v := x.l.eval(n, sec, st, x.fn)
		switch v.status {
		case "empty", "crash":
			return v
		case "nilarr":
			if x.fn == fnRate {
				return xval{status: "crash"}
			}
			return xval{status: "empty"}
		}
		switch x.fn {
		case fnSum, fnMin, fnMax, fnCount, fnLast, fnFirst:
			return v
		case fnRate:
			out := xval{status: "arr", vals: map[int]*big.Rat{}}
			for i, a := range v.vals {
				if sec == 0 {
					out.vals[i] = new(big.Rat)
				} else {
					out.vals[i] = new(big.Rat).Quo(a, new(big.Rat).SetInt64(int64(sec)))
				}
			}
			return out
		}
		return xval{status: "empty"}
	case "b":
		l := x.l.eval(n, sec, st, 0)
		if l.status == "crash" || l.status == "empty" {
			return l
		}
		r := x.r.eval(n, sec, st, 0)
		if r.status == "crash" || r.status == "empty" {
			return r
		}
		if l.status != "arr" || r.status != "arr" {
			return xval{status: "nilarr"}
		}
		if len(l.vals) == 0 && len(r.vals) == 0 {
			return xval{status: "nilarr"}
		}
		out := xval{status: "arr", vals: map[int]*big.Rat{}}
		zero := new(big.Rat)
		for i := 0; i < n; i++ {
			a, ha := l.vals[i]
			b, hb := r.vals[i]
			switch {
			case !ha && r.single:
			case l.single && !hb:
			case ha || hb:
				if !ha {
					a = zero
				}
				if !hb {
					b = zero
				}
				out.vals[i] = evalOp(x.op, a, b)
			}
		}
		return out
	}
	panic("xnode")
}

func (v xval) render() string {
	if v.status != "arr" {
		return v.status
	}
	var idx []int
	for i := range v.vals {
		idx = append(idx, i)
	}
	sort.Ints(idx)
	var cells []string
	for _, i := range idx {
		r := v.vals[i]
		cells = append(cells, fmt.Sprintf("%d=%s/%s", i, r.Num().String(), r.Denom().String()))
	}
	return strings.TrimSpace("arr " + strings.Join(cells, " "))
}

// ---- the implementation: aggregation.NewExpression on the root's merge of the leaf answer -------

// xImpl is the implementation's outcome for one select item of one group.
type xImpl struct {
	status string // "empty" (no entry), "nilarr" (entry with nil array), "crash", "arr"
	vals   map[int]float64
	panic  string
}

type xGroup struct {
	store *xStore
	items []xImpl
	n     int
}

// exprEvalX does what the root does with the last leaf answer (merge in a grouping aggregator with
// interval ratio 1, then one aggregation.NewExpression per group) for the given select items, and
// also decodes — from a second, fresh iterator of the same grouping aggregator — the field store
// the expression gets to see.
func (e *env) exprEvalX(q qSpec, xs []*xnode) (map[string]*xGroup, error) {
	tsl, qs := e.lastTSL, e.lastStmt
	if tsl == nil || qs == nil {
		return nil, fmt.Errorf("no leaf answer")
	}
	out := map[string]*xGroup{}
	if len(tsl.FieldAggSpecs) == 0 {
		return out, nil
	}
	var parts []string
	for _, x := range xs {
		parts = append(parts, x.sql())
	}
	sqlText := "select " + strings.Join(parts, ",") + " from " + metricName
	st, err := sql.Parse(sqlText)
	if err != nil {
		return nil, fmt.Errorf("sql %q: %v", sqlText, err)
	}
	xq, ok := st.(*stmt.Query)
	if !ok || len(xq.SelectItems) != len(xs) {
		return nil, fmt.Errorf("sql %q: %d select items", sqlText, len(xq.SelectItems))
	}
	specs := make(aggregation.AggregatorSpecs, len(tsl.FieldAggSpecs))
	for idx, aggSpec := range tsl.FieldAggSpecs {
		specs[idx] = aggregation.NewAggregatorSpec(field.Name(aggSpec.FieldName), field.Type(aggSpec.FieldType))
		for _, ft := range aggSpec.FuncTypeList {
			specs[idx].AddFunctionType(function.FuncType(ft))
		}
	}
	tr := timeutil.TimeRange{Start: tsl.Start, End: tsl.End}
	n := timeutil.CalPointCount(tr.Start, tr.End, tsl.Interval) + 1
	ga := aggregation.NewGroupingAggregator(timeutil.Interval(tsl.Interval), 1, tr, specs)
	for _, ts := range tsl.TimeSeriesList {
		if len(ts.Fields) == 0 {
			continue
		}
		fields := make(map[field.Name][]byte)
		for k, v := range ts.Fields {
			fields[field.Name(k)] = v
		}
		ga.Aggregate(series.NewGroupedIterator(ts.Tags, fields))
	}
	// 1. the field store per group, as dynamicField.SetValue fills it
	for _, it := range ga.ResultSet() {
		key := groupKeyOf(it.Tags(), len(q.by))
		store := &xStore{flds: map[int]*xField{}}
		for it.HasNext() {
			fs := it.Next()
			fld, ok := fieldByName[string(fs.FieldName())]
			if !ok {
				return nil, fmt.Errorf("unknown field %q", fs.FieldName())
			}
			fv := store.flds[fld]
			if fv == nil {
				fv = &xField{ftype: int(fs.FieldType()), arrs: map[int]map[int]float64{}}
				store.flds[fld] = fv
				store.order = append(store.order, fld)
			} else {
				// expression.prepare replaces the entry
				fv = &xField{ftype: int(fs.FieldType()), arrs: map[int]map[int]float64{}}
				store.flds[fld] = fv
			}
			for fs.HasNext() {
				startTime, fit := fs.Next()
				if fit == nil {
					continue
				}
				for fit.HasNext() {
					p := fit.Next()
					at := int(p.AggType())
					if _, ok := fv.arrs[at]; !ok {
						fv.arrs[at] = map[int]float64{}
						fv.aggs = append(fv.aggs, at)
					}
					for p.HasNext() {
						slot, v := p.Next()
						idx := int(((int64(slot)*tsl.Interval + startTime) - tr.Start) / tsl.Interval)
						if idx >= 0 && idx < n {
							fv.arrs[at][idx] = v
						}
					}
				}
			}
		}
		out[key] = &xGroup{store: store, n: n}
	}
	// 2. the implementation's evaluation, one expression per item and group (a panic of one item
	// must not hide the others)
	for _, item := range xq.SelectItems {
		for _, it := range ga.ResultSet() {
			key := groupKeyOf(it.Tags(), len(q.by))
			g := out[key]
			if g == nil {
				return nil, fmt.Errorf("group %s appeared in the second iteration only", key)
			}
			g.items = append(g.items, evalOne(tr, tsl.Interval, item, it))
		}
	}
	return out, nil
}

func evalOne(tr timeutil.TimeRange, interval int64, item stmt.Expr, it series.GroupedIterator) (res xImpl) {
	defer func() {
		if r := recover(); r != nil {
			res = xImpl{status: "crash", panic: fmt.Sprint(r)}
		}
	}()
	expr := aggregation.NewExpression(tr, interval, []stmt.Expr{item})
	expr.Eval(it)
	arr, ok := expr.ResultSet()[item.Rewrite()]
	switch {
	case !ok:
		return xImpl{status: "empty"}
	case arr == nil:
		return xImpl{status: "nilarr"}
	}
	vals := map[int]float64{}
	ai := arr.NewIterator()
	for ai.HasNext() {
		slot, v := ai.Next()
		vals[slot] = v
	}
	return xImpl{status: "arr", vals: vals}
}

// render prints the implementation's outcome in the model's form: a value is printed as the
// oracle's exact rational when it is the float64 nearest to it, otherwise as the float itself.
func (r xImpl) render(want xval) string {
	if r.status != "arr" {
		return r.status
	}
	var idx []int
	for i := range r.vals {
		idx = append(idx, i)
	}
	sort.Ints(idx)
	var cells []string
	for _, i := range idx {
		v := r.vals[i]
		if w, ok := want.vals[i]; ok && want.status == "arr" {
			f, _ := w.Float64()
			if f == v {
				cells = append(cells, fmt.Sprintf("%d=%s/%s", i, w.Num().String(), w.Denom().String()))
				continue
			}
		}
		cells = append(cells, fmt.Sprintf("%d=float(%v)", i, v))
	}
	return strings.TrimSpace("arr " + strings.Join(cells, " "))
}

// ---- generation -----------------------------------------------------------------------------------

// genLeafX: a field of the query's items, bare (when the item's function is the type's default) or
// under the item's function.
func genLeafX(rng *rand.Rand, items []qItem) *xnode {
	it := items[rng.Intn(len(items))]
	if it.fn == defaultFunc(schema[it.fld].ftype) && rng.Intn(2) == 0 {
		return &xnode{kind: "f", fld: it.fld}
	}
	return &xnode{kind: "c", fn: it.fn, l: &xnode{kind: "f", fld: it.fld}}
}

// genArith: + - * over leaves and small literals (exact in float64), no division, no rate.
func genArith(rng *rand.Rand, items []qItem, depth int) *xnode {
	if depth <= 0 || rng.Intn(3) == 0 {
		switch rng.Intn(6) {
		case 0:
			return &xnode{kind: "n", num: rng.Intn(4)}
		default:
			x := genLeafX(rng, items)
			if x.kind == "c" && x.fn == fnRate {
				// rate divides: keep it out of the exact part
				return &xnode{kind: "f", fld: x.l.fld}
			}
			return x
		}
	}
	x := &xnode{kind: "b", op: rng.Intn(3), l: genArith(rng, items, depth-1), r: genArith(rng, items, depth-1)}
	// the parser's precedence must give back the same tree: parenthesise every nested operand
	if x.l.kind == "b" {
		x.l = &xnode{kind: "p", l: x.l}
	}
	if x.r.kind == "b" {
		x.r = &xnode{kind: "p", l: x.r}
	}
	return x
}

func usesOnlyPlanned(x *xnode, items []qItem, parent int) bool {
	switch x.kind {
	case "f":
		fn := parent
		if fn == 0 {
			fn = defaultFunc(schema[x.fld].ftype)
		}
		for _, it := range items {
			if it.fld == x.fld && it.fn == fn {
				return true
			}
		}
		return false
	case "n":
		return true
	case "c":
		return usesOnlyPlanned(x.l, items, x.fn)
	case "p":
		return usesOnlyPlanned(x.l, items, 0)
	default:
		return usesOnlyPlanned(x.l, items, 0) && usesOnlyPlanned(x.r, items, 0)
	}
}

// genExpr: at most one rounding operation (a division or a rate), and only at the root.
func genExpr(rng *rand.Rand, items []qItem) *xnode {
	wrap := func(x *xnode) *xnode {
		if x.kind == "b" {
			return &xnode{kind: "p", l: x}
		}
		return x
	}
	var x *xnode
	switch rng.Intn(6) {
	case 0, 1:
		x = genArith(rng, items, 2)
	case 2, 3:
		x = &xnode{kind: "b", op: 3, l: wrap(genArith(rng, items, 1)), r: wrap(genArith(rng, items, 1))}
	case 4:
		// a function over an expression: the fields below are read with their default agg type
		fns := []int{fnSum, fnMax, fnMin, fnRate, fnRate}
		x = &xnode{kind: "c", fn: fns[rng.Intn(len(fns))], l: genArith(rng, items, 1)}
		if x.l.kind == "f" || x.l.kind == "c" {
			// f directly under a call reads the call's agg type: only when that is planned
			x = &xnode{kind: "c", fn: x.fn, l: &xnode{kind: "p", l: x.l}}
		}
	default:
		x = genLeafX(rng, items)
	}
	if !usesOnlyPlanned(x, items, 0) {
		return genLeafX(rng, items)
	}
	return x
}
