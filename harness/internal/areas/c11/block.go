package c11

import (
	"fmt"
	"math"
	"math/rand"
	"sort"
	"strings"

	"github.com/lindb/lindb/flow"
	"github.com/lindb/lindb/kv"
	"github.com/lindb/lindb/pkg/bit"
	"github.com/lindb/lindb/pkg/encoding"
	"github.com/lindb/lindb/pkg/timeutil"
	"github.com/lindb/lindb/series/field"
	"github.com/lindb/lindb/tsdb/tblstore/metricsdata"
	"github.com/lindb/lindb/zzverif/internal/core"
)

// The "block" cases: one metric block written by the REAL metricsdata.Flusher (over kv.NopFlusher,
// driven the way memdb's FlushFamilyTo and the merger drive it: nf FlushField calls — nil for a
// field without data — then FlushSeries) with ARBITRARY series ids over many roaring containers,
// read back by the real reader path (NewReader → Load → metricLoader.Load → readSeriesData →
// DownSampling callback). Correspondence: the Lean model of the block layout (op blk: buckets,
// high-key offsets, entries, series not read back; the model gets the real encoded length of every
// field block). Oracle: every value written is read back, nothing else.

type blkSeries struct {
	id   uint32
	vals []map[int]float64 // per field: slot → value (nil: no data)
}

// ascending
var blkIDPool = []uint32{0, 1, 2, 65534, 65535, 65536, 65537, 65538, 70000, 131071, 131072, 131073, 140000, 196608, 196609, 5 << 16, 5<<16 + 1}

func runBlockCase(c *core.Ctx, rng *rand.Rand) {
	for round := 0; round < 6; round++ {
		nf := 1 + rng.Intn(4)
		if rng.Intn(3) == 0 {
			nf = 2
		}
		n := 1 + rng.Intn(9)
		perm := rng.Perm(len(blkIDPool))[:n]
		sort.Ints(perm)
		var ss []blkSeries
		for _, p := range perm {
			s := blkSeries{id: blkIDPool[p], vals: make([]map[int]float64, nf)}
			for f := 0; f < nf; f++ {
				if rng.Intn(4) == 0 {
					continue
				}
				m := map[int]float64{}
				for k := 0; k < 1+rng.Intn(3); k++ {
					m[5+rng.Intn(20)] = float64(rng.Intn(2001) - 1000)
				}
				s.vals[f] = m
			}
			ss = append(ss, s)
		}
		blockRound(c, nf, ss)
	}
	// round 12: the position mapping the file loader reads these blocks through
	for k := 0; k < 12; k++ {
		iterRandom(c, rng)
	}
}

func blockRound(c *core.Ctx, nf int, ss []blkSeries) {
	const start, end = 0, 30
	nop := kv.NewNopFlusher()
	fl, err := metricsdata.NewFlusher(nop)
	if err != nil {
		c.Fail("harness-setup", err.Error())
		return
	}
	metas := make(field.Metas, nf)
	for i := range metas {
		metas[i] = field.Meta{ID: field.ID(i + 1), Type: field.SumField}
	}
	fl.PrepareMetric(7, metas)
	var parts []string
	for _, s := range ss {
		var lens []string
		for f := 0; f < nf; f++ {
			if s.vals[f] == nil {
				_ = fl.FlushField(nil)
				lens = append(lens, "0")
				continue
			}
			enc := fl.GetEncoder(f)
			enc.RestWithStartTime(uint16(start))
			for t := start; t <= end; t++ {
				if v, ok := s.vals[f][t]; ok {
					enc.AppendTime(bit.One)
					enc.AppendValue(math.Float64bits(v))
				} else {
					enc.AppendTime(bit.Zero)
				}
			}
			data, err := enc.BytesWithoutTime()
			if err != nil {
				c.Fail("harness-setup", err.Error())
				return
			}
			_ = fl.FlushField(append([]byte(nil), data...))
			lens = append(lens, fmt.Sprint(len(data)))
			enc.Reset()
		}
		if err := fl.FlushSeries(s.id); err != nil {
			c.Fail("block-flush-error", err.Error())
			return
		}
		parts = append(parts, fmt.Sprintf("%d:%s", s.id, strings.Join(lens, ",")))
		c.Branch(fmt.Sprintf("blk/container-%d", s.id>>16))
	}
	if err := fl.CommitMetric(timeutil.SlotRange{Start: start, End: end}); err != nil {
		c.Fail("block-flush-error", err.Error())
		return
	}
	data := append([]byte(nil), nop.Bytes()...)
	op := fmt.Sprintf("blk %d | %s", nf, strings.Join(parts, " ; "))
	r, err := metricsdata.NewReader("lvh-c11", data)
	if err != nil {
		c.Op(op, "reader-error")
		c.Fail("block-read-ne-written", fmt.Sprintf("%s: NewReader: %v", op, err))
		return
	}
	// read everything back through the query-side path
	got := map[uint32][]map[int]float64{}
	ids := r.GetSeriesIDs()
	highKeys := ids.GetHighKeys()
	for i, hk := range highKeys {
		container := ids.GetContainerAtIndex(i)
		ctx := &flow.DataLoadContext{
			ShardExecuteCtx:       &flow.ShardExecuteContext{StorageExecuteCtx: &flow.StorageExecuteContext{Fields: metas}},
			SeriesIDHighKey:       hk,
			LowSeriesIDsContainer: container,
			IsMultiField:          nf > 1,
		}
		ctx.Grouping()
		loader := r.Load(ctx)
		if loader == nil {
			continue
		}
		ctx.Decoder = encoding.GetTSDDecoder()
		hk := hk
		ctx.DownSampling = func(slotRange timeutil.SlotRange, seriesIdx uint16, fieldIdx int, getter encoding.TSDValueGetter) {
			sid := uint32(hk)<<16 | uint32(ctx.MinSeriesID+seriesIdx)
			if got[sid] == nil {
				got[sid] = make([]map[int]float64, nf)
			}
			m := map[int]float64{}
			for t := int(slotRange.Start); t <= int(slotRange.End); t++ {
				if v, ok := getter.GetValue(uint16(t)); ok {
					m[t] = v
				}
			}
			if fieldIdx >= 0 && fieldIdx < nf {
				got[sid][fieldIdx] = m
			}
		}
		loader.Load(ctx)
		encoding.ReleaseTSDDecoder(ctx.Decoder)
	}
	var lost []string
	for _, s := range ss {
		ok := true
		for f := 0; f < nf; f++ {
			var have map[int]float64
			if got[s.id] != nil {
				have = got[s.id][f]
			}
			if len(have) != len(s.vals[f]) {
				ok = false
			}
			for t, v := range s.vals[f] {
				if hv, in := have[t]; !in || hv != v {
					ok = false
				}
			}
		}
		if !ok {
			lost = append(lost, fmt.Sprint(s.id))
		}
	}
	lostS := "-"
	if len(lost) > 0 {
		lostS = strings.Join(lost, " ")
	}
	// the flusher adds one high-key offset per started bucket: read them back from the block
	impl := fmt.Sprintf("buckets=%d offsets=%d entries=%d lost=%s", len(highKeys), highKeyOffsetCount(data), int(ids.GetCardinality()), lostS)
	c.Op(op, impl)
	c.NonTrivial()
	if len(highKeys) > 1 {
		c.Branch("blk/several-buckets")
		if nf > 1 {
			c.Branch("blk/several-buckets-multi-field")
		}
	}
	if len(lost) > 0 {
		c.Fail("block-read-ne-written", fmt.Sprintf("%s: series %s are not read back as written (metric block of %d bytes, %d fields)", op, lostS, len(data), nf))
	}
}

// highKeyOffsetCount decodes the high-key offsets of the block footer (reader.initReader).
func highKeyOffsetCount(block []byte) int {
	const footer = 2 + 2 + 4 + 4 + 4 + 4
	if len(block) <= footer {
		return -1
	}
	fp := len(block) - footer
	at := int(uint32(block[fp+12]) | uint32(block[fp+13])<<8 | uint32(block[fp+14])<<16 | uint32(block[fp+15])<<24)
	if at < 0 || at > fp {
		return -1
	}
	d := encoding.NewFixedOffsetDecoder()
	if _, err := d.Unmarshal(block[at:fp]); err != nil {
		return -1
	}
	return d.Size()
}
