package c11

import (
	"errors"
	"fmt"
	"math"
	"math/rand"
	"os"
	"sort"
	"strings"
	"time"

	"github.com/lindb/common/pkg/logger"
	"go.uber.org/zap/zapcore"

	"github.com/lindb/lindb/aggregation/function"
	"github.com/lindb/lindb/pkg/collections"
	"github.com/lindb/lindb/tsdb"
	"github.com/lindb/lindb/zzverif/internal/core"
)

type area struct{}

func init() { core.Register(&area{}) }

func (a *area) Name() string { return "query" }

// number of dedicated deterministic cases (witnesses of the recorded findings and fixed shapes)
const nFixed = 25

func (a *area) Run(c *core.Ctx) error {
	if c.Args["lindb-log"] != "" {
		// diagnostics: lindb's own error log (stack of a panic recovered inside the query pipeline)
		logger.RunningAtomicLevel.SetLevel(zapcore.ErrorLevel)
	}
	for i := 0; i < c.N; i++ {
		if !c.Want(i) {
			continue
		}
		c.Begin(i)
		t0 := time.Now()
		func() {
			defer func() {
				if r := recover(); r != nil {
					c.Fail("panic", fmt.Sprintf("case %d panicked: %v", i, r))
				}
			}()
			if i < nFixed {
				runFixed(c, i)
			} else if i%9 == 4 {
				runMonthCase(c, c.Rng(i), -1)
			} else if i%9 == 1 {
				runBlockCase(c, c.Rng(i))
			} else {
				// every 9th later case (and more with -arg region=container-boundary-multi-field, the
				// bias of the violation search) lies in the region container-boundary-multi-field
				sparseCase = i%9 == 3 || (c.Args["region"] == "sparse-series-filter" && i%3 != 0)
				runRandom(c, i, i%9 == 7 || (c.Args["region"] == "container-boundary-multi-field" && i%3 != 0))
			}
		}()
		if c.Args["timing"] != "" {
			fmt.Fprintf(os.Stderr, "case %d %.3fs\n", i, time.Since(t0).Seconds())
		}
	}
	return nil
}

// ---- one running case -------------------------------------------------------------------------

type run struct {
	c        *core.Ctx
	e        *env
	spf      int
	ivMs     int64
	nv       *naive
	sh       *shadow
	declared map[int]bool
	series   map[int]seriesDef
	ticks    map[int64]int // createdTime (fasttime tick) → tick id of the line protocol
	famTick  map[int]int   // tick id of the family's current mutable memory database
	collided bool          // two live memory databases share a createdTime
	oracleOn bool          // false: no impl-side oracle in this case (witness cases evaluate their own)
	failed   bool
	// region container-boundary-multi-field: the real series ids the next new series get (ascending,
	// on both sides of roaring container boundaries), and the ids given so far
	idPool []uint32
	realID map[int]uint32
	newSer int // model id of the series whose first row is being written (0: none)
}

func newRun(c *core.Ctx, ivMs int64) (*run, error) { return newRunOpt(c, ivMs, false) }

// newRunOpt: oneScanner = the data-load stages of a query run one after another (see env.oneScanner).
func newRunOpt(c *core.Ctx, ivMs int64, oneScanner bool) (*run, error) {
	e, err := newEnvOpt(ivMs, oneScanner)
	if err != nil {
		return nil, err
	}
	spf := int(hourMs / ivMs)
	r := &run{c: c, e: e, spf: spf, ivMs: ivMs, nv: newNaive(spf), sh: newShadow(spf),
		declared: map[int]bool{}, series: map[int]seriesDef{}, oracleOn: true,
		ticks: map[int64]int{}, famTick: map[int]int{}}
	c.Op(fmt.Sprintf("reset %d %d", window, spf), "ok")
	var sch []string
	for _, id := range schemaOrder {
		sch = append(sch, fmt.Sprintf("%d:%d", id, schema[id].ftype))
	}
	c.Op("schema "+strings.Join(sch, " "), "ok")
	return r, nil
}

func (r *run) close() { r.e.close() }

func (r *run) declare(s seriesDef) {
	if r.declared[s.id] {
		return
	}
	r.declared[s.id] = true
	r.series[s.id] = s
	if len(r.idPool) > 0 {
		id := r.idPool[0]
		r.idPool = r.idPool[1:]
		if err := r.e.setNextSeriesID(id); err != nil {
			r.c.Fail("harness-setup", "setNextSeriesID: "+err.Error())
		} else {
			if r.realID == nil {
				r.realID = map[int]uint32{}
			}
			r.realID[s.id] = id
			r.newSer = s.id
			r.c.Branch(fmt.Sprintf("gen/series-id-container-%d", id>>16))
			if id&0xffff == 0 {
				r.c.Branch("gen/series-id-first-of-container")
			}
			if id&0xffff == 0xffff {
				r.c.Branch("gen/series-id-last-of-container")
			}
		}
	}
	r.nv.series = append(r.nv.series, s)
	var ks []int
	for k := range s.tags {
		ks = append(ks, k)
	}
	sort.Ints(ks)
	var parts []string
	for _, k := range ks {
		parts = append(parts, fmt.Sprintf("%d:%d", k, s.tags[k]))
	}
	r.c.Op(fmt.Sprintf("series %d %s", s.id, strings.Join(parts, " ")), "ok")
}

func tagsOf(s seriesDef) [][2]string {
	var ks []int
	for k := range s.tags {
		ks = append(ks, k)
	}
	sort.Ints(ks)
	var out [][2]string
	for _, k := range ks {
		out = append(out, [2]string{fmt.Sprintf("k%d", k), fmt.Sprintf("v%d", s.tags[k])})
	}
	return out
}

// writeRow writes one row (several simple fields and/or one histogram) of a series.
// sameTick: do not wait for a clock tick before a write that creates a memory database.
func (r *run) writeRow(fam int, s seriesDef, slot int, jitter int64, fvs []fieldVal, h *histVal, sameTick bool) {
	r.declare(s)
	creates := r.sh.needsTick(fam)
	_ = sameTick // (created times are process-unique since fix 4be15ce: no waiting for a clock tick)
	ts := r.e.familyTime(fam) + int64(slot)*r.ivMs + jitter
	err := r.e.writeRow(fam, ts, tagsOf(s), fvs, h)
	if r.newSer == s.id {
		// the series must have got the planned id (otherwise the case silently leaves its region)
		r.newSer = 0
		ids, e2 := r.e.realSeriesIDs()
		have := false
		for _, x := range ids {
			have = have || x == r.realID[s.id]
		}
		if err == nil && (e2 != nil || !have) {
			r.c.Fail("series-id-not-as-planned", fmt.Sprintf("series %d should have got id %d; the metric's ids are %v (%v)", s.id, r.realID[s.id], ids, e2))
		}
	}
	if creates && err == nil {
		// the real createdTime of the new memory database decides the tick id given to the model
		ct, ok := r.e.createdOf(fam)
		if !ok {
			// cannot tell (the clock ticked during every attempt): leave the claimed region
			r.c.Note("cannot read the created time of the new memory database; oracle off for this case")
			r.collided = true
			ct = -int64(len(r.ticks) + 1)
		}
		id, seen := r.ticks[ct]
		if !seen {
			id = len(r.ticks) + 1
			r.ticks[ct] = id
		}
		for of, ot := range r.famTick {
			if of != fam && ot == id && r.sh.fam(of).mem != nil {
				r.collided = true
				r.c.Branch("case/created-tick-collision")
				r.c.Fail("created-time-not-unique", fmt.Sprintf("the memory databases of families %d and %d have the same created time", of, fam))
			}
		}
		r.famTick[fam] = id
	}
	// the op lines: one per field value, in the order memoryDatabase.WriteRow writes them
	type fv struct {
		fld int
		val float64
	}
	var all []fv
	for _, x := range fvs {
		all = append(all, fv{x.fld, x.val})
	}
	if h != nil {
		all = append(all, fv{6, h.min}, fv{7, h.max}, fv{8, h.sum}, fv{9, h.count})
		for i, v := range h.values {
			if v > 0 {
				all = append(all, fv{10 + i, v})
			}
		}
	}
	out := "ok"
	if err != nil {
		out = "err"
		r.c.Fail("write-error", fmt.Sprintf("WriteRows failed: %v", err))
	}
	for _, x := range all {
		r.c.Op(fmt.Sprintf("w %d %d %d %d %d %d %s", r.famTick[fam], fam, s.id, x.fld, schema[x.fld].ftype, slot, fmtVal(x.val)), out)
		if err == nil {
			r.nv.add(point{fam, s.id, x.fld, slot, x.val})
			r.sh.write(fam, s.id, x.fld, slot)
		}
	}
}

func (r *run) flush(fam int) {
	err := r.e.flush(fam)
	out := "ok"
	if err != nil {
		out = "err"
		r.c.Fail("flush-error", fmt.Sprintf("Flush failed: %v", err))
	}
	r.c.Op(fmt.Sprintf("flush %d", fam), out)
	r.sh.flush(fam)
	r.c.Branch("op/flush")
}

// flushWindow runs dataFamily.Flush with a callback at the point where the mutable memory
// database has become the immutable one and nothing has been written to the new file yet
// (tsdb.VerifC11SetFlushHooks): `during` runs there — rows written now go to a NEW mutable memory
// database, queries now must read the new mutable one, the immutable one and the files.
func (r *run) flushWindow(fam int, during func()) {
	if r.sh.fam(fam).mem == nil {
		r.flush(fam)
		return
	}
	entered := false
	restore := tsdb.VerifC11SetFlushHooks(func() {
		if entered {
			return
		}
		entered = true
		r.c.Op(fmt.Sprintf("flushbegin %d", fam), "ok")
		r.sh.flush(fam)
		during()
	}, nil)
	err := r.e.flush(fam)
	restore()
	out := "ok"
	if err != nil {
		out = "err"
		r.c.Fail("flush-error", fmt.Sprintf("Flush failed: %v", err))
	}
	if !entered {
		// Flush did not reach the memory database switch (nothing to flush)
		r.c.Op(fmt.Sprintf("flush %d", fam), out)
		r.sh.flush(fam)
		return
	}
	r.c.Op(fmt.Sprintf("flushend %d", fam), out)
	r.c.Branch("op/flush-with-window")
}

// flushFail runs dataFamily.Flush with the creation of the metric data flusher failing
// (tsdb.VerifC11FailFlush): the mutable memory database has become the immutable one, nothing is
// written, Flush returns the error. From then on the family is in the state of a flush in progress
// (new mutable memory database on the next write, the immutable one, the files): `during` runs in
// that state — every accepted point must stay queryable. Later Flush calls of the family are refused
// by its skip guard; the window ends with the engine's close (dataFamily.Close flushes the immutable
// memory database again, then the mutable one) + reopen.
func (r *run) flushFail(fam int, during func()) {
	if r.sh.fam(fam).mem == nil {
		r.flush(fam)
		return
	}
	restore := tsdb.VerifC11FailFlush()
	err := r.e.flush(fam)
	restore()
	if !errors.Is(err, tsdb.ErrVerifC11InjectedFlushFailure) {
		r.c.Fail("flush-failure-not-injected", fmt.Sprintf("Flush with a failing flusher returned %v", err))
		return
	}
	r.c.Op(fmt.Sprintf("flushbegin %d", fam), "ok")
	r.sh.flush(fam)
	during()
	r.c.Op(fmt.Sprintf("flushend %d", fam), "ok")
	r.c.Branch("op/flush-failed")
	r.reopen()
}

func (r *run) compact(fam int) {
	did := r.sh.compact(fam)
	err := r.e.compact(fam)
	out := "ok"
	if err != nil {
		out = "err"
		r.c.Fail("compact-error", fmt.Sprintf("compaction failed: %v", err))
	}
	r.c.Op(fmt.Sprintf("compact %d", fam), out)
	if did {
		r.c.Branch("op/compact-merged")
	} else {
		r.c.Branch("op/compact-noop")
	}
}

func (r *run) reopen() {
	err := r.e.reopen()
	out := "ok"
	if err != nil {
		out = "err"
		r.c.Fail("reopen-error", fmt.Sprintf("reopen failed: %v", err))
	}
	r.c.Op("reopen", out)
	r.sh.reopen()
	r.c.Branch("op/reopen")
}

// scopeSeries are the written series that satisfy the condition.
func (r *run) scopeSeries(q qSpec) []int {
	var out []int
	for _, s := range r.nv.series {
		if r.sh.written[s.id] && q.cond.eval(s.tags) {
			out = append(out, s.id)
		}
	}
	return out
}

// region classifies the query: "" = inside the region where the property is claimed, otherwise
// the name of the excluded region (a recorded finding) the query falls into.
func (r *run) region(q qSpec) string {
	// -arg assume-fixed=<region>,<region>: used when a candidate fix is tested against a scratch
	// tree (AGENT_GUIDE "testing a candidate fix"): the oracle then also applies in these regions
	for _, reg := range r.regions(q) {
		if !strings.Contains(","+r.c.Args["assume-fixed"]+",", ","+reg+",") {
			return reg
		}
	}
	return ""
}

// regions lists every excluded region (recorded finding) the query falls into.
func (r *run) regions(q qSpec) []string {
	var regs []string
	// (repaired and therefore inside the claimed region since the fix: commits 02a0667, 4be15ce,
	// eb2ea99, 636394b, c783635: first-time slot before the window's end, memory databases created
	// in one clock tick, two functions on one field, a source of the family without data for the
	// query, a one-field file in a query on several fields)
	for _, it := range q.items {
		ft := schema[it.fld].ftype
		a := funcAgg(ft, it.fn)
		fa := aggOfFieldType(ft)
		if a != fa && r.sh.splitField[it.fld] {
			// a function other than the field's aggregate is applied per storage unit
			regs = append(regs, "split-slot")
		}
		if a == fa && !commutative(fa) && r.sh.splitFlushField[it.fld] {
			// first/last across a flush: sources are loaded memory first, files last
			regs = append(regs, "split-slot-across-flush")
		}
		if !commutative(a) {
			if q.ratio > 1 {
				// down-sampling with first/last follows the order in which storage units are loaded
				regs = append(regs, "firstlast-downsampling")
			}
			// first/last over several series of a group is not defined by the property
			for _, g := range r.nv.groups(q.cond, q.by) {
				if len(g.series) > 1 {
					regs = append(regs, "firstlast-multi-series")
					break
				}
			}
		}
	}
	return regs
}

// query executes one leaf query: model correspondence (q), reference correspondence (ref) and,
// inside the claimed region, the impl-side oracle.
func (r *run) query(q qSpec) (aggResult, string) {
	res, errMsg, err := r.e.leafQuery(r.spf, q)
	var implLine, implLineNote string
	switch {
	case err != nil:
		implLine = "harness-error"
		r.c.Fail("leaf-query-error", fmt.Sprintf("%s: %v", q.sql(), err))
	case errMsg != "":
		if strings.Contains(errMsg, "not found") {
			res = aggResult{}
			implLine = res.render()
			r.c.Branch("query/not-found")
		} else {
			implLine = "rs-error"
			r.c.Branch("query/error")
			r.c.Note("leaf error: " + errMsg)
			implLineNote = " (leaf error: " + errMsg + ")"
		}
	default:
		implLine = res.render()
	}
	r.c.Op("q "+q.proto(), implLine)
	want := r.nv.query(q)
	wantLine := want.render()
	r.c.Op("ref "+q.proto(), wantLine)
	reg := r.region(q)
	if r.sh.notFoundRegion(q, r.scopeSeries(q)) {
		r.c.Branch("query/shape:source-without-data")
	}
	if r.sh.singleFieldFileRegion(q) {
		r.c.Branch("query/shape:one-field-file")
	}
	if r.sh.unsafeEver {
		r.c.Branch("query/shape:after-out-of-order-window-write")
	}
	if reg == "" {
		r.c.Branch("query/in-region")
	} else {
		r.c.Branch("query/excluded:" + reg)
	}
	if len(want) > 0 {
		r.c.NonTrivial()
	}
	if res != nil && implLine != "harness-error" && implLine != "rs-error" {
		r.exprCheck(q, res)
		r.exprCheckX(q)
	}
	if r.oracleOn && reg == "" && implLine != "harness-error" && implLine != wantLine {
		r.failed = true
		var again []string
		for k := 0; k < 3; k++ {
			res2, em2, err2 := r.e.leafQuery(r.spf, q)
			again = append(again, lineOf(res2, em2, err2))
		}
		r.c.Note(fmt.Sprintf("the same query asked again 3 times: %q", again))
		fmt.Fprintf(os.Stderr, "MISMATCH seed %d %s\n first: %s\n want : %s\n again: %q\n schema: %s\n", r.c.Seed, q.sql(), implLine, wantLine, again, r.e.schemaDump())
		r.c.Fail("query-ne-naive", fmt.Sprintf("%s [qs=%d qe=%d ratio=%d]: leaf answered %q%s, reference %q", q.sql(), q.qs, q.qe, q.ratio, implLine, implLineNote, wantLine))
	}
	return res, implLine
}

// ---- random cases -------------------------------------------------------------------------------

var intervals = []int64{10000, 10000, 10000, 30000, 60000, 5000}

func pick(rng *rand.Rand, xs []int) int { return xs[rng.Intn(len(xs))] }

func genCond(rng *rand.Rand, depth int) cond {
	switch r := rng.Intn(10); {
	case r < 4 || depth > 1:
		if rng.Intn(3) == 0 {
			n := 1 + rng.Intn(3)
			var vs []int
			for i := 0; i < n; i++ {
				vs = append(vs, 1+rng.Intn(3))
			}
			return cond{kind: "in", k: 1 + rng.Intn(2), vs: vs}
		}
		return cond{kind: "eq", k: 1 + rng.Intn(2), vs: []int{1 + rng.Intn(3)}}
	case r < 7:
		a, b := genCond(rng, depth+1), genCond(rng, depth+1)
		return cond{kind: "and", a: &a, b: &b}
	default:
		a, b := genCond(rng, depth+1), genCond(rng, depth+1)
		return cond{kind: "or", a: &a, b: &b}
	}
}

// boundaryIDs: candidates for the real series ids of a container-boundary case.
var boundaryIDs = []uint32{3, 65534, 65535, 65536, 65537, 131071, 131072, 131073, 196608}

// pickBoundaryIDs draws n ascending ids; at least one of them is the first id of a container and
// has a smaller id of another container before it (so that a series bucket, closed by its footer,
// precedes that series in every flushed metric block that holds both).
func pickBoundaryIDs(rng *rand.Rand, n int) []uint32 {
	for {
		perm := rng.Perm(len(boundaryIDs))[:n]
		sort.Ints(perm)
		var ids []uint32
		ok := false
		for k, p := range perm {
			ids = append(ids, boundaryIDs[p])
			if k > 0 && boundaryIDs[p]&0xffff == 0 {
				ok = true
			}
		}
		if ok {
			return ids
		}
	}
}

// sparseCase: the next random case lies in the region sparse-series-filter (set by Run; cases run
// one after another).
var sparseCase bool

func runRandom(c *core.Ctx, idx int, boundary bool) {
	rng := c.Rng(idx)
	sparse := sparseCase && !boundary
	ivMs := intervals[rng.Intn(len(intervals))]
	r, err := newRunOpt(c, ivMs, boundary)
	if err != nil {
		c.Fail("harness-setup", err.Error())
		return
	}
	defer r.close()
	spf := r.spf
	// out-of-region budget: a minority of cases may contain the excluded window order
	_ = rng.Intn(5) // (kept: the random stream of the cases is unchanged)
	// series universe: tags k1, k2 with values 1..3; in two cases out of five some series omit k1
	// and/or k2 (a group-by on a key drops the series without it; after a reopen a source may hold
	// only such series)
	nSeries := 1 + rng.Intn(4)
	partial := rng.Intn(5) < 2
	var sdefs []seriesDef
	seen := map[[2]int]bool{}
	for len(sdefs) < nSeries {
		a, b := 1+rng.Intn(3), 1+rng.Intn(3)
		if partial {
			switch rng.Intn(6) {
			case 0:
				a = 0
			case 1:
				b = 0
			case 2:
				if rng.Intn(3) == 0 {
					a, b = 0, 0
				}
			}
		}
		if seen[[2]int{a, b}] {
			continue
		}
		seen[[2]int{a, b}] = true
		tags := map[int]int{}
		if a != 0 {
			tags[1] = a
		}
		if b != 0 {
			tags[2] = b
		}
		if len(tags) < 2 {
			c.Branch("gen/series-without-a-tag-key")
		}
		sdefs = append(sdefs, seriesDef{id: len(sdefs) + 1, tags: tags})
	}
	famChoices := [][]int{{0}, {0, 1}, {0, 1, 2}, {11, 12}, {10, 11, 12}, {0, 12}}[rng.Intn(6)]
	// fields used by the case
	fieldSets := [][]int{{1}, {1, 2, 3}, {1, 4, 5}, {2, 3}, {4}, {5}, {1, 2, 3, 4, 5}}
	flds := fieldSets[rng.Intn(len(fieldSets))]
	useHist := rng.Intn(4) == 0
	nOps := 8 + rng.Intn(30)
	wT, fT, cT := 70, 80, 84 // op thresholds: write | flush | compact | reopen, query
	if boundary {
		// region container-boundary-multi-field: 2..6 series whose REAL ids lie on both sides of
		// roaring container boundaries (65535 | 65536, 131071 | 131072, ...), a metric with several
		// fields in most cases (a flushed series entry then carries field offsets), more flushes and
		// compactions (both go through metricsdata.flusher)
		c.Branch("gen/region:container-boundary-multi-field")
		brng := rand.New(rand.NewSource(rng.Int63()))
		target := 2 + brng.Intn(5)
		for len(sdefs) < target {
			a, b := 1+brng.Intn(3), 1+brng.Intn(3)
			if seen[[2]int{a, b}] {
				continue
			}
			seen[[2]int{a, b}] = true
			sdefs = append(sdefs, seriesDef{id: len(sdefs) + 1, tags: map[int]int{1: a, 2: b}})
		}
		r.idPool = pickBoundaryIDs(brng, len(sdefs))
		if brng.Intn(5) != 0 {
			flds = [][]int{{1, 2}, {1, 2, 3}, {2, 3}, {1, 3}, {1, 2, 3, 4, 5}, {1, 4}}[brng.Intn(6)]
		}
		if len(flds) > 1 {
			c.Branch("gen/boundary:multi-field")
		} else {
			c.Branch("gen/boundary:one-field")
		}
		wT, fT, cT = 60, 76, 83
		if nOps < 16 {
			nOps += 10
		}
	}
	// region sparse-series-filter: 5..9 series (ids in the order of their first rows: one row each at
	// the start). A memory database flushes every series of the shard's in-memory series index, and
	// that index starts empty at a restart: after every reopen only a random subset of the series
	// (`live`, growing slowly) is written, so memory databases and files hold different subsets of
	// the ids; most queries carry a tag condition
	var srng *rand.Rand
	var live []seriesDef
	if sparse {
		c.Branch("gen/region:sparse-series-filter")
		srng = rand.New(rand.NewSource(rng.Int63()))
		target := 5 + srng.Intn(5)
		for len(sdefs) < target {
			a, b := 1+srng.Intn(3), 1+srng.Intn(3)
			if seen[[2]int{a, b}] {
				continue
			}
			seen[[2]int{a, b}] = true
			sdefs = append(sdefs, seriesDef{id: len(sdefs) + 1, tags: map[int]int{1: a, 2: b}})
		}
		wT, fT, cT = 62, 78, 83
		if nOps < 20 {
			nOps += 12
		}
	}
	pickSeries := func(fam int) seriesDef {
		if !sparse {
			return sdefs[rng.Intn(len(sdefs))]
		}
		if live == nil {
			return sdefs[srng.Intn(len(sdefs))]
		}
		if srng.Intn(10) == 0 {
			live = append(live, sdefs[srng.Intn(len(sdefs))])
		}
		return live[srng.Intn(len(live))]
	}
	// a "hot" region of slots so that duplicates and window effects are frequent
	hot := rng.Intn(spf)
	// two hot regions more than a window apart: writes flip between them, so windows are left,
	// compacted and re-entered (a slot then lives in the compress buffer and in the window)
	flip := rng.Intn(3) != 0
	slotOf := func() int {
		x := rng.Intn(20)
		switch {
		case x == 0:
			return rng.Intn(spf)
		case x < 4:
			return (hot + rng.Intn(60)) % spf
		case x < 10 && flip:
			return (hot + 20 + rng.Intn(6)) % spf
		case flip:
			return (hot + rng.Intn(8)) % spf
		default:
			return (hot + rng.Intn(14)) % spf
		}
	}
	queries := 0
	inWindow := false
	doQuery := func() {
		q := genQuery(rng, r, flds, useHist, famChoices)
		if sparse && q.cond.kind == "all" && srng.Intn(2) == 0 {
			q.cond = genCond(srng, 1)
		}
		// one query in eight (own commutative aggregates only): a family's flush runs to completion
		// between the query's filtering and its loading
		if !inWindow && placementFree(q) && rng.Intn(8) == 0 {
			fam := pick(rng, famChoices)
			r.queryFlushBeforeLoad(q, fam)
			queries++
			return
		}
		r.query(q)
		queries++
	}
	if sparse {
		for _, s := range sdefs {
			f := flds[srng.Intn(len(flds))]
			r.writeRow(pick(srng, famChoices), s, slotOf(), 0, []fieldVal{{f, float64(srng.Intn(41) - 10)}}, nil, false)
		}
		if srng.Intn(4) != 0 {
			r.reopen()
			live = sparseSubset(srng, sdefs)
		}
	}
	for op := 0; op < nOps; op++ {
		x := rng.Intn(100)
		switch {
		case x < wT:
			fam := pick(rng, famChoices)
			s := pickSeries(fam)
			slot := slotOf()
			// fields of this row
			var fvs []fieldVal
			for _, f := range flds {
				if rng.Intn(3) != 0 || len(flds) == 1 {
					fvs = append(fvs, fieldVal{f, float64(rng.Intn(41) - 10)})
				}
			}
			var h *histVal
			if useHist && rng.Intn(2) == 0 {
				h = &histVal{bounds: []float64{1, 2, math.Inf(1)},
					values: []float64{float64(rng.Intn(3)), float64(rng.Intn(3)), float64(rng.Intn(3))},
					min:    float64(rng.Intn(5)), max: float64(5 + rng.Intn(5)), sum: float64(rng.Intn(30)), count: float64(1 + rng.Intn(5))}
			}
			if len(fvs) == 0 && h == nil {
				fvs = append(fvs, fieldVal{flds[0], float64(rng.Intn(41) - 10)})
			}
			// keep the case inside the claimed region unless this case is allowed to leave it;
			// never write a first/last cell again once it lives in a file (file read order is a
			// map iteration order, the comparison with the model would not be reproducible)
			ok := true
			var all []int
			for _, fv := range fvs {
				all = append(all, fv.fld)
			}
			if h != nil {
				all = append(all, 6, 7, 8, 9, 10, 11, 12)
			}
			for _, f := range all {
				if r.sh.wouldBeUnsafe(fam, s.id, f, slot) {
					c.Branch("gen/out-of-order-window-write")
				}
				if !commutative(aggOfFieldType(schema[f].ftype)) && r.sh.flushedCell[cellKey{fam, s.id, f, slot}] {
					ok = false
				}
			}
			if !ok {
				c.Branch("gen/write-skipped")
				continue
			}
			r.writeRow(fam, s, slot, int64(rng.Intn(int(ivMs))), fvs, h, false)
			c.Branch("op/write")
		case x < fT:
			fam := pick(rng, famChoices)
			if rng.Intn(5) < 2 {
				// a flush in progress: rows and queries between the memory database switch and the commit
				nw, nq := 1+rng.Intn(3), 1+rng.Intn(2)
				// one in four of them: the flush FAILS after the switch; the window stays open until
				// the engine is closed and reopened
				window := r.flushWindow
				if rng.Intn(4) == 0 {
					window = r.flushFail
				}
				window(fam, func() {
					inWindow = true
					defer func() { inWindow = false }()
					for k := 0; k < nw; k++ {
						wf := fam
						if rng.Intn(4) == 0 {
							wf = pick(rng, famChoices)
						}
						if wf != fam && r.sh.fam(wf).mem == nil && false {
							continue
						}
						s := pickSeries(wf)
						slot := slotOf()
						f := flds[rng.Intn(len(flds))]
						if !commutative(aggOfFieldType(schema[f].ftype)) && r.sh.flushedCell[cellKey{wf, s.id, f, slot}] {
							continue
						}
						r.writeRow(wf, s, slot, int64(rng.Intn(int(ivMs))), []fieldVal{{f, float64(rng.Intn(41) - 10)}}, nil, false)
						c.Branch("op/write-during-flush")
					}
					for k := 0; k < nq; k++ {
						doQuery()
						c.Branch("query/during-flush")
					}
				})
			} else {
				r.flush(fam)
			}
		case x < cT:
			r.compact(pick(rng, famChoices))
		case x < 87 || (partial && x < 91) || (sparse && x < 92):
			r.reopen()
			if sparse {
				// the shard's in-memory series index starts empty: from now on the storage units hold
				// only the series written after the restart
				live = sparseSubset(srng, sdefs)
			}
			if boundary {
				// after a restart the memory databases' metric index is empty; as soon as it holds a
				// series of one container, a query that also covers a series of a LARGER container
				// missing from it fails (finding memdb-index-load-missing-container-negative-index,
				// witness: fixed case 21). The generator stays outside: one row for one series of every
				// container in use right after the restart.
				done := map[uint32]bool{}
				for _, s := range sdefs {
					id, ok := r.realID[s.id]
					if !ok || done[id>>16] {
						continue
					}
					fam, f := pick(rng, famChoices), flds[rng.Intn(len(flds))]
					slot := slotOf()
					for tries := 0; tries < 50 && r.sh.flushedCell[cellKey{fam, s.id, f, slot}]; tries++ {
						slot = rng.Intn(spf)
					}
					if !commutative(aggOfFieldType(schema[f].ftype)) && r.sh.flushedCell[cellKey{fam, s.id, f, slot}] {
						continue
					}
					done[id>>16] = true
					r.writeRow(fam, s, slot, 0, []fieldVal{{f, float64(rng.Intn(41) - 10)}}, nil, false)
					c.Branch("op/write-after-restart-per-container")
				}
			}
		default:
			if len(r.nv.streams) > 0 {
				doQuery()
			}
		}
	}
	if len(r.nv.streams) > 0 {
		for i := 0; i < 2; i++ {
			doQuery()
		}
	}
	// the function calls of the expression layer on one value, against the Lean `funcCall`
	for k := 0; k < 2; k++ {
		fn := []int{fnSum, fnMin, fnMax, fnCount, fnAvg, fnLast, fnFirst, fnRate, fnStddev}[rng.Intn(9)]
		sec := []int{1, 5, 10, 60, 300}[rng.Intn(5)]
		v := rng.Intn(2001) - 1000
		c.Op(fmt.Sprintf("fcall %d %d %d", fn, sec, v), realFuncCall(fn, sec, v))
	}
	if r.sh.unsafeEver {
		c.Branch("case/unsafe-order-happened")
	}
	for f, v := range r.sh.splitField {
		if v {
			c.Branch(fmt.Sprintf("case/split-field-type-%d", schema[f].ftype))
		}
	}
}

func genQuery(rng *rand.Rand, r *run, flds []int, useHist bool, fams []int) qSpec {
	spf := r.spf
	all := append([]int{}, flds...)
	if useHist {
		all = append(all, 6, 7, 8, 9, 10, 11)
	}
	var q qSpec
	nItems := 1
	if rng.Intn(4) == 0 {
		nItems = 2
	}
	firstLast := false
	for i := 0; i < nItems; i++ {
		f := all[rng.Intn(len(all))]
		if i == 1 && rng.Intn(3) != 0 {
			// mostly a different field for the second item (two functions on one field is a recorded finding)
			for tries := 0; tries < 5 && f == q.items[0].fld; tries++ {
				f = all[rng.Intn(len(all))]
			}
		}
		sf := supportedFuncs(schema[f].ftype)
		fn := sf[rng.Intn(len(sf))]
		if rng.Intn(2) == 0 {
			fn = defaultFunc(schema[f].ftype)
		}
		if !commutative(funcAgg(schema[f].ftype, fn)) {
			firstLast = true
		}
		q.items = append(q.items, qItem{f, fn})
	}
	// time range over the families of the case
	sort.Ints(fams)
	gLo := fams[0] * spf
	gHi := (fams[len(fams)-1]+1)*spf - 1
	switch rng.Intn(4) {
	case 0: // everything
		q.qs, q.qe = gLo, gHi
	case 1: // one family
		f := fams[rng.Intn(len(fams))]
		q.qs, q.qe = f*spf, (f+1)*spf-1
	default:
		a := gLo + rng.Intn(gHi-gLo+1)
		b := gLo + rng.Intn(gHi-gLo+1)
		if a > b {
			a, b = b, a
		}
		q.qs, q.qe = a, b
	}
	ratios := []int{1, 1, 2, 3, 6, 7, 30, spf, 2 * spf}
	q.ratio = ratios[rng.Intn(len(ratios))]
	if firstLast {
		// a bucket must not span two families (the per-family loads run concurrently)
		q.ratio = []int{1, 1, 1, 1, 2, 6, spf}[rng.Intn(7)]
		if spf%q.ratio != 0 {
			q.ratio = 1
		}
		q.qs -= q.qs % q.ratio
	}
	switch rng.Intn(5) {
	case 0, 1:
		q.cond = cond{kind: "all"}
	default:
		q.cond = genCond(rng, 0)
	}
	switch rng.Intn(5) {
	case 0, 1:
		q.by = nil
	case 2:
		q.by = []int{1}
	case 3:
		q.by = []int{2}
	default:
		q.by = []int{1, 2}
	}
	if firstLast && rng.Intn(4) != 0 {
		q.by = []int{1, 2}
	}
	if firstLast && r.realID != nil {
		// container-boundary case: the series of a group may lie in several containers, which are
		// loaded one after another (container, then family, then source) — a first/last over several
		// series then follows an order the model (family, source, series) does not have; one series
		// per group
		q.by = []int{1, 2}
	}
	if firstLast && r.sh.maxFilesInRange(q) > 1 {
		// several files of one family are read in a map iteration order: a first/last over
		// several slots or several series spread over them is not reproducible
		q.ratio = 1
		q.by = []int{1, 2}
	}
	return q
}

// exprCheck: the function/expression layer on top of the leaf answer (what the root computes from
// it) against the oracle's own function table: sum/min/max/first/last return the array of the
// function's agg type, rate divides it by the query interval in seconds. Only for queries with
// one agg type per field (finding two-functions-one-field-cross-aggregated is in the root's
// merge as well).
func (r *run) exprCheck(q qSpec, leaf aggResult) {
	got, err := r.e.exprEval(q)
	if err != nil {
		return
	}
	r.c.Branch("expr/checked")
	secs := float64(r.ivMs * int64(q.ratio) / 1000)
	for key, g := range leaf {
		for idx, it := range q.items {
			a := funcAgg(schema[it.fld].ftype, it.fn)
			src := g[it.fld][a]
			want := map[int]float64{}
			for t, v := range src {
				if it.fn == fnRate {
					want[t] = v / secs
				} else {
					want[t] = v
				}
			}
			have := got[key][idx]
			same := len(have) == len(want)
			for t, v := range want {
				if hv, ok := have[t]; !ok || hv != v {
					same = false
				}
			}
			if !same {
				r.c.Fail("expr-ne-function-table", fmt.Sprintf("%s item %d group %s: expression evaluates to %v, leaf array with the function applied is %v", q.sql(), idx, key, have, want))
				return
			}
			if it.fn == fnRate {
				r.c.Branch("expr/rate")
			}
		}
	}
}

// realFuncCall applies aggregation/function's FuncCall / RateCall / AvgCall to a one-value array.
func realFuncCall(fn, sec, v int) string {
	arr := collections.NewFloatArray(1)
	arr.SetValue(0, float64(v))
	var res *collections.FloatArray
	switch function.FuncType(fn) {
	case function.Rate:
		res = function.RateCall(int64(sec)*1000, arr)
	case function.Avg:
		res = function.AvgCall(arr)
	default:
		res = function.FuncCall(function.FuncType(fn), arr)
	}
	if res == nil || !res.HasValue(0) {
		return "none"
	}
	got := res.GetValue(0)
	if got == float64(v) && function.FuncType(fn) != function.Rate {
		return fmt.Sprintf("%d/1", v)
	}
	if got == float64(v)/float64(sec) {
		return fmt.Sprintf("%d/%d", v, sec)
	}
	return fmt.Sprintf("other(%v)", got)
}

// exprCheckX: select-item EXPRESSIONS (binary arithmetic, literals, parentheses, calls over
// expressions) over the fields and functions of the query, evaluated by the real
// aggregation.NewExpression on the root's merge of the real leaf answer. Two comparisons per group
// and item: the Lean model of expression.go / binary.go (`x` op, model diff) and the oracle — the
// item point by point in exact arithmetic over the same field store.
func (r *run) exprCheckX(q qSpec) {
	h := int64(r.c.Seed)
	for _, ch := range q.proto() {
		h = h*1000003 + int64(ch)
	}
	rng := rand.New(rand.NewSource(h))
	var xs []*xnode
	for i := 0; i < 3; i++ {
		xs = append(xs, genExpr(rng, q.items))
	}
	groups, err := r.e.exprEvalX(q, xs)
	if err != nil {
		r.c.Note("expression layer not checked: " + err.Error())
		r.c.Branch("exprx/skipped")
		return
	}
	sec := int(r.ivMs * int64(q.ratio) / 1000)
	var keys []string
	for k := range groups {
		keys = append(keys, k)
	}
	sort.Strings(keys)
	for _, key := range keys {
		g := groups[key]
		if !g.store.integral() || len(g.items) != len(xs) {
			r.c.Branch("exprx/skipped")
			continue
		}
		for j, x := range xs {
			want := xval{status: "empty"}
			if len(g.store.flds) > 0 {
				want = x.eval(g.n, sec, g.store, 0)
			}
			have := g.items[j]
			implLine := have.render(want)
			r.c.Op(fmt.Sprintf("x %d %d | %s | %s", g.n, sec, x.proto(), g.store.proto()), implLine)
			r.c.Branch("exprx/" + want.status)
			if want.status == "arr" && len(want.vals) > 0 {
				r.c.Branch("exprx/kind:" + x.kind)
				r.c.NonTrivial()
			}
			if want.status == "crash" && (have.status == "crash" || have.status == "empty") {
				// finding expr-rate-of-valueless-operands-panics, repaired by fix ad91846 (deterministic
				// witness: fixed case 15, which reports a panic as a regression); "empty" is the answer
				// of the source with the nil guard in RateCall; the model follows the regenerated flag
				r.c.Branch("exprx/known:rate-of-nil-array-" + have.status)
				continue
			}
			if wl := want.render(); r.oracleOn && implLine != wl {
				r.c.Fail("expr-ne-reference", fmt.Sprintf("select %s, group %s, store {%s}: expression evaluates to %q, point by point it is %q", x.sql(), key, g.store.proto(), implLine, wl))
				return
			}
		}
	}
}
