package c11

import (
	"fmt"
	"sort"
	"strconv"
	"strings"

	protoMetricsV1 "github.com/lindb/common/proto/gen/v1/linmetrics"
)

// ---- schema ---------------------------------------------------------------------------------

// agg type codes (series/field/type.go AggType)
const (
	aggSum = 1 + iota
	aggCount
	aggMin
	aggMax
	aggLast
	aggFirst
)

// field type codes (series/field/type.go Type)
const (
	ftSum = 1 + iota
	ftMin
	ftMax
	ftLast
	ftHistogram
	ftFirst
)

// function codes (aggregation/function/type.go FuncType)
const (
	fnSum = 1 + iota
	fnMin
	fnMax
	fnCount
	fnAvg
	fnLast
	fnFirst
	fnQuantile
	fnStddev
	fnRate
)

var fnName = map[int]string{fnSum: "sum", fnMin: "min", fnMax: "max", fnCount: "count", fnAvg: "avg",
	fnLast: "last", fnFirst: "first", fnRate: "rate"}

type fieldDef struct {
	name  string
	ftype int
	proto protoMetricsV1.SimpleFieldType
	hist  bool // written through the compound (histogram) field
}

// schema: the field keys of the line protocol. 1..5 are simple fields, 6.. come from histograms.
var schema = map[int]fieldDef{
	1:  {"fsum", ftSum, protoMetricsV1.SimpleFieldType_DELTA_SUM, false},
	2:  {"fmin", ftMin, protoMetricsV1.SimpleFieldType_Min, false},
	3:  {"fmax", ftMax, protoMetricsV1.SimpleFieldType_Max, false},
	4:  {"flast", ftLast, protoMetricsV1.SimpleFieldType_LAST, false},
	5:  {"ffirst", ftFirst, protoMetricsV1.SimpleFieldType_FIRST, false},
	6:  {"HistogramMin", ftMin, 0, true},
	7:  {"HistogramMax", ftMax, 0, true},
	8:  {"HistogramSum", ftSum, 0, true},
	9:  {"HistogramCount", ftSum, 0, true},
	10: {"__bucket_1", ftHistogram, 0, true},
	11: {"__bucket_2", ftHistogram, 0, true},
	12: {"__bucket_+Inf", ftHistogram, 0, true},
}

// schemaOrder is the order in which the fields are registered (= field id order).
var schemaOrder = []int{1, 2, 3, 4, 5, 6, 7, 8, 9, 10, 11, 12}

var fieldByName = func() map[string]int {
	m := map[string]int{}
	for id, d := range schema {
		m[d.name] = id
	}
	return m
}()

func aggOfFieldType(ft int) int {
	switch ft {
	case ftSum, ftHistogram:
		return aggSum
	case ftMin:
		return aggMin
	case ftMax:
		return aggMax
	case ftLast:
		return aggLast
	case ftFirst:
		return aggFirst
	}
	panic("field type")
}

func defaultFunc(ft int) int {
	switch ft {
	case ftSum, ftHistogram:
		return fnSum
	case ftMin:
		return fnMin
	case ftMax:
		return fnMax
	case ftLast:
		return fnLast
	case ftFirst:
		return fnFirst
	}
	panic("field type")
}

// supportedFuncs mirrors Type.IsFuncSupported (the oracle's own table; the Lean table is tied
// to the source by the generated facts).
func supportedFuncs(ft int) []int {
	switch ft {
	case ftSum:
		return []int{fnSum, fnMin, fnMax, fnRate}
	case ftMin:
		return []int{fnMin}
	case ftMax:
		return []int{fnMax}
	case ftLast:
		return []int{fnSum, fnMin, fnMax, fnLast}
	case ftFirst:
		return []int{fnSum, fnMin, fnMax, fnFirst}
	case ftHistogram:
		return []int{fnSum}
	}
	return nil
}

// funcAgg mirrors Type.GetFuncFieldParams.
func funcAgg(ft, fn int) int {
	switch ft {
	case ftSum:
		switch fn {
		case fnMax:
			return aggMax
		case fnMin:
			return aggMin
		}
		return aggSum
	case ftLast, ftFirst:
		switch fn {
		case fnMax:
			return aggMax
		case fnMin:
			return aggMin
		case fnSum:
			return aggSum
		}
		if ft == ftLast {
			return aggLast
		}
		return aggFirst
	case ftMin:
		if fn == fnMax {
			return aggMax
		}
		return aggMin
	case ftMax:
		if fn == fnMin {
			return aggMin
		}
		return aggMax
	}
	return aggSum
}

func aggregate(a int, x, y float64) float64 {
	switch a {
	case aggSum, aggCount:
		return x + y
	case aggMin:
		if x <= y {
			return x
		}
		return y
	case aggMax:
		if x <= y {
			return y
		}
		return x
	case aggLast:
		return y
	case aggFirst:
		return x
	}
	panic("agg")
}

func commutative(a int) bool { return a == aggSum || a == aggCount || a == aggMin || a == aggMax }

// ---- condition ------------------------------------------------------------------------------

type cond struct {
	kind string // all | eq | in | and | or
	k    int
	vs   []int
	a, b *cond
}

func (c cond) eval(tags map[int]int) bool {
	switch c.kind {
	case "all":
		return true
	case "eq":
		v, ok := tags[c.k]
		return ok && v == c.vs[0]
	case "in":
		v, ok := tags[c.k]
		if !ok {
			return false
		}
		for _, x := range c.vs {
			if x == v {
				return true
			}
		}
		return false
	case "and":
		return c.a.eval(tags) && c.b.eval(tags)
	case "or":
		return c.a.eval(tags) || c.b.eval(tags)
	}
	panic("cond")
}

func (c cond) proto() string {
	switch c.kind {
	case "all":
		return "all"
	case "eq":
		return fmt.Sprintf("eq %d %d", c.k, c.vs[0])
	case "in":
		var s []string
		for _, v := range c.vs {
			s = append(s, strconv.Itoa(v))
		}
		return fmt.Sprintf("in %d %s", c.k, strings.Join(s, ","))
	case "and":
		return "and " + c.a.proto() + " " + c.b.proto()
	case "or":
		return "or " + c.a.proto() + " " + c.b.proto()
	}
	panic("cond")
}

func (c cond) sql() string {
	switch c.kind {
	case "eq":
		return fmt.Sprintf("k%d='v%d'", c.k, c.vs[0])
	case "in":
		var s []string
		for _, v := range c.vs {
			s = append(s, fmt.Sprintf("'v%d'", v))
		}
		return fmt.Sprintf("k%d in (%s)", c.k, strings.Join(s, ","))
	case "and":
		return "(" + c.a.sql() + " and " + c.b.sql() + ")"
	case "or":
		return "(" + c.a.sql() + " or " + c.b.sql() + ")"
	}
	return ""
}

func (q qSpec) sql() string {
	var items []string
	for _, it := range q.items {
		name := schema[it.fld].name
		if strings.HasPrefix(name, "__") {
			name = "'" + name + "'"
		}
		items = append(items, fmt.Sprintf("%s(%s)", fnName[it.fn], name))
	}
	s := "select " + strings.Join(items, ",") + " from " + metricName
	if q.cond.kind != "all" {
		s += " where " + q.cond.sql()
	}
	if len(q.by) > 0 {
		var ks []string
		for _, k := range q.by {
			ks = append(ks, fmt.Sprintf("k%d", k))
		}
		s += " group by " + strings.Join(ks, ",")
	}
	return s
}

func (q qSpec) proto() string {
	var by, items []string
	for _, k := range q.by {
		by = append(by, strconv.Itoa(k))
	}
	for _, it := range q.items {
		items = append(items, fmt.Sprintf("%d:%d", it.fld, it.fn))
	}
	return fmt.Sprintf("%d %d %d | %s | %s | %s", q.qs, q.qe, q.ratio, q.cond.proto(), strings.Join(by, " "), strings.Join(items, " "))
}

// ---- the harness's own naive reference (impl-side oracle) -------------------------------------

type point struct {
	fam, ser, fld, slot int
	val                 float64
}

type seriesDef struct {
	id   int
	tags map[int]int // key id → value id
}

type streamKey struct{ fam, ser, fld int }

// naive stores every accepted point.
type naive struct {
	spf     int
	series  []seriesDef // in declaration order
	streams map[streamKey][]point
	fams    map[int]bool
	// fieldSeen: fields that exist in the metric's schema, fieldOrder: in the order of their
	// first write (= field id order)
	fieldSeen  map[int]bool
	fieldOrder []int
}

func newNaive(spf int) *naive {
	return &naive{spf: spf, streams: map[streamKey][]point{}, fams: map[int]bool{}, fieldSeen: map[int]bool{}}
}

func (n *naive) add(p point) {
	k := streamKey{p.fam, p.ser, p.fld}
	n.streams[k] = append(n.streams[k], p)
	n.fams[p.fam] = true
	if !n.fieldSeen[p.fld] {
		n.fieldSeen[p.fld] = true
		n.fieldOrder = append(n.fieldOrder, p.fld)
	}
}

// cell combines, in arrival order, all values written to one slot by the field's aggregate.
func (n *naive) cell(fam, ser, fld, slot int) (float64, bool) {
	a := aggOfFieldType(schema[fld].ftype)
	var acc float64
	has := false
	for _, p := range n.streams[streamKey{fam, ser, fld}] {
		if p.slot != slot {
			continue
		}
		if !has {
			acc, has = p.val, true
		} else {
			acc = aggregate(a, acc, p.val)
		}
	}
	return acc, has
}

type group struct {
	key    []int
	series []int
}

// groups of the series that satisfy the condition, in first-appearance order.
func (n *naive) groups(c cond, by []int) []group {
	var gs []group
	for _, s := range n.series {
		if !c.eval(s.tags) {
			continue
		}
		var key []int
		ok := true
		for _, k := range by {
			v, has := s.tags[k]
			if !has {
				ok = false
				break
			}
			key = append(key, v)
		}
		if !ok {
			continue
		}
		found := false
		for i := range gs {
			if equalInts(gs[i].key, key) {
				gs[i].series = append(gs[i].series, s.id)
				found = true
				break
			}
		}
		if !found {
			gs = append(gs, group{key, []int{s.id}})
		}
	}
	return gs
}

func equalInts(a, b []int) bool {
	if len(a) != len(b) {
		return false
	}
	for i := range a {
		if a[i] != b[i] {
			return false
		}
	}
	return true
}

func keyString(k []int) string {
	var s []string
	for _, v := range k {
		s = append(s, strconv.Itoa(v))
	}
	return "[" + strings.Join(s, ",") + "]"
}

// query evaluates the reference: per group, per selected (field, agg type of the function), per
// query bucket the fold of the function's aggregate over the slot-combined cells (series-major,
// families ascending, slots ascending).
func (n *naive) query(q qSpec) aggResult {
	out := aggResult{}
	var fams []int
	for f := range n.fams {
		fams = append(fams, f)
	}
	sort.Ints(fams)
	for _, g := range n.groups(q.cond, q.by) {
		key := keyString(g.key)
		for _, it := range q.items {
			a := funcAgg(schema[it.fld].ftype, it.fn)
			res := map[int]float64{}
			for _, ser := range g.series {
				for _, fam := range fams {
					for slot := 0; slot < n.spf; slot++ {
						gs := fam*n.spf + slot
						if gs < q.qs || gs > q.qe {
							continue
						}
						v, ok := n.cell(fam, ser, it.fld, slot)
						if !ok {
							continue
						}
						t := (gs - q.qs) / q.ratio
						if old, has := res[t]; has {
							res[t] = aggregate(a, old, v)
						} else {
							res[t] = v
						}
					}
				}
			}
			if len(res) == 0 {
				continue
			}
			if out[key] == nil {
				out[key] = map[int]map[int]map[int]float64{}
			}
			if out[key][it.fld] == nil {
				out[key][it.fld] = map[int]map[int]float64{}
			}
			out[key][it.fld][a] = res
		}
	}
	return out
}
