package c11

import (
	"fmt"
	"math/rand"
	"sort"
	"strconv"
	"strings"
	"sync"
	"time"

	"github.com/lindb/lindb/internal/verifhook"
	"github.com/lindb/lindb/pkg/timeutil"
	"github.com/lindb/lindb/tsdb"
	"github.com/lindb/lindb/zzverif/internal/core"
)

var (
	sA = seriesDef{id: 1, tags: map[int]int{1: 1, 2: 1}}
	sB = seriesDef{id: 2, tags: map[int]int{1: 2, 2: 1}}
	sN = seriesDef{id: 3, tags: map[int]int{2: 1}} // no k1
)

func allCond() cond { return cond{kind: "all"} }

func fullRange(spf int, fams ...int) (int, int) {
	sort.Ints(fams)
	return fams[0] * spf, (fams[len(fams)-1]+1)*spf - 1
}

// witness runs q, and classifies the outcome: equal to the reference (the finding did not
// reproduce), equal to the behaviour the recorded defect predicts (known key), anything else
// (the generic key).
func (r *run) witness(key, what string, q qSpec, predicted string) {
	r.witnessF(false, key, what, q, predicted)
}

// repaired: the witness of a finding that was repaired by a fix: commit; it must pass now.
func (r *run) repaired(key, what string, q qSpec, oldAnswer string) {
	r.witnessF(true, key, what, q, oldAnswer)
}

func (r *run) witnessF(fixed bool, key, what string, q qSpec, predicted string) {
	_, line := r.query(q)
	want := r.nv.query(q).render()
	switch {
	case line == want && fixed:
		r.c.Branch("witness/repaired-passes:" + key)
	case line == want:
		r.c.Note("finding " + key + " did not reproduce: leaf answer equals the reference")
		r.c.Branch("witness/not-reproduced:" + key)
	case fixed:
		r.c.Fail("regressed:"+key, fmt.Sprintf("%s — %s: leaf answered %q, reference %q (answer before the fix: %q)", what, q.sql(), line, want, predicted))
	case line == predicted:
		r.c.Fail(key, fmt.Sprintf("%s — %s: leaf answered %q, reference %q", what, q.sql(), line, want))
		r.c.Branch("witness/reproduced:" + key)
	default:
		r.c.Fail("query-ne-naive", fmt.Sprintf("witness %s: %s: leaf answered %q, reference %q, defect predicts %q", key, q.sql(), line, want, predicted))
	}
}

func w1(fld int, v float64) []fieldVal { return []fieldVal{{fld, v}} }

// runFixed: the deterministic cases. Indices are stable (replay files refer to them).
func runFixed(c *core.Ctx, i int) {
	if i == 1 {
		runMonthCase(c, nil, 0)
		return
	}
	r, err := newRunOpt(c, 10000, i == 19 || i == 21) // one-worker scanner pool: see env.oneScanner
	if err != nil {
		c.Fail("harness-setup", err.Error())
		return
	}
	defer r.close()
	r.oracleOn = false
	spf := r.spf
	qs, qe := fullRange(spf, 0)
	q1 := func(fld, fn int) qSpec {
		return qSpec{qs: qs, qe: qe, ratio: 1, cond: allCond(), items: []qItem{{fld, fn}}}
	}
	switch i {
	case 0:
		// field_writer.write sets buf[endOffset] = delta on every first-time slot: 5, 9, 7 shrinks
		// `end` to 2 and getCurrentValue hides slot 9 (memory query, compaction and flush).
		r.writeRow(0, sA, 5, 0, w1(1, 1), nil, false)
		r.writeRow(0, sA, 9, 0, w1(1, 2), nil, false)
		r.writeRow(0, sA, 7, 0, w1(1, 4), nil, false)
		r.repaired("field-writer-end-shrinks", "sum field, slots written in the order 5, 9, 7 inside one write window", q1(1, fnSum), "rs [] f1/a1=5:1,7:4")
		r.flush(0)
		r.repaired("field-writer-end-shrinks", "same, after the flush", q1(1, fnSum), "rs [] f1/a1=5:1,7:4")
	case 2:
		// merge() calls Aggregate(newValue, oldValue): for a last field the compacted (older) value
		// wins at flush, while the memory query (compress first, then buffer) answers the newer one.
		r.writeRow(0, sA, 5, 0, w1(4, 1), nil, false)
		r.writeRow(0, sA, 25, 0, w1(4, 2), nil, false)
		r.writeRow(0, sA, 5, 0, w1(4, 3), nil, false)
		r.repaired("merge-arg-order-last", "(memory, before the flush)", q1(4, fnLast), "")
		r.flush(0)
		r.repaired("merge-arg-order-last", "last field: slot 5 = 1, window left (slot 25), slot 5 = 3, flush: merge keeps the older 1", q1(4, fnLast), "rs [] f4/a5=5:1,25:2")
	case 3:
		// dataFamily.Filter loads memory result sets before file result sets and the last
		// aggregate keeps the value loaded last: the flushed (older) point wins.
		r.writeRow(0, sA, 5, 0, w1(4, 1), nil, false)
		r.flush(0)
		r.writeRow(0, sA, 5, 0, w1(4, 2), nil, false)
		r.witness("last-field-flushed-value-wins", "last field: slot 5 = 1, flush, slot 5 = 2: the leaf answers the flushed 1", q1(4, fnLast), "rs [] f4/a5=5:1")
	case 4:
		// a function other than the field's own aggregate is applied to the parts of a slot that
		// live in different storage units instead of to the slot's combined value.
		r.writeRow(0, sA, 7, 0, w1(1, 4), nil, false)
		r.flush(0)
		r.writeRow(0, sA, 7, 0, w1(1, 16), nil, false)
		r.witness("max-of-sum-field-split-by-flush", "sum field: slot 7 += 4, flush, slot 7 += 16: max(f) answers 16, the slot holds 20", q1(1, fnMax), "rs [] f1/a4=7:16")
	case 5:
		// fieldAggregator.Aggregate feeds every primitive series into every agg type: two
		// functions on one field corrupt each other at the leaf reduce (also found by C12 at the root).
		r.writeRow(0, sB, 7, 0, w1(1, 8), nil, false)
		q := qSpec{qs: qs, qe: qe, ratio: 1, cond: allCond(), items: []qItem{{1, fnSum}, {1, fnMax}}}
		r.repaired("two-functions-one-field-cross-aggregated", "select sum(fsum),max(fsum): one point 8 is answered as sum 16", q, "rs [] f1/a1=7:16 f1/a4=7:8")
	case 6:
		// memoryDatabase.createdTime is a 5 ms fasttime tick and keys the metric's family time
		// range: two memory databases created in one tick share it, flushing one clears it.
		// (first make metric, series and field known so that the two creating writes are fast)
		r.writeRow(0, sA, 1, 0, w1(1, 1), nil, false)
		r.writeRow(1, sA, 1, 0, w1(1, 1), nil, false)
		r.flush(0)
		r.flush(1)
		alignTick()
		r.writeRow(0, sA, 5, 0, w1(1, 1), nil, true)
		r.writeRow(1, sA, 6, 0, w1(1, 2), nil, true)
		if !r.collided {
			r.c.Note("the two memory databases did not get the same created time on this run")
		}
		a, b := fullRange(spf, 0, 1)
		q := qSpec{qs: a, qe: b, ratio: 1, cond: allCond(), items: []qItem{{1, fnSum}}}
		r.flush(0)
		r.repaired("memdb-created-tick-collision", "families 0 and 1 get memory databases in the same 5 ms tick; after flushing family 0 the points of family 1 are invisible (and are dropped by its own flush)", q,
			"rs [] f1/a1=1:1,5:1,361:1")
		r.flush(1)
		r.repaired("memdb-created-tick-collision", "same, after flushing family 1: its point is lost", q, "rs [] f1/a1=1:1,5:1,361:1")
	case 7:
		// a not-found error of one source makes dataFamily.Filter fail as a whole
		r.writeRow(0, sA, 5, 0, w1(1, 1), nil, false)
		r.flush(0)
		r.writeRow(0, sB, 6, 0, w1(1, 2), nil, false)
		q := qSpec{qs: qs, qe: qe, ratio: 1, cond: cond{kind: "eq", k: 1, vs: []int{2}}, items: []qItem{{1, fnSum}}}
		r.repaired("family-filter-notfound-drops-memory", "series A flushed, series B (new) in memory: where k1='v2' answers nothing (file filter: series not found)", q, "rs ")
	case 8:
		r.writeRow(0, sA, 5, 0, []fieldVal{{1, 1}, {2, 1}}, nil, false)
		r.flush(0)
		r.writeRow(0, sA, 6, 0, w1(2, 2), nil, false)
		r.repaired("family-filter-notfound-drops-files", "fsum only in the file, the new memory database holds only fmin: select sum(fsum) answers nothing (memory filter: field not found)", q1(1, fnSum), "rs ")
	case 9:
		runFlushWindow(r)
	case 10:
		// in-region fixed shape: several families across a day boundary, ratio 6, group by, reopen, compaction
		r.oracleOn = true
		for _, fam := range []int{11, 12} {
			for k := 0; k < 6; k++ {
				r.writeRow(fam, sA, 10+k*3, 1234, []fieldVal{{1, float64(k + 1)}, {2, float64(5 - k)}, {3, float64(k)}}, nil, false)
				r.writeRow(fam, sB, 12+k*3, 9999, []fieldVal{{1, float64(10 * k)}}, nil, false)
			}
			r.flush(fam)
			r.writeRow(fam, sA, 100, 0, w1(1, 7), nil, false)
		}
		a, b := fullRange(spf, 11, 12)
		r.query(qSpec{qs: a, qe: b, ratio: 6, cond: allCond(), by: []int{1}, items: []qItem{{1, fnSum}}})
		r.query(qSpec{qs: a + 15, qe: b - 100, ratio: 7, cond: allCond(), items: []qItem{{2, fnMin}, {3, fnMax}}})
		r.flush(11)
		r.compact(11)
		r.reopen()
		r.query(qSpec{qs: a, qe: b, ratio: spf, cond: allCond(), by: []int{1, 2}, items: []qItem{{1, fnSum}}})
	case 11:
		// in-region fixed shape: first/last fields and histogram, one window, with duplicates
		r.oracleOn = true
		for k := 0; k < 10; k++ {
			r.writeRow(0, sA, 40+k%5, 0, []fieldVal{{4, float64(k)}, {5, float64(100 + k)}}, nil, false)
		}
		r.query(qSpec{qs: qs, qe: qe, ratio: 1, cond: allCond(), by: []int{1, 2}, items: []qItem{{4, fnLast}, {5, fnFirst}}})
		r.query(qSpec{qs: qs, qe: qe, ratio: 6, cond: allCond(), by: []int{1, 2}, items: []qItem{{4, fnLast}}})
		r.flush(0)
		r.query(qSpec{qs: qs, qe: qe, ratio: 1, cond: allCond(), by: []int{1, 2}, items: []qItem{{4, fnLast}, {5, fnFirst}}})
	case 12:
		// metricReader.readSeriesData: a file with exactly one field is down-sampled into query
		// field index 0 (the selected field with the smallest id), whichever field it holds.
		r.writeRow(0, sA, 5, 0, w1(3, 1), nil, false) // the first file holds only fmax
		r.flush(0)
		r.writeRow(0, sA, 6, 0, w1(2, 25), nil, false) // the second file holds only fmin
		r.flush(0)
		q := qSpec{qs: qs, qe: qe, ratio: 1, cond: allCond(), items: []qItem{{2, fnMin}, {3, fnMax}}}
		r.repaired("single-field-file-read-into-first-query-field", "files {fmax}, {fmin}; select min(fmin),max(fmax): the fmax value 1 of the first file is answered as fmin (the selected field with the smallest id)", q, "rs [] f2/a3=5:1,6:25")
	case 13:
		// down-sampling with last over a bucket whose slots live in memory and in a file: memory
		// is loaded first, the file last, so the flushed (older) slot's value is the "last".
		r.writeRow(0, sA, 1, 0, w1(4, 1), nil, false)
		r.flush(0)
		r.writeRow(0, sA, 4, 0, w1(4, 2), nil, false)
		q := qSpec{qs: qs, qe: qe, ratio: 6, cond: allCond(), items: []qItem{{4, fnLast}}}
		r.witness("last-downsampling-flushed-slot-wins", "last field: slot 1 = 1, flush, slot 4 = 2; last(flast) per minute (ratio 6) answers 1", q, "rs [] f4/a5=0:1")
	case 14:
		// a query while a flush is in progress, after a write that completed after the memory
		// database switch: it must read the new mutable memory database, the immutable one and the files
		r.oracleOn = true
		r.writeRow(0, sA, 3, 0, w1(1, 1), nil, false)
		r.flush(0)
		r.writeRow(0, sA, 5, 0, w1(1, 2), nil, false)
		r.writeRow(0, sB, 9, 0, w1(1, 4), nil, false)
		r.flushWindow(0, func() {
			r.query(q1(1, fnSum)) // no write yet: immutable + file
			r.writeRow(0, sA, 5, 0, w1(1, 8), nil, false)
			r.writeRow(0, sA, 40, 0, w1(1, 16), nil, false)
			r.query(q1(1, fnSum)) // new mutable + immutable + file
			r.query(qSpec{qs: qs, qe: qe, ratio: 6, cond: allCond(), by: []int{1}, items: []qItem{{1, fnSum}}})
		})
		r.query(q1(1, fnSum))
	case 15:
		// rate over a binary expression whose operands have arrays without values: series A has
		// data in the memory database, outside the query range (series B inside), so the leaf
		// answers A's group with a valueless array; binaryEval returns a nil array, RateCall
		// dereferences it
		r.oracleOn = true
		r.writeRow(0, sA, 5, 0, w1(2, 7), nil, false)
		r.writeRow(0, sB, 15, 0, w1(2, 3), nil, false)
		q := qSpec{qs: 10, qe: 20, ratio: 1, cond: allCond(), by: []int{1}, items: []qItem{{2, fnMin}}}
		r.query(q)
		fm := &xnode{kind: "f", fld: 2}
		x := &xnode{kind: "c", fn: fnRate, l: &xnode{kind: "b", op: 1, l: fm, r: fm}}
		groups, err := r.e.exprEvalX(q, []*xnode{x})
		g := groups["[1]"]
		switch {
		case err != nil || g == nil || len(g.items) != 1:
			r.c.Note(fmt.Sprintf("rate witness: the leaf did not answer the group (err=%v, groups=%d)", err, len(groups)))
			r.c.Branch("witness/not-reproduced:expr-rate-of-valueless-operands-panics")
		default:
			sec := int(r.ivMs / 1000)
			want := x.eval(g.n, sec, g.store, 0)
			r.c.Op(fmt.Sprintf("x %d %d | %s | %s", g.n, sec, x.proto(), g.store.proto()), g.items[0].render(want))
			switch {
			case g.items[0].status == "crash" && want.status == "crash":
				// repaired by fix ad91846 (nil guard in RateCall): the panic is a regression now
				r.c.Branch("witness/reproduced:expr-rate-of-valueless-operands-panics")
				r.c.Fail("regressed:expr-rate-of-valueless-operands-panics", fmt.Sprintf("select %s over a group whose %s array holds no value in the query range: %s", x.sql(), schema[2].name, g.items[0].panic))
			case g.items[0].status == "empty" && want.status == "crash":
				r.c.Branch("witness/repaired-passes:expr-rate-of-valueless-operands-panics")
			default:
				r.c.Fail("expr-ne-reference", fmt.Sprintf("rate witness: store {%s}: expression gives %q, point by point %q", g.store.proto(), g.items[0].render(want), want.render()))
			}
		}
	case 16, 17, 18:
		// a source that holds only series without the group-by tag key (needs an index rebuild between
		// the tagged and the untagged writes): its data load returns early; the other sources' data
		// must still be answered (dataLoad.Execute: the pending-load counter is decremented on
		// every return path)
		r.oracleOn = true
		qa := qSpec{qs: 0, qe: 2*spf - 1, ratio: 1, cond: allCond(), items: []qItem{{1, fnSum}}}
		qg := qa
		qg.by = []int{1}
		switch i {
		case 16: // the second family's memory database holds only the untagged series
			r.writeRow(0, sA, 1, 0, w1(1, 1), nil, false)
			r.writeRow(0, sB, 2, 0, w1(1, 2), nil, false)
			r.reopen()
			r.writeRow(1, sN, 2, 0, w1(1, 4), nil, false)
		case 17: // a file holds only the untagged series, the tagged ones are in memory
			r.writeRow(0, sN, 2, 0, w1(1, 4), nil, false)
			r.reopen()
			r.writeRow(0, sA, 1, 0, w1(1, 1), nil, false)
			r.writeRow(0, sB, 3, 0, w1(1, 2), nil, false)
		case 18: // files hold the tagged series, the memory database only the untagged one
			r.writeRow(0, sA, 1, 0, w1(1, 1), nil, false)
			r.writeRow(0, sB, 3, 0, w1(1, 2), nil, false)
			r.reopen()
			r.writeRow(0, sN, 2, 0, w1(1, 4), nil, false)
		}
		r.query(qg)
		r.query(qa)
		qg2 := qg
		qg2.by = []int{1, 2}
		r.query(qg2)
		r.c.Branch("fixed/source-with-only-untagged-series")
	case 19:
		// region container-boundary-multi-field, minimal shape: a metric with two fields, four series
		// with the real ids 65535 | 65536, 65537 | 131072 (three roaring containers = three series
		// buckets in the flushed metric block; 65536 and 131072 are the first entries of their buckets,
		// written right after the previous bucket's footer). Memory, flushed, second flush, compacted
		// (the merger writes through the same flusher), reopened: every answer must be the reference.
		r.oracleOn = true
		r.idPool = []uint32{65535, 65536, 65537, 131072}
		sC := seriesDef{id: 3, tags: map[int]int{1: 3, 2: 1}}
		sD := seriesDef{id: 4, tags: map[int]int{1: 1, 2: 2}}
		all4 := []seriesDef{sA, sB, sC, sD}
		qb := qSpec{qs: qs, qe: qe, ratio: 1, cond: allCond(), by: []int{1, 2}, items: []qItem{{1, fnSum}, {3, fnMax}}}
		qn := qSpec{qs: qs, qe: qe, ratio: 1, cond: allCond(), items: []qItem{{1, fnSum}, {3, fnMax}}}
		q1f := qSpec{qs: qs, qe: qe, ratio: 1, cond: allCond(), by: []int{1, 2}, items: []qItem{{3, fnMax}}}
		ask := func() { r.query(qb); r.query(qn); r.query(q1f) }
		for k, s := range all4 {
			r.writeRow(0, s, 3+k, 0, []fieldVal{{1, float64(1 + k)}, {3, float64(10 * (k + 1))}}, nil, false)
		}
		ask()
		r.flush(0)
		ask()
		for k, s := range all4 {
			r.writeRow(0, s, 20+k, 0, []fieldVal{{1, float64(5 + k)}, {3, float64(7 * (k + 1))}}, nil, false)
		}
		ask()
		r.flush(0)
		ask()
		r.compact(0)
		ask()
		r.reopen()
		ask()
		r.c.Branch("fixed/container-boundary-multi-field")
	case 22:
		// a FAILED flush (fault path of the write side; the seeded change c11-22 in its minimal
		// shape): slot 3 is in a file; 3 again, 9 and 12 are in the memory database whose flush fails
		// after the switch. The points must stay queryable right away, after further writes, and
		// after close + reopen (Close flushes the immutable memory database again).
		r.oracleOn = true
		r.writeRow(0, sA, 3, 0, w1(1, 1), nil, false)
		r.writeRow(0, sB, 3, 0, w1(1, 20), nil, false)
		r.flush(0)
		r.writeRow(0, sA, 3, 0, w1(1, 2), nil, false)
		r.writeRow(0, sA, 9, 0, w1(1, 4), nil, false)
		r.writeRow(0, sB, 12, 0, w1(1, 50), nil, false)
		r.flushFail(0, func() {
			r.query(q1(1, fnSum)) // immutable + file
			r.writeRow(0, sA, 9, 0, w1(1, 8), nil, false)
			r.writeRow(0, sA, 40, 0, w1(1, 16), nil, false)
			r.query(q1(1, fnSum)) // new mutable + immutable + file
			r.query(qSpec{qs: qs, qe: qe, ratio: 6, cond: allCond(), by: []int{1}, items: []qItem{{1, fnSum}}})
			// a second Flush of the family is refused by the skip guard: nothing changes
			if err := r.e.flush(0); err != nil {
				r.c.Fail("flush-error", fmt.Sprintf("Flush after a failed flush: %v", err))
			}
			r.query(q1(1, fnSum))
		})
		r.query(q1(1, fnSum)) // after close + reopen: three files
		r.c.Branch("fixed/failed-flush")
	case 20:
		runContainerRace(r)
	case 23:
		runSparseFixed(r)
	case 24:
		runFlushBeforeLoadFixed(r)
	case 21:
		// witness of finding memdb-index-load-missing-container-negative-index: series 65535
		// (container 0) and 65536 (container 1) are written; restart (everything is flushed, the
		// memory databases' metric index starts empty); only series 65535 is written again. A query
		// over both series starts a data load for container 1 on the memory database, whose index
		// holds container 0 only: GetContainerIndex answers -2 (insertion point), the guard of
		// timeSeriesIndex.Load tests `== -1`, ids.Values()[-2] panics, the query fails.
		r.idPool = []uint32{65535, 65536}
		r.writeRow(0, sA, 5, 0, w1(1, 3), nil, false)
		r.writeRow(0, sB, 7, 0, w1(1, 100), nil, false)
		r.reopen()
		r.writeRow(0, sA, 9, 0, w1(1, 4), nil, false)
		q := qSpec{qs: qs, qe: qe, ratio: 1, cond: allCond(), by: []int{1}, items: []qItem{{1, fnSum}}}
		want := r.nv.query(q).render()
		res, errMsg, err := r.e.leafQuery(spf, q)
		got := lineOf(res, errMsg, err)
		r.c.NonTrivial()
		const key = "memdb-index-load-missing-container-negative-index"
		switch {
		case got == want:
			r.c.Note("finding " + key + " did not reproduce")
			r.c.Branch("witness/not-reproduced:" + key)
		case strings.Contains(errMsg, "index out of range [-2]"):
			r.c.Fail(key, fmt.Sprintf("series 65535 and 65536 flushed by a restart, then only 65535 written: select sum(fsum) group by k1 fails with %q, reference %q", errMsg, want))
			r.c.Branch("witness/reproduced:" + key)
		default:
			r.c.Fail("query-ne-naive", fmt.Sprintf("witness %s: leaf answered %q, reference %q", key, got, want))
		}
		// once the memory database holds both containers again the query is answered (model as well)
		r.writeRow(0, sB, 11, 0, w1(1, 50), nil, false)
		r.oracleOn = true
		r.query(q)
	}
}

// raceKey is the stable key of the finding replayed by runContainerRace.
const raceKey = "memdb-parallel-container-load-shares-field-entries"

// runContainerRace: witness of finding memdb-parallel-container-load-shares-field-entries. One
// memory database holds series A (real id 65535, container 0; slot 5 = 3) and series B (id 65536,
// container 1; slot 7 = 100). A query on both starts one data-load stage per container; both loaders
// are built from the SAME memFilterResultSet and share its []*fieldEntry, and
// timeSeriesIndex.Load does `fm.Reset(page of this series)` and then reads through fm. The yield
// point between the two statements (memdb.timeSeriesIndex.load.afterResetPage) parks the first
// loader until the second one has reset the shared entry to ITS series' page: both groups are then
// answered with one and the same page.
func runContainerRace(r *run) {
	spf := r.spf
	qs, qe := fullRange(spf, 0)
	r.idPool = []uint32{65535, 65536}
	r.writeRow(0, sA, 5, 0, w1(1, 3), nil, false)
	r.writeRow(0, sB, 7, 0, w1(1, 100), nil, false)
	q := qSpec{qs: qs, qe: qe, ratio: 1, cond: allCond(), by: []int{1}, items: []qItem{{1, fnSum}}}
	want := r.nv.query(q).render()
	var mu sync.Mutex
	arrived := 0
	second := make(chan struct{})
	verifhook.Set(func(id string) {
		if id != "memdb.timeSeriesIndex.load.afterResetPage" {
			return
		}
		mu.Lock()
		arrived++
		n := arrived
		mu.Unlock()
		switch n {
		case 1:
			select { // wait for the other container's loader to reset the shared field entry
			case <-second:
			case <-time.After(2 * time.Second):
			}
		case 2:
			close(second)
		}
	})
	res, errMsg, err := r.e.leafQuery(spf, q)
	verifhook.Set(nil)
	got := lineOf(res, errMsg, err)
	r.c.NonTrivial()
	r.c.Note(fmt.Sprintf("two containers of one memory database loaded with the forced interleaving: %s (reference %s; loaders that reached the yield point: %d)", got, want, arrived))
	switch {
	case got == want:
		r.c.Note("finding " + raceKey + " did not reproduce")
		r.c.Branch("witness/not-reproduced:" + raceKey)
	case got == "rs [1] f1/a1=7:100 ; [2] f1/a1=7:100" || got == "rs [1] f1/a1=5:3 ; [2] f1/a1=5:3":
		r.c.Fail(raceKey, fmt.Sprintf("select sum(fsum) group by k1 over series 65535 (slot 5 = 3) and 65536 (slot 7 = 100) of ONE memory database, second container's loader resets the shared field entry before the first one reads: leaf answered %q, reference %q", got, want))
		r.c.Branch("witness/reproduced:" + raceKey)
	default:
		r.c.Fail("query-ne-naive", fmt.Sprintf("witness %s: leaf answered %q, reference %q", raceKey, got, want))
	}
	// without the forced interleaving the same query is asked through the model as well
	r.oracleOn = false
	r.flush(0)
	r.oracleOn = true
	r.query(q)
}

// runFlushWindow: queries concurrent with a flush, sequentialised at the two points of the
// memory-database swap (tsdb.VerifC11SetFlushHooks).
func runFlushWindow(r *run) {
	spf := r.spf
	qs, qe := fullRange(spf, 0)
	q := qSpec{qs: qs, qe: qe, ratio: 1, cond: allCond(), items: []qItem{{1, fnSum}}}
	r.writeRow(0, sA, 5, 0, w1(1, 3), nil, false)
	r.writeRow(0, sA, 9, 0, w1(1, 4), nil, false)
	want := r.nv.query(q).render()
	var before, after string
	restore := tsdb.VerifC11SetFlushHooks(func() {
		res, errMsg, err := r.e.leafQuery(spf, q)
		before = lineOf(res, errMsg, err)
	}, func() {
		res, errMsg, err := r.e.leafQuery(spf, q)
		after = lineOf(res, errMsg, err)
	})
	err := r.e.flush(0)
	restore()
	out := "ok"
	if err != nil {
		out = "err"
	}
	r.c.Op("flush 0", out)
	r.sh.flush(0)
	r.c.Note("query while the memory database is immutable and not yet written: " + before)
	r.c.Note("query after the file was committed, before the immutable memory database is dropped: " + after)
	r.c.NonTrivial()
	if before != want {
		r.c.Fail("query-ne-naive", fmt.Sprintf("query during flush (before the file is written): %q, reference %q", before, want))
	}
	switch {
	case after == want:
		r.c.Branch("witness/not-reproduced:flush-commit-window-double-count")
	case after == "rs [] f1/a1=5:6,9:8":
		r.c.Fail("flush-commit-window-double-count", fmt.Sprintf("a query between the commit of the flushed file and the drop of the immutable memory database sees both: %q, reference %q", after, want))
		r.c.Branch("witness/reproduced:flush-commit-window-double-count")
	default:
		r.c.Fail("query-ne-naive", fmt.Sprintf("query during flush (after commit): %q, reference %q", after, want))
	}
	r.oracleOn = true
	r.query(q)
}

func lineOf(res aggResult, errMsg string, err error) string {
	switch {
	case err != nil:
		return "harness-error " + err.Error()
	case errMsg != "":
		if strings.Contains(errMsg, "not found") {
			return aggResult{}.render()
		}
		return "rs-error"
	}
	return res.render()
}

// ---- month-type family selection ---------------------------------------------------------------

// month lengths from 2023-01 (the epoch month of the day numbering) to 2024-12
var monthLens = []int{31, 28, 31, 30, 31, 30, 31, 31, 30, 31, 30, 31, 31, 29, 31, 30, 31, 30, 31, 31, 30, 31, 30, 31}

const (
	epoch2023 = int64(1672531200000) // 2023-01-01 00:00:00 UTC
	dayMs     = int64(24 * 3600 * 1000)
)

func monthOfDay(d int) int {
	acc := 0
	for m, l := range monthLens {
		if d < acc+l {
			return m
		}
		acc += l
	}
	return len(monthLens)
}

// runMonthCase: a real shard with a 5-minute interval (month-type: segment = month, family = day);
// shard.GetDataFamilies against the model (msel) and against the property (every family whose day
// lies in the range is selected) inside the claimed region (range within one month).
func runMonthCase(c *core.Ctx, rng *rand.Rand, fixed int) {
	e, err := newEnv(5 * 60 * 1000)
	if err != nil {
		c.Fail("harness-setup", err.Error())
		return
	}
	defer e.close()
	var days []int
	type rg struct{ qs, qe int }
	var ranges []rg
	if fixed >= 0 {
		// families Jun 27 and Jul 3 2023, query Jun 25 – Jul 5
		days = []int{151 + 26, 181 + 2}
		ranges = []rg{{151 + 24, 181 + 4}, {151 + 24, 151 + 29}, {181, 181 + 4}}
	} else {
		base := 120 + rng.Intn(200) // somewhere in May..Nov 2023
		n := 2 + rng.Intn(5)
		seen := map[int]bool{}
		for len(days) < n {
			d := base + rng.Intn(50)
			if !seen[d] {
				seen[d] = true
				days = append(days, d)
			}
		}
		for k := 0; k < 4; k++ {
			a := base - 3 + rng.Intn(56)
			b := a + rng.Intn(40)
			if rng.Intn(3) == 0 {
				b = a + rng.Intn(5)
			}
			ranges = append(ranges, rg{a, b})
		}
	}
	sort.Ints(days)
	for _, d := range days {
		if _, err := e.shard.GetOrCrateDataFamily(epoch2023 + int64(d)*dayMs + 5*60*1000); err != nil {
			c.Fail("harness-setup", "create family: "+err.Error())
			return
		}
	}
	var lens, fams []string
	for _, l := range monthLens {
		lens = append(lens, strconv.Itoa(l))
	}
	for _, d := range days {
		fams = append(fams, strconv.Itoa(d))
	}
	for _, rg := range ranges {
		start := epoch2023 + int64(rg.qs)*dayMs + 7*3600*1000
		end := epoch2023 + int64(rg.qe)*dayMs + 13*3600*1000
		got := e.shard.GetDataFamilies(timeutil.Month, timeutil.TimeRange{Start: start, End: end})
		var gotDays []int
		for _, f := range got {
			gotDays = append(gotDays, int((f.FamilyTime()-epoch2023)/dayMs))
		}
		sort.Ints(gotDays)
		var gs, ws []string
		for _, d := range gotDays {
			gs = append(gs, strconv.Itoa(d))
		}
		for _, d := range days {
			if rg.qs <= d && d <= rg.qe {
				ws = append(ws, strconv.Itoa(d))
			}
		}
		line := strings.TrimSpace("sel " + strings.Join(gs, " "))
		c.Op(fmt.Sprintf("msel %s %d %d | %s", strings.Join(lens, ","), rg.qs, rg.qe, strings.Join(fams, " ")), line)
		c.NonTrivial()
		want := strings.TrimSpace("sel " + strings.Join(ws, " "))
		sameMonth := monthOfDay(rg.qs) == monthOfDay(rg.qe)
		if sameMonth {
			c.Branch("month/inside-one-month")
		} else {
			c.Branch("month/crosses-month-boundary")
		}
		switch {
		case line == want:
			if fixed >= 0 && !sameMonth {
				c.Branch("witness/repaired-passes:month-boundary-family-selection")
			}
		case false:
			c.Fail("month-boundary-family-selection", fmt.Sprintf("5m interval (month-type), families on days %v, query days %d..%d (Jun 25 – Jul 5 2023): GetDataFamilies selects %q, the range holds %q", days, rg.qs, rg.qe, line, want))
			c.Branch("witness/reproduced:month-boundary-family-selection")
		default:
			// (ranges that cross a month boundary are inside the claimed region since fix 8adefd6)
			c.Fail("family-selection-ne-range", fmt.Sprintf("families %v, query days %d..%d: selected %q, expected %q", days, rg.qs, rg.qe, line, want))
		}
	}
}
