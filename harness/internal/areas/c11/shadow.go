package c11

// The structural shadow of the shard: which pages exist in which memory database / file, the
// state of every write window, which series the in-memory index knows. It carries no values; it
// is used only to decide whether a generated case/query lies inside the region where the
// property is claimed (the hypotheses of LinVerif.Props.C11.query_eq_naive_partial), i.e. whether
// the impl-side oracle applies. Outside the region the implementation is still compared with the
// Lean model of the implementation.

const window = 15

type pageKey struct{ ser, fld int }

type pageShadow struct {
	has     bool
	start   int
	end     int
	marked  map[int]bool
	epoch   int // compaction epoch of the page
	hasComp bool
}

type memShadow struct {
	pages  map[pageKey]*pageShadow
	lo, hi int
}

type fileShadow struct {
	lo, hi int
	fields map[int]bool
	series map[int]bool
}

type famShadow struct {
	mem      *memShadow
	l0       []*fileShadow
	l1       *fileShadow
	flushGen int
}

type cellKey struct{ fam, ser, fld, slot int }

type unitTok struct{ flushGen, pageEpoch int }

type shadow struct {
	spf        int
	fams       map[int]*famShadow
	known      map[int]bool
	written    map[int]bool // series that exist in the persistent index
	unsafeEver bool         // some first-time slot arrived before the current end of its window
	splitField map[int]bool // a slot of this field has points in more than one storage unit
	// splitFlushField: ... in units separated by a flush (memory database / file / file)
	splitFlushField map[int]bool
	units           map[cellKey]unitTok
	// flushedCell: cells of first/last fields that already live in a file (the generator does not
	// write them again: the order in which several files are read is a map iteration order)
	flushedCell map[cellKey]bool
}

func newShadow(spf int) *shadow {
	return &shadow{spf: spf, fams: map[int]*famShadow{}, known: map[int]bool{}, written: map[int]bool{},
		splitField: map[int]bool{}, splitFlushField: map[int]bool{}, units: map[cellKey]unitTok{}, flushedCell: map[cellKey]bool{}}
}

func (s *shadow) fam(f int) *famShadow {
	fs := s.fams[f]
	if fs == nil {
		fs = &famShadow{}
		s.fams[f] = fs
	}
	return fs
}

// needsTick reports whether the next write to the family creates a memory database.
func (s *shadow) needsTick(f int) bool { return s.fam(f).mem == nil }

// wouldBeUnsafe reports whether writing the slot now is the excluded step of the write window.
func (s *shadow) wouldBeUnsafe(f, ser, fld, slot int) bool {
	fs := s.fam(f)
	if fs.mem == nil {
		return false
	}
	p := fs.mem.pages[pageKey{ser, fld}]
	if p == nil || !p.has {
		return false
	}
	if slot < p.start || slot > p.start+window-1 {
		return false
	}
	d := slot - p.start
	return !p.marked[d] && d < p.end
}

func (s *shadow) write(f, ser, fld, slot int) {
	fs := s.fam(f)
	if fs.mem == nil {
		fs.mem = &memShadow{pages: map[pageKey]*pageShadow{}, lo: slot, hi: slot}
	}
	m := fs.mem
	if slot < m.lo {
		m.lo = slot
	}
	if slot > m.hi {
		m.hi = slot
	}
	k := pageKey{ser, fld}
	p := m.pages[k]
	if p == nil {
		p = &pageShadow{marked: map[int]bool{}}
		m.pages[k] = p
	}
	switch {
	case !p.has:
		p.has, p.start, p.end, p.marked = true, slot, 0, map[int]bool{0: true}
	case slot < p.start || slot > p.start+window-1:
		p.epoch++
		p.hasComp = true
		p.start, p.end, p.marked = slot, 0, map[int]bool{0: true}
	default:
		d := slot - p.start
		if !p.marked[d] {
			if d < p.end {
				s.unsafeEver = true
			}
			p.end = d
			p.marked[d] = true
		}
	}
	s.known[ser] = true
	s.written[ser] = true
	ck := cellKey{f, ser, fld, slot}
	tok := unitTok{fs.flushGen, p.epoch}
	if old, ok := s.units[ck]; ok && old != tok {
		s.splitField[fld] = true
		if old.flushGen != tok.flushGen {
			s.splitFlushField[fld] = true
		}
	}
	s.units[ck] = tok
}

func (s *shadow) flush(f int) {
	fs := s.fam(f)
	if fs.mem == nil {
		return
	}
	file := &fileShadow{lo: fs.mem.lo, hi: fs.mem.hi, fields: map[int]bool{}, series: map[int]bool{}}
	for k := range fs.mem.pages {
		file.fields[k.fld] = true
	}
	for ser := range s.known {
		file.series[ser] = true
	}
	for ck := range s.units {
		if ck.fam == f {
			s.flushedCell[ck] = true
		}
	}
	fs.l0 = append(fs.l0, file)
	fs.mem = nil
	fs.flushGen++
}

func (s *shadow) reopen() {
	for f := range s.fams {
		s.flush(f)
	}
	s.known = map[int]bool{}
}

// compact: Family.Compact merges when more than one level-0 file exists (all level-0 files and
// the level-1 file of the metric).
func (s *shadow) compact(f int) bool {
	fs := s.fam(f)
	if len(fs.l0) <= 1 {
		return false
	}
	all := append([]*fileShadow{}, fs.l0...)
	if fs.l1 != nil {
		all = append(all, fs.l1)
	}
	m := &fileShadow{lo: all[0].lo, hi: all[0].hi, fields: map[int]bool{}, series: map[int]bool{}}
	for _, x := range all {
		if x.lo < m.lo {
			m.lo = x.lo
		}
		if x.hi > m.hi {
			m.hi = x.hi
		}
		for k := range x.fields {
			m.fields[k] = true
		}
		for k := range x.series {
			m.series[k] = true
		}
	}
	fs.l0, fs.l1 = nil, m
	return true
}

func (fs *famShadow) files() []*fileShadow {
	r := append([]*fileShadow{}, fs.l0...)
	if fs.l1 != nil {
		r = append(r, fs.l1)
	}
	return r
}

func overlap(a, b, c, d int) bool { return (c >= a && c <= b) || (a >= c && a <= d) }

// familyTarget is the query slot range inside the family (Interval.CalcSlotRange).
func (s *shadow) familyTarget(q qSpec, f int) (int, int, bool) {
	g0 := f * s.spf
	g1 := g0 + s.spf - 1
	if q.qe < g0 || g1 < q.qs {
		return 0, 0, false
	}
	lo, hi := g0, g1
	if q.qs > lo {
		lo = q.qs
	}
	if q.qe < hi {
		hi = q.qe
	}
	return lo - g0, hi - g0, true
}

// notFoundRegion reports whether, for this query, some family's Filter fails with a not-found
// error of one of its sources although the family holds data (finding family-filter-notfound).
func (s *shadow) notFoundRegion(q qSpec, scopeSeries []int) bool {
	flds := map[int]bool{}
	for _, it := range q.items {
		flds[it.fld] = true
	}
	for f, fs := range s.fams {
		tLo, tHi, ok := s.familyTarget(q, f)
		if !ok {
			continue
		}
		if m := fs.mem; m != nil && overlap(m.lo, m.hi, tLo, tHi) {
			fieldOK := false
			for k := range m.pages {
				if flds[k.fld] {
					fieldOK = true
				}
			}
			seriesOK := false
			for _, ser := range scopeSeries {
				if s.known[ser] {
					seriesOK = true
				}
			}
			if !fieldOK || !seriesOK {
				return true
			}
		}
		var readers []*fileShadow
		for _, fl := range fs.files() {
			if overlap(fl.lo, fl.hi, tLo, tHi) {
				readers = append(readers, fl)
			}
		}
		if len(readers) > 0 {
			matched := false
			for _, fl := range readers {
				fOK, sOK := false, false
				for k := range flds {
					if fl.fields[k] {
						fOK = true
					}
				}
				for _, ser := range scopeSeries {
					if fl.series[ser] {
						sOK = true
					}
				}
				if fOK && sOK {
					matched = true
				}
			}
			if !matched {
				return true
			}
		}
	}
	return false
}

// singleFieldFileRegion reports whether a query on several fields reads a file that holds exactly
// one field (finding single-field-file-read-into-first-query-field).
func (s *shadow) singleFieldFileRegion(q qSpec) bool {
	flds := map[int]bool{}
	for _, it := range q.items {
		flds[it.fld] = true
	}
	if len(flds) < 2 {
		return false
	}
	for f, fs := range s.fams {
		tLo, tHi, ok := s.familyTarget(q, f)
		if !ok {
			continue
		}
		for _, fl := range fs.files() {
			if !overlap(fl.lo, fl.hi, tLo, tHi) || len(fl.fields) != 1 {
				continue
			}
			for k := range fl.fields {
				if flds[k] {
					return true
				}
			}
		}
	}
	return false
}

// maxFilesInRange is the largest number of files of one family that overlap the query range.
func (s *shadow) maxFilesInRange(q qSpec) int {
	m := 0
	for f, fs := range s.fams {
		tLo, tHi, ok := s.familyTarget(q, f)
		if !ok {
			continue
		}
		n := 0
		for _, fl := range fs.files() {
			if overlap(fl.lo, fl.hi, tLo, tHi) {
				n++
			}
		}
		if n > m {
			m = n
		}
	}
	return m
}
