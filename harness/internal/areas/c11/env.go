// Package c11 is the correspondence stream "query" of property C11: a real tsdb engine /
// database / shard in a temp dir, the real write path (protobuf metric → flat row →
// StorageRow → dataFamily.WriteRows), real flush / reopen / kv compaction, and queries executed
// through the real leaf task processor (query.NewLeafTaskProcessor) with a capturing server stream.
package c11

import (
	"bytes"
	"context"
	"fmt"
	"math"
	"os"
	"sort"
	"strconv"
	"strings"
	"time"

	"github.com/lindb/common/pkg/encoding"
	"github.com/lindb/common/pkg/fasttime"
	protoMetricsV1 "github.com/lindb/common/proto/gen/v1/linmetrics"
	"google.golang.org/grpc"

	"github.com/lindb/lindb/aggregation"
	"github.com/lindb/lindb/aggregation/function"
	"github.com/lindb/lindb/config"
	"github.com/lindb/lindb/flow"
	"github.com/lindb/lindb/index"
	"github.com/lindb/lindb/internal/concurrent"
	"github.com/lindb/lindb/internal/linmetric"
	"github.com/lindb/lindb/kv"
	"github.com/lindb/lindb/metrics"
	"github.com/lindb/lindb/models"
	"github.com/lindb/lindb/pkg/option"
	"github.com/lindb/lindb/pkg/timeutil"
	protoCommonV1 "github.com/lindb/lindb/proto/gen/v1/common"
	"github.com/lindb/lindb/query"
	"github.com/lindb/lindb/rpc"
	"github.com/lindb/lindb/series"
	"github.com/lindb/lindb/series/field"
	"github.com/lindb/lindb/series/metric"
	"github.com/lindb/lindb/series/tag"
	"github.com/lindb/lindb/sql"
	"github.com/lindb/lindb/sql/stmt"
	"github.com/lindb/lindb/tsdb"
)

const (
	dbName     = "c11db"
	metricName = "m"
	nsName     = "default-ns"
	recvName   = "9.9.9.9:9000"
	// baseTime is 2023-06-15 12:00:00 UTC: family index 0; family 12 is 00:00 of the next day
	// (another day segment), family 11 the last hour of the same day.
	baseTime = int64(1686830400000)
	hourMs   = int64(3600 * 1000)
)

// capStream is the capturing server stream registered for the receiver node.
type capStream struct {
	grpc.ServerStream
	ch chan *protoCommonV1.TaskResponse
}

func (s *capStream) Send(r *protoCommonV1.TaskResponse) error { s.ch <- r; return nil }
func (s *capStream) Recv() (*protoCommonV1.TaskRequest, error) {
	return nil, fmt.Errorf("capStream: no requests")
}
func (s *capStream) Context() context.Context { return context.Background() }

// env is one real engine + database + shard in a temp dir.
type env struct {
	dir      string
	interval timeutil.Interval
	engine   tsdb.Engine
	db       tsdb.Database
	shard    tsdb.Shard
	node     *models.StatelessNode
	fct      rpc.TaskServerFactory
	cs       *capStream
	proc     query.TaskProcessor
	reqSeq   int
	fams     map[int]tsdb.DataFamily
	// the last leaf answer and its statement (input of the expression check)
	lastTSL  *protoCommonV1.TimeSeriesList
	lastStmt *stmt.Query
	// oneScanner: the database's scanner pool is replaced by a ONE-worker pool, so that the data-load
	// stages of one query run one after another (container-boundary cases: on the unchanged tree two
	// series-id containers of one memory database loaded in parallel race on the shared field entries,
	// finding memdb-parallel-container-load-shares-field-entries; its witness forces the interleaving)
	oneScanner bool
	origPools  []concurrent.Pool
	// scanHook (round 12): armed for the NEXT leaf query only — runs once, on the goroutine that submits
	// the query's first data-load stage to the scanner pool, i.e. after the shard-scan stage finished
	// (every dataFamily.Filter of the query has picked its memory databases and its file snapshot) and
	// before any FilterResultSet.Load / DataLoader.Load of the query runs.
	scanHook func()
}

func newEnv(intervalMs int64) (*env, error) { return newEnvOpt(intervalMs, false) }

func newEnvOpt(intervalMs int64, oneScanner bool) (*env, error) {
	dir, err := os.MkdirTemp("", "lvh-c11-*")
	if err != nil {
		return nil, err
	}
	e := &env{dir: dir, interval: timeutil.Interval(intervalMs), fams: map[int]tsdb.DataFamily{}, oneScanner: oneScanner}
	cfg := config.NewDefaultStorageBase()
	cfg.TSDB.Dir = dir
	config.SetGlobalStorageConfig(cfg)
	e.node = &models.StatelessNode{HostIP: "1.1.1.1", GRPCPort: 9000}
	e.fct = rpc.NewTaskServerFactory()
	e.cs = &capStream{ch: make(chan *protoCommonV1.TaskResponse, 8)}
	e.fct.Register(recvName, e.cs)
	if err := e.open(true); err != nil {
		e.close()
		return nil, err
	}
	if err := e.precreateSchema(); err != nil {
		e.close()
		return nil, err
	}
	return e, nil
}

// precreateSchema registers the metric, its tag keys and all fields of the harness schema from
// this one goroutine before the first row is written. On the first rows of a new metric the
// metadata worker (GenFieldID) and the index worker (GenTagKeyID) otherwise update the metric's
// schema concurrently and lose each other's update (fields=[] or tagKeys=[] afterwards; seen
// here under machine load, it is property C09's finding) — which would make this check's
// outcome depend on the scheduler. With the schema in place the workers only look ids up, the
// same situation as after a reopen.
func (e *env) precreateSchema() error {
	mdb := e.db.MetaDB()
	mid, err := mdb.GenMetricID([]byte(nsName), []byte(metricName))
	if err != nil {
		return fmt.Errorf("GenMetricID: %v", err)
	}
	for _, k := range []string{"k1", "k2"} {
		if _, err := mdb.GenTagKeyID(mid, []byte(k)); err != nil {
			return fmt.Errorf("GenTagKeyID: %v", err)
		}
	}
	for _, id := range schemaOrder {
		d := schema[id]
		if _, err := mdb.GenFieldID(mid, field.Meta{Name: field.Name(d.name), Type: field.Type(d.ftype)}); err != nil {
			return fmt.Errorf("GenFieldID %s: %v", d.name, err)
		}
	}
	return nil
}

func (e *env) open(create bool) error {
	engine, err := tsdb.NewEngine()
	if err != nil {
		return err
	}
	e.engine = engine
	if create {
		opt := &option.DatabaseOption{
			Intervals:    option.Intervals{{Interval: e.interval, Retention: timeutil.Interval(200 * 365 * 24 * hourMs)}},
			AutoCreateNS: true,
		}
		if err := engine.CreateShards(dbName, opt, models.ShardID(1)); err != nil {
			return err
		}
	}
	db, ok := engine.GetDatabase(dbName)
	if !ok {
		return fmt.Errorf("database not found after open")
	}
	shard, ok := db.GetShard(models.ShardID(1))
	if !ok {
		return fmt.Errorf("shard not found after open")
	}
	e.db, e.shard = db, shard
	e.fams = map[int]tsdb.DataFamily{}
	if e.oneScanner {
		e.installOneScanner()
	}
	e.proc = query.NewLeafTaskProcessor(e.node, engine, e.fct)
	return nil
}

var scannerSeq int

// installOneScanner replaces the scanner pool of the open database by a one-worker pool.
func (e *env) installOneScanner() {
	pools := e.db.ExecutorPool()
	e.origPools = append(e.origPools, pools.Scanner)
	scannerSeq++
	name := fmt.Sprintf("%s-scanner1-%d", dbName, scannerSeq)
	pools.Scanner = concurrent.NewPool(name, 1, 5*time.Second, metrics.NewConcurrentStatistics(name, linmetric.StorageRegistry))
}

// setNextSeriesID makes the next NEW series of the harness metric get the given id (>= 1).
func (e *env) setNextSeriesID(id uint32) error {
	mid, err := e.db.MetaDB().GetMetricID(nsName, metricName)
	if err != nil {
		return err
	}
	index.VerifC11SetSeriesSequence(e.shard.IndexDB(), mid, id-1)
	return nil
}

// realSeriesIDs returns the series ids the index database holds for the harness metric.
func (e *env) realSeriesIDs() ([]uint32, error) {
	mid, err := e.db.MetaDB().GetMetricID(nsName, metricName)
	if err != nil {
		return nil, err
	}
	bm, err := e.shard.IndexDB().GetSeriesIDsForMetric(mid)
	if err != nil {
		return nil, err
	}
	return bm.ToArray(), nil
}

// reopen closes the engine (flushes every memory database, index and metadata) and opens it again.
func (e *env) reopen() error {
	e.shutdown()
	return e.open(false)
}

// shutdown closes the engine and stops the database's query pools (engine.Close leaves their
// goroutines running; their "workers alive" gauge is registered by database name, so leaked
// workers of earlier engines would starve the pools of later ones in this process).
func (e *env) shutdown() {
	if e.engine == nil {
		return
	}
	pools := e.db.ExecutorPool()
	e.engine.Close()
	e.engine = nil
	pools.Filtering.Stop()
	pools.Grouping.Stop()
	pools.Scanner.Stop()
	for _, p := range e.origPools {
		p.Stop()
	}
	e.origPools = nil
}

func (e *env) close() {
	e.shutdown()
	_ = os.RemoveAll(e.dir)
}

func (e *env) familyTime(fam int) int64 { return baseTime + int64(fam)*hourMs }

func (e *env) family(fam int) (tsdb.DataFamily, error) {
	if f, ok := e.fams[fam]; ok {
		return f, nil
	}
	f, err := e.shard.GetOrCrateDataFamily(e.familyTime(fam))
	if err != nil {
		return nil, err
	}
	e.fams[fam] = f
	return f, nil
}

// createdOf reads the createdTime (a fasttime tick, ns) of the family's mutable memory database
// through the public state: Uptime = fasttime.UnixNano() - createdTime, sampled inside one tick.
func (e *env) createdOf(fam int) (int64, bool) {
	f, err := e.family(fam)
	if err != nil {
		return 0, false
	}
	for try := 0; try < 5000; try++ {
		t0 := fasttime.UnixNano()
		st := f.GetState()
		t1 := fasttime.UnixNano()
		if t0 != t1 {
			continue
		}
		for _, m := range st.MemoryDatabases {
			if m.State == "mutable" {
				return t0 - int64(m.Uptime), true
			}
		}
		return 0, false
	}
	return 0, false
}

// waitTick waits until the 5 ms fasttime clock has moved on, so that the memory database created
// next gets a createdTime of its own (see finding memdb-created-tick-collision).
func waitTick() {
	t0 := fasttime.UnixNano()
	deadline := time.Now().Add(200 * time.Millisecond)
	for fasttime.UnixNano() == t0 && time.Now().Before(deadline) {
		time.Sleep(500 * time.Microsecond)
	}
}

// alignTick returns right after a tick of the fasttime clock.
func alignTick() {
	t0 := fasttime.UnixNano()
	deadline := time.Now().Add(200 * time.Millisecond)
	for fasttime.UnixNano() == t0 && time.Now().Before(deadline) {
	}
}

type fieldVal struct {
	fld int
	val float64
}

type histVal struct {
	bounds []float64 // explicit bounds, last +Inf
	values []float64
	min    float64
	max    float64
	sum    float64
	count  float64
}

// writeRow sends one metric row through the real ingestion conversion and the family write path.
func (e *env) writeRow(fam int, ts int64, tags [][2]string, fvs []fieldVal, h *histVal) error {
	f, err := e.family(fam)
	if err != nil {
		return err
	}
	m := &protoMetricsV1.Metric{Name: metricName, Namespace: nsName, Timestamp: ts}
	for _, kv := range tags {
		m.Tags = append(m.Tags, &protoMetricsV1.KeyValue{Key: kv[0], Value: kv[1]})
	}
	for _, fv := range fvs {
		fd := schema[fv.fld]
		m.SimpleFields = append(m.SimpleFields, &protoMetricsV1.SimpleField{Name: fd.name, Value: fv.val, Type: fd.proto})
	}
	if h != nil {
		m.CompoundField = &protoMetricsV1.CompoundField{Min: h.min, Max: h.max, Sum: h.sum, Count: h.count,
			Values: h.values, ExplicitBounds: h.bounds}
	}
	ml := protoMetricsV1.MetricList{Metrics: []*protoMetricsV1.Metric{m}}
	var buf bytes.Buffer
	conv := metric.NewProtoConverter(models.NewDefaultLimits())
	if _, err := conv.MarshalProtoMetricListV1To(ml, &buf); err != nil {
		return err
	}
	var br metric.StorageBatchRows
	br.UnmarshalRows(buf.Bytes())
	return f.WriteRows(br.Rows())
}

func (e *env) flush(fam int) error {
	f, err := e.family(fam)
	if err != nil {
		return err
	}
	return f.Flush()
}

// compact merges the level-0 files of the family's kv family synchronously.
func (e *env) compact(fam int) error {
	f, err := e.family(fam)
	if err != nil {
		return err
	}
	return kv.VerifC11CompactSync(f.Family())
}

// qItem is one select item: function applied to a field.
type qItem struct {
	fld int
	fn  int // function code (aggregation/function FuncType)
}

type qSpec struct {
	qs, qe int // global storage slots (inclusive)
	ratio  int
	cond   cond
	by     []int
	items  []qItem
}

// aggResult is the canonical leaf answer: group key → field → agg type → bucket → value.
type aggResult map[string]map[int]map[int]map[int]float64

// leafQuery runs the query through the real leaf task processor and decodes the TimeSeriesList.
func (e *env) leafQuery(spf int, q qSpec) (aggResult, string, error) {
	sqlText := q.sql()
	st, err := sql.Parse(sqlText)
	if err != nil {
		return nil, "", fmt.Errorf("sql %q: %v", sqlText, err)
	}
	qs, ok := st.(*stmt.Query)
	if !ok {
		return nil, "", fmt.Errorf("not a query: %q", sqlText)
	}
	iv := int64(e.interval)
	// what the root's calcTimeRangeAndInterval leaves in the statement it sends to the leaves
	qs.TimeRange = timeutil.TimeRange{Start: baseTime + int64(q.qs)*iv, End: baseTime + int64(q.qe)*iv}
	qs.StorageInterval = e.interval
	qs.IntervalRatio = q.ratio
	qs.Interval = timeutil.Interval(iv * int64(q.ratio))
	payload, _ := qs.MarshalJSON()
	plan := models.PhysicalPlan{Database: dbName,
		Targets:   []*models.Target{{Indicator: e.node.Indicator(), ShardIDs: []models.ShardID{1}}},
		Receivers: []string{recvName}}
	e.reqSeq++
	e.lastTSL, e.lastStmt = nil, nil
	if e.scanHook != nil {
		pools := e.db.ExecutorPool()
		orig := pools.Scanner
		pools.Scanner = &hookPool{Pool: orig, fn: e.scanHook}
		e.scanHook = nil
		defer func() { pools.Scanner = orig }()
	}
	req := &protoCommonV1.TaskRequest{RequestID: "r" + strconv.Itoa(e.reqSeq), RequestType: protoCommonV1.RequestType_Data,
		PhysicalPlan: encoding.JSONMarshal(plan), Payload: payload}
	tctx := flow.NewTaskContextWithTimeout(context.Background(), 20*time.Second)
	if err := e.proc.Process(tctx, e.cs, req); err != nil {
		return nil, "", err
	}
	var resp *protoCommonV1.TaskResponse
	select {
	case resp = <-e.cs.ch:
	case <-time.After(25 * time.Second):
		return nil, "", fmt.Errorf("leaf query timeout")
	}
	if resp.ErrMsg != "" {
		return nil, resp.ErrMsg, nil
	}
	tsl := &protoCommonV1.TimeSeriesList{}
	if err := tsl.Unmarshal(resp.Payload); err != nil {
		return nil, "", err
	}
	e.lastTSL, e.lastStmt = tsl, qs
	out := aggResult{}
	for _, ts := range tsl.TimeSeriesList {
		key := groupKeyOf(ts.Tags, len(q.by))
		g := out[key]
		if g == nil {
			g = map[int]map[int]map[int]float64{}
			out[key] = g
		}
		for name, data := range ts.Fields {
			fld, ok := fieldByName[name]
			if !ok {
				return nil, "", fmt.Errorf("unknown field %q in response", name)
			}
			it := series.NewIterator(field.Name(name), data)
			for it.HasNext() {
				start, fit := it.Next()
				if fit == nil {
					continue
				}
				if start != qs.TimeRange.Start {
					return nil, "", fmt.Errorf("field series start %d != query start %d", start, qs.TimeRange.Start)
				}
				for fit.HasNext() {
					p := fit.Next()
					at := int(p.AggType())
					for p.HasNext() {
						slot, v := p.Next()
						if g[fld] == nil {
							g[fld] = map[int]map[int]float64{}
						}
						if g[fld][at] == nil {
							g[fld][at] = map[int]float64{}
						}
						if _, dup := g[fld][at][slot]; dup {
							return nil, "", fmt.Errorf("duplicate slot %d for field %s agg %d", slot, name, at)
						}
						g[fld][at][slot] = v
					}
				}
			}
		}
	}
	return out, "", nil
}

// groupKeyOf parses the group-by tag values ("v<id>") of a response series into "[a,b]".
func groupKeyOf(tags string, nBy int) string {
	if nBy == 0 {
		return "[]"
	}
	vals := tag.SplitTagValues(tags)
	var ids []string
	for _, v := range vals {
		ids = append(ids, strings.TrimPrefix(v, "v"))
	}
	return "[" + strings.Join(ids, ",") + "]"
}

// render prints an aggResult in the canonical form shared with the Lean driver.
func (r aggResult) render() string {
	type row struct {
		key  []int
		text string
	}
	var rows []row
	for k, g := range r {
		var cols []string
		var flds []int
		for f := range g {
			flds = append(flds, f)
		}
		sort.Ints(flds)
		for _, f := range flds {
			var ats []int
			for a := range g[f] {
				ats = append(ats, a)
			}
			sort.Ints(ats)
			for _, a := range ats {
				var slots []int
				for s := range g[f][a] {
					slots = append(slots, s)
				}
				if len(slots) == 0 {
					continue
				}
				sort.Ints(slots)
				var bs []string
				for _, s := range slots {
					bs = append(bs, fmt.Sprintf("%d:%s", s, fmtVal(g[f][a][s])))
				}
				cols = append(cols, fmt.Sprintf("f%d/a%d=%s", f, a, strings.Join(bs, ",")))
			}
		}
		if len(cols) == 0 {
			continue
		}
		rows = append(rows, row{parseKey(k), k + " " + strings.Join(cols, " ")})
	}
	sort.Slice(rows, func(i, j int) bool { return lexLess(rows[i].key, rows[j].key) })
	var out []string
	for _, r := range rows {
		out = append(out, r.text)
	}
	return "rs " + strings.Join(out, " ; ")
}

func parseKey(k string) []int {
	k = strings.Trim(k, "[]")
	if k == "" {
		return nil
	}
	var r []int
	for _, p := range strings.Split(k, ",") {
		n, err := strconv.Atoi(p)
		if err != nil {
			n = -1
		}
		r = append(r, n)
	}
	return r
}

func lexLess(a, b []int) bool {
	for i := 0; i < len(a) && i < len(b); i++ {
		if a[i] != b[i] {
			return a[i] < b[i]
		}
	}
	return len(a) < len(b)
}

// fmtVal prints an integer-valued float as an integer; anything else is flagged (values are
// generated as integers, every aggregate of them is an integer).
func fmtVal(v float64) string {
	if v == math.Trunc(v) && math.Abs(v) < 1e15 {
		return strconv.FormatInt(int64(v), 10)
	}
	return "nonint(" + strconv.FormatFloat(v, 'g', -1, 64) + ")"
}

// schemaDump renders the metric's id and schema as the metadata database knows it (diagnostics).
func (e *env) schemaDump() string {
	mid, err := e.db.MetaDB().GetMetricID(nsName, metricName)
	if err != nil {
		return "metric id: " + err.Error()
	}
	sc, err := e.db.MetaDB().GetSchema(mid)
	if err != nil || sc == nil {
		return fmt.Sprintf("metric %d schema err %v", mid, err)
	}
	var fs, ts []string
	for _, f := range sc.Fields {
		fs = append(fs, fmt.Sprintf("%s#%d/%d", f.Name, f.ID, f.Type))
	}
	for _, t := range sc.TagKeys {
		ts = append(ts, fmt.Sprintf("%s#%d", t.Key, t.ID))
	}
	return fmt.Sprintf("metric=%d fields=%v tagKeys=%v", mid, fs, ts)
}

// exprEval does what the root does with a leaf answer: merge it in a grouping aggregator with
// interval ratio 1 (MetricContext.handleResponse) and evaluate the select items with
// aggregation.NewExpression (RootMetricContext.makeResultSet). Result: group key → item index →
// bucket → value.
func (e *env) exprEval(q qSpec) (map[string]map[int]map[int]float64, error) {
	tsl, qs := e.lastTSL, e.lastStmt
	if tsl == nil || qs == nil {
		return nil, fmt.Errorf("no leaf answer")
	}
	out := map[string]map[int]map[int]float64{}
	if len(tsl.FieldAggSpecs) == 0 {
		return out, nil
	}
	specs := make(aggregation.AggregatorSpecs, len(tsl.FieldAggSpecs))
	for idx, aggSpec := range tsl.FieldAggSpecs {
		specs[idx] = aggregation.NewAggregatorSpec(field.Name(aggSpec.FieldName), field.Type(aggSpec.FieldType))
		for _, ft := range aggSpec.FuncTypeList {
			specs[idx].AddFunctionType(function.FuncType(ft))
		}
	}
	tr := timeutil.TimeRange{Start: tsl.Start, End: tsl.End}
	ga := aggregation.NewGroupingAggregator(timeutil.Interval(tsl.Interval), 1, tr, specs)
	for _, ts := range tsl.TimeSeriesList {
		if len(ts.Fields) == 0 {
			continue
		}
		fields := make(map[field.Name][]byte)
		for k, v := range ts.Fields {
			fields[field.Name(k)] = v
		}
		ga.Aggregate(series.NewGroupedIterator(ts.Tags, fields))
	}
	for _, it := range ga.ResultSet() {
		expr := aggregation.NewExpression(tr, tsl.Interval, qs.SelectItems)
		expr.Eval(it)
		rs := expr.ResultSet()
		key := groupKeyOf(it.Tags(), len(q.by))
		g := map[int]map[int]float64{}
		for idx, item := range qs.SelectItems {
			arr, ok := rs[item.Rewrite()]
			if !ok || arr == nil {
				continue
			}
			vals := map[int]float64{}
			ai := arr.NewIterator()
			for ai.HasNext() {
				slot, v := ai.Next()
				vals[slot] = v
			}
			g[idx] = vals
		}
		out[key] = g
	}
	return out, nil
}
