package c06

import (
	"fmt"
	"math/rand"
	"os"
	"path/filepath"
	"sort"
	"strconv"
	"strings"
	"time"

	"github.com/lindb/lindb/pkg/queue"
)

// Round 8: two simultaneously parked stores, crash images between the two meta stores of Ack,
// Sync concurrent with an index reset, Pending / IsEmpty and the expiry loop of replica/partition.go.

func (s *sim) liveIDs() []int {
	ids := make([]int, 0, len(s.gs))
	for id := range s.gs {
		ids = append(ids, id)
	}
	sort.Ints(ids)
	return ids
}

// obs records an observation line (no state change, no oracle on positions).
func (s *sim) obs(line, res string) {
	if s.dead {
		return
	}
	s.c.Op(line, res)
}

// doPending / doIsEmpty: ConsumerGroup.Pending / IsEmpty against max(0, appended-consumed) /
// appended <= ack.
func (s *sim) doPending(g int) {
	h, ok := s.gs[g]
	if !ok || s.dead {
		return
	}
	v := h.Pending()
	app, c := s.fq.Queue().AppendedSeq(), h.ConsumedSeq()
	e := app - c
	if e < 0 {
		e = 0
	}
	if v != e {
		s.fail("pending-wrong", "group %d: Pending() = %d with appended %d consumed %d", g, v, app, c)
	}
	s.c.Branch("op/pending")
	s.obs(fmt.Sprintf("pending %d", g), strconv.FormatInt(v, 10))
}

func (s *sim) doIsEmpty(g int) {
	h, ok := s.gs[g]
	if !ok || s.dead {
		return
	}
	v := h.IsEmpty()
	app, a := s.fq.Queue().AppendedSeq(), h.AcknowledgedSeq()
	if v != (app <= a) {
		s.fail("isempty-wrong", "group %d: IsEmpty() = %v with appended %d ack %d", g, v, app, a)
	}
	if v && !s.reset && h.Pending() != 0 {
		s.fail("isempty-with-pending", "group %d: IsEmpty() but Pending() = %d", g, h.Pending())
	}
	s.c.Branch(fmt.Sprintf("op/isempty-%v", v))
	s.obs(fmt.Sprintf("isempty %d", g), strconv.FormatBool(v))
}

// doExpire: the queue part of partition.IsExpire (replica/partition.go): Sync; GC; for every group
// name: GetOrCreateConsumerGroup; IsEmpty ⇒ StopConsumerGroup (stopReplicator).
func (s *sim) doExpire(rng *rand.Rand) {
	if s.dead || s.park != nil || len(s.dormant) > 0 {
		return
	}
	s.op("expire", -1, 0, "expire", func() string {
		s.fq.Sync()
		s.fq.Queue().GC()
		names := s.fq.ConsumerGroupNames()
		sort.Strings(names)
		var stopped []int
		for _, name := range names {
			cg, err := s.fq.GetOrCreateConsumerGroup(name)
			if err != nil {
				return "err:" + err.Error()
			}
			if !cg.IsEmpty() {
				continue
			}
			id, _ := strconv.Atoi(name)
			if app, a := s.fq.Queue().AppendedSeq(), cg.AcknowledgedSeq(); app > a {
				s.fail("expire-stops-group-with-unacked", "group %d stopped by the expiry loop with ack %d, appended %d", id, a, app)
			}
			s.fq.StopConsumerGroup(name)
			delete(s.gs, id)
			delete(s.paused, id)
			stopped = append(stopped, id)
		}
		sort.Ints(stopped)
		parts := make([]string, len(stopped))
		for i, id := range stopped {
			parts[i] = strconv.Itoa(id)
		}
		return "ok stopped=" + strings.Join(parts, ",")
	})
	s.readable("expire", rng)
}

// copyTree copies regular files below src into dst (small directories only).
func copyTree(src, dst string) error {
	return filepath.Walk(src, func(p string, info os.FileInfo, err error) error {
		if err != nil {
			return err
		}
		rel, _ := filepath.Rel(src, p)
		if info.IsDir() {
			return os.MkdirAll(filepath.Join(dst, rel), 0o755)
		}
		b, err := os.ReadFile(p)
		if err != nil {
			return err
		}
		return os.WriteFile(filepath.Join(dst, rel), b, 0o644)
	})
}

// crashImage takes an image of the queue directory as a process crash at this instant would leave
// it (every completed store into the shared mappings is in the page cache, hence in the files):
// meta/ and cg/ are copied; data/ and index/ (128 MB / 4 MB sparse files, never written by an
// open) are linked. It opens the image with NewFanOutQueue, looks every group up and returns the
// positions in the format of snapshot.String().
func (s *sim) crashImage() (string, error) {
	img, err := os.MkdirTemp("", "lvh-c06-img-*")
	if err != nil {
		return "", err
	}
	defer os.RemoveAll(img)
	for _, d := range []string{"meta", "cg"} {
		if err := copyTree(filepath.Join(s.dir, d), filepath.Join(img, d)); err != nil {
			return "", err
		}
	}
	for _, d := range []string{"data", "index"} {
		if err := os.Symlink(filepath.Join(s.dir, d), filepath.Join(img, d)); err != nil {
			return "", err
		}
	}
	fq, err := queue.NewFanOutQueue(img, 1024)
	if err != nil {
		return "", err
	}
	defer fq.Close()
	sn := snapshot{app: fq.Queue().AppendedSeq(), ack: fq.Queue().AcknowledgedSeq(), g: map[int]gpos{}}
	for _, n := range fq.ConsumerGroupNames() {
		id, _ := strconv.Atoi(n)
		h, err := fq.GetOrCreateConsumerGroup(n)
		if err != nil {
			return "", err
		}
		sn.g[id] = gpos{h.ConsumedSeq(), h.AcknowledgedSeq()}
	}
	return strings.ReplaceAll(strings.ReplaceAll(sn.String(), " | ", ";"), " ", ","), nil
}

// doAckCrash: Ack(n) (n inside the window) is parked when k of its two meta-page stores have
// landed; a crash image is taken and opened; then the Ack completes. The image must show the group
// at its positions before the Ack or after it (crash atomicity), every other position as it is.
func (s *sim) doAckCrash(g int, n int64, k int) {
	h, ok := s.gs[g]
	if !ok || s.dead || s.park != nil || len(s.dormant) > 0 || n < h.AcknowledgedSeq() || n > h.ConsumedSeq() || k < 0 || k > 1 {
		return
	}
	pre := s.snap()
	gt := armGateN(fmt.Sprintf("/cg/%d/", g), k)
	defer disarmGate()
	adone := make(chan struct{})
	go func() {
		defer close(adone)
		defer func() { _ = recover() }()
		h.Ack(n)
	}()
	if !gt.waitHitOr(adone, 3*time.Second) {
		gt.open()
		<-adone
		s.dead = true
		s.c.Branch("crash/ack-not-observed(case abandoned)")
		return
	}
	img, err := s.crashImage()
	s.preSnap = &pre
	s.op("ackcrash", g, n, fmt.Sprintf("ackcrash %d %d %d", g, n, k), func() string {
		gt.open()
		select {
		case <-adone:
		case <-time.After(20 * time.Second):
			s.fail("race-ack-not-finished", "Ack did not return within 20s after its store was released")
			s.dead = true
			return "timeout"
		}
		if err != nil {
			return "img-err:" + err.Error()
		}
		// crash atomicity, judged on the image itself
		want1, want2 := pre, pre
		want2.g = map[int]gpos{}
		for id, p := range pre.g {
			want2.g[id] = p
		}
		want2.g[g] = gpos{pre.g[g].c, n}
		canon := func(sn snapshot) string {
			return strings.ReplaceAll(strings.ReplaceAll(sn.String(), " | ", ";"), " ", ",")
		}
		if len(s.meta) == len(pre.g) && !s.reset && img != canon(want1) && img != canon(want2) {
			s.fail("crash-image-between-ack-stores", "image with %d of Ack(%d)'s meta stores: %s; before the Ack %s, after it %s", k, n, img, canon(want1), canon(want2))
		}
		return "img[" + img + "]"
	})
}

// doRace2: TWO stores parked at the same time. Ack(n) on group g is parked at one of its meta stores
// (holding lock4headSeq.RLock) and GetOrCreateConsumerGroup(g2) is parked at its first meta store
// (holding lock4map.Lock); meanwhile Consume of g (blocked on the write lock) and Sync + GC (blocked
// on lock4map) are started; the two stores are released in either order. Whatever the order, the
// outcome is that of ack g n; consume g; create g2; sync; gc.
func (s *sim) doRace2(g, g2 int, n int64, rng *rand.Rand) {
	h, ok := s.gs[g]
	_, live2 := s.gs[g2]
	if !ok || live2 || g == g2 || s.dead || s.park != nil || len(s.dormant) > 0 || s.paused[g] ||
		h.ConsumedSeq()+1 > s.fq.Queue().AppendedSeq() || n < h.AcknowledgedSeq() || n > h.ConsumedSeq() {
		return
	}
	pre := s.snap()
	ga := armGateN(fmt.Sprintf("/cg/%d/", g), rng.Intn(2))
	gb := armGateN(fmt.Sprintf("/cg/%d/", g2), 0)
	defer disarmGate()
	adone := make(chan struct{})
	go func() {
		defer close(adone)
		defer func() { _ = recover() }()
		h.Ack(n)
	}()
	type cres struct {
		h   queue.ConsumerGroup
		err error
	}
	cch := make(chan cres, 1)
	abandon := func(what string) {
		ga.open()
		gb.open()
		s.dead = true
		s.c.Branch("race2/" + what + "-not-observed(case abandoned)")
	}
	if !ga.waitHitOr(adone, 3*time.Second) {
		abandon("ack")
		<-adone
		return
	}
	go func() {
		defer func() {
			if r := recover(); r != nil {
				cch <- cres{nil, fmt.Errorf("panic: %v", r)}
			}
		}()
		hh, err := s.fq.GetOrCreateConsumerGroup(strconv.Itoa(g2))
		cch <- cres{hh, err}
	}()
	if !gb.waitHit(3 * time.Second) {
		abandon("create")
		<-adone
		<-cch
		return
	}
	s.c.Branch("race2/both-parked")
	vch := make(chan int64, 1)
	vdone := make(chan struct{})
	go func() {
		defer close(vdone)
		defer func() {
			if r := recover(); r != nil {
				vch <- -99
			}
		}()
		vch <- h.Consume()
	}()
	s.c.Branch("race2/consume-" + waitDoneOrBlocked(vdone, "sync.RWMutex.Lock", "consumerGroup).consume", 300*time.Millisecond))
	sdone := make(chan struct{})
	go func() {
		defer close(sdone)
		defer func() { _ = recover() }()
		s.fq.Sync()
		s.fq.Queue().GC()
	}()
	s.c.Branch("race2/sync-" + waitDoneOrBlocked(sdone, "sync.RWMutex.RLock", "fanOutQueue).Sync", 300*time.Millisecond))
	first, second := ga, gb
	if rng.Intn(2) == 0 {
		first, second = gb, ga
		s.c.Branch("race2/release-create-first")
	} else {
		s.c.Branch("race2/release-ack-first")
	}
	s.preSnap = &pre
	s.appearOK = g2
	s.op("race2", g, n, fmt.Sprintf("race2 %d %d %d", g, g2, n), func() string {
		first.open()
		time.Sleep(200 * time.Microsecond)
		second.open()
		wait := func(ch <-chan struct{}, what string) bool {
			select {
			case <-ch:
				return true
			case <-time.After(20 * time.Second):
				s.fail("race2-"+what+"-not-finished", "%s did not return within 20s after both stores were released", what)
				s.dead = true
				return false
			}
		}
		if !wait(adone, "ack") || !wait(vdone, "consume") || !wait(sdone, "sync") {
			return "timeout"
		}
		var r cres
		select {
		case r = <-cch:
		case <-time.After(20 * time.Second):
			s.fail("race2-create-not-finished", "GetOrCreateConsumerGroup did not return within 20s")
			s.dead = true
			return "timeout"
		}
		if r.err != nil {
			return "err:" + r.err.Error()
		}
		s.gs[g2] = r.h
		s.paused[g2] = false
		v := <-vch
		if v == -99 {
			panic("Consume panicked")
		}
		return strconv.FormatInt(v, 10)
	})
	s.appearOK = -1
	s.readable("race2", rng)
}

// doSetAppSync: FanOutQueue.SetAppendedSeq(n) is parked inside the SetSeq of the first group it
// visits (the queue is already reset, it holds lock4map.RLock and that group's write lock); Sync is
// called and — both only read-lock the map — completes; it must not move anything (the queue's
// acknowledged = appended, SetAcknowledgedSeq refuses every candidate). Then the reset completes.
func (s *sim) doSetAppSync(n int64) {
	app := s.fq.Queue().AppendedSeq()
	if s.dead || s.park != nil || len(s.gs) == 0 || n < -1 || (n > app && s.backReset) {
		return
	}
	if n < app {
		s.backReset = true
	}
	if len(s.dormant) > 0 {
		s.dormantDirty = true
	}
	s.reset = true
	pre := s.snap()
	gt := armGateN("/cg/", 0)
	defer disarmGate()
	rdone := make(chan struct{})
	go func() {
		defer close(rdone)
		defer func() { _ = recover() }()
		s.fq.SetAppendedSeq(n)
	}()
	if !gt.waitHitOr(rdone, 3*time.Second) {
		gt.open()
		<-rdone
		s.dead = true
		s.c.Branch("reset/setapp-not-observed(case abandoned)")
		return
	}
	sdone := make(chan struct{})
	go func() {
		defer close(sdone)
		defer func() { _ = recover() }()
		s.fq.Sync()
	}()
	st := waitDoneOrBlocked(sdone, "sync.RWMutex.RLock", "fanOutQueue).Sync", 300*time.Millisecond)
	s.c.Branch("reset/sync-during-setapp-" + st)
	if st == "done" {
		if a, p := s.fq.Queue().AcknowledgedSeq(), s.fq.Queue().AppendedSeq(); a != n || p != n {
			s.fail("sync-moved-queue-during-index-reset", "Sync during SetAppendedSeq(%d): queue %d/%d", n, p, a)
		}
	}
	s.preSnap = &pre
	s.op("setapp", -1, n, fmt.Sprintf("setappsync %d", n), func() string {
		gt.open()
		for _, ch := range []chan struct{}{rdone, sdone} {
			select {
			case <-ch:
			case <-time.After(20 * time.Second):
				s.fail("race-setapp-not-finished", "SetAppendedSeq ‖ Sync did not return within 20s")
				s.dead = true
				return "timeout"
			}
		}
		return "ok"
	})
}

// caseRound8Fixed: deterministic schedules of this round.
func (s *sim) caseRound8Fixed(rng *rand.Rand) {
	s.doCreate(0)
	s.doCreate(1)
	for i := 0; i < 12; i++ {
		s.doAppend(i + 1)
	}
	for i := 0; i < 6; i++ {
		s.doConsume(0)
	}
	// a never-acknowledged group (1) holds the queue ack at -1 however often Sync iterates the map
	s.doAck(0, 5)
	for i := 0; i < 12; i++ {
		s.doSync()
	}
	s.doPending(0)
	s.doIsEmpty(0)
	s.doPending(1)
	s.doIsEmpty(1)
	// crash images between the two stores of Ack
	for i := 0; i < 4; i++ {
		s.doConsume(1)
	}
	s.doAckCrash(1, 2, 0)
	s.doAckCrash(1, 3, 1)
	s.doSync()
	// two stores parked at once
	s.doRace2(0, 2, 5, rng)
	s.doConsume(2)
	s.doRace2(1, 3, 3, rng)
	s.doSync()
	s.doGC(rng)
	// expiry loop: group 0 acknowledges everything, the others do not
	for s.gs[0].ConsumedSeq() < s.fq.Queue().AppendedSeq() && !s.dead {
		s.doConsume(0)
	}
	s.doAck(0, s.gs[0].ConsumedSeq())
	for s.gs[1].ConsumedSeq() < s.fq.Queue().AppendedSeq() && !s.dead {
		s.doConsume(1)
	}
	s.doPending(1)
	s.doIsEmpty(1)
	s.doExpire(rng)
	s.doCreate(0)
	s.doSync()
	s.doReopen(rng)
	// Sync in the middle of an index reset
	s.doSetAppSync(s.fq.Queue().AppendedSeq() - 3)
	s.doAppend(5)
	s.doSync()
	s.doReopen(rng)
	s.pages()
}

// caseRound8Random: random histories mixing the schedules above with sequential progress.
func (s *sim) caseRound8Random(rng *rand.Rand) {
	ng := 4
	s.doCreate(0)
	if rng.Intn(2) == 0 {
		s.doCreate(1)
	}
	for k := rng.Intn(10) + 4; k > 0; k-- {
		s.doAppend(rng.Intn(40) + 1)
	}
	rounds := 4 + rng.Intn(8)
	for r := 0; r < rounds && !s.dead; r++ {
		ids := s.liveIDs()
		for k := rng.Intn(6); k > 0 && len(ids) > 0; k-- {
			s.doConsume(ids[rng.Intn(len(ids))])
		}
		if rng.Intn(3) == 0 {
			s.doAppend(rng.Intn(40) + 1)
			s.doAppend(rng.Intn(40) + 1)
		}
		if len(ids) == 0 {
			s.doCreate(rng.Intn(ng))
			continue
		}
		g := ids[rng.Intn(len(ids))]
		h := s.gs[g]
		lo, hi := h.AcknowledgedSeq(), h.ConsumedSeq()
		switch e := rng.Intn(12); {
		case e < 3:
			if hi >= lo {
				s.doAckCrash(g, lo+rng.Int63n(hi-lo+1), rng.Intn(2))
			}
		case e < 6:
			if hi >= lo {
				s.doRace2(g, rng.Intn(ng), lo+rng.Int63n(hi-lo+1), rng)
			}
		case e < 8:
			s.doPending(g)
			s.doIsEmpty(g)
			s.doExpire(rng)
		case e == 8:
			if hi >= lo {
				s.doAck(g, hi)
			}
			s.doIsEmpty(g)
			s.doExpire(rng)
		case e == 9:
			s.doStop(g)
		case e == 10:
			if rng.Intn(3) == 0 {
				app := s.fq.Queue().AppendedSeq()
				s.doSetAppSync(app - int64(rng.Intn(4)))
			} else {
				s.doSync()
				s.doGC(rng)
			}
		default:
			s.doReopen(rng)
		}
	}
	if !s.dead {
		s.doSync()
		s.doGC(rng)
		s.doReopen(rng)
		s.pages()
	}
}
