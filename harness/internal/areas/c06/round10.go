package c06

import (
	"fmt"
	"math/rand"
	"time"

	"github.com/lindb/lindb/pkg/queue"
)

// Round 10: the msync (MappedPage.Sync) of the meta pages as a scheduling and fault point.
//
//	ackfault g n     Ack(n) on g whose msync fails (no other goroutine)                 = ack g n
//	acksync g n f    Ack(n) on g parked in its msync — the new position is already published in
//	                 memory and in the mapped page — while Sync and GC run to completion; then the
//	                 msync returns (f=1: with an error)                                 = ack g n; sync; gc
//	syncack g n      Sync parked in the msync of queue.SetAcknowledgedSeq (it holds the queue's
//	                 write lock) while g acknowledges n and a second Sync is started     = sync; ack g n; sync
//	syncreset n      Sync parked there while FanOutQueue.SetAppendedSeq(n) is started    = sync; setapp n
//
// Everything that happens while a call is parked happens INSIDE the operation's function: while
// queue.SetAcknowledgedSeq sits in its msync the queue's lock is held and no position of the queue
// can be read from outside.

// doAckFault: Ack(n) whose msync fails. The pinned source logs the error; the position stays
// acknowledged in memory and in the mapped page.
func (s *sim) doAckFault(g int, n int64) {
	h, ok := s.gs[g]
	if !ok || s.dead || s.park != nil {
		return
	}
	s.op("ackfault", g, n, fmt.Sprintf("ackfault %d %d", g, n), func() string {
		gt := armSyncGate(fmt.Sprintf("/cg/%d/", g), 0, true, errMsync)
		defer disarmGate()
		h.Ack(n)
		if gt.fired {
			s.c.Branch("msync/ack-fault-fired")
		} else {
			s.c.Branch("msync/ack-fault-not-reached(ack ignored)")
		}
		return "ok"
	})
}

// unackedReadable: second half of clause (5), stated on the groups: what a live group has not
// acknowledged can be read (the next few sequences above every group's ack).
func (s *sim) unackedReadable(after string) {
	if s.dead || s.reset {
		return
	}
	app := s.fq.Queue().AppendedSeq()
	for _, id := range s.liveIDs() {
		a := s.gs[id].AcknowledgedSeq()
		for m := a + 1; m <= app && m <= a+3; m++ {
			if m < 0 {
				continue
			}
			func() {
				defer func() {
					if r := recover(); r != nil {
						s.fail("panic", "Get(%d) panicked: %v", m, r)
					}
				}()
				if _, err := s.fq.Queue().Get(m); err != nil {
					s.fail("unacked-message-unreadable-after-"+after, "group %d has acknowledged %d; Get(%d) = %v (queue ack %d, appended %d)",
						id, a, m, err, s.fq.Queue().AcknowledgedSeq(), app)
				}
			}()
		}
	}
}

// doAckSync: Ack(n) (n inside the window) parked in its msync; Sync + GC meanwhile; the msync
// returns, with an error when fail is set.
func (s *sim) doAckSync(g int, n int64, fail bool, rng *rand.Rand) {
	h, ok := s.gs[g]
	if !ok || s.dead || s.park != nil || len(s.dormant) > 0 || n < h.AcknowledgedSeq() || n > h.ConsumedSeq() {
		return
	}
	f := 0
	var ferr error
	if fail {
		f, ferr = 1, errMsync
	}
	pre := s.snap()
	gt := armSyncGate(fmt.Sprintf("/cg/%d/", g), 0, false, ferr)
	defer disarmGate()
	adone := make(chan struct{})
	go func() {
		defer close(adone)
		defer func() { _ = recover() }()
		h.Ack(n)
	}()
	parked := false
	select {
	case <-gt.hit:
		parked = true
	case <-adone:
		// the Ack returned without an msync (it did not move the position): what follows is sequential
		s.c.Branch("msync/ack-returned-without-msync")
	case <-time.After(60 * time.Second):
		gt.open()
		<-adone
		s.dead = true
		s.c.Branch("msync/ack-not-observed(case abandoned)")
		return
	}
	s.preSnap = &pre
	s.op("acksync", g, n, fmt.Sprintf("acksync %d %d %d", g, n, f), func() string {
		// the position the Ack has published (atomic load, no lock)
		seen := h.AcknowledgedSeq()
		if !parked {
			seen = pre.g[g].a
		}
		sdone := make(chan struct{})
		go func() {
			defer close(sdone)
			defer func() { _ = recover() }()
			s.fq.Sync()
			s.fq.Queue().GC()
		}()
		// Sync reads the groups' positions without a group lock: it is not held up by the parked Ack
		select {
		case <-sdone:
			s.c.Branch("msync/sync-during-ack-done")
		case <-time.After(2 * time.Second):
			s.c.Branch("msync/sync-during-ack-waits")
		}
		qmid := int64(-2)
		select {
		case <-sdone:
			qmid = s.fq.Queue().AcknowledgedSeq()
		default:
		}
		gt.open()
		for _, ch := range []chan struct{}{adone, sdone} {
			select {
			case <-ch:
			case <-time.After(20 * time.Second):
				s.fail("race-ack-not-finished", "Ack ‖ Sync did not return within 20s after the msync was released")
				s.dead = true
				return "timeout"
			}
		}
		if now := h.AcknowledgedSeq(); now < seen {
			s.fail("group-ack-moved-back", "Ack(%d) of group %d had published acknowledged=%d while its msync was in flight (Sync ran then: queue ack %d); after it returned the group's acknowledged position is %d",
				n, g, seen, qmid, now)
		}
		return "ok"
	})
	s.readable("acksync", rng)
	s.unackedReadable("acksync")
}

// startSyncParked starts Sync on its own goroutine with a gate on the msync of the QUEUE's meta page.
// It returns parked=false when Sync returned without an msync (it had nothing to move).
func (s *sim) startSyncParked() (gt *gate, done chan struct{}, parked bool) {
	gt = armSyncGate("/meta/", 0, false, nil)
	done = make(chan struct{})
	go func() {
		defer close(done)
		defer func() { _ = recover() }()
		s.fq.Sync()
	}()
	select {
	case <-gt.hit:
		return gt, done, true
	case <-done:
		return gt, done, false
	case <-time.After(60 * time.Second):
		return gt, done, false
	}
}

// queueAckIfFree reads the queue's acknowledged position unless the queue's lock is held (then a
// read would wait for the parked call).
func (s *sim) queueAckIfFree() (int64, bool) {
	if queue.VerifC05LockHeld(s.fq.Queue()) {
		return 0, false
	}
	return s.fq.Queue().AcknowledgedSeq(), true
}

// doSyncAck: Sync A parked in the msync of queue.SetAcknowledgedSeq; group g acknowledges n; Sync B
// is started (it waits for the queue's lock in the pinned source); A is released. The queue ack must
// end at what the two Syncs give one after the other and never be seen to move backwards.
func (s *sim) doSyncAck(g int, n int64) {
	h, ok := s.gs[g]
	if !ok || s.dead || s.park != nil || len(s.dormant) > 0 {
		return
	}
	s.op("syncack", g, n, fmt.Sprintf("syncack %d %d", g, n), func() string {
		defer disarmGate()
		gt, adone, parked := s.startSyncParked()
		if !parked {
			gt.open()
			<-adone
			s.c.Branch("msync/sync-not-parked(nothing to move)")
			h.Ack(n)
			s.fq.Sync()
			return "ok"
		}
		h.Ack(n) // group lock and group meta page only
		bdone := make(chan struct{})
		go func() {
			defer close(bdone)
			defer func() { _ = recover() }()
			s.fq.Sync()
		}()
		st := waitDoneOrBlocked(bdone, "sync.", "fanOutQueue).Sync", 300*time.Millisecond)
		s.c.Branch("msync/second-sync-" + st)
		mid, haveMid := int64(0), false
		if st == "done" {
			mid, haveMid = s.queueAckIfFree()
		}
		gt.open()
		for _, ch := range []chan struct{}{adone, bdone} {
			select {
			case <-ch:
			case <-time.After(20 * time.Second):
				s.fail("race-sync-not-finished", "Sync ‖ Sync did not return within 20s after the msync was released")
				s.dead = true
				return "timeout"
			}
		}
		if now := s.fq.Queue().AcknowledgedSeq(); haveMid && now < mid {
			s.fail("queue-ack-moved-back-by-syncack", "a second Sync had moved the queue ack to %d while the first sat in its msync; after the first returned the queue ack is %d", mid, now)
		}
		return "ok"
	})
}

// doSyncReset: Sync parked in the msync of queue.SetAcknowledgedSeq while FanOutQueue.SetAppendedSeq(n)
// (an explicit index reset) is started; the reset waits for the queue's lock in the pinned source, so
// queue and groups end at n.
func (s *sim) doSyncReset(n int64) {
	app := s.fq.Queue().AppendedSeq()
	if s.dead || s.park != nil || len(s.gs) == 0 || n < -1 || (n > app && s.backReset) {
		return
	}
	if n < app {
		s.backReset = true
	}
	if len(s.dormant) > 0 {
		s.dormantDirty = true
	}
	s.reset = true
	s.op("syncreset", -1, n, fmt.Sprintf("syncreset %d", n), func() string {
		defer disarmGate()
		gt, adone, parked := s.startSyncParked()
		if !parked {
			gt.open()
			<-adone
			s.c.Branch("msync/sync-not-parked(nothing to move)")
			s.fq.SetAppendedSeq(n)
			return "ok"
		}
		rdone := make(chan struct{})
		go func() {
			defer close(rdone)
			defer func() { _ = recover() }()
			s.fq.SetAppendedSeq(n)
		}()
		st := waitDoneOrBlocked(rdone, "sync.", "queue).SetAppendedSeq", 300*time.Millisecond)
		s.c.Branch("msync/reset-during-sync-" + st)
		gt.open()
		for _, ch := range []chan struct{}{adone, rdone} {
			select {
			case <-ch:
			case <-time.After(20 * time.Second):
				s.fail("race-sync-not-finished", "Sync ‖ SetAppendedSeq did not return within 20s after the msync was released")
				s.dead = true
				return "timeout"
			}
		}
		return "ok"
	})
}

// caseMsyncFixed: deterministic schedules around the two msyncs.
func (s *sim) caseMsyncFixed(rng *rand.Rand) {
	s.doCreate(0)
	s.doCreate(1)
	for i := 0; i < 12; i++ {
		s.doAppend(i + 1)
	}
	for i := 0; i < 8; i++ {
		s.doConsume(0)
		s.doConsume(1)
	}
	s.doAck(1, 7)
	s.doAck(0, 2)
	s.doSync()
	// group 0 holds the minimum; its Ack(6) sits in a failing msync while Sync + GC run
	s.doAckSync(0, 6, true, rng)
	s.doAckSync(0, 6, false, rng)
	// a failing msync with nobody else around, then the positions must survive a reopen
	s.doConsume(0)
	s.doAckFault(0, 8)
	s.doAckFault(0, 20) // outside the window: ignored, no msync
	s.doReopen(rng)
	// Sync parked in the queue's msync ‖ a further ack + a second Sync
	s.doConsume(1)
	s.doConsume(1)
	s.doAck(1, 8)
	s.doAppend(3)
	s.doConsume(0)
	s.doSyncAck(0, 9)
	s.doReopen(rng)
	s.doSyncAck(1, 9)
	s.doGC(rng)
	// Sync parked in the queue's msync ‖ a backwards index reset
	for i := 0; i < 3; i++ {
		s.doAppend(2)
		s.doConsume(0)
		s.doConsume(1)
	}
	s.doAck(0, 11)
	s.doAck(1, 12)
	s.doSyncReset(10)
	s.doAppend(4)
	s.doConsume(0)
	s.doSync()
	s.doReopen(rng)
	s.pages()
}

// advanceAll lets every live group consume and acknowledge something, so that the next Sync has a
// position to move the queue ack to (and therefore reaches its msync).
func (s *sim) advanceAll(rng *rand.Rand) {
	for _, id := range s.liveIDs() {
		for k := 1 + rng.Intn(2); k > 0; k-- {
			s.doConsume(id)
		}
		h := s.gs[id]
		if lo, hi := h.AcknowledgedSeq(), h.ConsumedSeq(); hi > lo {
			s.doAck(id, lo+1+rng.Int63n(hi-lo))
		}
	}
}

// caseMsyncRandom: random histories in which acks and syncs go through the parked / failing msyncs.
func (s *sim) caseMsyncRandom(rng *rand.Rand) {
	ng := 3
	s.doCreate(0)
	if rng.Intn(3) > 0 {
		s.doCreate(1)
	}
	for k := rng.Intn(10) + 4; k > 0; k-- {
		s.doAppend(rng.Intn(40) + 1)
	}
	rounds := 5 + rng.Intn(10)
	for r := 0; r < rounds && !s.dead; r++ {
		ids := s.liveIDs()
		if len(ids) == 0 {
			s.doCreate(rng.Intn(ng))
			continue
		}
		for k := rng.Intn(6); k > 0; k-- {
			s.doConsume(ids[rng.Intn(len(ids))])
		}
		if rng.Intn(3) == 0 {
			s.doAppend(rng.Intn(40) + 1)
			s.doAppend(rng.Intn(40) + 1)
		}
		g := ids[rng.Intn(len(ids))]
		h := s.gs[g]
		lo, hi := h.AcknowledgedSeq(), h.ConsumedSeq()
		in := lo
		if hi > lo {
			in = lo + 1 + rng.Int63n(hi-lo)
		}
		switch e := rng.Intn(12); {
		case e < 4:
			if hi >= lo {
				s.doAckSync(g, in, rng.Intn(3) > 0, rng)
			}
		case e < 6:
			if rng.Intn(4) == 0 {
				in = hi + 1 + int64(rng.Intn(3)) // outside the window
			}
			s.doAckFault(g, in)
		case e < 9:
			if rng.Intn(4) > 0 {
				s.advanceAll(rng)
				lo, hi = h.AcknowledgedSeq(), h.ConsumedSeq()
				if in = lo; hi > lo {
					in = lo + 1 + rng.Int63n(hi-lo)
				}
			}
			s.doSyncAck(g, in)
		case e == 9:
			if !s.reset || rng.Intn(2) == 0 {
				s.advanceAll(rng)
				app := s.fq.Queue().AppendedSeq()
				s.doSyncReset(app - int64(rng.Intn(4)))
			}
		case e == 10:
			s.doCreate(rng.Intn(ng))
		default:
			s.doReopen(rng)
		}
	}
	if !s.dead {
		s.doSync()
		s.doGC(rng)
		s.doReopen(rng)
		s.pages()
	}
}
