package c06

import (
	"fmt"
	"math/rand"
	"strconv"
	"time"
)

// Round 10: three-step Consume (Model/C06Woken.lean). The yield point "c06-consume-enter" (first line
// of consumerGroup.consume(), /repo/pkg/queue/consumer_group.go) lets a Consume call that has passed
// NotEmpty be held before it takes the write lock while this goroutine runs other operations.
//
//	wbegin g   Consume of g started on its own goroutine, held at the yield point     answers "woken"
//	wend g     released: consume() runs to completion                                  answers its result

const yieldConsumeEnter = "c06-consume-enter"

type wokenCall struct {
	g    int
	gt   *gate
	ch   chan int64
	done chan struct{}
}

func (s *sim) doWBegin(g int) bool {
	h, ok := s.gs[g]
	if !ok || s.dead || s.park != nil || s.wok != nil || len(s.dormant) > 0 || s.paused[g] ||
		h.ConsumedSeq()+1 > s.fq.Queue().AppendedSeq() {
		return false
	}
	started := false
	s.op("wbegin", g, 0, fmt.Sprintf("wbegin %d", g), func() string {
		gt := armYield(yieldConsumeEnter)
		ch := make(chan int64, 1)
		done := make(chan struct{})
		go func() {
			defer close(done)
			defer func() {
				if r := recover(); r != nil {
					ch <- -99
				}
			}()
			ch <- h.Consume()
		}()
		if gt.waitHitOr(done, 30*time.Second) {
			s.wok = &wokenCall{g: g, gt: gt, ch: ch, done: done}
			started = true
			s.c.Branch("woken/held-before-lock")
			return "woken"
		}
		// the call returned without entering consume() (or nothing happened for 30 s)
		disarmYield()
		gt.open()
		select {
		case v := <-ch:
			if v == -99 {
				panic("Consume panicked")
			}
			s.c.Branch("woken/returned-without-consume()")
			return strconv.FormatInt(v, 10)
		case <-time.After(20 * time.Second):
			s.dead = true
			return "timeout"
		}
	})
	return started
}

func (s *sim) doWEnd() int64 {
	w := s.wok
	if w == nil {
		return -1
	}
	if s.dead {
		s.releaseWoken()
		return -1
	}
	out := int64(-1)
	s.op("wend", w.g, 0, fmt.Sprintf("wend %d", w.g), func() string {
		w.gt.open()
		select {
		case v := <-w.ch:
			if v == -99 {
				panic("Consume panicked")
			}
			out = v
			return strconv.FormatInt(v, 10)
		case <-time.After(20 * time.Second):
			s.fail("woken-consume-not-finished", "consume() of group %d did not return within 20s after it was released", w.g)
			s.dead = true
			return "timeout"
		}
	})
	disarmYield()
	s.wok = nil
	return out
}

// releaseWoken makes sure no goroutine stays held at the yield point when a case ends abnormally.
func (s *sim) releaseWoken() {
	if w := s.wok; w != nil {
		w.gt.open()
		select {
		case <-w.done:
		case <-time.After(5 * time.Second):
		}
		disarmYield()
		s.wok = nil
	}
}

// wokenRound: hold a Consume of g before the lock of consume(), run the operations of "another
// goroutine", release it and look at what it hands out.
func (s *sim) wokenRound(g int, mids []func()) {
	if !s.doWBegin(g) {
		return
	}
	for _, m := range mids {
		if s.dead {
			break
		}
		m()
	}
	v := s.doWEnd()
	if v >= 0 && !s.dead && !s.reset {
		s.get(v)
	}
}

// caseWokenFixed: the shapes of Model/C06Woken.lean's example, deterministically.
func (s *sim) caseWokenFixed(rng *rand.Rand) {
	s.doCreate(0)
	s.doCreate(1)
	for i := 0; i < 12; i++ {
		s.doAppend(i + 1)
	}
	for i := 0; i < 8; i++ {
		s.doConsume(0)
	}
	s.doAck(0, 2)
	// nothing in between
	s.wokenRound(0, nil)
	// overtaken by a rewind: hands out 4, not the 10 it had computed
	s.wokenRound(0, []func(){func() { s.doSetConsumed(0, 3) }})
	// overtaken by acks, puts, the other group, Sync and GC
	s.wokenRound(0, []func(){func() { s.doAck(0, 3) }, func() { s.doAppend(5) }, func() { s.doConsume(1) }, func() { s.doAck(1, 0) }, func() { s.doSync() }, func() { s.doGC(rng) }})
	// overtaken by a second consumer of the same group
	s.wokenRound(0, []func(){func() { s.doConsume(0) }, func() { s.doConsume(0) }})
	// overtaken by a Pause: consume() does not look at the flag
	s.wokenRound(1, []func(){func() { s.doPause(1) }})
	s.unpause(1)
	// overtaken by a backwards index reset: "nothing available", without blocking
	s.wokenRound(0, []func(){func() { s.doSetAppended(s.gs[0].ConsumedSeq() - 2) }})
	s.doAppend(3)
	s.doAppend(3)
	// overtaken by SetSeq below, then by a forwards reset
	s.wokenRound(0, []func(){func() { s.doSetSeq(0, s.gs[0].ConsumedSeq()-1) }})
	s.wokenRound(1, []func(){func() { s.doAppend(2) }})
	s.doSync()
	s.doReopen(rng)
	s.pages()
}

// caseWokenRandom: random histories with held Consume calls.
func (s *sim) caseWokenRandom(rng *rand.Rand) {
	s.doCreate(0)
	if rng.Intn(2) == 0 {
		s.doCreate(1)
	}
	for k := rng.Intn(12) + 5; k > 0; k-- {
		s.doAppend(rng.Intn(40) + 1)
	}
	resets := rng.Intn(3) == 0
	rounds := 4 + rng.Intn(8)
	for r := 0; r < rounds && !s.dead; r++ {
		ids := s.liveIDs()
		if len(ids) == 0 {
			break
		}
		g := ids[rng.Intn(len(ids))]
		h := s.gs[g]
		if rng.Intn(3) == 0 {
			s.doAppend(rng.Intn(40) + 1)
			s.doAppend(rng.Intn(40) + 1)
		}
		for k := rng.Intn(4); k > 0; k-- {
			s.doConsume(g)
		}
		var mids []func()
		for k := rng.Intn(4); k > 0; k-- {
			lo, hi, app := h.AcknowledgedSeq(), h.ConsumedSeq(), s.fq.Queue().AppendedSeq()
			e := rng.Intn(12)
			if !resets && e >= 9 {
				e = rng.Intn(9)
			}
			switch {
			case e < 2: // rewind inside the window
				if hi >= lo {
					x := lo + rng.Int63n(hi-lo+1)
					mids = append(mids, func() { s.doSetConsumed(g, x) })
				}
			case e < 4:
				if hi >= lo {
					x := lo + rng.Int63n(hi-lo+1)
					mids = append(mids, func() { s.doAck(g, x) })
				}
			case e == 4:
				n := rng.Intn(40) + 1
				mids = append(mids, func() { s.doAppend(n) })
			case e == 5:
				mids = append(mids, func() { s.doSync(); s.doGC(rng) })
			case e == 6:
				mids = append(mids, func() { s.doConsume(g) })
			case e == 7:
				o := ids[rng.Intn(len(ids))]
				mids = append(mids, func() { s.doConsume(o); s.doAck(o, s.gs[o].ConsumedSeq()) })
			case e == 8:
				mids = append(mids, func() { s.doPause(g) })
			case e == 9: // backwards / forwards index reset
				x := app - int64(rng.Intn(5)) + 1
				mids = append(mids, func() { s.doSetAppended(x) })
			case e == 10:
				x := hi - int64(rng.Intn(4))
				mids = append(mids, func() { s.doSetSeq(g, x) })
			default: // rewind outside the window
				x := lo - 1 - int64(rng.Intn(2))
				if x >= -1 {
					mids = append(mids, func() { s.doSetConsumed(g, x) })
				}
			}
		}
		s.wokenRound(g, mids)
		s.unpause(g)
		if rng.Intn(4) == 0 {
			s.doReopen(rng)
		}
	}
	if !s.dead {
		s.doSync()
		s.doGC(rng)
		s.doReopen(rng)
		s.pages()
	}
}
