package c06

import (
	"errors"
	"runtime"
	"strings"
	"sync"
	"time"

	"github.com/lindb/lindb/internal/verifhook"
	"github.com/lindb/lindb/pkg/queue"
	"github.com/lindb/lindb/pkg/queue/page"
)

// The page-factory seam (queue.VerifC05SetPageFactory, /repo/pkg/queue/zz_verif_c05.go, build tag
// verif): every meta page of a consumer group (path .../cg/<name>) and the queue's meta page
// (.../meta) are wrapped so that a chosen PutUint64 or a chosen msync (Sync) can be parked, and the
// msync can be made to fail. Data and index pages of the queue are not wrapped.

var errInjected = errors.New("injected: too many open files")
var errMsync = errors.New("injected: msync: input/output error")

type gate struct {
	match   string // substring of the page factory's path
	skip    int    // number of matching stores (msyncs) that pass before one is parked
	onSync  bool   // the gate watches MappedPage.Sync (msync) instead of PutUint64
	noPark  bool   // (msync gates) do not park, only inject the failure
	fail    error  // (msync gates) what the chosen Sync returns; the stores stay in the mapped page
	hit     chan struct{}
	release chan struct{}
	once    sync.Once
	fired   bool
}

var (
	gateMu     sync.Mutex
	gates      []*gate // armed gates; several may hold a parked store at the same time
	yieldG     *gate   // armed yield point (match = the id given to verifhook.Yield)
	faultMatch string  // one-shot: the next page factory whose path matches fails to open
	faultFired bool
)

// armFault makes the next construction of a page factory under a matching path fail once.
func armFault(match string) {
	gateMu.Lock()
	faultMatch, faultFired = match, false
	gateMu.Unlock()
}

// disarmFault reports whether the fault fired.
func disarmFault() bool {
	gateMu.Lock()
	defer gateMu.Unlock()
	faultMatch = ""
	return faultFired
}

func armGate(match string) *gate { return armGateN(match, 0) }

// armGateN arms one more gate: the (skip+1)-th store into a page under a matching path is parked.
// Gates armed earlier stay armed (two stores can be parked at the same time).
func armGateN(match string, skip int) *gate {
	g := &gate{match: match, skip: skip, hit: make(chan struct{}, 1), release: make(chan struct{})}
	gateMu.Lock()
	gates = append(gates, g)
	gateMu.Unlock()
	return g
}

// armSyncGate arms a gate on the msync (MappedPage.Sync) of a page under a matching path: the
// (skip+1)-th one is parked (unless noPark) and returns fail (nil = the real result).
func armSyncGate(match string, skip int, noPark bool, fail error) *gate {
	g := &gate{match: match, skip: skip, onSync: true, noPark: noPark, fail: fail, hit: make(chan struct{}, 1), release: make(chan struct{})}
	gateMu.Lock()
	gates = append(gates, g)
	gateMu.Unlock()
	return g
}

// armYield arms the one yield gate: the next verifhook.Yield(id) parks its goroutine.
func armYield(id string) *gate {
	g := &gate{match: id, hit: make(chan struct{}, 1), release: make(chan struct{})}
	gateMu.Lock()
	yieldG = g
	gateMu.Unlock()
	return g
}

func disarmYield() {
	gateMu.Lock()
	yieldG = nil
	gateMu.Unlock()
}

// yieldHook is installed as the verifhook scheduler for the duration of the area's run.
func yieldHook(id string) {
	gateMu.Lock()
	g := yieldG
	if g == nil || g.fired || g.match != id {
		gateMu.Unlock()
		return
	}
	g.fired = true
	gateMu.Unlock()
	g.hit <- struct{}{}
	<-g.release
}

// disarmGate disarms every gate (parked stores must have been released before).
func disarmGate() {
	gateMu.Lock()
	gates = nil
	gateMu.Unlock()
}

// open releases the parked store (idempotent).
func (g *gate) open() { g.once.Do(func() { close(g.release) }) }

// waitHit waits until a store is parked at the gate.
func (g *gate) waitHit(d time.Duration) bool {
	select {
	case <-g.hit:
		return true
	case <-time.After(d):
		return false
	}
}

// waitHitOr is waitHit that gives up as soon as done is closed (the call returned without reaching
// the gate: a source in which the store / msync is not performed must not cost the full timeout).
func (g *gate) waitHitOr(done <-chan struct{}, d time.Duration) bool {
	select {
	case <-g.hit:
		return true
	case <-done:
		select {
		case <-g.hit:
			return true
		default:
			return false
		}
	case <-time.After(d):
		return false
	}
}

type gatedFactory struct {
	page.Factory
	path string
}

func (f *gatedFactory) AcquirePage(index int64) (page.MappedPage, error) {
	p, err := f.Factory.AcquirePage(index)
	if err != nil {
		return nil, err
	}
	return &gatedPage{MappedPage: p, path: f.path}, nil
}

func (f *gatedFactory) GetPage(index int64) (page.MappedPage, bool) {
	p, ok := f.Factory.GetPage(index)
	if !ok {
		return nil, false
	}
	return &gatedPage{MappedPage: p, path: f.path}, true
}

type gatedPage struct {
	page.MappedPage
	path string
}

func (p *gatedPage) PutUint64(value uint64, offset int) {
	gateMu.Lock()
	var g *gate
	park := false
	for _, c := range gates {
		if c.fired || c.onSync || !strings.Contains(p.path, c.match) {
			continue
		}
		// the first armed gate that matches sees the store: it lets it pass or parks it
		if c.skip > 0 {
			c.skip--
		} else {
			c.fired, g, park = true, c, true
		}
		break
	}
	gateMu.Unlock()
	if park {
		g.hit <- struct{}{}
		<-g.release
	}
	p.MappedPage.PutUint64(value, offset)
}

// Sync: an armed msync gate parks the call after the stores have landed in the mapped page and / or
// makes it fail. The real msync is still performed (what a failed msync leaves on disk is C05's
// subject; the mapped page keeps the stores either way).
func (p *gatedPage) Sync() error {
	gateMu.Lock()
	var g *gate
	for _, c := range gates {
		if c.fired || !c.onSync || !strings.Contains(p.path, c.match) {
			continue
		}
		if c.skip > 0 {
			c.skip--
		} else {
			c.fired, g = true, c
		}
		break
	}
	gateMu.Unlock()
	if g != nil && !g.noPark {
		g.hit <- struct{}{}
		<-g.release
	}
	err := p.MappedPage.Sync()
	if g != nil && g.fail != nil {
		return g.fail
	}
	return err
}

// installSeam wraps the meta page factories of consumer groups; returns the restore function.
func installSeam() func() {
	verifhook.Set(yieldHook)
	restore := installPageSeam()
	return func() {
		restore()
		verifhook.Set(nil)
	}
}

func installPageSeam() func() {
	return queue.VerifC05SetPageFactory(func(path string, pageSize int) (page.Factory, error) {
		gateMu.Lock()
		if faultMatch != "" && strings.Contains(path+"/", faultMatch) {
			faultMatch, faultFired = "", true
			gateMu.Unlock()
			return nil, errInjected
		}
		gateMu.Unlock()
		f, err := page.NewFactory(path, pageSize)
		// consumer-group meta pages (…/cg/<g>) and the queue's own meta page (…/meta); data and index
		// pages are not wrapped
		if err != nil || !(strings.Contains(path, "/cg/") || strings.HasSuffix(path, "/meta")) {
			return f, err
		}
		return &gatedFactory{Factory: f, path: path + "/"}, nil
	})
}

// goroutineBlocked reports whether some goroutine is in the given wait state (e.g.
// "sync.RWMutex.RLock") with frame in its stack.
func goroutineBlocked(state, frame string) bool {
	buf := make([]byte, 1<<16)
	for {
		n := runtime.Stack(buf, true)
		if n < len(buf) {
			buf = buf[:n]
			break
		}
		buf = make([]byte, 2*len(buf))
	}
	for _, blk := range strings.Split(string(buf), "\n\n") {
		if strings.Contains(blk, "["+state) && strings.Contains(blk, frame) {
			return true
		}
	}
	return false
}

// waitDoneOrBlocked waits until done is closed, or a goroutine is seen blocked as described, or d
// elapsed. Returns "done", "blocked" or "timeout". The outcome never decides a verdict: on the pinned
// source the second goroutine cannot finish before the gate is opened whatever we see here.
func waitDoneOrBlocked(done <-chan struct{}, state, frame string, d time.Duration) string {
	for dl := time.Now().Add(d); time.Now().Before(dl); {
		select {
		case <-done:
			return "done"
		default:
		}
		if goroutineBlocked(state, frame) {
			return "blocked"
		}
		time.Sleep(100 * time.Microsecond)
	}
	return "timeout"
}
