package c06

import (
	"fmt"
	"math/rand"
	"strconv"
	"time"

	"github.com/lindb/lindb/replica"
)

// Round 12: the rewind (SetConsumedSeq inside [ack, appended], what the replicators do to re-consume)
// against Ack on the same group — sequentially and as a lock-granularity race. The micro-step model
// (Model/FanOutMicro.lean, thread `wSet`) says: the two exclude each other (write lock vs. read lock), so
// the outcome is one of the two orders, and an Ack admitted after the rewind is tested against the
// CURRENT consumed position, not against what had been handed out before.
//
//	ackrewind g n m   Ack(n), n inside the window, parked at its first meta-page store (it holds the
//	                  read lock) while SetConsumedSeq(m) is started (observed blocked on the write
//	                  lock); released                                        = ack g n; setc g m
//	rewindack g m n   SetConsumedSeq(m) parked at its meta-page store (it holds the write lock, the new
//	                  consumed position is already in memory) while Ack(n) is started (observed blocked
//	                  on the read lock); released                            = setc g m; ack g n

func (s *sim) rewindRaceOK(g int) bool {
	_, ok := s.gs[g]
	return ok && !s.dead && s.park == nil && s.wok == nil && len(s.dormant) == 0
}

// doAckRewind: Ack first.
func (s *sim) doAckRewind(g int, n, m int64) {
	if !s.rewindRaceOK(g) {
		return
	}
	h := s.gs[g]
	if n < h.AcknowledgedSeq() || n > h.ConsumedSeq() || m < n || m > s.fq.Queue().AppendedSeq() {
		return
	}
	pre := s.snap()
	gt := armGate(fmt.Sprintf("/cg/%d/", g))
	defer disarmGate()
	adone := make(chan struct{})
	go func() {
		defer close(adone)
		defer func() { _ = recover() }()
		h.Ack(n)
	}()
	if !gt.waitHitOr(adone, 3*time.Second) {
		gt.open()
		<-adone
		s.dead = true
		s.c.Branch("rewind/ack-not-observed(case abandoned)")
		return
	}
	bdone := make(chan struct{})
	go func() {
		defer close(bdone)
		defer func() { _ = recover() }()
		h.SetConsumedSeq(m)
	}()
	s.c.Branch("rewind/ack-then-rewind-" + waitDoneOrBlocked(bdone, "sync.RWMutex.Lock", "consumerGroup).SetConsumedSeq", 300*time.Millisecond))
	s.preSnap = &pre
	s.raceM = m
	s.op("ackrewind", g, n, fmt.Sprintf("ackrewind %d %d %d", g, n, m), func() string {
		gt.open()
		for _, d := range []chan struct{}{adone, bdone} {
			select {
			case <-d:
			case <-time.After(20 * time.Second):
				s.fail("rewind-race-not-finished", "Ack ‖ SetConsumedSeq did not return within 20s after the store was released")
				s.dead = true
				return "timeout"
			}
		}
		return "ok"
	})
}

// doRewindAck: the rewind first.
func (s *sim) doRewindAck(g int, m, n int64) {
	if !s.rewindRaceOK(g) {
		return
	}
	h := s.gs[g]
	if m < h.AcknowledgedSeq() || m > s.fq.Queue().AppendedSeq() {
		return
	}
	pre := s.snap()
	gt := armGate(fmt.Sprintf("/cg/%d/", g))
	defer disarmGate()
	adone := make(chan struct{})
	go func() {
		defer close(adone)
		defer func() { _ = recover() }()
		h.SetConsumedSeq(m)
	}()
	if !gt.waitHitOr(adone, 3*time.Second) {
		gt.open()
		<-adone
		s.dead = true
		s.c.Branch("rewind/rewind-not-observed(case abandoned)")
		return
	}
	bdone := make(chan struct{})
	go func() {
		defer close(bdone)
		defer func() { _ = recover() }()
		h.Ack(n)
	}()
	s.c.Branch("rewind/rewind-then-ack-" + waitDoneOrBlocked(bdone, "sync.RWMutex.RLock", "consumerGroup).Ack", 300*time.Millisecond))
	s.preSnap = &pre
	s.raceM = m
	s.op("rewindack", g, n, fmt.Sprintf("rewindack %d %d %d", g, m, n), func() string {
		gt.open()
		for _, d := range []chan struct{}{adone, bdone} {
			select {
			case <-d:
			case <-time.After(20 * time.Second):
				s.fail("rewind-race-not-finished", "SetConsumedSeq ‖ Ack did not return within 20s after the store was released")
				s.dead = true
				return "timeout"
			}
		}
		return "ok"
	})
}

// oracleRewindRace: clause (3) for the two orders. b = positions before either call started.
func (s *sim) oracleRewindRace(kind string, g int, n int64, bp, ap gpos) {
	m := s.raceM
	var want gpos
	switch kind {
	case "ackrewind": // n inside [ack, consumed]; m inside [n, appended]
		want = gpos{m, n}
	default: // rewindack: the window Ack sees is [ack, m]
		want = gpos{m, bp.a}
		if n >= bp.a && n <= m {
			want.a = n
		}
	}
	if ap != want {
		if kind == "rewindack" && n > m && ap.a == n {
			s.fail("ack-above-rewound-consumed-not-ignored", "SetConsumedSeq(%d) ‖ Ack(%d) on %v, the rewind first: the group is now %v — an acknowledgement above the current consumed position was stored", m, n, bp, ap)
		} else {
			s.fail("rewind-ack-race-positions", "%s on %v with rewind target %d and ack %d gave %v, the lock order admits only %v", kind, bp, m, n, ap, want)
		}
	}
}

// caseRewindFixed: consume up to N, rewind to M (ack <= M < N), acknowledge K in (M, N] — ignored —,
// then what Sync / GC / Get / reopen / the next Consume make of it; the same through both race ops; both
// edges of the window after a rewind.
func (s *sim) caseRewindFixed(rng *rand.Rand) {
	s.doCreate(0)
	s.doCreate(1)
	for i := 0; i < 10; i++ {
		s.doAppend(i + 1)
	}
	for i := 0; i < 10; i++ {
		s.doConsume(1)
	}
	s.doAck(1, 9)
	for i := 0; i < 7; i++ {
		s.doConsume(0)
	}
	s.doAck(0, 2)
	s.doSetConsumed(0, 3) // re-consume from 4
	s.doAck(0, 6)         // handed out before the rewind, above the current consumed position: ignored
	s.doAck(0, 4)         // just above
	s.doSync()
	s.doGC(rng)
	s.readable("rewind", rng)
	for _, q := range []int64{3, 4, 5, 6} {
		s.get(q)
	}
	s.doReopen(rng)
	s.doConsume(0) // 4 again
	s.doAck(0, 3)  // the upper edge before that consume, still inside
	s.doAck(0, 4)  // the new upper edge
	// the same as a race, the rewind first: Ack(7) waits for the write lock, then sees consumed = 5
	for s.gs[0] != nil && s.gs[0].ConsumedSeq() < 8 && !s.dead {
		s.doConsume(0)
	}
	s.doRewindAck(0, 5, 7)
	s.doRewindAck(0, 5, 5)
	s.doSync()
	s.doGC(rng)
	s.readable("rewind", rng)
	s.doConsume(0) // 6
	// Ack first: it is applied against the window it saw, then the rewind lands at or above it
	s.doConsume(0)
	s.doConsume(0)
	if h := s.gs[0]; h != nil && !s.dead {
		s.doAckRewind(0, h.ConsumedSeq()-1, h.ConsumedSeq()-1)
	}
	s.doAck(0, 8) // above the rewound consumed position again
	s.doSync()
	s.doStop(0)
	s.doCreate(0)
	s.doConsume(0)
	s.doReopen(rng)
	// the replicator's glue: a local replicator starts on group 0 (rewind to ack+1) and replays everything
	// unacknowledged; IgnoreMessage of the next / not the next / a not yet re-consumed index
	for i := 0; i < 4; i++ {
		s.doAppend(7)
	}
	s.doGC(rng)
	s.replay(0, 100)
	if h := s.gs[0]; h != nil && !s.dead {
		a := h.AcknowledgedSeq()
		s.doReplIgnore(0, a+2) // not the next one
		s.doReplIgnore(0, a+1) // the next one
		s.doReplReset(0, a+2)  // ResetReplicaIndex: consumed = a+1 = the acknowledged position now
		s.doReplIgnore(0, a+2) // the next one, but not handed out again yet: nothing
		s.doReplAck(0, a+4)    // above the rewound consumed position: ignored
		s.doReplConsume(0)
		s.doReplIgnore(0, a+2) // now it is
		s.doReplAck(0, a)      // below the ack: ignored
	}
	s.doSync()
	s.doGC(rng)
	s.replay(1, 100)
	s.doReopen(rng)
	s.replay(0, 3)
	// the remote replicator's handshake: follower in step / behind the acknowledged position / inside the
	// window / at the appended position
	if h := s.gs[0]; h != nil && !s.dead {
		s.doReplHandshake(0, h.ConsumedSeq())
		s.doReplHandshake(0, h.AcknowledgedSeq()-1)
		s.doReplConsume(0)
		s.doReplConsume(0)
		s.doReplHandshake(0, h.AcknowledgedSeq()+1)
		s.doReplHandshake(0, s.fq.Queue().AppendedSeq())
		s.doSync()
		s.doGC(rng)
		s.readable("rhandshake", rng)
	}
	s.pages()
}

// rewindRound: one random rewind ‖ ack round on g (used by the random race cases).
func (s *sim) rewindRound(rng *rand.Rand, g int) {
	h := s.gs[g]
	if h == nil {
		return
	}
	lo, hi, app := h.AcknowledgedSeq(), h.ConsumedSeq(), s.fq.Queue().AppendedSeq()
	if hi < lo || hi > app {
		return
	}
	switch rng.Intn(6) {
	case 3: // a local replicator starts and replays some of what is unacknowledged
		s.replay(g, rng.Intn(6))
	case 4: // ResetReplicaIndex inside the window, then SetAckIndex / IgnoreMessage around the new position
		s.doReplReset(g, lo+1+rng.Int63n(hi-lo+1))
		if rng.Intn(2) == 0 {
			s.doReplAck(g, lo+rng.Int63n(hi-lo+2))
		} else {
			s.doReplIgnore(g, lo+rng.Int63n(3))
		}
	case 5:
		if rng.Intn(2) == 0 {
			s.doReplHandshake(g, lo-1+rng.Int63n(app-lo+2)) // follower answers anything in [ack-1, appended]
			s.doReplConsume(g)
			break
		}
		s.doReplIgnore(g, lo+rng.Int63n(3))
		s.doReplConsume(g)
	case 0: // sequential: rewind, then an ack somewhere in [lo, old consumed + 1]
		m := lo + rng.Int63n(hi-lo+1)
		s.doSetConsumed(g, m)
		s.doAck(g, lo+rng.Int63n(hi-lo+2))
	case 1:
		m := lo + rng.Int63n(hi-lo+1)
		s.doRewindAck(g, m, lo+rng.Int63n(hi-lo+2))
	default:
		n := lo + rng.Int63n(hi-lo+1)
		s.doAckRewind(g, n, n+rng.Int63n(app-n+1))
	}
}

// ---- the replicator's glue (replica/replicator.go) over the real consumer group ----
//
//	rreset g idx    replicator.ResetReplicaIndex(idx)            = setc g (idx-1)
//	rstart g        what NewLocalReplicator does to the group: ResetReplicaIndex(AckIndex()+1)
//	rack g idx      replicator.SetAckIndex(idx)                  = ack g idx
//	rignore g idx   replicator.IgnoreMessage(idx)                = ack g idx if idx = ack+1, else nothing
//	rconsume g      replicator.Consume() + GetMessage            = consume g
//
// The state-changing ones answer `ok ri=<ReplicaIndex> ai=<AckIndex> ap=<AppendIndex>`, compared with
// Model/C06Glue.lean; the impl-side oracle checks the three indexes against the group's positions.

func (s *sim) repl(g int) replica.VerifC06Repl {
	h, ok := s.gs[g]
	if !ok || s.dead || s.park != nil || s.wok != nil {
		return nil
	}
	return replica.VerifC06Replicator(h)
}

func (s *sim) replIdx(g int, r replica.VerifC06Repl) string {
	h := s.gs[g]
	ri, ai, ap := r.ReplicaIndex(), r.AckIndex(), r.AppendIndex()
	if ri != h.ConsumedSeq()+1 || ai != h.AcknowledgedSeq() || ap != s.fq.Queue().AppendedSeq()+1 {
		s.fail("replicator-index-wrong", "group %d at consumed %d / ack %d, appended %d: ReplicaIndex %d AckIndex %d AppendIndex %d",
			g, h.ConsumedSeq(), h.AcknowledgedSeq(), s.fq.Queue().AppendedSeq(), ri, ai, ap)
	}
	if pd, want := r.Pending(), s.fq.Queue().AppendedSeq()-h.ConsumedSeq(); pd != want && !(want < 0 && pd == 0) {
		s.fail("pending-wrong", "replicator.Pending() = %d with consumed %d appended %d", pd, h.ConsumedSeq(), s.fq.Queue().AppendedSeq())
	}
	return fmt.Sprintf("ok ri=%d ai=%d ap=%d", ri, ai, ap)
}

func (s *sim) doReplReset(g int, idx int64) {
	r := s.repl(g)
	if r == nil {
		return
	}
	if idx-1 < r.AckIndex() || idx > r.AppendIndex() {
		s.reset = true
		s.c.Branch("reset/setc-out-of-window")
	}
	s.op("setc", g, idx-1, fmt.Sprintf("rreset %d %d", g, idx), func() string {
		r.ResetReplicaIndex(idx)
		return s.replIdx(g, r)
	})
}

func (s *sim) doReplStart(g int) {
	r := s.repl(g)
	if r == nil {
		return
	}
	h := s.gs[g]
	if h.AcknowledgedSeq() > s.fq.Queue().AppendedSeq() {
		return // only after an explicit reset
	}
	s.op("setc", g, h.AcknowledgedSeq(), fmt.Sprintf("rstart %d", g), func() string {
		r.ResetReplicaIndex(r.AckIndex() + 1) // replica/replicator_local.go NewLocalReplicator (fact localStartResetArgs)
		return s.replIdx(g, r)
	})
}

func (s *sim) doReplAck(g int, idx int64) {
	if r := s.repl(g); r != nil {
		s.op("ack", g, idx, fmt.Sprintf("rack %d %d", g, idx), func() string { r.SetAckIndex(idx); return s.replIdx(g, r) })
	}
}

func (s *sim) doReplIgnore(g int, idx int64) {
	if r := s.repl(g); r != nil {
		s.op("rignore", g, idx, fmt.Sprintf("rignore %d %d", g, idx), func() string { r.IgnoreMessage(idx); return s.replIdx(g, r) })
	}
}

// doReplConsume: Consume through the replicator, then GetMessage of what it handed out.
func (s *sim) doReplConsume(g int) {
	r := s.repl(g)
	if r == nil {
		return
	}
	h := s.gs[g]
	if !s.paused[g] && h.ConsumedSeq()+1 > s.fq.Queue().AppendedSeq() {
		s.c.Branch("consume-would-block(skipped)")
		return
	}
	s.op("consume", g, 0, fmt.Sprintf("rconsume %d", g), func() string {
		v := r.Consume()
		if v >= 0 && !s.reset && !s.backReset {
			if _, err := r.GetMessage(v); err != nil {
				s.fail("replay-message-unreadable", "group %d (ack %d) was handed %d by replicator.Consume, GetMessage(%d) = %v (queue %d/%d)",
					g, h.AcknowledgedSeq(), v, v, err, s.fq.Queue().AppendedSeq(), s.fq.Queue().AcknowledgedSeq())
			}
		}
		return strconv.FormatInt(v, 10)
	})
}

// oracleIgnore: IgnoreMessage(n) acknowledges n exactly when n = ack+1 and n has been handed out.
func (s *sim) oracleIgnore(g int, n int64, bp, ap gpos) {
	want := bp
	if bp.a+1 == n && n <= bp.c {
		want.a = n
	}
	if ap != want {
		s.fail("ignore-message-positions", "IgnoreMessage(%d) on %v gave %v, expected %v", n, bp, ap, want)
	}
}

// replay: the start of a local replicator on g, then everything unacknowledged is consumed again through
// the replicator — each sequence once, in order, readable.
func (s *sim) replay(g int, max int) {
	h := s.gs[g]
	if h == nil || s.dead {
		return
	}
	s.doReplStart(g)
	next := h.AcknowledgedSeq() + 1
	for i := 0; i < max && !s.dead && !s.paused[g] && h.ConsumedSeq() < s.fq.Queue().AppendedSeq(); i++ {
		before := h.ConsumedSeq()
		s.doReplConsume(g)
		if !s.reset && h.ConsumedSeq() != next && h.ConsumedSeq() != before {
			s.fail("replay-not-consecutive", "group %d: replay from ack+1 expected %d next, consumed position is %d", g, next, h.ConsumedSeq())
		}
		next++
	}
}

// doReplHandshake: the position part of remoteReplicator.IsReady (replica/replicator_remote.go) once the
// follower has answered rAck, statement by statement on the real base replicator (IsReady itself needs a gRPC
// client and the state manager; its skeleton is the regenerated fact remoteHandshake). Only answers at or below
// the appended position: the follower-ahead branch is an explicit index reset (setapp covers it).
//
//	rhandshake g rAck   = Glue.handshakeOps
func (s *sim) doReplHandshake(g int, rAck int64) {
	r := s.repl(g)
	if r == nil || s.reset || rAck > s.fq.Queue().AppendedSeq() {
		return
	}
	s.op("rhandshake", g, rAck, fmt.Sprintf("rhandshake %d %d", g, rAck), func() string {
		localReplicaIdx := r.ReplicaIndex()
		nextReplicaIdx := rAck + 1
		if nextReplicaIdx == localReplicaIdx {
			return s.replIdx(g, r)
		}
		appendIdx := r.AppendIndex()
		smallestAckIdx := r.AckIndex()
		switch {
		case rAck < smallestAckIdx:
			needResetReplicaIdx := smallestAckIdx + 1
			r.ResetReplicaIndex(needResetReplicaIdx)
			return s.replIdx(g, r)
		case nextReplicaIdx > appendIdx:
			r.ResetAppendIndex(nextReplicaIdx) // not reached (guard above)
		}
		r.ResetReplicaIndex(nextReplicaIdx)
		r.SetAckIndex(rAck)
		return s.replIdx(g, r)
	})
}

// oracleHandshake: theorem handshake_positions on the observed positions.
func (s *sim) oracleHandshake(g int, rAck int64, bp, ap gpos, b, a snapshot) {
	want := bp
	if rAck+1 != bp.c+1 {
		m := rAck
		if rAck < bp.a {
			m = bp.a
		}
		want = gpos{m, m}
	}
	if ap != want || a.app != b.app || a.ack != b.ack {
		s.fail("handshake-positions", "handshake with follower ack %d on %v (queue %d/%d) gave %v (queue %d/%d), expected %v", rAck, bp, b.app, b.ack, ap, a.app, a.ack, want)
	}
}
