package c06

import (
	"fmt"
	"math/rand"
	"time"
)

// Round 12: the rewind (SetConsumedSeq inside [ack, appended], what the replicators do to re-consume)
// against Ack on the same group — sequentially and as a lock-granularity race. The micro-step model
// (Model/FanOutMicro.lean, thread `wSet`) says: the two exclude each other (write lock vs. read lock), so
// the outcome is one of the two orders, and an Ack admitted after the rewind is tested against the
// CURRENT consumed position, not against what had been handed out before.
//
//	ackrewind g n m   Ack(n), n inside the window, parked at its first meta-page store (it holds the
//	                  read lock) while SetConsumedSeq(m) is started (observed blocked on the write
//	                  lock); released                                        = ack g n; setc g m
//	rewindack g m n   SetConsumedSeq(m) parked at its meta-page store (it holds the write lock, the new
//	                  consumed position is already in memory) while Ack(n) is started (observed blocked
//	                  on the read lock); released                            = setc g m; ack g n

func (s *sim) rewindRaceOK(g int) bool {
	_, ok := s.gs[g]
	return ok && !s.dead && s.park == nil && s.wok == nil && len(s.dormant) == 0
}

// doAckRewind: Ack first.
func (s *sim) doAckRewind(g int, n, m int64) {
	if !s.rewindRaceOK(g) {
		return
	}
	h := s.gs[g]
	if n < h.AcknowledgedSeq() || n > h.ConsumedSeq() || m < n || m > s.fq.Queue().AppendedSeq() {
		return
	}
	pre := s.snap()
	gt := armGate(fmt.Sprintf("/cg/%d/", g))
	defer disarmGate()
	adone := make(chan struct{})
	go func() {
		defer close(adone)
		defer func() { _ = recover() }()
		h.Ack(n)
	}()
	if !gt.waitHitOr(adone, 3*time.Second) {
		gt.open()
		<-adone
		s.dead = true
		s.c.Branch("rewind/ack-not-observed(case abandoned)")
		return
	}
	bdone := make(chan struct{})
	go func() {
		defer close(bdone)
		defer func() { _ = recover() }()
		h.SetConsumedSeq(m)
	}()
	s.c.Branch("rewind/ack-then-rewind-" + waitDoneOrBlocked(bdone, "sync.RWMutex.Lock", "consumerGroup).SetConsumedSeq", 300*time.Millisecond))
	s.preSnap = &pre
	s.raceM = m
	s.op("ackrewind", g, n, fmt.Sprintf("ackrewind %d %d %d", g, n, m), func() string {
		gt.open()
		for _, d := range []chan struct{}{adone, bdone} {
			select {
			case <-d:
			case <-time.After(20 * time.Second):
				s.fail("rewind-race-not-finished", "Ack ‖ SetConsumedSeq did not return within 20s after the store was released")
				s.dead = true
				return "timeout"
			}
		}
		return "ok"
	})
}

// doRewindAck: the rewind first.
func (s *sim) doRewindAck(g int, m, n int64) {
	if !s.rewindRaceOK(g) {
		return
	}
	h := s.gs[g]
	if m < h.AcknowledgedSeq() || m > s.fq.Queue().AppendedSeq() {
		return
	}
	pre := s.snap()
	gt := armGate(fmt.Sprintf("/cg/%d/", g))
	defer disarmGate()
	adone := make(chan struct{})
	go func() {
		defer close(adone)
		defer func() { _ = recover() }()
		h.SetConsumedSeq(m)
	}()
	if !gt.waitHitOr(adone, 3*time.Second) {
		gt.open()
		<-adone
		s.dead = true
		s.c.Branch("rewind/rewind-not-observed(case abandoned)")
		return
	}
	bdone := make(chan struct{})
	go func() {
		defer close(bdone)
		defer func() { _ = recover() }()
		h.Ack(n)
	}()
	s.c.Branch("rewind/rewind-then-ack-" + waitDoneOrBlocked(bdone, "sync.RWMutex.RLock", "consumerGroup).Ack", 300*time.Millisecond))
	s.preSnap = &pre
	s.raceM = m
	s.op("rewindack", g, n, fmt.Sprintf("rewindack %d %d %d", g, m, n), func() string {
		gt.open()
		for _, d := range []chan struct{}{adone, bdone} {
			select {
			case <-d:
			case <-time.After(20 * time.Second):
				s.fail("rewind-race-not-finished", "SetConsumedSeq ‖ Ack did not return within 20s after the store was released")
				s.dead = true
				return "timeout"
			}
		}
		return "ok"
	})
}

// oracleRewindRace: clause (3) for the two orders. b = positions before either call started.
func (s *sim) oracleRewindRace(kind string, g int, n int64, bp, ap gpos) {
	m := s.raceM
	var want gpos
	switch kind {
	case "ackrewind": // n inside [ack, consumed]; m inside [n, appended]
		want = gpos{m, n}
	default: // rewindack: the window Ack sees is [ack, m]
		want = gpos{m, bp.a}
		if n >= bp.a && n <= m {
			want.a = n
		}
	}
	if ap != want {
		if kind == "rewindack" && n > m && ap.a == n {
			s.fail("ack-above-rewound-consumed-not-ignored", "SetConsumedSeq(%d) ‖ Ack(%d) on %v, the rewind first: the group is now %v — an acknowledgement above the current consumed position was stored", m, n, bp, ap)
		} else {
			s.fail("rewind-ack-race-positions", "%s on %v with rewind target %d and ack %d gave %v, the lock order admits only %v", kind, bp, m, n, ap, want)
		}
	}
}

// caseRewindFixed: consume up to N, rewind to M (ack <= M < N), acknowledge K in (M, N] — ignored —,
// then what Sync / GC / Get / reopen / the next Consume make of it; the same through both race ops; both
// edges of the window after a rewind.
func (s *sim) caseRewindFixed(rng *rand.Rand) {
	s.doCreate(0)
	s.doCreate(1)
	for i := 0; i < 10; i++ {
		s.doAppend(i + 1)
	}
	for i := 0; i < 10; i++ {
		s.doConsume(1)
	}
	s.doAck(1, 9)
	for i := 0; i < 7; i++ {
		s.doConsume(0)
	}
	s.doAck(0, 2)
	s.doSetConsumed(0, 3) // re-consume from 4
	s.doAck(0, 6)         // handed out before the rewind, above the current consumed position: ignored
	s.doAck(0, 4)         // just above
	s.doSync()
	s.doGC(rng)
	s.readable("rewind", rng)
	for _, q := range []int64{3, 4, 5, 6} {
		s.get(q)
	}
	s.doReopen(rng)
	s.doConsume(0) // 4 again
	s.doAck(0, 3)  // the upper edge before that consume, still inside
	s.doAck(0, 4)  // the new upper edge
	// the same as a race, the rewind first: Ack(7) waits for the write lock, then sees consumed = 5
	for s.gs[0] != nil && s.gs[0].ConsumedSeq() < 8 && !s.dead {
		s.doConsume(0)
	}
	s.doRewindAck(0, 5, 7)
	s.doRewindAck(0, 5, 5)
	s.doSync()
	s.doGC(rng)
	s.readable("rewind", rng)
	s.doConsume(0) // 6
	// Ack first: it is applied against the window it saw, then the rewind lands at or above it
	s.doConsume(0)
	s.doConsume(0)
	if h := s.gs[0]; h != nil && !s.dead {
		s.doAckRewind(0, h.ConsumedSeq()-1, h.ConsumedSeq()-1)
	}
	s.doAck(0, 8) // above the rewound consumed position again
	s.doSync()
	s.doStop(0)
	s.doCreate(0)
	s.doConsume(0)
	s.doReopen(rng)
	s.pages()
}

// rewindRound: one random rewind ‖ ack round on g (used by the random race cases).
func (s *sim) rewindRound(rng *rand.Rand, g int) {
	h := s.gs[g]
	if h == nil {
		return
	}
	lo, hi, app := h.AcknowledgedSeq(), h.ConsumedSeq(), s.fq.Queue().AppendedSeq()
	if hi < lo || hi > app {
		return
	}
	switch rng.Intn(3) {
	case 0: // sequential: rewind, then an ack somewhere in [lo, old consumed + 1]
		m := lo + rng.Int63n(hi-lo+1)
		s.doSetConsumed(g, m)
		s.doAck(g, lo+rng.Int63n(hi-lo+2))
	case 1:
		m := lo + rng.Int63n(hi-lo+1)
		s.doRewindAck(g, m, lo+rng.Int63n(hi-lo+2))
	default:
		n := lo + rng.Int63n(hi-lo+1)
		s.doAckRewind(g, n, n+rng.Int63n(app-n+1))
	}
}
