package c06

import "math/rand"

// Round 13: the reopen path of the write cursor (queue.initDataPageIndex) against Queue.GC on a WAL
// that has left data page 0.
//
// GC truncates every data page below the page of the ACKNOWLEDGED message; that is only right while
// the data page ids never decrease with the sequence, and the one place besides alloc where the
// write cursor is set is initDataPageIndex at reopen. casePages reopens only in the middle of its
// rounds (un-acked messages pending) and never appends + GCs behind a reopen that found the queue
// in another drain state. Here every round grows the WAL over at least one page roll-over, brings
// the groups to one of three drain states (everything acked by everybody and synced = appended ==
// queue ack; partly; nothing new), optionally GCs, reopens, appends NEW messages behind the restored
// cursor, and runs the periodic Sync + GC tick before any post-restart ack: the new messages are
// above every group's ack and must stay readable (oracle `readable` after gc and after the
// following reopen), the page files and Get answers are tied to the model (`pages`, `get`).
func (s *sim) casePagesReopen(rng *rand.Rand) {
	const ng = 2
	for g := 0; g < ng; g++ {
		s.doCreate(g)
	}
	small := func() {
		for k := rng.Intn(3) + 1; k > 0; k-- {
			s.doAppend(rng.Intn(40) + 1)
		}
	}
	small()
	rounds := 2
	if s.c.Tier == "thorough" {
		rounds = 2 + rng.Intn(2)
	}
	for r := 0; r < rounds && !s.dead; r++ {
		nb := 1 + rng.Intn(2)
		if r == 0 {
			nb = 2 // the last message lives in data page >= 1 from the first round on
		}
		for b := 0; b < nb; b++ {
			s.doAppend(bigLen + rng.Intn(1000))
			if b+1 < nb || rng.Intn(3) > 0 {
				small() // otherwise the big message itself is the last one before the reopen
			}
		}
		app := s.fq.Queue().AppendedSeq()
		mode := rng.Intn(5) // 0,1,2: drained; 3: partly; 4: nothing new acked
		if r == 0 {
			mode = 0
		}
		switch {
		case mode <= 2:
			for g := 0; g < ng; g++ {
				s.doSetConsumed(g, app)
				s.doAck(g, app)
			}
			s.c.Branch("pages-reopen/drained")
		case mode == 3:
			for g := 0; g < ng; g++ {
				h := s.gs[g]
				if lo := h.ConsumedSeq(); lo < app {
					s.doSetConsumed(g, lo+1+rng.Int63n(app-lo))
				}
				s.doAck(g, h.AcknowledgedSeq()+rng.Int63n(h.ConsumedSeq()-h.AcknowledgedSeq()+1))
			}
			s.c.Branch("pages-reopen/partly")
		default:
			s.c.Branch("pages-reopen/pending")
		}
		s.doSync()
		if rng.Intn(2) == 0 {
			s.doGC(rng)
		}
		s.pages()
		s.doReopen(rng)
		s.pages()
		// new messages behind the restored cursor; sometimes one that rolls to the next page at once
		first := s.fq.Queue().AppendedSeq() + 1
		small()
		if rng.Intn(4) == 0 {
			s.doAppend(bigLen + rng.Intn(1000))
			small()
		}
		s.pages()
		// the periodic Sync + GC tick before the first ack after the restart
		s.doSync()
		s.doGC(rng)
		s.pages()
		last := s.fq.Queue().AppendedSeq()
		ack := s.fq.Queue().AcknowledgedSeq()
		for m := first; m <= last; m++ {
			s.get(m)
		}
		s.get(ack)
		s.get(ack + 1)
		s.get(last + 1)
		if rng.Intn(2) == 0 {
			// and the images survive one more reopen (cursor restored from a NEW message this time)
			s.doReopen(rng)
			s.pages()
			s.doAppend(rng.Intn(40) + 1)
			s.doGC(rng)
			s.get(s.fq.Queue().AppendedSeq())
		}
	}
	s.c.Branch("pages-reopen/done")
}
