// Package c06 drives pkg/queue's FanOutQueue / ConsumerGroup (real code, public API only) on
// generated operation histories over several consumer groups on a scratch directory and mirrors
// every operation in the C06 line protocol (lean/LinVerif/Driver/C06.lean).
//
// The impl-side oracle evaluates the clauses of property C06 on the positions the implementation
// reports after every operation (see oracle()).
package c06

import (
	"errors"
	"fmt"
	"math/rand"
	"os"
	"path/filepath"
	"runtime"
	"runtime/debug"
	"sort"
	"strconv"
	"strings"
	"syscall"
	"time"

	"github.com/lindb/lindb/pkg/queue"

	"github.com/lindb/lindb/zzverif/internal/core"
)

type area struct{}

func init() { core.Register(area{}) }

func (area) Name() string { return "fanout" }

// Stable failure keys of the recorded findings (known_findings.json).
const (
	keyFreshBelow   = "fresh-group-starts-below-queue-ack"
	keyRestoreOrder = "restore-lifts-ack-above-consumed"
	keyReopenLift   = "reopen-lifts-group-ack-to-queue-ack"
)

const bigLen = 70_000_000 // two of these do not fit one 128 MB data page

var bigBuf []byte

type gpos struct{ c, a int64 }

type snapshot struct {
	app, ack int64
	g        map[int]gpos
}

func (s snapshot) String() string {
	ids := make([]int, 0, len(s.g))
	for id := range s.g {
		ids = append(ids, id)
	}
	sort.Ints(ids)
	parts := make([]string, len(ids))
	for i, id := range ids {
		parts[i] = fmt.Sprintf("%d=%d/%d", id, s.g[id].c, s.g[id].a)
	}
	return fmt.Sprintf("q=%d/%d | %s", s.app, s.ack, strings.Join(parts, " "))
}

type sim struct {
	c      *core.Ctx
	dir    string
	fq     queue.FanOutQueue
	gs     map[int]queue.ConsumerGroup // live handles
	paused map[int]bool
	meta   map[int]gpos // last positions observed for every group ever created (= its meta page)
	// oracle state
	reset        bool // an explicit index reset happened in this case: clauses (1) and (5) are suspended
	backReset    bool // a backwards SetAppendedSeq happened (stale index entries may exist above appended)
	dead         bool // a panic happened (or a parked call could not be observed): the case is abandoned
	nops         int
	park         *parkedCall  // the Consume call currently parked in NotEmpty (at most one)
	preSnap      *snapshot    // "before" of the next op, taken before its goroutines were started
	dormant      map[int]bool // groups that exist (ConsumerGroupNames) but were not looked up since reopenlazy
	expect       map[int]gpos // what such a group must come back as
	dormantDirty bool         // SetAppendedSeq ran while groups were dormant (it moves them too)
	appearOK     int          // the group the current race2 operation creates (-1 = none)
	wok          *wokenCall   // the Consume call held before the lock of consume() (at most one)
	raceM        int64        // round 12: the rewind target of the current ackrewind / rewindack operation
}

// parkedCall is a Consume call running on its own goroutine, blocked in Queue.NotEmpty.
type parkedCall struct {
	g    int
	head int64 // consumed+1 at the time of the call
	ch   chan int64
}

func (s *sim) snap() snapshot {
	sn := snapshot{app: s.fq.Queue().AppendedSeq(), ack: s.fq.Queue().AcknowledgedSeq(), g: map[int]gpos{}}
	for id, g := range s.gs {
		sn.g[id] = gpos{g.ConsumedSeq(), g.AcknowledgedSeq()}
	}
	return sn
}

func (s *sim) open() error { return s.openMode(false) }

// openMode: lazy = the groups are only listed (ConsumerGroupNames), none is looked up.
func (s *sim) openMode(lazy bool) error {
	fq, err := queue.NewFanOutQueue(s.dir, 1024)
	if err != nil {
		return err
	}
	return s.adopt(fq, lazy)
}

// adopt takes over a freshly opened queue.
func (s *sim) adopt(fq queue.FanOutQueue, lazy bool) error {
	s.fq = fq
	s.gs = map[int]queue.ConsumerGroup{}
	s.paused = map[int]bool{}
	s.dormant = map[int]bool{}
	s.expect = map[int]gpos{}
	s.dormantDirty = false
	for _, n := range fq.ConsumerGroupNames() {
		id, err := strconv.Atoi(n)
		if err != nil {
			return fmt.Errorf("unexpected group name %q", n)
		}
		if lazy {
			s.dormant[id] = true
			continue
		}
		g, err := fq.GetOrCreateConsumerGroup(n)
		if err != nil {
			return err
		}
		s.gs[id] = g
	}
	return nil
}

func (s *sim) close() {
	if s.fq != nil {
		s.fq.Close()
		s.fq = nil
	}
}

// op executes one state operation, records the protocol lines and runs the oracle.
func (s *sim) op(kind string, g int, n int64, line string, f func() string) {
	if s.dead {
		return
	}
	before := s.snap()
	if s.preSnap != nil {
		before, s.preSnap = *s.preSnap, nil
	}
	metaBefore := map[int]gpos{}
	for k, v := range s.meta {
		metaBefore[k] = v
	}
	var res string
	func() {
		defer func() {
			if r := recover(); r != nil {
				s.dead = true
				s.c.Fail("panic", fmt.Sprintf("op %q panicked: %v", line, r))
			}
		}()
		res = f()
	}()
	if s.dead {
		s.c.Op(line, "panic")
		return
	}
	after := s.snap()
	for id, p := range after.g {
		s.meta[id] = p
	}
	s.c.Op(line, res+" | "+after.String())
	s.c.Branch("op/" + kind)
	s.nops++
	s.oracle(kind, g, n, res, before, after, metaBefore)
}

func (s *sim) fail(key, format string, a ...interface{}) {
	s.c.Fail(key, fmt.Sprintf(format, a...))
}

func ordered(p gpos, app int64) bool { return p.a <= p.c && p.c <= app }

// oracle: property C06 on the observed positions.
//
//	(1) ack g <= consumed g <= appended (outside explicit resets)
//	(2) consume hands out consumed+1
//	(3) an ack outside [ack, consumed] changes nothing
//	(4) queue ack: monotone, <= appended, moves only in Sync and then <= every live group's ack
//	(5) every sequence in (queue ack, appended] is readable; every live group's ack >= queue ack
//	    (so what a live group has not acknowledged is readable)
//	(6) reopen changes no position
func (s *sim) oracle(kind string, g int, n int64, res string, b, a snapshot, metaBefore map[int]gpos) {
	if kind == "ackcrash" {
		kind = "ack" // the Ack itself is judged as any other; the image is judged in doAckCrash
	}
	if kind == "syncreset" {
		kind = "setapp" // Sync ‖ index reset: the reset is ordered after the Sync that was in flight
	}
	if kind == "wbegin" {
		if res != "woken" {
			kind = "consume" // the call returned without being held: judged as any Consume
		} else if a.String() != b.String() {
			s.fail("held-consume-changed-positions", "a Consume call held before the lock of consume(): %s -> %s", b, a)
		}
	}
	syncInside := kind == "acksync" || kind == "syncack" // an Ack and Sync(s) in one operation
	// (4)
	if a.ack > a.app {
		s.fail("queue-ack-above-appended", "after %s: queue ack %d > appended %d", kind, a.ack, a.app)
	}
	if kind != "setapp" {
		if a.ack < b.ack {
			s.fail("queue-ack-moved-back-by-"+kind, "queue ack %d -> %d", b.ack, a.ack)
		}
		if a.ack != b.ack && kind != "sync" && kind != "createsync" && kind != "expire" && kind != "race2" && !syncInside {
			s.fail("queue-ack-moved-by-"+kind, "queue ack %d -> %d", b.ack, a.ack)
		}
		if kind == "createsync" && a.ack != b.ack {
			// the group was being created when Sync was called: it is in the map before Sync can run
			for id, p := range a.g {
				if a.ack > p.a {
					s.fail("sync-queue-ack-above-group-ack", "Sync concurrent with the creation of group %d moved the queue ack to %d, group %d has ack %d", g, a.ack, id, p.a)
				}
			}
		}
		if syncInside && a.ack != b.ack {
			// the Sync ran when the addressed group had already published its new position; every
			// other group stood still
			for id, p := range a.g {
				if a.ack > p.a {
					s.fail("sync-queue-ack-above-group-ack", "%s on group %d moved the queue ack to %d, group %d has ack %d", kind, g, a.ack, id, p.a)
				}
			}
		}
		if (kind == "sync" || kind == "createsync") && a.ack != b.ack && !s.dormantDirty {
			// groups that exist but were not looked up since the reopen count as well
			for id := range s.dormant {
				if e := s.expect[id]; a.ack > e.a {
					s.fail("sync-queue-ack-above-unopened-group-ack", "%s moved the queue ack to %d; group %d exists (ConsumerGroupNames), was not looked up since the reopen and has ack %d", kind, a.ack, id, e.a)
				}
			}
		}
		if (kind == "sync" || kind == "expire") && a.ack != b.ack {
			for id, p := range b.g {
				if a.ack > p.a {
					s.fail("sync-queue-ack-above-group-ack", "sync moved queue ack to %d, live group %d has ack %d", a.ack, id, p.a)
				}
			}
			if len(b.g) == 0 && len(s.dormant) == 0 {
				s.fail("sync-moved-queue-ack-without-groups", "queue ack %d -> %d with no live group", b.ack, a.ack)
			}
		}
		if a.app != b.app && kind != "append" && kind != "appendn" && kind != "appendwake" {
			s.fail("appended-changed-by-"+kind, "appended %d -> %d", b.app, a.app)
		}
	}
	// frame: groups not addressed keep their positions; the set of live groups changes only by
	// create / stop / reopen
	if kind != "setapp" && kind != "reopen" && kind != "reopenlazy" {
		for id, p := range b.g {
			q, ok := a.g[id]
			if !ok {
				if !(kind == "stop" && id == g) && kind != "expire" {
					s.fail("group-lost-by-"+kind, "group %d disappeared", id)
				}
				continue
			}
			if id != g && q != p {
				s.fail("other-group-changed-by-"+kind, "group %d: %v -> %v", id, p, q)
			}
		}
		for id := range a.g {
			if _, ok := b.g[id]; !ok && !((kind == "create" || kind == "createsync") && id == g) && !(kind == "race2" && id == s.appearOK) {
				s.fail("group-appeared-by-"+kind, "group %d appeared", id)
			}
		}
	}
	bp, live := b.g[g]
	ap := a.g[g]
	switch kind {
	case "append":
		if res == "ok" && a.app != b.app+1 {
			s.fail("append-not-dense", "appended %d -> %d", b.app, a.app)
		}
	case "consume": // (2)
		if !live {
			break
		}
		v, _ := strconv.ParseInt(res, 10, 64)
		if bp.c < -1 {
			// only after an explicit reset below -1: the result -1 is then ambiguous (sequence -1 or
			// "nothing available"); the positions are still compared with the model
			break
		}
		if v != -1 {
			if v != bp.c+1 || ap.c != v || ap.a != bp.a {
				s.fail("consume-not-consecutive", "consumed was %d, Consume returned %d, positions now %v", bp.c, v, ap)
			}
			if v > b.app {
				s.fail("consume-beyond-appended", "Consume returned %d, appended %d", v, b.app)
			}
		} else {
			if ap != bp {
				s.fail("empty-consume-changed-positions", "%v -> %v", bp, ap)
			}
			if !s.paused[g] && bp.c+1 <= b.app {
				s.fail("consume-missed-message", "consumed %d appended %d but Consume returned -1", bp.c, b.app)
			}
		}
	case "cend", "appendwake", "pausewake", "wend":
		// (2) for a Consume call that was parked while other goroutines moved the positions: what it
		// hands out is consumed+1 AT THE TIME IT RETURNS (b is the snapshot taken after the last
		// operation of the other goroutine, before the wake-up), and that becomes the consumed position
		if !live || bp.c < -1 {
			break
		}
		v, err := strconv.ParseInt(res, 10, 64)
		if err != nil {
			break
		}
		if v != -1 {
			if v != bp.c+1 || ap.c != v || ap.a != bp.a {
				s.fail("parked-consume-not-consecutive", "%s: consumed was %d (ack %d) when the parked Consume was woken, it returned %d, positions now %v", kind, bp.c, bp.a, v, ap)
			}
			if v > a.app {
				s.fail("parked-consume-beyond-appended", "%s: parked Consume returned %d, appended %d", kind, v, a.app)
			}
			if v > a.ack && v <= a.app && (!s.reset || v == a.app) {
				if _, err := s.fq.Queue().Get(v); err != nil {
					s.fail("parked-consume-unreadable", "%s: parked Consume returned %d, Get(%d) = %v (queue %d/%d)", kind, v, v, err, a.app, a.ack)
				}
			}
		} else {
			if ap != bp {
				s.fail("parked-empty-consume-changed-positions", "%s: %v -> %v", kind, bp, ap)
			}
			if kind != "pausewake" && (!s.paused[g] || kind == "wend") && bp.c+1 <= a.app {
				s.fail("parked-consume-missed-message", "%s: consumed %d appended %d but the woken Consume returned -1", kind, bp.c, a.app)
			}
		}
	case "ackconsume", "race2":
		// an Ack inside the window and a Consume of the same group issued concurrently: both take
		// effect (in whatever order the lock admits them), the consumed position moves by one
		if !live || bp.c < -1 {
			break
		}
		v, err := strconv.ParseInt(res, 10, 64)
		if err != nil {
			break
		}
		if v != bp.c+1 || ap.c != v || ap.a != n {
			s.fail("ack-consume-race-positions", "Ack(%d) ‖ Consume on %v: Consume returned %d, positions now %v", n, bp, v, ap)
		}
	case "ackrewind", "rewindack":
		if live {
			s.oracleRewindRace(kind, g, n, bp, ap)
		}
	case "rignore":
		if live {
			s.oracleIgnore(g, n, bp, ap)
		}
	case "rhandshake":
		if live {
			s.oracleHandshake(g, n, bp, ap, b, a)
		}
	case "create":
		// (6) for stop + create: a group restored from its meta page gets the positions it had,
		// except that both are lifted to the queue ack when they lie below it
		if s.dormant[g] {
			// first lookup since reopenlazy: the group was restored by NewFanOutQueue, nothing can
			// have moved it since
			if e := s.expect[g]; ap != e && !s.dormantDirty {
				s.fail("reopen-changes-group-position", "group %d: %v when the queue was reopened, %v when first looked up afterwards (queue ack %d)", g, e, ap, a.ack)
			}
			delete(s.dormant, g)
			delete(s.expect, g)
		} else if m, had := metaBefore[g]; had && !live {
			ea := m.a
			if a.ack > ea {
				ea = a.ack
			}
			ec := m.c
			if ea > ec {
				ec = ea
			}
			if ap != (gpos{ec, ea}) && !(ap.a > ap.c) { // ack > consumed is reported by clause (1)
				s.fail("recreate-changes-group-position", "group %d had %v when it was stopped, re-created as %v (queue ack %d)", g, m, ap, a.ack)
			}
		}
	case "ack": // (3)
		if !live {
			break
		}
		if n >= bp.a && n <= bp.c {
			if ap.a != n || ap.c != bp.c {
				s.fail("ack-inside-window-not-applied", "ack %d on %v gave %v", n, bp, ap)
			}
		} else if ap != bp || a.ack != b.ack || a.app != b.app {
			s.fail("ack-outside-window-not-ignored", "ack %d on %v gave %v", n, bp, ap)
		}
	case "ackfault", "acksync", "syncack":
		// (3) with an msync in flight or failing: outside the window nothing changes; inside, the
		// consumed position stays and the acknowledged one is n (a failing msync is only logged by the
		// pinned source; whether the position counts as acknowledged then is not part of the property,
		// so bp.a is accepted as well — what must hold is that memory and meta page agree, judged at
		// the next reopen, and that a published position is not taken back, judged inside the op)
		if !live {
			break
		}
		if n >= bp.a && n <= bp.c {
			if ap.c != bp.c || (ap.a != n && !(kind == "ackfault" && ap.a == bp.a)) {
				s.fail("ack-inside-window-not-applied", "%s %d on %v gave %v", kind, n, bp, ap)
			}
		} else if ap != bp {
			s.fail("ack-outside-window-not-ignored", "%s %d on %v gave %v", kind, n, bp, ap)
		}
	case "setc":
		if live && (ap.c != n || ap.a != bp.a) {
			s.fail("set-consumed-wrong", "setc %d on %v gave %v", n, bp, ap)
		}
	case "setseq":
		if live && (ap.c != n || ap.a != n) {
			s.fail("set-seq-wrong", "setseq %d on %v gave %v", n, bp, ap)
		}
	case "setapp":
		if a.app != n || a.ack != n {
			s.fail("set-appended-wrong", "setapp %d gave %d/%d", n, a.app, a.ack)
		}
	case "reopenlazy": // (6), judged when a group is looked up (case "create") and at every Sync
		if a.app != b.app || a.ack != b.ack {
			s.fail("reopen-changes-queue-position", "%d/%d -> %d/%d", b.app, b.ack, a.app, a.ack)
		}
		for id := range b.g {
			if !s.dormant[id] {
				s.fail("reopen-loses-group", "group %d is not listed by ConsumerGroupNames after reopen", id)
			}
		}
		for id := range s.dormant {
			m, had := metaBefore[id]
			if !had {
				s.fail("reopen-invents-group", "group %d listed after reopen was never created", id)
				continue
			}
			// a stopped group whose positions lie below the queue ack is lifted to it when restored
			if a.ack > m.a {
				m.a = a.ack
			}
			if m.a > m.c {
				m.c = m.a
			}
			s.expect[id] = m
			s.meta[id] = m
		}
	case "reopen": // (6)
		if a.app != b.app || a.ack != b.ack {
			s.fail("reopen-changes-queue-position", "%d/%d -> %d/%d", b.app, b.ack, a.app, a.ack)
		}
		for id, p := range b.g {
			q, ok := a.g[id]
			switch {
			case !ok:
				s.fail("reopen-loses-group", "group %d not restored", id)
			case q == p:
			case s.reset:
				// after an explicit reset a group may sit below the queue ack or have ack > consumed:
				// NewConsumerGroup lifts ack to the queue ack and consumed to ack. The reset is exempt
				// from the ordering clause, not from persistence: apart from that lift the positions
				// must be the ones the group had.
				e := p
				if a.ack > e.a {
					e.a = a.ack
				}
				if e.a > e.c {
					e.c = e.a
				}
				if q == e {
					s.c.Branch("reopen-normalises-reset-group")
				} else {
					s.fail("reopen-changes-group-position", "after an explicit reset: group %d: %v -> %v (queue ack %d; lifted it would be %v)", id, p, q, a.ack, e)
				}
			case q.c == p.c && p.a < a.ack && q.a == a.ack:
				s.fail(keyReopenLift, "group %d had positions %v before close and %v after reopen (queue ack %d)", id, p, q, a.ack)
			default:
				s.fail("reopen-changes-group-position", "group %d: %v -> %v (queue ack %d)", id, p, q, a.ack)
			}
		}
		for id := range a.g {
			if _, ok := b.g[id]; !ok {
				s.c.Branch("reopen-resurrects-stopped-group")
			}
		}
	}
	// (1) and the second half of (5): flagged at the operation that breaks them. "Before" is the
	// group's live position, or — for a group that was not live (stopped, now re-created or
	// resurrected by reopen) — the content of its meta page.
	for id, p := range a.g {
		m, hadMeta := metaBefore[id]
		old, was := b.g[id]
		if !was && hadMeta {
			old = m
		}
		known := was || hadMeta
		if !s.reset && !ordered(p, a.app) && (!known || ordered(old, b.app)) {
			if (kind == "create" || kind == "reopen") && hadMeta && p.a > p.c && p.c == m.c && m.a < a.ack && p.a == a.ack {
				s.fail(keyRestoreOrder, "%s restored group %d from meta %v with queue ack %d as %v: ack > consumed", kind, id, m, a.ack, p)
			} else {
				s.fail("order-broken-by-"+kind, "group %d: %v -> %v, appended %d", id, old, p, a.app)
			}
		}
		// queue ack <= group ack is judged after explicit resets too: an index reset puts queue and
		// groups to the same position; only SetSeq on the group itself may put it below
		if p.a < a.ack && (!was || old.a >= b.ack) && !(kind == "setseq" && id == g) {
			if kind == "create" && !hadMeta && p == (gpos{-1, -1}) {
				s.fail(keyFreshBelow, "new group %d starts at %v while the queue ack is %d: its next Consume returns %d, which Get refuses", id, p, a.ack, p.c+1)
			} else {
				s.fail("group-ack-below-queue-ack-after-"+kind, "group %d: %v, queue ack %d", id, p, a.ack)
			}
		}
	}
}

func getKind(err error) string {
	switch {
	case err == nil:
		return "ok"
	case errors.Is(err, queue.ErrOutOfSequenceRange):
		return "out-of-range"
	case errors.Is(err, queue.ErrMsgNotFound):
		return "not-found"
	}
	return "err:" + err.Error()
}

// get is the observation `Queue().Get(seq)`.
func (s *sim) get(seq int64) {
	if s.dead {
		return
	}
	s.c.Guard(fmt.Sprintf("get %d", seq), func() string {
		d, err := s.fq.Queue().Get(seq)
		if err != nil {
			return getKind(err)
		}
		return fmt.Sprintf("ok %d", len(d))
	})
}

// readable: first half of (5) — every sequence above the queue ack can be read.
func (s *sim) readable(after string, rng *rand.Rand) {
	if s.dead || s.reset {
		return
	}
	app, ack := s.fq.Queue().AppendedSeq(), s.fq.Queue().AcknowledgedSeq()
	check := func(m int64) {
		defer func() {
			if r := recover(); r != nil {
				s.fail("panic", "Get(%d) panicked: %v", m, r)
			}
		}()
		if _, err := s.fq.Queue().Get(m); err != nil {
			s.fail("unreadable-above-queue-ack-after-"+after, "Get(%d) = %v with queue ack %d, appended %d", m, err, ack, app)
		}
	}
	if app-ack <= 200 {
		for m := ack + 1; m <= app; m++ {
			check(m)
		}
		return
	}
	for i := int64(1); i <= 50; i++ {
		check(ack + i)
		check(app - i + 1)
		check(ack + 1 + rng.Int63n(app-ack))
	}
}

func (s *sim) pages() {
	if s.dead {
		return
	}
	list := func(sub string) string {
		ents, _ := os.ReadDir(filepath.Join(s.dir, sub))
		var ids []int
		for _, e := range ents {
			if strings.HasSuffix(e.Name(), ".bat") {
				if id, err := strconv.Atoi(strings.TrimSuffix(e.Name(), ".bat")); err == nil {
					ids = append(ids, id)
				}
			}
		}
		sort.Ints(ids)
		ss := make([]string, len(ids))
		for i, id := range ids {
			ss[i] = strconv.Itoa(id)
		}
		return strings.Join(ss, ",")
	}
	s.c.Op("pages", "data="+list("data")+" index="+list("index"))
}

// ---- the operations

func (s *sim) doAppend(n int) {
	var buf []byte
	if n > 4096 {
		if len(bigBuf) < n {
			bigBuf = make([]byte, n)
		}
		buf = bigBuf[:n]
	} else {
		buf = make([]byte, n)
	}
	s.op("append", -1, 0, fmt.Sprintf("append %d", n), func() string {
		if err := s.fq.Queue().Put(buf); err != nil {
			if errors.Is(err, queue.ErrExceedingMessageSizeLimit) {
				return "too-large"
			}
			return "err:" + err.Error()
		}
		return "ok"
	})
}

func (s *sim) doAppendN(k, n int) {
	buf := make([]byte, n)
	s.op("appendn", -1, 0, fmt.Sprintf("appendn %d %d", k, n), func() string {
		for i := 0; i < k; i++ {
			if err := s.fq.Queue().Put(buf); err != nil {
				return "err:" + err.Error()
			}
		}
		return "ok"
	})
}

// doConsume never calls Consume where it would block (not paused and nothing available).
func (s *sim) doConsume(g int) {
	h, ok := s.gs[g]
	if !ok {
		return
	}
	if !s.paused[g] && h.ConsumedSeq()+1 > s.fq.Queue().AppendedSeq() {
		s.c.Branch("consume-would-block(skipped)")
		return
	}
	s.op("consume", g, 0, fmt.Sprintf("consume %d", g), func() string { return strconv.FormatInt(h.Consume(), 10) })
}

func (s *sim) doAck(g int, n int64) {
	if h, ok := s.gs[g]; ok {
		s.op("ack", g, n, fmt.Sprintf("ack %d %d", g, n), func() string { h.Ack(n); return "ok" })
	}
}

func (s *sim) doSetConsumed(g int, n int64) {
	h, ok := s.gs[g]
	if !ok {
		return
	}
	if n < h.AcknowledgedSeq() || n > s.fq.Queue().AppendedSeq() {
		s.reset = true // outside the documented range: an explicit index reset
		s.c.Branch("reset/setc-out-of-window")
	}
	s.op("setc", g, n, fmt.Sprintf("setc %d %d", g, n), func() string { h.SetConsumedSeq(n); return "ok" })
}

func (s *sim) doSetSeq(g int, n int64) {
	if h, ok := s.gs[g]; ok {
		s.reset = true
		s.op("setseq", g, n, fmt.Sprintf("setseq %d %d", g, n), func() string { h.SetSeq(n); return "ok" })
	}
}

// doSetAppended: n >= -1 only (below, the next Put indexes its page with a negative offset);
// forwards only while no backwards reset has left stale index items above the appended position
// (GC could then truncate the page under the write cursor and the next Put would fault).
func (s *sim) doSetAppended(n int64) {
	app := s.fq.Queue().AppendedSeq()
	if n < -1 || (n > app && s.backReset) {
		return
	}
	if n < app {
		s.backReset = true
	}
	if len(s.dormant) > 0 {
		s.dormantDirty = true
	}
	s.reset = true
	s.op("setapp", -1, n, fmt.Sprintf("setapp %d", n), func() string { s.fq.SetAppendedSeq(n); return "ok" })
}

func (s *sim) doSync() {
	s.op("sync", -1, 0, "sync", func() string { s.fq.Sync(); return "ok" })
}

func (s *sim) doGC(rng *rand.Rand) {
	s.op("gc", -1, 0, "gc", func() string { s.fq.Queue().GC(); return "ok" })
	s.readable("gc", rng)
}

func (s *sim) doCreate(g int) {
	s.op("create", g, 0, fmt.Sprintf("create %d", g), func() string {
		h, err := s.fq.GetOrCreateConsumerGroup(strconv.Itoa(g))
		if err != nil {
			return "err:" + err.Error()
		}
		if _, ok := s.gs[g]; !ok {
			s.paused[g] = false
		}
		s.gs[g] = h
		return "ok"
	})
}

func (s *sim) doStop(g int) {
	if _, ok := s.gs[g]; !ok {
		return
	}
	s.op("stop", g, 0, fmt.Sprintf("stop %d", g), func() string {
		s.fq.StopConsumerGroup(strconv.Itoa(g))
		delete(s.gs, g) // the handle is closed (its meta page unmapped): never used again
		delete(s.paused, g)
		return "ok"
	})
}

func (s *sim) doPause(g int) {
	if h, ok := s.gs[g]; ok {
		s.op("pause", g, 0, fmt.Sprintf("pause %d", g), func() string { h.Pause(); s.paused[g] = true; return "ok" })
	}
}

func (s *sim) doReopen(rng *rand.Rand) {
	s.op("reopen", -1, 0, "reopen", func() string {
		s.close()
		if err := s.open(); err != nil {
			panic(err)
		}
		return "ok"
	})
	s.readable("reopen", rng)
}

// ---- a Consume call parked in NotEmpty while this goroutine goes on (two-step Consume)

// parkedInNotEmpty reports whether some goroutine is blocked in sync.Cond.Wait below queue.NotEmpty.
func parkedInNotEmpty() bool {
	buf := make([]byte, 1<<16)
	for {
		n := runtime.Stack(buf, true)
		if n < len(buf) {
			buf = buf[:n]
			break
		}
		buf = make([]byte, 2*len(buf))
	}
	for _, blk := range strings.Split(string(buf), "\n\n") {
		if strings.Contains(blk, "[sync.Cond.Wait") && strings.Contains(blk, "pkg/queue.(*queue).NotEmpty") {
			return true
		}
	}
	return false
}

// join waits for the parked call to return.
func (s *sim) join(pk *parkedCall) (int64, bool) {
	select {
	case v := <-pk.ch:
		return v, true
	case <-time.After(20 * time.Second):
		return 0, false
	}
}

// doCBegin starts `Consume` of the drained, un-paused group g on its own goroutine and waits until
// it is parked in NotEmpty. If the parked state cannot be observed the case is abandoned (counted
// as a branch, never an alarm).
func (s *sim) doCBegin(g int) bool {
	h, ok := s.gs[g]
	if !ok || s.dead || s.park != nil || s.paused[g] || h.ConsumedSeq()+1 <= s.fq.Queue().AppendedSeq() {
		return false
	}
	pk := &parkedCall{g: g, head: h.ConsumedSeq() + 1, ch: make(chan int64, 1)}
	go func() {
		debug.SetPanicOnFault(true)
		defer func() {
			if r := recover(); r != nil {
				pk.ch <- -99
			}
		}()
		pk.ch <- h.Consume()
	}()
	seen := false
	for dl := time.Now().Add(3 * time.Second); time.Now().Before(dl); {
		if parkedInNotEmpty() {
			seen = true
			break
		}
		select {
		case v := <-pk.ch:
			// the group is not paused and its head is above the appended position: Consume can only
			// wait. It returned instead.
			app := s.fq.Queue().AppendedSeq()
			s.c.Op(fmt.Sprintf("cbegin %d", g), fmt.Sprintf("returned %d | %s", v, s.snap()))
			if v > app {
				s.fail("consume-beyond-appended", "Consume of group %d returned %d while the appended position is %d (consumed was %d): the sequence is not appended, Get refuses it", g, v, app, pk.head-1)
			} else {
				s.fail("drained-consume-returned", "Consume of the drained, un-paused group %d returned %d instead of waiting (appended %d)", g, v, app)
			}
			s.dead = true
			return false
		default:
		}
		time.Sleep(100 * time.Microsecond)
	}
	if !seen {
		h.Pause() // releases the call wherever it is
		s.join(pk)
		s.dead = true
		s.c.Branch("parked/not-observed(case abandoned)")
		return false
	}
	s.park = pk
	s.op("cbegin", g, 0, fmt.Sprintf("cbegin %d", g), func() string { return "parked" })
	s.c.Branch("parked/begin")
	return true
}

// wake runs f (which makes NotEmpty return) and waits for the parked call.
func (s *sim) wake(kind, line string, f func()) int64 {
	pk := s.park
	var v int64 = -1
	s.op(kind, pk.g, 0, line, func() string {
		f()
		r, ok := s.join(pk)
		s.park = nil
		if !ok {
			s.fail("parked-consume-not-woken", "%s: the parked Consume (head %d) did not return within 20s", line, pk.head)
			s.dead = true
			pk2 := s.gs[pk.g]
			pk2.Pause()
			return "timeout"
		}
		if r == -99 {
			panic("parked Consume panicked")
		}
		v = r
		return strconv.FormatInt(r, 10)
	})
	return v
}

// enabled: NotEmpty of the parked call can return (its head is at or below the appended position).
func (s *sim) parkEnabled(extra int64) bool {
	return s.park != nil && s.park.head <= s.fq.Queue().AppendedSeq()+extra
}

func (s *sim) doCEnd() int64 {
	g := s.park.g
	s.c.Branch("parked/wake-by-signal")
	return s.wake("cend", fmt.Sprintf("cend %d", g), func() { s.fq.Queue().Signal() })
}

func (s *sim) doAppendWake(n int) int64 {
	g := s.park.g
	buf := make([]byte, n)
	s.c.Branch("parked/wake-by-put")
	return s.wake("appendwake", fmt.Sprintf("appendwake %d %d", n, g), func() {
		if err := s.fq.Queue().Put(buf); err != nil {
			panic(err)
		}
	})
}

func (s *sim) doPauseWake() int64 {
	g := s.park.g
	h := s.gs[g]
	s.c.Branch("parked/wake-by-pause")
	return s.wake("pausewake", fmt.Sprintf("pausewake %d", g), func() { h.Pause(); s.paused[g] = true })
}

// release makes sure no goroutine is left parked when a case ends abnormally.
func (s *sim) release() {
	if s.park != nil {
		if h, ok := s.gs[s.park.g]; ok {
			h.Pause()
		}
		s.join(s.park)
		s.park = nil
	}
}

// parkRound: park a Consume of group g, let "another goroutine" (this one) run up to three
// operations — rewinds, resets, acks, the other group — then wake it (Signal if it became
// enabled, otherwise Puts, at last Pause) and look at what it hands out.
func (s *sim) parkRound(rng *rand.Rand, g int, mids []func()) {
	for h := s.gs[g]; !s.dead && !s.paused[g] && h.ConsumedSeq()+1 <= s.fq.Queue().AppendedSeq(); {
		s.doConsume(g)
	}
	if !s.doCBegin(g) {
		return
	}
	v := int64(-2)
	for _, m := range mids {
		if s.dead {
			break
		}
		m()
		if !s.dead && s.parkEnabled(0) {
			v = s.doCEnd()
			break
		}
	}
	for k := 0; k < 5 && s.park != nil && !s.dead; k++ {
		if s.parkEnabled(1) {
			v = s.doAppendWake(rng.Intn(40) + 1)
		} else {
			s.doAppend(rng.Intn(40) + 1) // the call stays parked: its head is still above appended
		}
	}
	if s.park != nil && !s.dead {
		v = s.doPauseWake()
	}
	if v >= 0 && !s.dead {
		s.get(v)
	}
}

// unpause replaces a paused handle by a fresh one (stop + create restores it from its meta page).
func (s *sim) unpause(g int) {
	if s.paused[g] && !s.dead {
		s.doStop(g)
		s.doCreate(g)
	}
}

// caseParkedFixed: the three shapes of the seeded stale-head change, deterministically.
func (s *sim) caseParkedFixed(rng *rand.Rand) {
	s.doCreate(0)
	s.doCreate(1)
	for i := 0; i < 10; i++ {
		s.doAppend(i + 1)
	}
	for i := 0; i < 10; i++ {
		s.doConsume(0)
	}
	s.doAck(0, 2)
	// rewind inside [ack, appended] while parked: the woken call must hand out 4
	s.parkRound(rng, 0, []func(){func() { s.doSetConsumed(0, 3) }})
	// index reset backwards while parked: the call stays parked until its old head is appended again
	s.parkRound(rng, 0, []func(){func() { s.doSetAppended(s.fq.Queue().AppendedSeq() - 3) }})
	// nothing in between
	s.parkRound(rng, 0, nil)
	// an index reset backwards BEFORE the call: it must wait for the next append, not trust what
	// the group saw of the queue before the reset (seeded change c06-14)
	s.doSetAppended(s.fq.Queue().AppendedSeq() - 2)
	s.parkRound(rng, 0, nil)
	// SetSeq below, then the other group
	s.parkRound(rng, 0, []func(){func() { s.doSetSeq(0, s.gs[0].AcknowledgedSeq()) }, func() { s.doConsume(1) }})
	s.doSync()
	s.doGC(rng)
	s.pages()
}

// caseParkedForward: an index reset forwards (no backwards reset before) enables the parked call
// without waking it; it is then woken by Signal and must find nothing to consume.
func (s *sim) caseParkedForward(rng *rand.Rand) {
	s.doCreate(0)
	for i := 0; i < 6; i++ {
		s.doAppend(i + 1)
	}
	s.doAck(0, -1)
	s.parkRound(rng, 0, []func(){func() { s.doSetAppended(s.fq.Queue().AppendedSeq() + 3) }})
	s.parkRound(rng, 0, nil)
	s.doSync()
	s.doGC(rng)
}

func (s *sim) caseParkedRandom(rng *rand.Rand) {
	ng := 2
	for g := 0; g < ng; g++ {
		s.doCreate(g)
	}
	for k := rng.Intn(10) + 3; k > 0; k-- {
		s.doAppend(rng.Intn(40) + 1)
	}
	for k := rng.Intn(8); k > 0; k-- {
		s.doConsume(1)
	}
	if h := s.gs[1]; h.ConsumedSeq() >= 0 {
		s.doAck(1, rng.Int63n(h.ConsumedSeq()+1))
	}
	rounds := 1 + rng.Intn(3)
	for r := 0; r < rounds && !s.dead; r++ {
		g := 0
		s.unpause(g)
		h := s.gs[g]
		if h == nil {
			return
		}
		for !s.dead && h.ConsumedSeq()+1 <= s.fq.Queue().AppendedSeq() {
			s.doConsume(g)
		}
		if lo, hi := h.AcknowledgedSeq(), h.ConsumedSeq(); hi >= lo && rng.Intn(2) == 0 {
			s.doAck(g, lo+rng.Int63n(hi-lo+1))
		}
		if rng.Intn(3) == 0 {
			s.doSync()
		}
		if rng.Intn(4) == 0 { // index reset before the call parks
			s.doSetAppended(s.fq.Queue().AppendedSeq() - int64(rng.Intn(4)))
		}
		var mids []func()
		for k := rng.Intn(4); k > 0; k-- {
			switch e := rng.Intn(12); {
			case e < 4: // rewind / reposition
				mids = append(mids, func() {
					lo, hi := h.AcknowledgedSeq(), s.fq.Queue().AppendedSeq()
					switch x := rng.Intn(4); {
					case x < 2 && hi >= lo:
						s.doSetConsumed(g, lo+rng.Int63n(hi-lo+1))
					case x == 2:
						s.doSetConsumed(g, h.ConsumedSeq())
					default:
						s.doSetConsumed(g, int64(rng.Intn(int(hi+4)+1))-1)
					}
				})
			case e < 7: // index reset
				mids = append(mids, func() {
					app := s.fq.Queue().AppendedSeq()
					if rng.Intn(3) == 0 {
						s.doSetAppended(app + int64(rng.Intn(4)))
					} else {
						s.doSetAppended(app - int64(rng.Intn(5)))
					}
				})
			case e == 7:
				mids = append(mids, func() { s.doSetSeq(g, int64(rng.Intn(int(s.fq.Queue().AppendedSeq()+3)+1))-1) })
			case e == 8:
				mids = append(mids, func() {
					if lo, hi := h.AcknowledgedSeq(), h.ConsumedSeq(); hi >= lo {
						s.doAck(g, lo+rng.Int63n(hi-lo+1))
					}
				})
			case e == 9:
				mids = append(mids, func() { s.doConsume(1) })
			case e == 10:
				mids = append(mids, func() { s.doSync() })
			default:
				mids = append(mids, func() {
					if h1 := s.gs[1]; h1 != nil && h1.ConsumedSeq() >= h1.AcknowledgedSeq() {
						s.doAck(1, h1.AcknowledgedSeq()+rng.Int63n(h1.ConsumedSeq()-h1.AcknowledgedSeq()+1))
					}
				})
			}
		}
		s.parkRound(rng, g, mids)
		for k := rng.Intn(3); k > 0 && !s.dead; k-- {
			s.doConsume(g)
		}
	}
	if !s.dead {
		s.doSync()
		s.doGC(rng)
		s.pages()
	}
}

// ---- races at lock granularity, realised by parking one meta-page store (gate.go)

// doCreateSync: GetOrCreateConsumerGroup(g) is parked at its first meta-page store (it has read
// the queue ack and, in the pinned source, holds lock4map); this goroutine acknowledges on the
// other groups; a third goroutine calls Sync + GC (blocked on lock4map in the pinned source);
// then the store is released. One protocol line: the model runs create; sync; gc.
func (s *sim) doCreateSync(g int, rng *rand.Rand, acks func()) {
	if _, live := s.gs[g]; live || s.dead || s.park != nil || s.dormant[g] {
		return
	}
	gt := armGate(fmt.Sprintf("/cg/%d/", g))
	defer disarmGate()
	type cres struct {
		h   queue.ConsumerGroup
		err error
	}
	ach := make(chan cres, 1)
	go func() {
		defer func() {
			if r := recover(); r != nil {
				ach <- cres{nil, fmt.Errorf("panic: %v", r)}
			}
		}()
		h, err := s.fq.GetOrCreateConsumerGroup(strconv.Itoa(g))
		ach <- cres{h, err}
	}()
	if !gt.waitHit(3 * time.Second) {
		gt.open()
		<-ach
		s.dead = true
		s.c.Branch("race/create-not-observed(case abandoned)")
		return
	}
	if acks != nil {
		acks()
	}
	bdone := make(chan struct{})
	go func() {
		defer close(bdone)
		defer func() { _ = recover() }()
		s.fq.Sync()
		s.fq.Queue().GC()
	}()
	s.c.Branch("race/create-sync-" + waitDoneOrBlocked(bdone, "sync.RWMutex.RLock", "fanOutQueue).Sync", 300*time.Millisecond))
	s.op("createsync", g, 0, fmt.Sprintf("createsync %d", g), func() string {
		gt.open()
		var r cres
		select {
		case r = <-ach:
		case <-time.After(20 * time.Second):
			s.fail("race-create-not-finished", "GetOrCreateConsumerGroup(%d) did not return within 20s after its store was released", g)
			s.dead = true
			return "timeout"
		}
		select {
		case <-bdone:
		case <-time.After(20 * time.Second):
			s.fail("race-sync-not-finished", "Sync+GC did not return within 20s")
			s.dead = true
			return "timeout"
		}
		if r.err != nil {
			return "err:" + r.err.Error()
		}
		s.gs[g] = r.h
		s.paused[g] = false
		return "ok"
	})
	s.readable("createsync", rng)
}

// doAckConsume: Ack(n) (n inside the window) is parked at its first meta-page store (in the pinned
// source it holds lock4headSeq.RLock); Consume of the same group runs on another goroutine (blocked
// on the write lock in the pinned source); then the store is released. The model runs ack; consume.
func (s *sim) doAckConsume(g int, n int64) {
	h, ok := s.gs[g]
	if !ok || s.dead || s.park != nil || s.paused[g] || h.ConsumedSeq()+1 > s.fq.Queue().AppendedSeq() ||
		n < h.AcknowledgedSeq() || n > h.ConsumedSeq() {
		return
	}
	pre := s.snap()
	gt := armGate(fmt.Sprintf("/cg/%d/", g))
	defer disarmGate()
	adone := make(chan struct{})
	go func() {
		defer close(adone)
		defer func() { _ = recover() }()
		h.Ack(n)
	}()
	if !gt.waitHitOr(adone, 3*time.Second) {
		gt.open()
		<-adone
		s.dead = true
		s.c.Branch("race/ack-not-observed(case abandoned)")
		return
	}
	bch := make(chan int64, 1)
	bdone := make(chan struct{})
	go func() {
		defer close(bdone)
		defer func() {
			if r := recover(); r != nil {
				bch <- -99
			}
		}()
		bch <- h.Consume()
	}()
	s.c.Branch("race/ack-consume-" + waitDoneOrBlocked(bdone, "sync.RWMutex.Lock", "consumerGroup).consume", 300*time.Millisecond))
	s.preSnap = &pre
	s.op("ackconsume", g, n, fmt.Sprintf("ackconsume %d %d", g, n), func() string {
		gt.open()
		select {
		case <-adone:
		case <-time.After(20 * time.Second):
			s.fail("race-ack-not-finished", "Ack did not return within 20s after its store was released")
			s.dead = true
			return "timeout"
		}
		select {
		case v := <-bch:
			if v == -99 {
				panic("Consume panicked")
			}
			return strconv.FormatInt(v, 10)
		case <-time.After(20 * time.Second):
			s.fail("race-consume-not-finished", "Consume did not return within 20s")
			s.dead = true
			return "timeout"
		}
	})
}

// ackOthers acknowledges, on every live group, up to its consumed position (no map lock needed).
func (s *sim) ackOthers(rng *rand.Rand, all bool) {
	ids := make([]int, 0, len(s.gs))
	for id := range s.gs {
		ids = append(ids, id)
	}
	sort.Ints(ids)
	for _, id := range ids {
		h := s.gs[id]
		lo, hi := h.AcknowledgedSeq(), h.ConsumedSeq()
		if hi < lo || (!all && rng.Intn(3) == 0) {
			continue
		}
		n := hi
		if !all && rng.Intn(3) == 0 {
			n = lo + rng.Int63n(hi-lo+1)
		}
		s.doAck(id, n)
	}
}

// caseRaceFixed: the schedules of the seeded changes c06-4 and c06-6, deterministically.
func (s *sim) caseRaceFixed(rng *rand.Rand) {
	s.doCreate(0)
	for i := 0; i < 12; i++ {
		s.doAppend(i + 1)
	}
	for i := 0; i < 11; i++ {
		s.doConsume(0)
	}
	// group 1 is being created while group 0 acknowledges 10 and Sync + GC are called
	s.doCreateSync(1, rng, func() { s.doAck(0, 10) })
	s.doConsume(1)
	if h := s.gs[1]; h != nil && !s.dead {
		s.get(h.ConsumedSeq())
	}
	s.doSync()
	// Ack ‖ Consume on group 0, then reopen: the consumed position must survive
	s.doAckConsume(0, 10)
	s.doReopen(rng)
	s.doConsume(0)
	// the same followed by stop + create
	s.doAppend(3)
	s.doAppend(4)
	s.doAckConsume(1, s.gs[1].AcknowledgedSeq())
	s.doStop(1)
	s.doCreate(1)
	s.doConsume(1)
	// a stopped group is re-created while the others move on
	s.doStop(1)
	for s.gs[0].ConsumedSeq() < s.fq.Queue().AppendedSeq() && !s.dead {
		s.doConsume(0)
	}
	s.doCreateSync(1, rng, func() { s.ackOthers(rng, true) })
	s.doSync()
	s.doGC(rng)
	s.doReopen(rng)
	s.pages()
}

func (s *sim) caseRaceRandom(rng *rand.Rand) {
	ng := 3
	s.doCreate(0)
	if rng.Intn(2) == 0 {
		s.doCreate(1)
	}
	for k := rng.Intn(10) + 4; k > 0; k-- {
		s.doAppend(rng.Intn(40) + 1)
	}
	live := func() []int {
		ids := make([]int, 0, len(s.gs))
		for id := range s.gs {
			ids = append(ids, id)
		}
		sort.Ints(ids)
		return ids
	}
	rounds := 3 + rng.Intn(6)
	for r := 0; r < rounds && !s.dead; r++ {
		ids := live()
		// some sequential progress
		for k := rng.Intn(6); k > 0 && len(ids) > 0; k-- {
			s.doConsume(ids[rng.Intn(len(ids))])
		}
		if rng.Intn(3) == 0 {
			s.doAppend(rng.Intn(40) + 1)
			s.doAppend(rng.Intn(40) + 1)
		}
		switch e := rng.Intn(10); {
		case e < 4: // create (new or stopped group) ‖ ack + Sync + GC
			g := rng.Intn(ng)
			if _, ok := s.gs[g]; ok {
				if len(s.gs) > 1 && rng.Intn(2) == 0 {
					s.doStop(g)
				} else {
					g = -1
				}
			}
			if g >= 0 {
				s.doCreateSync(g, rng, func() { s.ackOthers(rng, rng.Intn(2) == 0) })
				if rng.Intn(2) == 0 {
					s.doConsume(g)
					if h := s.gs[g]; h != nil && h.ConsumedSeq() >= 0 && !s.dead {
						s.get(h.ConsumedSeq())
					}
				}
			}
		case e < 8: // Ack ‖ Consume, then what reopen / re-create restores
			if len(ids) > 0 {
				g := ids[rng.Intn(len(ids))]
				h := s.gs[g]
				if rng.Intn(3) == 0 {
					s.rewindRound(rng, g) // round 12: SetConsumedSeq inside the window against Ack
				} else if lo, hi := h.AcknowledgedSeq(), h.ConsumedSeq(); hi >= lo {
					s.doAckConsume(g, lo+rng.Int63n(hi-lo+1))
				}
				switch rng.Intn(3) {
				case 0:
					s.doReopen(rng)
				case 1:
					s.doStop(g)
					s.doCreate(g)
				}
			}
		case e == 8:
			s.doSync()
			s.doGC(rng)
		default:
			s.doReopen(rng)
		}
	}
	if !s.dead {
		s.doSync()
		s.doGC(rng)
		s.doReopen(rng)
		s.pages()
	}
}

// doReopenLazy: Close ; NewFanOutQueue ; ConsumerGroupNames — no group is looked up.
func (s *sim) doReopenLazy(rng *rand.Rand) {
	if s.park != nil {
		return
	}
	s.op("reopenlazy", -1, 0, "reopenlazy", func() string {
		s.close()
		if err := s.openMode(true); err != nil {
			panic(err)
		}
		ids := make([]int, 0, len(s.dormant))
		for id := range s.dormant {
			ids = append(ids, id)
		}
		sort.Ints(ids)
		ss := make([]string, len(ids))
		for i, id := range ids {
			ss[i] = strconv.Itoa(id)
		}
		return "ok names=" + strings.Join(ss, ",")
	})
	s.c.Branch("reopen-lazy")
	s.readable("reopen", rng)
}

// doReopenFault: Close; NewFanOutQueue with a one-shot failure to open group g's meta directory
// (the start-up must fail); retry. Judged like a reopen: nothing may have moved, no group missing.
func (s *sim) doReopenFault(g int, rng *rand.Rand) {
	if _, has := s.meta[g]; !has || s.park != nil || s.dead {
		return
	}
	s.op("reopen", g, 0, fmt.Sprintf("reopenfault %d", g), func() string {
		s.close()
		armFault(fmt.Sprintf("/cg/%d/", g))
		fq, err := queue.NewFanOutQueue(s.dir, 1024)
		fired := disarmFault()
		if err == nil {
			if aerr := s.adopt(fq, false); aerr != nil {
				panic(aerr)
			}
			if fired {
				return "started-without-group"
			}
			return "ok-no-fault"
		}
		if err := s.open(); err != nil {
			panic(err)
		}
		return "retried"
	})
	s.c.Branch("reopen-fault")
	s.readable("reopen", rng)
}

// caseFaultFixed: the schedule of seeded change c06-15.
func (s *sim) caseFaultFixed(rng *rand.Rand) {
	s.doCreate(0)
	s.doCreate(1)
	for i := 0; i < 12; i++ {
		s.doAppend(i + 1)
	}
	for i := 0; i < 11; i++ {
		s.doConsume(0)
	}
	s.doAck(0, 10)
	for i := 0; i < 4; i++ {
		s.doConsume(1)
	}
	s.doAck(1, 2)
	s.doSync()
	s.doReopenFault(1, rng) // the group with the smallest ack cannot be opened at start-up
	s.doSync()
	s.doGC(rng)
	s.get(3)
	s.doCreate(1)
	s.doConsume(1)
	s.doReopenFault(0, rng)
	s.doSync()
	s.pages()
}

// lookupAll looks up every group that is still dormant (ascending).
func (s *sim) lookupAll() {
	ids := make([]int, 0, len(s.dormant))
	for id := range s.dormant {
		ids = append(ids, id)
	}
	sort.Ints(ids)
	for _, id := range ids {
		s.doCreate(id)
	}
}

// caseLazyFixed: the schedule of seeded change c06-8 — two groups with different acks, reopen,
// the faster one is looked up, Sync + GC, then the slower one.
func (s *sim) caseLazyFixed(rng *rand.Rand) {
	s.doCreate(0)
	s.doCreate(1)
	for i := 0; i < 12; i++ {
		s.doAppend(i + 1)
	}
	for i := 0; i < 11; i++ {
		s.doConsume(0)
	}
	s.doAck(0, 10)
	for i := 0; i < 4; i++ {
		s.doConsume(1)
	}
	s.doAck(1, 2)
	s.doSync()
	s.doReopenLazy(rng)
	s.doSync() // nobody looked up yet
	s.doCreate(0)
	s.doConsume(0)
	s.doSync()
	s.doGC(rng)
	s.get(3)
	s.doCreate(1)
	s.doConsume(1)
	if h := s.gs[1]; h != nil && !s.dead {
		s.get(h.ConsumedSeq())
	}
	s.doSync()
	s.doGC(rng)
	s.pages()
}

// scratch returns a fresh scratch directory; cases that write whole data pages prefer a
// memory-backed file system when there is one.
func scratch(big bool) (string, error) {
	// every case lives on the memory-backed file system when there is one with room: the queue
	// msyncs a page on every Ack / Sync, which on a disk costs 80 % of the area's run time (and far
	// more on a loaded machine). What reaches the disk is C05's subject, not C06's.
	_ = big
	{
		var fs syscall.Statfs_t
		if st, err := os.Stat("/dev/shm"); err == nil && st.IsDir() && syscall.Statfs("/dev/shm", &fs) == nil && uint64(fs.Bavail)*uint64(fs.Bsize) >= 2<<30 {
			if d, err := os.MkdirTemp("/dev/shm", "lvh-c06-*"); err == nil {
				return d, nil
			}
		}
	}
	return os.MkdirTemp("", "lvh-c06-*")
}

// sweepStaleScratch removes scratch directories a killed run left on the memory-backed file system
// (older than 30 minutes: a concurrent run's directories live for seconds).
func sweepStaleScratch() {
	ds, _ := filepath.Glob("/dev/shm/lvh-c06-*")
	for _, d := range ds {
		if st, err := os.Stat(d); err == nil && time.Since(st.ModTime()) > 30*time.Minute {
			os.RemoveAll(d)
		}
	}
}

func (a area) Run(c *core.Ctx) error {
	// a store into a page that GC unmapped would otherwise kill the process: make it a panic of this
	// goroutine (all queue calls are made synchronously from it), reported as an oracle failure
	defer debug.SetPanicOnFault(debug.SetPanicOnFault(true))
	defer installSeam()()
	sweepStaleScratch()
	for i := 0; i < c.N; i++ {
		if !c.Want(i) {
			continue
		}
		c.Begin(i)
		rng := c.Rng(i)
		kind := caseKind(i, c.Tier, rng)
		dir, err := scratch(kind == "pages" || kind == "pages-reopen" || kind == "index-pages-many")
		if err != nil {
			return err
		}
		s := &sim{c: c, dir: dir, meta: map[int]gpos{}, appearOK: -1}
		if err := s.open(); err != nil {
			os.RemoveAll(dir)
			return err
		}
		c.Op("reset", "ok")
		c.Branch("case/" + kind)
		func() {
			defer func() {
				if r := recover(); r != nil {
					c.Fail("panic", fmt.Sprintf("case %d (%s) panicked outside an operation: %v", i, kind, r))
				}
			}()
			switch kind {
			case "witness-late-reopen":
				s.witnessLateReopen()
			case "witness-stop-recreate":
				s.witnessStopRecreate()
			case "pages":
				s.casePages(rng, i)
			case "pages-reopen":
				s.casePagesReopen(rng)
			case "index-pages":
				s.caseIndexPages(rng)
			case "index-pages-many":
				s.caseIndexPagesMany(rng)
			case "reset-persist":
				s.caseResetPersist(rng)
			case "parked-fixed":
				s.caseParkedFixed(rng)
			case "parked-forward":
				s.caseParkedForward(rng)
			case "parked":
				s.caseParkedRandom(rng)
			case "race-fixed":
				s.caseRaceFixed(rng)
			case "round8-fixed":
				s.caseRound8Fixed(rng)
			case "round8":
				s.caseRound8Random(rng)
			case "msync-fixed":
				s.caseMsyncFixed(rng)
			case "msync":
				s.caseMsyncRandom(rng)
			case "woken-fixed":
				s.caseWokenFixed(rng)
			case "woken":
				s.caseWokenRandom(rng)
			case "lazy-fixed":
				s.caseLazyFixed(rng)
			case "fault-fixed":
				s.caseFaultFixed(rng)
			case "race":
				s.caseRaceRandom(rng)
			case "rewind-fixed":
				s.caseRewindFixed(rng)
			default:
				s.caseRandom(rng, kind)
			}
		}()
		if s.nops >= 5 && !s.dead {
			c.NonTrivial()
		}
		s.releaseWoken()
		s.release()
		s.close()
		os.RemoveAll(dir)
	}
	return nil
}

func caseKind(i int, tier string, rng *rand.Rand) string {
	switch i {
	case 0:
		return "witness-late-reopen"
	case 1:
		return "witness-stop-recreate"
	case 2:
		return "pages"
	case 3:
		if tier == "thorough" {
			return "index-pages"
		}
	case 4:
		return "parked-fixed"
	case 5:
		return "parked-forward"
	case 6:
		return "race-fixed"
	case 7:
		return "lazy-fixed"
	case 8:
		return "index-pages-many"
	case 9:
		return "reset-persist"
	case 10:
		return "fault-fixed"
	case 11:
		return "round8-fixed"
	case 12:
		return "msync-fixed"
	case 13:
		return "woken-fixed"
	case 14:
		return "rewind-fixed"
	case 15:
		return "pages-reopen"
	}
	if tier == "thorough" && i%40 == 7 {
		return "pages"
	}
	if tier == "thorough" && i%80 == 27 {
		return "pages-reopen"
	}
	switch r := rng.Intn(100); {
	case r < 10:
		return "parked"
	case r < 20:
		return "race"
	case r < 28:
		return "round8"
	case r < 36:
		return "msync"
	case r < 43:
		return "woken"
	case r < 61:
		return "random"
	case r < 70:
		return "random-early-groups" // all groups created before the first append, none stopped
	case r < 82:
		return "random-reopen-heavy"
	default:
		return "random-resets"
	}
}

// ---- deterministic witness cases (Props/C06.lean, namespace Neg)

// witnessLateReopen = Neg.witnessLate: group 1 is created after the queue ack reached 10.
func (s *sim) witnessLateReopen() {
	s.doCreate(0)
	for i := 0; i < 12; i++ {
		s.doAppend(1)
	}
	for i := 0; i < 11; i++ {
		s.doConsume(0)
	}
	s.doAck(0, 10)
	s.doSync()
	s.doCreate(1) // (-1,-1) although the queue ack is 10
	s.doConsume(1)
	s.get(0) // what group 1 was just handed is not readable
	for i := 0; i < 5; i++ {
		s.doConsume(1)
	}
	s.doAck(1, 3)
	s.doSync()
	s.doReopen(rand.New(rand.NewSource(1))) // group 1 comes back as consumed=5, ack=10
	s.doConsume(1)
	s.get(6)
}

// witnessStopRecreate = Neg.witnessStop: no late group; group 1 is stopped, the others move on.
func (s *sim) witnessStopRecreate() {
	s.doCreate(0)
	s.doCreate(1)
	for i := 0; i < 12; i++ {
		s.doAppend(1)
	}
	for i := 0; i < 6; i++ {
		s.doConsume(1)
	}
	s.doAck(1, 3)
	s.doStop(1)
	for i := 0; i < 11; i++ {
		s.doConsume(0)
	}
	s.doAck(0, 10)
	s.doSync()
	s.doCreate(1) // restored from its meta page as consumed=5, ack=10
	s.doConsume(1)
	s.get(6)
}

// ---- page-granular GC

func (s *sim) casePages(rng *rand.Rand, i int) {
	nbig := 3
	if s.c.Tier == "thorough" {
		nbig = 3 + rng.Intn(2)
	}
	ng := 2
	for g := 0; g < ng; g++ {
		s.doCreate(g)
	}
	small := func() {
		for k := rng.Intn(3) + 1; k > 0; k-- {
			s.doAppend(rng.Intn(40) + 1)
		}
	}
	small()
	for b := 0; b < nbig; b++ {
		s.doAppend(bigLen + rng.Intn(1000))
		small()
	}
	s.pages()
	app := s.fq.Queue().AppendedSeq()
	// move the groups forward in a few rounds; sync + gc after each
	for round := 0; round < 4 && !s.dead; round++ {
		for g := 0; g < ng; g++ {
			h := s.gs[g]
			lo := h.ConsumedSeq()
			if lo >= app {
				continue
			}
			to := lo + 1 + rng.Int63n(app-lo)
			if rng.Intn(2) == 0 {
				for h.ConsumedSeq() < to {
					s.doConsume(g)
				}
			} else {
				s.doSetConsumed(g, to) // inside [ack, appended]
			}
			s.doAck(g, h.AcknowledgedSeq()+rng.Int63n(h.ConsumedSeq()-h.AcknowledgedSeq()+1))
		}
		s.doSync()
		s.doGC(rng)
		s.pages()
		ack := s.fq.Queue().AcknowledgedSeq()
		for _, m := range []int64{ack - 1, ack, ack + 1, app, app + 1} {
			s.get(m)
		}
		if round == 1 || rng.Intn(3) == 0 {
			s.doReopen(rng)
			s.pages()
			s.doAppend(rng.Intn(40) + 1)
			app = s.fq.Queue().AppendedSeq()
		}
	}
	for g := 0; g < ng; g++ {
		s.doSetConsumed(g, app)
		s.doAck(g, app)
	}
	s.doSync()
	s.doGC(rng)
	s.pages()
	s.doAppend(5)
	s.get(app + 1)
	s.c.Branch("pages/big-appends")
}

// caseIndexPages crosses an index page (262144 items): thorough tier only.
func (s *sim) caseIndexPages(rng *rand.Rand) {
	s.doCreate(0)
	s.doCreate(1)
	s.doAppendN(262100+rng.Intn(40), 1)
	for i := 0; i < 100; i++ {
		s.doAppend(rng.Intn(8) + 1)
	}
	s.pages()
	app := s.fq.Queue().AppendedSeq()
	s.doSetConsumed(0, 262140)
	s.doAck(0, 262140)
	s.doSetConsumed(1, 262150)
	s.doAck(1, 262150)
	s.doSync()
	s.doGC(rng)
	s.pages()
	s.doSetConsumed(0, app-3)
	s.doAck(0, 262144)
	s.doSync()
	s.doGC(rng) // index page 0 goes
	s.pages()
	for _, m := range []int64{262143, 262144, 262145, 262150, 262151, app, app + 1} {
		s.get(m)
	}
	s.doReopen(rng)
	s.pages()
	s.doAppend(3)
	s.doConsume(0)
	s.doAck(0, app-2)
	s.doAck(1, 262150)
	s.doSync()
	s.doGC(rng)
	s.get(app + 1)
}

// caseIndexPagesMany: eleven index pages (ids 0..10, two decimal digits), so that the directory
// order of the page files differs from their numeric order after a reopen. Bulk one-byte appends.
func (s *sim) caseIndexPagesMany(rng *rand.Rand) {
	const ipp = 262144
	s.doCreate(0)
	s.doCreate(1)
	s.doAppendN(10*ipp+40+rng.Intn(100), 1) // appended lies in index page 10
	s.pages()
	app := s.fq.Queue().AppendedSeq()
	// into page 9, GC (pages 0..8 go), reopen with 9.bat and 10.bat on disk
	p9 := int64(9*ipp + 5 + rng.Intn(1000))
	s.doSetConsumed(0, p9+10)
	s.doAck(0, p9)
	s.doSetConsumed(1, app)
	s.doAck(1, p9+3)
	s.doSync()
	s.doGC(rng)
	s.pages()
	s.doReopen(rng)
	s.pages()
	// into page 10, GC (page 9 goes, page 10 must stay), read back
	p10 := int64(10*ipp + 3 + rng.Intn(20))
	s.doSetConsumed(0, p10+5)
	s.doAck(0, p10)
	s.doAck(1, p10+2)
	s.doSync()
	s.doGC(rng)
	s.pages()
	for _, m := range []int64{p10 - 1, p10, p10 + 1, app, app + 1} {
		s.get(m)
	}
	s.doAppend(3)
	s.doReopen(rng)
	s.pages()
	s.doConsume(0)
	s.get(s.fq.Queue().AppendedSeq())
}

// caseResetPersist: explicit resets followed by close/reopen before any new Ack — the reset is
// exempt from the ordering clause, not from persistence (seeded change c06-11).
func (s *sim) caseResetPersist(rng *rand.Rand) {
	s.doCreate(0)
	s.doCreate(1)
	for i := 0; i < 10; i++ {
		s.doAppend(i + 1)
	}
	for i := 0; i < 10; i++ {
		s.doConsume(0)
	}
	s.doAck(0, 9)
	for i := 0; i < 5; i++ {
		s.doConsume(1)
	}
	s.doAck(1, 3)
	s.doSetAppended(4) // backwards, below group 0's persisted ack
	s.doReopen(rng)
	s.doAppend(7)
	s.doConsume(0)
	s.doSetSeq(1, 2) // SetSeq on one group, below the queue ack
	s.doReopen(rng)
	s.doSetConsumed(0, 1) // out of window
	s.doReopenLazy(rng)
	s.lookupAll()
	s.doSync()
	s.pages()
}

// ---- random histories

func (s *sim) caseRandom(rng *rand.Rand, kind string) {
	ng := 2 + rng.Intn(2)
	if s.c.Tier == "thorough" && rng.Intn(3) == 0 {
		ng = 4
	}
	nops := 15 + rng.Intn(45)
	if s.c.Tier == "thorough" {
		nops = 20 + rng.Intn(130)
	}
	early := kind == "random-early-groups"
	resets := kind == "random-resets"
	reopenHeavy := kind == "random-reopen-heavy"
	if early {
		for g := 0; g < ng; g++ {
			s.doCreate(g)
		}
	} else {
		s.doCreate(0)
		if rng.Intn(2) == 0 {
			s.doCreate(1)
		}
	}
	pickLive := func() (int, bool) {
		if len(s.gs) == 0 {
			return 0, false
		}
		ids := make([]int, 0, len(s.gs))
		for id := range s.gs {
			ids = append(ids, id)
		}
		sort.Ints(ids)
		return ids[rng.Intn(len(ids))], true
	}
	for k := 0; k < nops && !s.dead; k++ {
		r := rng.Intn(100)
		g, ok := pickLive()
		switch {
		case r < 24:
			for j := rng.Intn(4) + 1; j > 0; j-- {
				s.doAppend(rng.Intn(64))
			}
		case r < 50:
			if ok {
				for j := rng.Intn(4) + 1; j > 0; j-- {
					s.doConsume(g)
				}
			}
		case r < 66:
			if ok {
				h := s.gs[g]
				lo, hi := h.AcknowledgedSeq(), h.ConsumedSeq()
				var n int64
				switch e := rng.Intn(10); {
				case e < 5 && hi >= lo:
					n = lo + rng.Int63n(hi-lo+1)
					s.c.Branch("ack/inside")
				case e == 5:
					n = lo
					s.c.Branch("ack/at-ack")
				case e == 6:
					n = hi
					s.c.Branch("ack/at-consumed")
				case e == 7:
					n = hi + 1 + int64(rng.Intn(3))
					s.c.Branch("ack/above")
				case e == 8:
					n = lo - 1 - int64(rng.Intn(3))
					s.c.Branch("ack/below")
				default:
					n = int64(rng.Intn(40)) - 3
					s.c.Branch("ack/random")
				}
				s.doAck(g, n)
			}
		case r < 70:
			if ok {
				h := s.gs[g]
				lo, hi := h.AcknowledgedSeq(), s.fq.Queue().AppendedSeq()
				if resets && rng.Intn(3) == 0 {
					s.doSetConsumed(g, int64(rng.Intn(40))-3)
				} else if hi >= lo {
					s.doSetConsumed(g, lo+rng.Int63n(hi-lo+1))
				}
			}
		case r < 79:
			s.doSync()
		case r < 85:
			s.doSync()
			s.doGC(rng)
			ack, app := s.fq.Queue().AcknowledgedSeq(), s.fq.Queue().AppendedSeq()
			for _, m := range []int64{ack, ack + 1, app, app + 1} {
				s.get(m)
			}
		case r < 90:
			if g2 := rng.Intn(ng); !early || s.dormant[g2] {
				s.doCreate(g2)
			}
		case r < 93:
			if ok && !early {
				s.doStop(g)
			}
		case r < 95:
			if ok {
				s.doPause(g)
				s.doConsume(g)
			}
		case r < 97:
			if resets {
				if rng.Intn(2) == 0 && ok {
					s.doSetSeq(g, int64(rng.Intn(30))-1)
				} else {
					app := s.fq.Queue().AppendedSeq()
					var n int64
					switch rng.Intn(3) {
					case 0:
						n = app - int64(rng.Intn(6))
					case 1:
						n = app + int64(rng.Intn(6))
					default:
						n = int64(rng.Intn(30)) - 1
					}
					s.doSetAppended(n)
				}
			} else {
				s.get(int64(rng.Intn(40)) - 2)
			}
		default:
			switch x := rng.Intn(6); {
			case x < 2:
				s.doReopenLazy(rng)
			case x == 2:
				s.doReopenFault(rng.Intn(ng), rng)
			default:
				s.doReopen(rng)
			}
		}
		if reopenHeavy && !s.dead && rng.Intn(2) == 0 {
			if rng.Intn(3) == 0 {
				s.doReopenLazy(rng)
			} else {
				s.doReopen(rng)
			}
		}
		if len(s.dormant) > 0 && len(s.gs) == 0 && rng.Intn(2) == 0 && !s.dead {
			s.lookupAll() // nothing can be addressed otherwise
		}
	}
	if !s.dead {
		s.doSync()
		s.doGC(rng)
		s.lookupAll()
		s.doSync()
		s.pages()
	}
}
