// Package c18 drives coordinator/master's shard assignment and the master's storage-state
// machine (real code) and mirrors every operation in the C18 line protocol.
package c18

import (
	"context"
	"encoding/json"
	"fmt"
	"math/rand"
	"sort"
	"strconv"
	"strings"
	"sync"
	"sync/atomic"
	"time"

	"github.com/lindb/lindb/constants"
	"github.com/lindb/lindb/coordinator/discovery"
	"github.com/lindb/lindb/coordinator/master"
	"github.com/lindb/lindb/models"
	"github.com/lindb/lindb/pkg/state"

	"github.com/lindb/lindb/zzverif/internal/core"
)

type area struct{}

func init() { core.Register(area{}) }

func (area) Name() string { return "master" }

// memRepo is the in-memory stand-in for etcd: only the calls the state manager makes.
// It is used from the harness goroutine and (in burst regions) from the manager's consumer
// goroutine, hence the mutex.
type memRepo struct {
	state.Repository
	mu sync.Mutex
	kv map[string][]byte
	// asgPuts counts successful Puts per key (a Put is what makes etcd emit a watch event)
	asgPuts map[string]int
	// failAsgPut > 0: the failAsgPut-th next Put on a shard-assignment key fails once
	failAsgPut int
	// failStatePut: the next Put on /storage/state fails once
	failStatePut bool
	// failAsgGet: the next Get on a shard-assignment key (not the quiescence marker's) fails once with
	// an error that is NOT state.ErrNotExist (request timed out); failLiveList: the next List of the
	// storage nodes' registration keys fails once. faultKey: the key whose read was failed.
	failAsgGet   bool
	failLiveList bool
	faultKey     string
	// faultFired: an injected fault fired since the harness last cleared the flag
	faultFired bool
	// skipLiveListFault: the quiescence marker's handler is running (its Get was just seen); the List
	// of the registrations it does next is not subject to the list fault
	skipLiveListFault bool
	// watchers: the channel the real discovery loop of the running master reads for each watched
	// prefix (the harness plays etcd: it sends the watch events it wants delivered)
	wmu      sync.Mutex
	watchers map[string]chan *state.Event
	// stall != nil: a Put on /storage/state waits until the channel is closed (slow repository);
	// stalled is signalled when a Put starts waiting
	stall   chan struct{}
	stalled chan struct{}
	// a Get on sentinelKey signals sentinelSeen (quiescence marker of a burst)
	sentinelKey  string
	sentinelSeen chan struct{}
}

var errInjectedPut = fmt.Errorf("verif: injected repository write failure")
var errInjectedGet = fmt.Errorf("verif: injected repository read failure (request timed out)")

func (r *memRepo) Get(_ context.Context, key string) ([]byte, error) {
	r.mu.Lock()
	defer r.mu.Unlock()
	if key == markerAsgKey {
		r.skipLiveListFault = true
	}
	if key == r.sentinelKey && r.sentinelSeen != nil {
		select {
		case r.sentinelSeen <- struct{}{}:
		default:
		}
	}
	if r.failAsgGet && key != markerAsgKey && strings.HasPrefix(key, constants.ShardAssignmentPath+"/") {
		r.failAsgGet = false
		r.faultFired = true
		r.faultKey = key
		return nil, errInjectedGet
	}
	v, ok := r.kv[key]
	if !ok {
		return nil, state.ErrNotExist
	}
	return v, nil
}
func (r *memRepo) List(_ context.Context, prefix string) ([]state.KeyValue, error) {
	r.mu.Lock()
	defer r.mu.Unlock()
	if prefix == constants.StorageLiveNodesPath && r.skipLiveListFault {
		r.skipLiveListFault = false
		return r.listLocked(prefix), nil
	}
	if r.failLiveList && prefix == constants.StorageLiveNodesPath {
		r.failLiveList = false
		r.faultFired = true
		r.faultKey = prefix
		return nil, errInjectedGet
	}
	return r.listLocked(prefix), nil
}

// listLocked: the keys under prefix in key order (caller holds the lock; never subject to faults)
func (r *memRepo) listLocked(prefix string) []state.KeyValue {
	var keys []string
	for k := range r.kv {
		if strings.HasPrefix(k, prefix) {
			keys = append(keys, k)
		}
	}
	sort.Strings(keys)
	var out []state.KeyValue
	for _, k := range keys {
		out = append(out, state.KeyValue{Key: k, Value: r.kv[k]})
	}
	return out
}
func (r *memRepo) Put(_ context.Context, key string, val []byte) error {
	r.mu.Lock()
	if key == constants.StorageStatePath && r.stall != nil {
		ch := r.stall
		select {
		case r.stalled <- struct{}{}:
		default:
		}
		r.mu.Unlock()
		<-ch
		r.mu.Lock()
	}
	defer r.mu.Unlock()
	if r.failAsgPut > 0 && strings.HasPrefix(key, constants.ShardAssignmentPath+"/") {
		r.failAsgPut--
		if r.failAsgPut == 0 {
			r.faultFired = true
			return errInjectedPut
		}
	}
	if r.failStatePut && key == constants.StorageStatePath {
		r.failStatePut = false
		r.faultFired = true
		return errInjectedPut
	}
	r.kv[key] = append([]byte(nil), val...)
	if r.asgPuts != nil {
		r.asgPuts[key]++
	}
	return nil
}
func (r *memRepo) Delete(_ context.Context, key string) error {
	r.mu.Lock()
	defer r.mu.Unlock()
	delete(r.kv, key)
	return nil
}
func (r *memRepo) Close() error { return nil }

// WatchPrefix: the harness plays etcd's watches. The channel the real discovery loop reads from is
// kept per prefix; in "watched" regions the harness sends its events into it (so they travel
// discovery loop -> state machine listener -> StateMachineFactory callback -> EmitEvent), otherwise
// it hands events to the manager directly and the channel stays silent. Closed with the context.
func (r *memRepo) WatchPrefix(ctx context.Context, prefix string, _ bool) state.WatchEventChan {
	ch := make(chan *state.Event)
	r.wmu.Lock()
	if r.watchers == nil {
		r.watchers = map[string]chan *state.Event{}
	}
	r.watchers[prefix] = ch
	r.wmu.Unlock()
	go func() {
		<-ctx.Done()
		r.wmu.Lock()
		if r.watchers[prefix] == ch {
			delete(r.watchers, prefix)
		}
		close(ch)
		r.wmu.Unlock()
	}()
	return ch
}

var errWatchBarrier = fmt.Errorf("verif: watch barrier")

// watchSend delivers one watch event through the discovery loop of the running master. The second
// send (an event carrying an error, which the loop skips) returns only after the loop has come back
// from handling the first one, i.e. after the listener's EmitEvent call has returned.
func (r *memRepo) watchSend(prefix string, ev *state.Event) bool {
	r.wmu.Lock()
	ch := r.watchers[prefix]
	r.wmu.Unlock()
	if ch == nil {
		return false
	}
	for _, e := range []*state.Event{ev, {Err: errWatchBarrier}} {
		select {
		case ch <- e:
		case <-time.After(5 * time.Second):
			return false
		}
	}
	return true
}

// harness-side access (same lock)
func (r *memRepo) set(key string, val []byte) {
	r.mu.Lock()
	defer r.mu.Unlock()
	r.kv[key] = val
}
func (r *memRepo) del(key string) {
	r.mu.Lock()
	defer r.mu.Unlock()
	delete(r.kv, key)
}
func (r *memRepo) raw(key string) ([]byte, bool) {
	r.mu.Lock()
	defer r.mu.Unlock()
	v, ok := r.kv[key]
	return v, ok
}
func (r *memRepo) snapshot(prefix string) map[string]string {
	r.mu.Lock()
	defer r.mu.Unlock()
	out := map[string]string{}
	for k, v := range r.kv {
		if strings.HasPrefix(k, prefix) {
			out[k] = string(v)
		}
	}
	return out
}
func (r *memRepo) puts(key string) int {
	r.mu.Lock()
	defer r.mu.Unlock()
	return r.asgPuts[key]
}

func showReplicas(rs []models.NodeID) string {
	s := make([]string, len(rs))
	for i, r := range rs {
		s[i] = strconv.Itoa(int(r))
	}
	return strings.Join(s, ",")
}

func showAsg(a *models.ShardAssignment) string {
	var ids []int
	for id := range a.Shards {
		ids = append(ids, int(id))
	}
	sort.Ints(ids)
	var parts []string
	for _, id := range ids {
		parts = append(parts, fmt.Sprintf("%d:%s", id, showReplicas(a.Shards[models.ShardID(id)].Replicas)))
	}
	return strings.Join(parts, " ")
}

func showNodes(ns []models.NodeID) string {
	s := make([]string, len(ns))
	for i, n := range ns {
		s[i] = strconv.Itoa(int(n))
	}
	return strings.Join(s, " ")
}

func errKind(err error) string {
	m := err.Error()
	switch {
	case strings.Contains(m, "num. of shard <=0"):
		return "err num-shards"
	case strings.Contains(m, "replica factor <=0"):
		return "err replica-factor"
	case strings.Contains(m, "replica factor > num. of storage nodes"):
		return "err too-few-nodes"
	}
	return "err other:" + m
}

// checkAssignment is the impl-side oracle for one assignment call: every shard in [lo,hi) has
// exactly rf distinct replicas from nodes; first replicas are handed out round-robin.
func checkAssignment(c *core.Ctx, what string, a *models.ShardAssignment, nodes []models.NodeID, rf, lo, hi int) {
	in := map[models.NodeID]bool{}
	for _, n := range nodes {
		in[n] = true
	}
	firsts := map[models.NodeID]int{}
	for s := lo; s < hi; s++ {
		r, ok := a.Shards[models.ShardID(s)]
		if !ok {
			c.Fail("assign-missing-shard", fmt.Sprintf("%s: shard %d missing", what, s))
			continue
		}
		if len(r.Replicas) != rf {
			c.Fail("assign-replica-count", fmt.Sprintf("%s: shard %d has %d replicas, want %d: %v", what, s, len(r.Replicas), rf, r.Replicas))
		}
		seen := map[models.NodeID]bool{}
		for _, n := range r.Replicas {
			if seen[n] {
				c.Fail("assign-duplicate-replica", fmt.Sprintf("%s: shard %d repeats node %d", what, s, n))
			}
			seen[n] = true
			if !in[n] {
				c.Fail("assign-foreign-node", fmt.Sprintf("%s: shard %d uses node %d not in the live list", what, s, n))
			}
		}
		if len(r.Replicas) > 0 {
			firsts[r.Replicas[0]]++
		}
	}
	min, max := 1<<30, 0
	for _, n := range nodes {
		v := firsts[n]
		if v < min {
			min = v
		}
		if v > max {
			max = v
		}
	}
	if len(nodes) > 0 && max-min > 1 {
		c.Fail("assign-roundrobin", fmt.Sprintf("%s: first-replica counts differ by %d (%v)", what, max-min, firsts))
	}
}

func distinctNodes(r *rand.Rand, n int) []models.NodeID {
	p := r.Perm(40)
	out := make([]models.NodeID, n)
	for i := range out {
		out[i] = models.NodeID(p[i])
	}
	return out
}

func (area) Run(c *core.Ctx) error {
	for i := 0; i < c.N; i++ {
		if !c.Want(i) {
			continue
		}
		r := c.Rng(i)
		c.Begin(i)
		switch {
		case i < len(scripts):
			c.Branch("scripted")
			machineRun(c, r, scripts[i])
		case i%2 == 0:
			pureCase(c, r)
		default:
			machineCase(c, r)
		}
	}
	return nil
}

// pureCase: ShardAssignment / ModifyShardAssignment with a fixed start index (model-comparable)
// and with the random start (oracle only).
func pureCase(c *core.Ctx, r *rand.Rand) {
	n := 1 + r.Intn(12)
	maxShards := 40
	if c.Tier == "thorough" && r.Intn(3) == 0 { // larger clusters, many wrap-arounds of the shift
		n = 1 + r.Intn(40)
		maxShards = 250
	}
	nodes := distinctNodes(r, n)
	numShards := 1 + r.Intn(maxShards)
	rf := 1 + r.Intn(n)
	if r.Intn(4) == 0 { // a quarter malformed: one of the three rejected shapes (or a mix)
		switch r.Intn(4) {
		case 0:
			numShards = -r.Intn(3)
		case 1:
			rf = -r.Intn(3)
		case 2:
			rf = n + 1 + r.Intn(3)
		default:
			numShards = r.Intn(5) - 2
			rf = r.Intn(n+3) - 1
		}
	}
	start := r.Intn(n + 3)
	startShard := 0
	if r.Intn(3) == 0 {
		startShard = r.Intn(30)
	}
	cfg := &models.Database{Name: "db", NumOfShard: numShards, ReplicaFactor: rf}
	op := fmt.Sprintf("assign %d %d %d %d %d | %s", start, start, startShard, numShards, rf, showNodes(nodes))
	var asg *models.ShardAssignment
	c.Guard(op, func() string {
		a, err := master.ShardAssignment(nodes, cfg, start, models.ShardID(startShard))
		if err != nil {
			c.Branch("assign-" + errKind(err))
			return errKind(err)
		}
		asg = a
		c.Branch("assign-ok")
		c.NonTrivial()
		checkAssignment(c, op, a, nodes, rf, startShard, startShard+numShards)
		return "ok " + showAsg(a)
	})
	// random start: oracle only
	if rf >= 1 && rf <= n && numShards > 0 {
		func() {
			defer func() {
				if e := recover(); e != nil {
					c.Fail("panic", fmt.Sprintf("ShardAssignment(random start) panicked: %v", e))
				}
			}()
			a, err := master.ShardAssignment(nodes, cfg, -1, -1)
			if err != nil {
				c.Fail("assign-unexpected-error", err.Error())
				return
			}
			c.Branch("assign-random-start")
			checkAssignment(c, "random-start "+op, a, nodes, rf, 0, numShards)
		}()
	}
	// grow: modify the assignment on a (possibly different) live list, as modifyShardAssignment does
	if asg != nil && startShard == 0 {
		n2 := 1 + r.Intn(12)
		nodes2 := distinctNodes(r, n2)
		rf2 := rf
		if r.Intn(5) == 0 {
			rf2 = 1 + r.Intn(n2+1)
		}
		add := r.Intn(20) - 2
		cfg2 := &models.Database{Name: "db", NumOfShard: numShards + add, ReplicaFactor: rf2}
		start2 := r.Intn(n2 + 2)
		before := showAsg(asg)
		op2 := fmt.Sprintf("modify %d %d %d %d %d | %s | %s", start2, start2, numShards, numShards+add, rf2, showNodes(nodes2), before)
		c.Guard(op2, func() string {
			err := master.ModifyShardAssignment(nodes2, cfg2, asg, start2, models.ShardID(numShards))
			if err != nil {
				c.Branch("modify-" + errKind(err))
				return errKind(err)
			}
			c.Branch("modify-ok")
			after := showAsg(asg)
			if !strings.HasPrefix(after, before) {
				c.Fail("grow-moved-existing", fmt.Sprintf("%s: existing shards changed: before %q after %q", op2, before, after))
			}
			checkAssignment(c, op2, asg, nodes2, rf2, numShards, numShards+add)
			return "ok " + after
		})
	}
}

type machine struct {
	repo *memRepo
	mgr  master.StateManager
	live map[int]bool
	dbs  map[int]*models.Database
	// the shard-assignment watch: payloads persisted but not yet delivered (FIFO per database), the
	// last payload delivered per database (for duplicates), and the assignment the manager has been
	// told about and that was not dropped since (what "its replicas" means for a reported shard)
	pending   map[int][][]byte
	lastRaw   map[int][]byte
	delivered map[int]*models.ShardAssignment
	// the assignment the manager held for a database when it was dropped (until the next delivery; evidence counters only)
	dropped map[int]*models.ShardAssignment
	// what the harness last saw persisted for each database (after its last config event; forgotten
	// when the database is dropped): "existing shards" of a grow are judged against this record
	lastPersisted map[int]*models.ShardAssignment
	// the running master: context of the manager, the state-machine factory of a master that took
	// over (nil for the first master of a case, which starts on an empty repository)
	cancel context.CancelFunc
	fct    *master.StateMachineFactory
	// the storage-node watch: registration changes (the ephemeral key /storage/live/nodes/<id> appeared
	// or vanished) whose NodeStartup / NodeFailure event has not been handed to the manager yet, oldest
	// first. "Alive" for PLACEMENT is the registration (what the repository lists when the config event
	// is handled); "alive" for LEADERSHIP is the node-event history the manager was given (m.live).
	nodePending []nodeEv
	// cfgSeq counts handled config events (to tell node events that were overtaken by one)
	cfgSeq int
	// watched: single events are delivered through the running master's real watch path (only a
	// master that took over has state machines; the first master of a case is fed directly)
	watched bool
}

// viaWatch delivers ev through discovery loop -> state machine -> factory callback -> EmitEvent ->
// consumeEvent and waits until the manager has handled it. false: not applicable (fed directly).
func (m *machine) viaWatch(c *core.Ctx, ev *discovery.Event) bool {
	if !m.watched || m.fct == nil {
		return false
	}
	var prefix string
	typ := state.EventTypeModify
	switch ev.Type {
	case discovery.NodeStartup:
		prefix = constants.StorageLiveNodesPath
	case discovery.NodeFailure:
		prefix, typ = constants.StorageLiveNodesPath, state.EventTypeDelete
	case discovery.DatabaseConfigChanged:
		prefix = constants.DatabaseConfigPath
	case discovery.DatabaseConfigDeletion:
		prefix, typ = constants.DatabaseConfigPath, state.EventTypeDelete
	case discovery.ShardAssignmentChanged:
		prefix = constants.ShardAssignmentPath
	default:
		return false
	}
	if !m.repo.watchSend(prefix, &state.Event{Type: typ, KeyValues: []state.EventKeyValue{{Key: ev.Key, Value: ev.Value}}}) {
		c.Fail("watch-delivery-timeout", fmt.Sprintf("%s %s", ev.Type.String(), ev.Key))
		return true
	}
	if !m.quiesce() {
		c.Fail("watch-quiescence-timeout", fmt.Sprintf("%s %s", ev.Type.String(), ev.Key))
	}
	c.Branch("ev-delivered-through-watch-" + ev.Type.String())
	return true
}

type nodeEv struct {
	up     bool
	id     int
	key    string
	data   []byte
	cfgSeq int
}

// regChange changes the registration of a storage node in the repository (ground truth) and queues
// the watch event for it.
func (m *machine) regChange(c *core.Ctx, id int, up bool) {
	key := constants.GetStorageLiveNodePath(strconv.Itoa(id))
	ev := nodeEv{up: up, id: id, key: key, cfgSeq: m.cfgSeq}
	if up {
		node := models.StatefulNode{ID: models.NodeID(id)}
		node.HostIP = "10.0.0." + strconv.Itoa(id)
		ev.data, _ = json.Marshal(&node)
		m.repo.set(key, ev.data)
	} else {
		m.repo.del(key)
	}
	m.nodePending = append(m.nodePending, ev)
}

// deliverNode hands the oldest queued node event to the manager (n < 0: all of them, in order).
func (m *machine) deliverNode(c *core.Ctx, n int) {
	for len(m.nodePending) > 0 && n != 0 {
		ev := m.nodePending[0]
		m.nodePending = m.nodePending[1:]
		n--
		if ev.cfgSeq != m.cfgSeq {
			c.Branch("ev-node-event-overtaken-by-config-event")
		}
		if ev.up {
			if m.live[ev.id] {
				c.Branch("ev-up-already-live")
			} else {
				c.Branch("ev-up")
			}
			m.live[ev.id] = true
			m.event(c, fmt.Sprintf("up %d", ev.id), &discovery.Event{Type: discovery.NodeStartup, Key: ev.key, Value: ev.data}, true)
			m.helpers(c, ev.id, "after up")
		} else {
			switch {
			case !m.live[ev.id]:
				c.Branch("ev-down-not-live")
			case m.leads(ev.id):
				c.Branch("ev-down-leader")
			default:
				c.Branch("ev-down")
			}
			delete(m.live, ev.id)
			m.helpers(c, ev.id, "before down") // what onNodeFailure is about to be told by LeadersOnNode
			m.event(c, fmt.Sprintf("down %d", ev.id), &discovery.Event{Type: discovery.NodeFailure, Key: ev.key}, true)
		}
	}
}

// showOnNode renders a LeadersOnNode / ReplicasOnNode result canonically: databases by number, shard
// ids ascending, databases with an empty list shown as such (the real helpers never produce one).
func showOnNode(res map[string][]models.ShardID) string {
	var ds []int
	for name := range res {
		ds = append(ds, dbID(name))
	}
	sort.Ints(ds)
	var parts []string
	for _, d := range ds {
		ids := append([]models.ShardID(nil), res[dbName(d)]...)
		sort.Slice(ids, func(i, j int) bool { return ids[i] < ids[j] })
		ss := make([]string, len(ids))
		for i, v := range ids {
			ss[i] = strconv.Itoa(int(v))
		}
		parts = append(parts, fmt.Sprintf("%d:%s", d, strings.Join(ss, ",")))
	}
	if len(parts) == 0 {
		return "-"
	}
	return strings.Join(parts, " ")
}

// helpers: the models.StorageState helpers the node handlers are written with, called on the manager's
// real state (any number of databases) — LeadersOnNode(id), ReplicasOnNode(id) — compared with the
// model (ops `leaders` / `replicas`) and judged against their meaning recomputed entry by entry from
// the maps (each database's list is read AFTER the whole result was built: lists sharing memory show
// up here); then the broker-side reading of the state (`qtargets`): every online shard's leader must
// be a key of the live nodes (GetQueryableReplicas reads liveNodes[shardState.Leader]).
func (m *machine) helpers(c *core.Ctx, id int, when string) {
	st := m.mgr.GetStorageState()
	var leaders, replicas map[string][]models.ShardID
	c.Guard(fmt.Sprintf("leaders %d", id), func() string {
		leaders = st.LeadersOnNode(models.NodeID(id))
		return showOnNode(leaders)
	})
	c.Guard(fmt.Sprintf("replicas %d", id), func() string {
		replicas = st.ReplicasOnNode(models.NodeID(id))
		return showOnNode(replicas)
	})
	wantL, wantR := map[string][]models.ShardID{}, map[string][]models.ShardID{}
	for name, ss := range st.ShardStates {
		for sid, s := range ss {
			if s.Leader == models.NodeID(id) {
				wantL[name] = append(wantL[name], sid)
			}
		}
	}
	for name, a := range st.ShardAssignments {
		if a == nil {
			continue
		}
		for sid, rp := range a.Shards {
			if rp != nil && rp.Contain(models.NodeID(id)) {
				wantR[name] = append(wantR[name], sid)
			}
		}
	}
	if g, w := showOnNode(leaders), showOnNode(wantL); g != w {
		c.Fail("leaders-on-node-wrong", fmt.Sprintf("%s %d: LeadersOnNode(%d) = %s but the shard states say %s", when, id, id, g, w))
	}
	if g, w := showOnNode(replicas), showOnNode(wantR); g != w {
		c.Fail("replicas-on-node-wrong", fmt.Sprintf("%s %d: ReplicasOnNode(%d) = %s but the assignments say %s", when, id, id, g, w))
	}
	if len(wantL) >= 2 {
		c.Branch("helpers-leader-of-shards-in-several-databases")
	}
	if len(wantR) >= 2 {
		c.Branch("helpers-replica-in-several-databases")
	}
	// the consumer's reading, for the smallest reported database
	best := -1
	for name := range st.ShardStates {
		if d := dbID(name); best < 0 || d < best {
			best = d
		}
	}
	if best < 0 {
		return
	}
	ss := st.ShardStates[dbName(best)]
	var ids []int
	for sid := range ss {
		ids = append(ids, int(sid))
	}
	sort.Ints(ids)
	var parts []string
	for _, sid := range ids {
		s := ss[models.ShardID(sid)]
		if s.State != models.OnlineShard {
			continue
		}
		if _, ok := st.LiveNodes[s.Leader]; ok {
			parts = append(parts, fmt.Sprintf("%d>%d", sid, int(s.Leader)))
		} else {
			parts = append(parts, fmt.Sprintf("%d>?", sid))
			c.Fail("consumer-leader-not-in-live-nodes", fmt.Sprintf("%s %d: %s shard %d is online with leader %d, which is not a key of LiveNodes (a query would be sent to the zero node)", when, id, dbName(best), sid, s.Leader))
		}
	}
	out := strings.Join(parts, " ")
	if out == "" {
		out = "-"
	}
	c.Op(fmt.Sprintf("qtargets %d", best), out)
}

// registered: the storage nodes whose registration key exists right now.
func (m *machine) registered() map[int]bool {
	out := map[int]bool{}
	for _, id := range m.liveIDs() {
		out[int(id)] = true
	}
	return out
}

// Database names of the machine cases (the model knows databases by number). The names the
// generator uses most are prefix-related on purpose: the repository is a flat key space and
// /database/assign/db1 is a string prefix of /database/assign/db10 and /database/assign/db1_archive.
var dbNames = map[int]string{0: "db1", 1: "db10", 2: "db1_archive"}

func dbName(d int) string {
	if n, ok := dbNames[d]; ok {
		return n
	}
	return "dbx" + strconv.Itoa(d)
}

func dbID(name string) int {
	for d, n := range dbNames {
		if n == name {
			return d
		}
	}
	d, err := strconv.Atoi(strings.TrimPrefix(name, "dbx"))
	if err != nil {
		return -1
	}
	return d
}

func (m *machine) dump() string {
	var dbs []int
	for d := range m.dbs {
		dbs = append(dbs, d)
	}
	sort.Ints(dbs)
	ds := make([]string, len(dbs))
	for i, v := range dbs {
		ds[i] = strconv.Itoa(v)
	}
	live, body := dumpStorage(m.mgr.GetStorageState())
	return fmt.Sprintf("live=%s dbs=%s ", live, strings.Join(ds, ",")) + body
}

// dumpStorage renders a storage state canonically: live node ids, and per database the shard states.
func dumpStorage(st *models.StorageState) (liveStr, body string) {
	var live []int
	for id := range st.LiveNodes {
		live = append(live, int(id))
	}
	sort.Ints(live)
	ls := make([]string, len(live))
	for i, v := range live {
		ls[i] = strconv.Itoa(v)
	}
	var names []int
	for name := range st.ShardStates {
		d := dbID(name)
		names = append(names, d)
	}
	sort.Ints(names)
	var parts []string
	for _, d := range names {
		ss := st.ShardStates[dbName(d)]
		var ids []int
		for id := range ss {
			ids = append(ids, int(id))
		}
		sort.Ints(ids)
		var p []string
		for _, id := range ids {
			s := ss[models.ShardID(id)]
			p = append(p, fmt.Sprintf("%d.%d:%d:%d:%s", d, id, int(s.State), int(s.Leader), showReplicas(s.Replica.Replicas)))
		}
		parts = append(parts, strings.Join(p, " "))
	}
	return strings.Join(ls, ","), strings.Join(parts, " ")
}

// publishedOracle: what brokers and storage nodes read is the copy of the storage state that
// syncState wrote under /storage/state. After an event that the manager handled successfully
// (no injected write fault fired during it) and whose handler publishes (node start-up, node
// failure, assignment change, drop of a known database), the published copy must say what the
// manager holds in memory — same live nodes, same shard states, same assignments.
func (m *machine) publishedOracle(c *core.Ctx, after string) {
	st := m.mgr.GetStorageState()
	raw, ok := m.repo.raw(constants.StorageStatePath)
	if !ok {
		c.Fail("published-state-stale", fmt.Sprintf("after %q: nothing published under %s", after, constants.StorageStatePath))
		return
	}
	pub := models.NewStorageState()
	if err := json.Unmarshal(raw, pub); err != nil {
		c.Fail("published-state-stale", fmt.Sprintf("after %q: published state does not parse: %v", after, err))
		return
	}
	canon := func(s *models.StorageState) string {
		l, b := dumpStorage(s)
		var names []string
		for n := range s.ShardAssignments {
			names = append(names, n)
		}
		sort.Strings(names)
		var as []string
		for _, n := range names {
			if s.ShardAssignments[n] != nil {
				as = append(as, n+"{"+showAsg(s.ShardAssignments[n])+"}")
			}
		}
		return "live=" + l + " states=[" + b + "] assignments=[" + strings.Join(as, " ") + "]"
	}
	if p, q := canon(pub), canon(st); p != q {
		c.Fail("published-state-stale", fmt.Sprintf("after successfully handled %q: published %s but the manager holds %s", after, p, q))
	}
}

// oracle: the C18 statement on the implementation's state.
func (m *machine) oracle(c *core.Ctx, after string) {
	st := m.mgr.GetStorageState()
	// "alive" is what the start-up / failure events say (m.live); LiveNodes must agree with it
	for id := range st.LiveNodes {
		if !m.live[int(id)] {
			c.Fail("live-nodes-not-event-history", fmt.Sprintf("after %q: node %d is in LiveNodes but its last event was a failure (or none)", after, id))
		}
	}
	for id := range m.live {
		if _, ok := st.LiveNodes[models.NodeID(id)]; !ok {
			c.Fail("live-nodes-not-event-history", fmt.Sprintf("after %q: node %d started but is not in LiveNodes", after, id))
		}
	}
	// every shard of every delivered, not-dropped assignment is reported (has a shard state); whether
	// it is online is judged below
	for d, asg := range m.delivered {
		ss := st.ShardStates[dbName(d)]
		for id := range asg.Shards {
			if _, ok := ss[id]; !ok {
				alive := false
				for _, rp := range asg.Shards[id].Replicas {
					alive = alive || m.live[int(rp)]
				}
				c.Fail("assigned-shard-not-reported", fmt.Sprintf("after %q: %s shard %d (replicas %v, alive replica=%v) is assigned but has no shard state", after, dbName(d), id, asg.Shards[id].Replicas, alive))
			}
		}
	}
	for name, ss := range st.ShardStates {
		// "its replicas": the assignment the manager was told about by the last delivered
		// ShardAssignmentChanged event of this database (not the object the manager publishes,
		// which a handler could have modified in place)
		d := dbID(name)
		asg := m.delivered[d]
		for id, s := range ss {
			var replicas []models.NodeID
			if asg != nil && asg.Shards[id] != nil {
				replicas = asg.Shards[id].Replicas
			} else {
				c.Branch("oracle-reported-shard-without-assignment")
			}
			alive := false
			for _, rp := range replicas {
				if m.live[int(rp)] {
					alive = true
				}
			}
			online := s.State == models.OnlineShard
			if online != alive {
				c.Fail("online-iff-alive-replica", fmt.Sprintf("after %q: %s shard %d state=%d but alive-replica=%v", after, name, id, s.State, alive))
			}
			if online {
				leaderAlive := s.Leader >= 0 && m.live[int(s.Leader)]
				isReplica := false
				for _, rp := range replicas {
					if rp == s.Leader {
						isReplica = true
					}
				}
				if !leaderAlive || !isReplica {
					c.Fail("leader-alive-replica", fmt.Sprintf("after %q: %s shard %d leader=%d alive=%v replica=%v", after, name, id, s.Leader, leaderAlive, isReplica))
				}
			} else if s.State == models.OfflineShard && s.Leader != models.NoLeader {
				c.Fail("offline-has-leader", fmt.Sprintf("after %q: %s shard %d offline with leader %d", after, name, id, s.Leader))
			}
		}
	}
}

// event feeds one event synchronously. publishes: the handler of this event ends in syncState.
func (m *machine) event(c *core.Ctx, op string, ev *discovery.Event, publishes bool) {
	m.repo.mu.Lock()
	m.repo.faultFired = false
	m.repo.mu.Unlock()
	c.Guard(op, func() string {
		if !m.viaWatch(c, ev) {
			master.VerifProcessEvent(m.mgr, ev)
		}
		return m.dump()
	})
	m.oracle(c, op)
	m.repo.mu.Lock()
	fired := m.repo.faultFired
	armed := m.repo.failStatePut
	m.repo.failStatePut = false // a state-write fault is for one event only
	m.repo.mu.Unlock()
	switch {
	case fired:
		c.Branch("ev-handled-with-write-fault")
	case publishes:
		m.publishedOracle(c, op)
	}
	if armed && publishes {
		c.Branch("ev-state-fault-not-hit")
	}
}

// evStep is one scheduled event of a state-machine case.
type evStep struct {
	// up | down | cfg | cfgq | deliver | deliverlast | dup | putfail | statefail | burst | failover | drop |
	// register | crash | delivernode (lagging node watch) | getfail | listfail (repository read faults) |
	// cfgshrink (config with fewer shards than persisted) | badcfg | badnode (malformed events)
	kind string
	// up/down: node id; cfg/cfgq: db, shards (create) or extra shards (grow), replica factor;
	// drop/deliver/deliverlast/dup: db; putfail: which of the next assignment Puts fails (1 or 2)
	a, b, c int
	// burst: node events handed to the real EmitEvent back to back while the repository stalls;
	// failover: what happens to the repository while no master is running (down/up: node id, drop: db)
	burst []evStep
}

// scripts are fixed scenarios that run on every seed as the first cases.
// 0-2: repeated start-up of a live node, failure of a node that is not live, failure of a leader
// with / without a surviving replica, restart of the only replica, grow after churn, drop and
// re-create — with prompt delivery of the assignment watch event ("cfg").
// 3-5: the assignment watch lags ("cfgq" persists without delivering, "deliver" hands over the
// oldest undelivered payload): the create's payload arriving after a grow and before the next grow
// (three databases); a payload arriving after the database was dropped, before a re-create with
// another replica factor on other nodes; a failed repository write during a grow followed by
// node failure / start-up.
var scripts = [][]evStep{
	{{"up", 1, 0, 0, nil}, {"up", 2, 0, 0, nil}, {"up", 1, 0, 0, nil}, {"down", 7, 0, 0, nil}, {"cfg", 0, 4, 2, nil}, {"up", 2, 0, 0, nil},
		{"down", 1, 0, 0, nil}, {"down", 1, 0, 0, nil}, {"down", 2, 0, 0, nil}, {"up", 2, 0, 0, nil}, {"up", 2, 0, 0, nil}, {"up", 1, 0, 0, nil},
		{"cfg", 0, 3, 2, nil}, {"down", 2, 0, 0, nil}, {"drop", 0, 0, 0, nil}, {"down", 1, 0, 0, nil}, {"cfg", 0, 2, 1, nil}, {"up", 1, 0, 0, nil}, {"cfg", 0, 0, 1, nil}},
	{{"up", 0, 0, 0, nil}, {"up", 3, 0, 0, nil}, {"up", 5, 0, 0, nil}, {"cfg", 1, 6, 2, nil}, {"cfg", 2, 5, 1, nil}, {"down", 3, 0, 0, nil}, {"down", 0, 0, 0, nil},
		{"down", 5, 0, 0, nil}, {"down", 5, 0, 0, nil}, {"up", 4, 0, 0, nil}, {"up", 3, 0, 0, nil}, {"cfg", 1, 2, 3, nil}, {"up", 0, 0, 0, nil}, {"up", 5, 0, 0, nil},
		{"cfg", 1, 3, 3, nil}, {"down", 0, 0, 0, nil}, {"up", 0, 0, 0, nil}, {"drop", 2, 0, 0, nil}, {"drop", 2, 0, 0, nil}, {"down", 3, 0, 0, nil}},
	{{"cfg", 0, 3, 1, nil}, {"down", 0, 0, 0, nil}, {"up", 0, 0, 0, nil}, {"cfg", 0, 0, 1, nil}, {"down", 0, 0, 0, nil}, {"up", 1, 0, 0, nil}, {"cfg", 0, 2, 1, nil},
		{"up", 0, 0, 0, nil}, {"down", 1, 0, 0, nil}, {"cfg", 1, 2, 3, nil}, {"up", 1, 0, 0, nil}, {"up", 2, 0, 0, nil}, {"cfg", 1, 0, 3, nil}, {"down", 1, 0, 0, nil}},
	{{"up", 0, 0, 0, nil}, {"up", 1, 0, 0, nil}, {"up", 2, 0, 0, nil}, {"up", 3, 0, 0, nil}, {"up", 4, 0, 0, nil},
		{"cfgq", 0, 4, 2, nil}, {"cfgq", 1, 4, 2, nil}, {"cfgq", 2, 4, 3, nil}, {"cfgq", 0, 3, 0, nil}, {"cfgq", 1, 3, 0, nil}, {"cfgq", 2, 3, 0, nil},
		{"deliver", 0, 0, 0, nil}, {"deliver", 1, 0, 0, nil}, {"deliver", 2, 0, 0, nil}, {"down", 4, 0, 0, nil},
		{"cfgq", 0, 3, 0, nil}, {"cfgq", 1, 3, 0, nil}, {"cfgq", 2, 3, 0, nil}, {"deliver", 0, 0, 0, nil}, {"deliver", 0, 0, 0, nil}, {"deliver", 1, 0, 0, nil},
		{"up", 4, 0, 0, nil}, {"deliver", 1, 0, 0, nil}, {"deliver", 2, 0, 0, nil}, {"deliver", 2, 0, 0, nil}, {"dup", 0, 0, 0, nil}, {"cfg", 0, 1, 0, nil}},
	{{"up", 1, 0, 0, nil}, {"up", 2, 0, 0, nil}, {"up", 3, 0, 0, nil}, {"cfgq", 0, 3, 2, nil}, {"drop", 0, 0, 0, nil}, {"deliver", 0, 0, 0, nil},
		{"down", 1, 0, 0, nil}, {"down", 2, 0, 0, nil}, {"up", 4, 0, 0, nil}, {"cfg", 0, 3, 1, nil}, {"down", 3, 0, 0, nil}, {"drop", 0, 0, 0, nil},
		{"cfg", 1, 2, 2, nil}, {"cfgq", 1, 2, 0, nil}, {"drop", 1, 0, 0, nil}, {"deliver", 1, 0, 0, nil}, {"up", 5, 0, 0, nil}, {"cfg", 1, 6, 2, nil},
		{"drop", 1, 0, 0, nil}, {"dup", 1, 0, 0, nil}, {"drop", 1, 0, 0, nil}, {"cfg", 1, 2, 1, nil}},
	{{"up", 1, 0, 0, nil}, {"up", 2, 0, 0, nil}, {"cfg", 0, 2, 1, nil}, {"putfail", 1, 0, 0, nil}, {"cfgq", 0, 2, 0, nil}, {"down", 1, 0, 0, nil}, {"up", 1, 0, 0, nil},
		{"up", 2, 0, 0, nil}, {"deliver", 0, 0, 0, nil}, {"cfg", 0, 1, 0, nil}, {"putfail", 2, 0, 0, nil}, {"cfg", 0, 3, 0, nil}, {"up", 1, 0, 0, nil},
		{"putfail", 1, 0, 0, nil}, {"cfg", 1, 3, 2, nil}, {"up", 2, 0, 0, nil}, {"cfg", 1, 0, 2, nil}, {"putfail", 2, 0, 0, nil}, {"cfg", 2, 2, 1, nil}, {"up", 1, 0, 0, nil}},
	// 6: the write of the published state fails during a leadership-changing event; the events that
	// follow leave the state as it is (node re-registration, re-trigger of the unchanged assignment)
	{{"up", 1, 0, 0, nil}, {"up", 2, 0, 0, nil}, {"cfg", 0, 3, 2, nil}, {"statefail", 0, 0, 0, nil}, {"down", 1, 0, 0, nil}, {"up", 2, 0, 0, nil}, {"cfg", 0, 0, 2, nil},
		{"statefail", 0, 0, 0, nil}, {"up", 1, 0, 0, nil}, {"up", 1, 0, 0, nil}, {"up", 2, 0, 0, nil}, {"down", 2, 0, 0, nil}, {"statefail", 0, 0, 0, nil}, {"down", 1, 0, 0, nil},
		{"down", 1, 0, 0, nil}, {"down", 7, 0, 0, nil}, {"dup", 0, 0, 0, nil}, {"statefail", 0, 0, 0, nil}, {"drop", 0, 0, 0, nil}, {"drop", 0, 0, 0, nil}, {"up", 1, 0, 0, nil}},
	// 7: bursts of node events through the real EmitEvent / consumeEvent while the repository stalls
	{{"up", 0, 0, 0, nil}, {"up", 1, 0, 0, nil}, {"up", 2, 0, 0, nil}, {"cfg", 0, 6, 2, nil}, {"cfg", 1, 3, 1, nil},
		{kind: "burst", burst: []evStep{{"down", 0, 0, 0, nil}, {"down", 1, 0, 0, nil}, {"up", 3, 0, 0, nil}, {"up", 0, 0, 0, nil}, {"down", 2, 0, 0, nil},
			{"up", 1, 0, 0, nil}, {"down", 3, 0, 0, nil}, {"down", 0, 0, 0, nil}, {"up", 2, 0, 0, nil}, {"up", 3, 0, 0, nil}, {"down", 1, 0, 0, nil},
			{"up", 0, 0, 0, nil}, {"down", 2, 0, 0, nil}, {"down", 3, 0, 0, nil}, {"up", 1, 0, 0, nil}, {"down", 0, 0, 0, nil}}},
		{"up", 2, 0, 0, nil},
		{kind: "burst", burst: []evStep{{"down", 1, 0, 0, nil}, {"down", 2, 0, 0, nil}, {"up", 0, 0, 0, nil}, {"up", 1, 0, 0, nil}, {"down", 0, 0, 0, nil},
			{"up", 2, 0, 0, nil}, {"down", 1, 0, 0, nil}, {"up", 3, 0, 0, nil}, {"down", 2, 0, 0, nil}, {"up", 0, 0, 0, nil}, {"up", 1, 0, 0, nil},
			{"down", 3, 0, 0, nil}, {"down", 0, 0, 0, nil}, {"up", 2, 0, 0, nil}}},
		{"cfg", 0, 2, 2, nil}},
	// 8: cold start — an assignment is delivered while no node is up, then the nodes register
	{{"up", 1, 0, 0, nil}, {"up", 2, 0, 0, nil}, {"cfgq", 0, 3, 2, nil}, {"cfgq", 1, 2, 1, nil}, {"down", 1, 0, 0, nil}, {"down", 2, 0, 0, nil},
		{"deliver", 0, 0, 0, nil}, {"deliver", 1, 0, 0, nil}, {"up", 1, 0, 0, nil}, {"up", 2, 0, 0, nil}, {"down", 1, 0, 0, nil}, {"down", 2, 0, 0, nil},
		{"dup", 0, 0, 0, nil}, {"up", 2, 0, 0, nil}, {"drop", 1, 0, 0, nil}, {"dup", 1, 0, 0, nil}, {"up", 1, 0, 0, nil}},
	// 9: databases whose names are prefixes of one another (db1, db10, db1_archive): drop one, grow the others
	{{"up", 0, 0, 0, nil}, {"up", 1, 0, 0, nil}, {"up", 2, 0, 0, nil}, {"up", 3, 0, 0, nil}, {"up", 4, 0, 0, nil},
		{"cfg", 0, 4, 2, nil}, {"cfg", 1, 5, 2, nil}, {"cfg", 2, 6, 3, nil}, {"drop", 0, 0, 0, nil}, {"cfg", 1, 2, 0, nil}, {"cfg", 2, 3, 0, nil},
		{"cfg", 0, 3, 1, nil}, {"drop", 1, 0, 0, nil}, {"cfg", 0, 1, 0, nil}, {"cfg", 2, 1, 0, nil}, {"drop", 0, 0, 0, nil}, {"cfg", 2, 2, 0, nil},
		{"drop", 2, 0, 0, nil}, {"cfg", 1, 3, 2, nil}, {"cfg", 0, 2, 2, nil}, {"drop", 1, 0, 0, nil}, {"cfg", 0, 3, 0, nil}},
	// 10: master fail-over — nodes die / join and a database is dropped while no master is watching; a quiet fail-over;
	// a fail-over with an undelivered assignment and a database whose creation had failed
	{{"up", 1, 0, 0, nil}, {"up", 2, 0, 0, nil}, {"up", 3, 0, 0, nil}, {"cfg", 0, 4, 2, nil}, {"cfg", 1, 3, 1, nil}, {"cfg", 2, 2, 3, nil},
		{kind: "failover", burst: []evStep{{"down", 1, 0, 0, nil}, {"drop", 1, 0, 0, nil}}},
		{"up", 1, 0, 0, nil}, {"down", 2, 0, 0, nil}, {kind: "failover"}, {"cfg", 0, 2, 0, nil}, {"down", 3, 0, 0, nil},
		{kind: "failover", burst: []evStep{{"up", 4, 0, 0, nil}, {"down", 1, 0, 0, nil}, {"up", 2, 0, 0, nil}}},
		{"cfgq", 0, 3, 0, nil}, {"cfg", 1, 2, 5, nil}, {kind: "failover", burst: []evStep{{"down", 4, 0, 0, nil}, {"up", 5, 0, 0, nil}, {"up", 6, 0, 0, nil}, {"up", 7, 0, 0, nil}}},
		{"down", 2, 0, 0, nil}, {"up", 4, 0, 0, nil}, {kind: "failover", burst: []evStep{{"down", 2, 0, 0, nil}, {"down", 4, 0, 0, nil}, {"down", 5, 0, 0, nil}, {"down", 6, 0, 0, nil}, {"down", 7, 0, 0, nil}, {"drop", 0, 0, 0, nil}}},
		{"up", 1, 0, 0, nil}},
	// 11: the storage-node watch lags — a registration vanishes / appears ("crash" / "register") and
	// databases are created and grown BEFORE the manager is given the NodeFailure / NodeStartup event
	{{"up", 1, 0, 0, nil}, {"up", 2, 0, 0, nil}, {"up", 3, 0, 0, nil}, {"crash", 3, 0, 0, nil}, {"cfg", 0, 3, 1, nil}, {"delivernode", 0, 0, 0, nil},
		{"register", 4, 0, 0, nil}, {"cfg", 0, 2, 0, nil}, {"delivernode", 0, 0, 0, nil}, {"crash", 1, 0, 0, nil}, {"cfgq", 1, 4, 2, nil},
		{"register", 3, 0, 0, nil}, {"cfg", 0, 3, 0, nil}, {"delivernode", 0, 0, 0, nil}, {"delivernode", 0, 0, 0, nil}, {"deliver", 1, 0, 0, nil},
		{"crash", 2, 0, 0, nil}, {"crash", 4, 0, 0, nil}, {"cfg", 2, 2, 1, nil}, {"cfg", 1, 3, 0, nil}, {"delivernode", 0, 0, 0, nil}, {"delivernode", 0, 0, 0, nil},
		{"register", 1, 0, 0, nil}, {"crash", 3, 0, 0, nil}, {"cfg", 2, 2, 0, nil}, {kind: "failover"}, {"cfg", 2, 1, 0, nil}, {"crash", 1, 0, 0, nil},
		{"cfg", 0, 1, 0, nil}, {"delivernode", 0, 0, 0, nil}, {"delivernode", 0, 0, 0, nil}},
	// 12: repository READ faults — the Get of the persisted assignment fails (not with ErrNotExist) while a grow, an
	// alter, a create and the config replay of a fail-over are handled, after more nodes have joined; the List of the
	// registrations fails during a create and a grow
	{{"up", 1, 0, 0, nil}, {"up", 2, 0, 0, nil}, {"cfg", 0, 4, 2, nil}, {"up", 3, 0, 0, nil}, {"up", 4, 0, 0, nil}, {"getfail", 0, 0, 0, nil}, {"cfg", 0, 2, 0, nil},
		{"cfg", 0, 1, 0, nil}, {"getfail", 0, 0, 0, nil}, {"cfg", 0, 0, 2, nil}, {"getfail", 0, 0, 0, nil}, {"cfg", 1, 3, 1, nil}, {"cfg", 1, 0, 1, nil},
		{"listfail", 0, 0, 0, nil}, {"cfg", 2, 2, 2, nil}, {"listfail", 0, 0, 0, nil}, {"cfg", 0, 1, 0, nil}, {"cfg", 2, 1, 0, nil}, {"down", 1, 0, 0, nil},
		{kind: "failover", burst: []evStep{{"getfail", 0, 0, 0, nil}}}, {"cfg", 0, 1, 0, nil},
		{kind: "failover", burst: []evStep{{"up", 5, 0, 0, nil}, {"down", 2, 0, 0, nil}, {"getfail", 0, 0, 0, nil}}}, {"getfail", 0, 0, 0, nil}, {"cfgq", 1, 2, 0, nil},
		{"getfail", 0, 0, 0, nil}, {"putfail", 1, 0, 0, nil}, {"cfg", 1, 1, 0, nil}, {"deliver", 1, 0, 0, nil}, {"cfg", 1, 1, 0, nil},
		{"badcfg", 0, 0, 0, nil}, {"badcfg", 1, 0, 0, nil}, {"badcfg", 2, 0, 0, nil}, {"badnode", 0, 0, 0, nil}, {"badnode", 1, 0, 0, nil},
		{"cfgshrink", 0, 1, 0, nil}, {"cfg", 0, 0, 0, nil}, {"cfg", 0, 2, 0, nil}, {kind: "failover"}, {"cfgshrink", 1, 0, 0, nil}, {kind: "failover"}, {"cfg", 1, 3, 0, nil}},
	// 13: a master started through StateMachineFactory.Start on an empty repository; every event then travels the real
	// watch path (discovery loop -> state machine listener -> factory callback -> EmitEvent -> consumeEvent)
	{{kind: "failover"}, {"watchmode", 1, 0, 0, nil}, {"up", 1, 0, 0, nil}, {"up", 2, 0, 0, nil}, {"up", 3, 0, 0, nil}, {"cfg", 0, 4, 2, nil}, {"down", 1, 0, 0, nil},
		{"cfgq", 1, 3, 1, nil}, {"down", 2, 0, 0, nil}, {"deliver", 1, 0, 0, nil}, {"up", 1, 0, 0, nil}, {"cfg", 0, 2, 0, nil}, {"crash", 3, 0, 0, nil}, {"cfg", 2, 2, 1, nil},
		{"delivernode", 0, 0, 0, nil}, {"drop", 1, 0, 0, nil}, {"dup", 1, 0, 0, nil}, {"down", 1, 0, 0, nil}, {"down", 9, 0, 0, nil}, {"up", 2, 0, 0, nil}, {"up", 2, 0, 0, nil},
		{"getfail", 0, 0, 0, nil}, {"cfg", 0, 1, 0, nil}, {"statefail", 0, 0, 0, nil}, {"down", 2, 0, 0, nil}, {"up", 3, 0, 0, nil},
		{kind: "failover", burst: []evStep{{"down", 3, 0, 0, nil}}}, {"up", 1, 0, 0, nil}, {"cfg", 0, 1, 0, nil}, {"drop", 2, 0, 0, nil}, {"down", 1, 0, 0, nil}},
	// 14: take-overs in which the repository's keys are handed to the new master in SHUFFLED orders (a != 0 is the
	// permutation seed): assignments before the nodes that host them, nodes between the databases, after all nodes
	// died, with a database whose creation had failed (its config replay creates it; the payload comes last), node 1
	// leading shards of three databases when it fails afterwards
	{{"up", 1, 0, 0, nil}, {"up", 2, 0, 0, nil}, {"up", 3, 0, 0, nil}, {"cfg", 0, 4, 2, nil}, {"cfg", 1, 3, 1, nil}, {"cfg", 2, 2, 3, nil},
		{kind: "failover", a: 1}, {"down", 1, 0, 0, nil}, {kind: "failover", a: 2, burst: []evStep{{"down", 2, 0, 0, nil}}}, {"up", 1, 0, 0, nil}, {"cfg", 0, 2, 0, nil},
		{kind: "failover", a: 3}, {"down", 1, 0, 0, nil}, {"up", 2, 0, 0, nil}, {kind: "failover", a: 4, burst: []evStep{{"down", 1, 0, 0, nil}, {"down", 2, 0, 0, nil}, {"down", 3, 0, 0, nil}}},
		{"up", 2, 0, 0, nil}, {kind: "failover", a: 5}, {"drop", 1, 0, 0, nil}, {"putfail", 1, 0, 0, nil}, {"cfg", 1, 3, 2, nil}, {"up", 1, 0, 0, nil},
		{kind: "failover", a: 6}, {"up", 3, 0, 0, nil}, {kind: "failover", a: 7}, {"down", 2, 0, 0, nil}, {kind: "failover", a: 8}, {kind: "failover", a: 9}, {"down", 1, 0, 0, nil}},
	// 15: a database is dropped and created again under the SAME name with the SAME shard count and replica factor
	// ("recreate"; the random start gives another placement most of the time), several times over, and after each
	// incarnation every node restarts, once with all nodes down first; limits events of known / unknown databases in between
	recreateScript(),
}

func recreateScript() []evStep {
	evs := []evStep{{"up", 1, 0, 0, nil}, {"up", 2, 0, 0, nil}, {"up", 3, 0, 0, nil}, {"up", 4, 0, 0, nil},
		{"cfg", 0, 6, 1, nil}, {"cfg", 1, 4, 2, nil}, {"limits", 0, 0, 0, nil}, {"limits", 2, 0, 0, nil}, {"limits", 1, 1, 0, nil},
		{"down", 1, 0, 0, nil}, {"up", 1, 0, 0, nil}}
	for round := 0; round < 5; round++ {
		evs = append(evs, evStep{"recreate", round % 2, 0, 0, nil})
		if round == 3 { // all replicas of every shard fail, one node comes back first
			for id := 1; id <= 4; id++ {
				evs = append(evs, evStep{"down", id, 0, 0, nil})
			}
			for id := 4; id >= 1; id-- {
				evs = append(evs, evStep{"up", id, 0, 0, nil})
			}
			continue
		}
		for id := 1; id <= 4; id++ {
			evs = append(evs, evStep{"down", id, 0, 0, nil}, evStep{"up", id, 0, 0, nil})
		}
	}
	return append(evs, evStep{"recreate", 2, 0, 0, nil}, evStep{"cfg", 0, 2, 0, nil}, evStep{"recreate", 0, 0, 0, nil}, evStep{"down", 2, 0, 0, nil}, evStep{"up", 2, 0, 0, nil})
}

func machineCase(c *core.Ctx, r *rand.Rand) {
	nNodes := 2 + r.Intn(5)
	steps := 8 + r.Intn(25)
	maxRF, maxShards, nDB := 3, 6, 3
	if c.Tier == "thorough" {
		steps = 10 + r.Intn(60)
		if r.Intn(3) == 0 { // larger clusters
			nNodes = 6 + r.Intn(10)
			maxRF, maxShards = 5, 14
		}
	}
	// watch mode of the case: prompt = every persisted assignment is delivered before the next
	// event (the causal order); lagging = the assignment watch runs behind the config watch
	lagging := r.Intn(2) == 0
	if lagging {
		c.Branch("case-lagging-watch")
		nDB = 2
	} else {
		c.Branch("case-prompt-watch")
	}
	failovers := r.Intn(3) == 0
	if failovers {
		c.Branch("case-with-failovers")
	}
	bursty := r.Intn(4) == 0
	if bursty {
		c.Branch("case-with-bursts")
	}
	// the storage-node watch of the case: prompt (every registration change is handed to the manager
	// before anything else happens) or lagging (config events overtake queued node events)
	laggingNodes := r.Intn(3) == 0
	if laggingNodes {
		c.Branch("case-lagging-node-watch")
	}
	readFaults := r.Intn(3) == 0
	if readFaults {
		c.Branch("case-with-read-faults")
	}
	nodePend := 0
	exists := map[int]bool{} // databases that (probably) have a persisted assignment (bias only)
	// the generator keeps its own picture of the live set only to bias choices (repeated start-up,
	// failure of a dead node); the events themselves are unconstrained
	live := map[int]bool{}
	pick := func(wantLive bool) int {
		var cand []int
		for id := 0; id < nNodes; id++ {
			if live[id] == wantLive {
				cand = append(cand, id)
			}
		}
		if len(cand) == 0 || r.Intn(4) == 0 {
			return r.Intn(nNodes)
		}
		return cand[r.Intn(len(cand))]
	}
	var evs []evStep
	if failovers && r.Intn(2) == 0 { // the master is started through Start (empty repository); events travel the real watch path
		evs = append(evs, evStep{kind: "failover"}, evStep{"watchmode", 1, 0, 0, nil})
		c.Branch("case-watched-delivery")
	}
	pend := map[int]int{} // rough count of undelivered payloads per database (bias only)
	if r.Intn(5) != 0 {   // mostly: a cluster that is (partly) up before the churn starts
		for id := 0; id < nNodes; id++ {
			if r.Intn(4) != 0 {
				live[id] = true
				evs = append(evs, evStep{"up", id, 0, 0, nil})
			}
		}
	}
	for s := 0; s < steps; s++ {
		k := r.Intn(10)
		anyPending := false
		for _, v := range pend {
			anyPending = anyPending || v > 0
		}
		if lagging && r.Intn(4) == 0 && (anyPending || r.Intn(3) == 0) { // the lagging watch makes progress / repeats itself / a write fails
			dd := r.Intn(nDB)
			if pend[dd] == 0 && r.Intn(5) != 0 { // prefer a database that (probably) has an undelivered payload
				for x := 0; x < nDB; x++ {
					if pend[x] > 0 {
						dd = x
					}
				}
			}
			switch q := r.Intn(10); {
			case q < 6:
				evs = append(evs, evStep{"deliver", dd, 0, 0, nil})
				if pend[dd] > 0 {
					pend[dd]--
				}
			case q < 7:
				evs = append(evs, evStep{"deliverlast", dd, 0, 0, nil})
				if pend[dd] > 0 {
					pend[dd]--
				}
			case q < 8:
				evs = append(evs, evStep{"dup", r.Intn(nDB), 0, 0, nil})
			default:
				evs = append(evs, evStep{"putfail", 1 + r.Intn(2), 0, 0, nil})
			}
			continue
		}
		if failovers && r.Intn(9) == 0 { // master fail-over; meanwhile nodes die / join, a database is dropped
			var sil []evStep
			for x := r.Intn(3); x > 0; x-- {
				id := pick(r.Intn(5) != 0)
				delete(live, id)
				sil = append(sil, evStep{"down", id, 0, 0, nil})
			}
			if r.Intn(3) == 0 {
				id := pick(false)
				live[id] = true
				sil = append(sil, evStep{"up", id, 0, 0, nil})
			}
			if r.Intn(4) == 0 {
				sil = append(sil, evStep{"drop", r.Intn(nDB), 0, 0, nil})
			}
			if readFaults && r.Intn(2) == 0 {
				sil = append(sil, evStep{"getfail", 0, 0, 0, nil})
			}
			fo := evStep{kind: "failover", burst: sil}
			if r.Intn(2) == 0 { // the keys are replayed in a shuffled order instead of Start's
				fo.a = 1 + r.Intn(1<<20)
			}
			evs = append(evs, fo)
			pend = map[int]int{}
			nodePend = 0
			continue
		}
		if laggingNodes && nodePend > 0 && r.Intn(3) == 0 { // the node watch makes progress
			evs = append(evs, evStep{"delivernode", 0, 0, 0, nil})
			nodePend--
			continue
		}
		if readFaults && r.Intn(6) == 0 { // a repository read fails while a config event is handled
			kind := "getfail"
			if r.Intn(4) == 0 {
				kind = "listfail"
			}
			evs = append(evs, evStep{kind, 0, 0, 0, nil})
			if r.Intn(3) == 0 { // sometimes together with a write fault
				evs = append(evs, evStep{"putfail", 1 + r.Intn(2), 0, 0, nil})
			}
			ck, dd := "cfg", r.Intn(nDB)
			if !exists[dd] && r.Intn(4) != 0 { // mostly: a database that already has an assignment
				for x := 0; x < nDB; x++ {
					if exists[x] {
						dd = x
					}
				}
			}
			exists[dd] = true
			if lagging && r.Intn(2) == 0 {
				ck = "cfgq"
				pend[dd]++
			}
			evs = append(evs, evStep{ck, dd, 1 + r.Intn(maxShards), 1 + r.Intn(maxRF), nil})
			continue
		}
		if bursty && r.Intn(12) == 0 { // a burst of node events through EmitEvent; every event flips a node
			n := 12 + r.Intn(13)
			var b []evStep
			for x := 0; x < n; x++ {
				id := r.Intn(nNodes)
				if live[id] {
					delete(live, id)
					b = append(b, evStep{"down", id, 0, 0, nil})
				} else {
					live[id] = true
					b = append(b, evStep{"up", id, 0, 0, nil})
				}
			}
			evs = append(evs, evStep{kind: "burst", burst: b})
			continue
		}
		if lagging && r.Intn(14) == 0 { // cold start: an assignment is delivered while no node is up, then nodes register
			dd := r.Intn(nDB)
			evs = append(evs, evStep{"cfgq", dd, 1 + r.Intn(maxShards), 1 + r.Intn(maxRF), nil})
			for id := 0; id < nNodes; id++ {
				if live[id] {
					delete(live, id)
					evs = append(evs, evStep{"down", id, 0, 0, nil})
				}
			}
			if r.Intn(2) == 0 {
				evs = append(evs, evStep{"deliver", dd, 0, 0, nil})
			} else {
				evs = append(evs, evStep{"drop", dd, 0, 0, nil}, evStep{"deliver", dd, 0, 0, nil}, evStep{"dup", dd, 0, 0, nil})
			}
			pend[dd] = 0
			for id := 0; id < nNodes; id++ {
				if r.Intn(2) == 0 {
					live[id] = true
					evs = append(evs, evStep{"up", id, 0, 0, nil})
				}
			}
			c.Branch("gen-cold-start")
			continue
		}
		if len(exists) > 0 && r.Intn(11) == 0 { // drop + re-create under the same name with the same shard count, then nodes restart
			var cand []int
			for x := 0; x < nDB; x++ {
				if exists[x] {
					cand = append(cand, x)
				}
			}
			dd := cand[r.Intn(len(cand))]
			if r.Intn(3) != 0 { // mostly after a restart of some node (a start-up is when ReplicasOnNode is consulted)
				id := pick(true)
				evs = append(evs, evStep{"down", id, 0, 0, nil}, evStep{"up", id, 0, 0, nil})
				live[id] = true
			}
			evs = append(evs, evStep{"recreate", dd, 0, 0, nil})
			pend[dd] = 0
			for x := 1 + r.Intn(3); x > 0; x-- {
				id := pick(true)
				evs = append(evs, evStep{"down", id, 0, 0, nil})
				if r.Intn(4) == 0 { // another node fails before this one is back
					id2 := pick(true)
					delete(live, id2)
					evs = append(evs, evStep{"down", id2, 0, 0, nil})
				}
				evs = append(evs, evStep{"up", id, 0, 0, nil})
				live[id] = true
			}
			nodePend = 0
			c.Branch("gen-recreate-same-shape")
			continue
		}
		if r.Intn(120) == 0 { // a limits event: never the storage state's business
			evs = append(evs, evStep{"limits", r.Intn(nDB + 1), r.Intn(2), 0, nil})
		}
		if r.Intn(16) == 0 { // the write of the published state fails during a node event; no-op events follow
			evs = append(evs, evStep{"statefail", 0, 0, 0, nil})
			if r.Intn(2) == 0 {
				id := pick(false)
				live[id] = true
				evs = append(evs, evStep{"up", id, 0, 0, nil})
			} else {
				id := pick(true)
				delete(live, id)
				evs = append(evs, evStep{"down", id, 0, 0, nil})
			}
			for x := r.Intn(3); x >= 0; x-- {
				switch id := pick(true); {
				case live[id] && r.Intn(3) != 0:
					evs = append(evs, evStep{"up", id, 0, 0, nil}) // re-registration
				case r.Intn(2) == 0:
					evs = append(evs, evStep{"down", nNodes + 1, 0, 0, nil}) // failure of a node that never started
				default:
					evs = append(evs, evStep{"cfg", r.Intn(nDB), 0, 1 + r.Intn(maxRF), nil}) // alter re-trigger
				}
			}
			continue
		}
		switch {
		case k < 3:
			id := pick(r.Intn(4) == 0) // one in four: a node that is already live
			live[id] = true
			if laggingNodes && r.Intn(3) != 0 {
				evs = append(evs, evStep{"register", id, 0, 0, nil})
				nodePend++
			} else {
				evs = append(evs, evStep{"up", id, 0, 0, nil})
				nodePend = 0
			}
		case k < 6:
			id := pick(r.Intn(4) != 0) // one in four: a node that is not live
			delete(live, id)
			if laggingNodes && r.Intn(3) != 0 {
				evs = append(evs, evStep{"crash", id, 0, 0, nil})
				nodePend++
			} else {
				evs = append(evs, evStep{"down", id, 0, 0, nil})
				nodePend = 0
			}
		case k < 9:
			kind, dd := "cfg", r.Intn(nDB)
			if x := r.Intn(40); x == 0 {
				evs = append(evs, evStep{"badcfg", r.Intn(3), 0, 0, nil})
			} else if x == 1 {
				evs = append(evs, evStep{"badnode", r.Intn(2), 0, 0, nil})
			}
			if lagging && r.Intn(3) != 0 {
				kind = "cfgq"
				pend[dd]++
			} else {
				pend[dd] = 0
				if r.Intn(12) == 0 {
					kind = "cfgshrink"
				}
			}
			exists[dd] = true
			evs = append(evs, evStep{kind, dd, 1 + r.Intn(maxShards), 1 + r.Intn(maxRF), nil})
		default:
			dd := r.Intn(nDB)
			delete(exists, dd)
			evs = append(evs, evStep{"drop", dd, 0, 0, nil})
		}
	}
	machineRun(c, r, evs)
}

// deliver hands one persisted assignment payload to the manager as a ShardAssignmentChanged event.
func (m *machine) deliver(c *core.Ctx, d int, raw []byte) {
	asg := &models.ShardAssignment{}
	if err := json.Unmarshal(raw, asg); err != nil {
		c.Fail("assignment-unmarshal", err.Error())
		return
	}
	m.lastRaw[d] = raw
	if prev := m.dropped[d]; prev != nil && m.delivered[d] == nil {
		// first payload of a new incarnation of a dropped database (evidence only): a derived view of the
		// assignments that outlives the drop would answer for the old incarnation here
		switch {
		case len(prev.Shards) != len(asg.Shards):
			c.Branch("recreate-other-shard-count")
		case showAsg(prev) == showAsg(asg):
			c.Branch("recreate-same-shard-count-same-placement")
		default:
			c.Branch("recreate-same-shard-count-different-placement")
		}
		delete(m.dropped, d)
	}
	m.delivered[d] = asg
	m.event(c, fmt.Sprintf("asg %d %s", d, showAsg(asg)), &discovery.Event{Type: discovery.ShardAssignmentChanged,
		Key: constants.GetDatabaseAssignPath(dbName(d)), Value: raw}, true)
}

func (m *machine) persistedRaw(d int) string {
	raw, _ := m.repo.raw(constants.GetDatabaseAssignPath(dbName(d)))
	return string(raw)
}

// persisted reads the assignment of db d from the repository (nil if none).
func (m *machine) persisted(d int) (*models.ShardAssignment, string) {
	raw, ok := m.repo.raw(constants.GetDatabaseAssignPath(dbName(d)))
	if !ok {
		return nil, ""
	}
	asg := &models.ShardAssignment{}
	if err := json.Unmarshal(raw, asg); err != nil {
		return nil, string(raw)
	}
	return asg, string(raw)
}

// judgePlacement evaluates the placement clauses of C18 on the PERSISTED assignment of database d
// after a config event for cfg was handled (the repository is what storage nodes and brokers read),
// whatever the manager holds in memory. before/oldRaw: what was persisted before the event;
// liveNow: the nodes registered when the event was handled.
func (m *machine) judgePlacement(c *core.Ctx, d int, cfg *models.Database, before *models.ShardAssignment, oldRaw string,
	liveNow []models.NodeID) (*models.ShardAssignment, string, bool) {
	after, newRaw := m.persisted(d)
	if after == nil && newRaw != "" {
		c.Fail("assignment-unmarshal", "persisted assignment of "+cfg.Name+" does not parse")
		return nil, newRaw, false
	}
	// placement clauses of C18, evaluated on the PERSISTED assignment (the repository is what
	// storage nodes and brokers read), whatever the manager holds in memory
	if after != nil && newRaw != oldRaw {
		lo := 0
		if before != nil {
			// growing the shard count keeps existing shards where they are
			lo = len(before.Shards)
			for id, rp := range before.Shards {
				if a2 := after.Shards[id]; a2 == nil || showReplicas(a2.Replicas) != showReplicas(rp.Replicas) {
					c.Fail("grow-moved-existing", fmt.Sprintf("dbcfg %d (%d shards): persisted shard %d was %v, now %v", d, cfg.NumOfShard, id, rp.Replicas, a2))
				}
			}
			c.Branch("ev-grow-assigned")
		} else {
			c.Branch("ev-create-assigned")
		}
		// every new shard (all shards of a created database): rf distinct nodes alive now, round-robin
		checkAssignment(c, fmt.Sprintf("dbcfg %d", d), after, liveNow, cfg.ReplicaFactor, lo, len(after.Shards))
		// and the database has the configured number of shards, numbered from 0
		if len(after.Shards) != cfg.NumOfShard {
			c.Fail("assign-shard-count", fmt.Sprintf("dbcfg %d: %d shards configured, %d persisted", d, cfg.NumOfShard, len(after.Shards)))
		}
		for id := range after.Shards {
			if int(id) < 0 || int(id) >= len(after.Shards) {
				c.Fail("assign-shard-count", fmt.Sprintf("dbcfg %d: shard id %d outside 0..%d", d, id, len(after.Shards)-1))
			}
		}
		c.NonTrivial()
	}
	if after != nil {
		m.lastPersisted[d] = after
	}
	return after, newRaw, true
}

// noopEvent feeds an event the manager has to reject or ignore: neither its state nor any persisted
// assignment may change (the model answers with its unchanged state).
func (m *machine) noopEvent(c *core.Ctx, op string, ev *discovery.Event) {
	before := m.repo.snapshot(constants.ShardAssignmentPath + "/")
	m.repo.mu.Lock()
	m.repo.faultFired = false
	m.repo.mu.Unlock()
	c.Guard(op, func() string {
		master.VerifProcessEvent(m.mgr, ev)
		out := m.dump()
		after := m.repo.snapshot(constants.ShardAssignmentPath + "/")
		same := len(before) == len(after)
		for k, v := range before {
			same = same && after[k] == v
		}
		if !same {
			out += " persisted-assignments-changed"
		}
		return out
	})
	m.oracle(c, op)
}

// cfgh mirrors the repository side of one handled config event in the model (stateManager.shardAssignment:
// GetShardAssign -> create / modify / re-trigger, storage.GetLiveNodes, the two Puts): the model is given
// what the handler found (registered nodes in listing order, the persisted assignment, the armed faults)
// and what is persisted afterwards; it answers with the observed assignment iff some pair of random
// draws (start, shift < number of nodes) makes the model persist exactly that.
func (m *machine) cfgh(c *core.Ctx, d int, cfg *models.Database, faults string, reg []models.NodeID, inRepo *models.ShardAssignment) {
	if faults == "" {
		faults = "-"
	}
	show := func(a *models.ShardAssignment) string {
		if a == nil {
			return "none"
		}
		return strings.TrimSpace("some " + showAsg(a))
	}
	after, raw := m.persisted(d)
	if after == nil && raw != "" {
		return // reported by judgePlacement
	}
	op := fmt.Sprintf("cfgh %d %d %d %s | %s | %s | %s", d, cfg.NumOfShard, cfg.ReplicaFactor, faults, showNodes(reg), show(inRepo), show(after))
	c.Op(op, "persisted "+show(after))
}

// machineRun feeds the events into a fresh real stateManager (in-memory repo) one by one.
// For "cfg"/"cfgq": an unknown db is created with b shards and replica factor c; a known db grows
// by b%4 shards (0 = re-trigger of the unchanged assignment). "cfg" delivers the assignment watch
// event(s) of the database at once, "cfgq" leaves the new payload undelivered.
func machineRun(c *core.Ctx, _ *rand.Rand, evs []evStep) {
	ctx, cancel := context.WithCancel(context.Background())
	repo := &memRepo{kv: map[string][]byte{}, asgPuts: map[string]int{}}
	m := &machine{repo: repo, mgr: master.NewStateManager(ctx, repo, nil), cancel: cancel, live: map[int]bool{}, dbs: map[int]*models.Database{},
		pending: map[int][][]byte{}, lastRaw: map[int][]byte{}, delivered: map[int]*models.ShardAssignment{}, lastPersisted: map[int]*models.ShardAssignment{}}
	defer func() { m.stopMaster() }()
	c.Op("reset", "ok")
	queue := append([]evStep(nil), evs...)
	for len(queue) > 0 {
		e := queue[0]
		queue = queue[1:]
		if e.kind == "recreate" { // drop + create again under the SAME name with the SAME shard count and replica factor
			cfg, ok := m.dbs[e.a]
			if !ok {
				c.Branch("ev-recreate-unknown-db")
				continue
			}
			c.Branch("ev-recreate-same-shape")
			queue = append([]evStep{{"drop", e.a, 0, 0, nil}, {"cfg", e.a, cfg.NumOfShard, cfg.ReplicaFactor, nil}}, queue...)
			continue
		}
		switch e.kind {
		case "limits": // a DatabaseLimitsChanged event (known or unknown database, any payload): the storage state is not its business
			name := dbName(e.a)
			val := []byte("maxSeriesPerMetric = 1000\n")
			if e.b%2 == 1 {
				val = []byte{0xff, 0x00, '{'}
			}
			if _, known := m.dbs[e.a]; known {
				c.Branch("ev-limits-known-db")
			} else {
				c.Branch("ev-limits-unknown-db")
			}
			m.noopEvent(c, "noop limits", &discovery.Event{Type: discovery.DatabaseLimitsChanged, Key: constants.GetDatabaseLimitPath(name), Value: val})
		case "up", "down": // the registration changes and the node watch catches up at once
			m.regChange(c, e.a, e.kind == "up")
			m.deliverNode(c, -1)
		case "register", "crash": // the registration changes; the node event stays queued (lagging node watch)
			m.regChange(c, e.a, e.kind == "register")
			c.Branch("ev-" + e.kind + "-event-queued")
		case "delivernode":
			if len(m.nodePending) == 0 {
				c.Branch("ev-delivernode-nothing-pending")
			}
			m.deliverNode(c, 1)
		case "watchmode":
			m.watched = e.a != 0
			c.Branch("ev-watchmode")
		case "getfail":
			repo.mu.Lock()
			repo.failAsgGet = true
			repo.mu.Unlock()
			c.Branch("ev-arm-get-fault")
		case "listfail":
			repo.mu.Lock()
			repo.failLiveList = true
			repo.mu.Unlock()
			c.Branch("ev-arm-list-fault")
		case "putfail":
			repo.failAsgPut = e.a
			c.Branch("ev-arm-put-fault")
		case "statefail":
			repo.mu.Lock()
			repo.failStatePut = true
			repo.mu.Unlock()
			c.Branch("ev-arm-state-fault")
		case "burst":
			m.deliverNode(c, -1) // the node watch catches up before the burst
			m.burst(c, e.burst)
		case "failover":
			m.failover(c, e.burst, e.a)
		case "badcfg": // a config event the handler must reject: invalid JSON, empty database name, empty value
			var val []byte
			switch e.a % 3 {
			case 0:
				val = []byte("{\"name\":\"db1\",\"numOfShard\":")
			case 1:
				val, _ = json.Marshal(&models.Database{Name: "", NumOfShard: 2, ReplicaFactor: 1})
			}
			c.Branch(fmt.Sprintf("ev-badcfg-%d", e.a%3))
			m.noopEvent(c, "noop badcfg", &discovery.Event{Type: discovery.DatabaseConfigChanged, Key: constants.GetDatabaseConfigPath("db1"), Value: val})
		case "badnode": // a node event the handler must ignore: failure of a non-numeric key, start-up with an undecodable value
			if e.a%2 == 0 {
				c.Branch("ev-badnode-failure-key")
				m.noopEvent(c, "noop badnode", &discovery.Event{Type: discovery.NodeFailure, Key: constants.GetStorageLiveNodePath("node-x")})
			} else {
				c.Branch("ev-badnode-startup-value")
				m.noopEvent(c, "noop badnode", &discovery.Event{Type: discovery.NodeStartup, Key: constants.GetStorageLiveNodePath("1"), Value: []byte("{\"id\":")})
			}
		case "cfg", "cfgq", "cfgshrink": // create database / grow shards / (cfgshrink) ask for fewer shards than there are
			d := e.a
			cfg, ok := m.dbs[d]
			if !ok {
				cfg = &models.Database{Name: dbName(d), NumOfShard: e.b, ReplicaFactor: e.c}
				c.Branch("ev-create-db")
			} else if e.kind == "cfgshrink" {
				n := cfg.NumOfShard - 1 - e.b%2
				if n < 1 {
					n = 1
				}
				cfg = &models.Database{Name: cfg.Name, NumOfShard: n, ReplicaFactor: cfg.ReplicaFactor}
				c.Branch("ev-shrink-db")
			} else {
				cfg = &models.Database{Name: cfg.Name, NumOfShard: cfg.NumOfShard + e.b%4, ReplicaFactor: cfg.ReplicaFactor}
				c.Branch("ev-grow-db")
			}
			data, _ := json.Marshal(cfg)
			asgKey := constants.GetDatabaseAssignPath(cfg.Name)
			before, oldRaw := m.persisted(d)
			inRepo := before // what the handler will find in the repository (the model is given this)
			if rec := m.lastPersisted[d]; rec != nil {
				if before == nil || showAsg(before) != showAsg(rec) {
					c.Branch("cfg-persisted-differs-from-record")
				}
				before = rec // judge "existing shards" against what was persisted, not against a fresh read
			}
			putsBefore := repo.puts(asgKey)
			armed := repo.failAsgPut > 0
			faults := ""
			repo.mu.Lock()
			if repo.failAsgGet {
				faults += "g"
			}
			if repo.failLiveList {
				faults += "l"
			}
			repo.mu.Unlock()
			switch repo.failAsgPut {
			case 1:
				faults += "p"
			case 2:
				faults += "q"
			}
			m.dbs[d] = cfg
			repo.set(constants.GetDatabaseConfigPath(cfg.Name), data)
			// the nodes alive at creation / growth = the registrations the repository lists while the event is
			// handled; the manager's own LiveNodes may lag behind them by the queued node events
			liveNow := m.liveIDs()
			if len(m.nodePending) > 0 {
				c.Branch("cfg-while-node-events-pending")
				reg, same := m.registered(), true
				for id := range reg {
					same = same && m.live[id]
				}
				for id := range m.live {
					same = same && reg[id]
				}
				if !same {
					c.Branch("cfg-registered-nodes-differ-from-managers-view")
				}
			}
			m.cfgSeq++
			m.event(c, fmt.Sprintf("dbcfg %d", d), &discovery.Event{Type: discovery.DatabaseConfigChanged,
				Key: constants.GetDatabaseConfigPath(cfg.Name), Value: data}, false)
			if armed && repo.failAsgPut == 0 {
				c.Branch("ev-put-fault-hit")
			}
			repo.failAsgPut = 0 // the faults are for this config event only
			repo.mu.Lock()
			if strings.Contains(faults, "g") {
				if repo.failAsgGet {
					c.Branch("ev-get-fault-not-hit")
				} else if inRepo != nil {
					c.Branch("ev-get-fault-hit-existing-db")
				} else {
					c.Branch("ev-get-fault-hit-new-db")
				}
			}
			if strings.Contains(faults, "l") {
				if repo.failLiveList {
					c.Branch("ev-list-fault-not-hit")
				} else {
					c.Branch("ev-list-fault-hit")
				}
			}
			repo.failAsgGet, repo.failLiveList = false, false
			repo.mu.Unlock()
			m.cfgh(c, d, cfg, faults, liveNow, inRepo)
			after, newRaw, okp := m.judgePlacement(c, d, cfg, before, oldRaw, liveNow)
			if !okp {
				continue
			}
			// every successful Put makes the etcd watch emit the payload (one is kept per config event)
			if repo.puts(asgKey) > putsBefore {
				m.pending[d] = append(m.pending[d], []byte(newRaw))
			} else if after == nil {
				// creation failed (no live node / rf too large / write failure): the manager keeps the
				// cfg in m.databases (it is set before the attempt), so the harness keeps it too.
				c.Branch("ev-create-failed")
			} else {
				c.Branch("ev-cfg-nothing-persisted")
			}
			if e.kind != "cfgq" { // prompt: the watch catches up with everything persisted for this database
				for len(m.pending[d]) > 0 {
					raw := m.pending[d][0]
					m.pending[d] = m.pending[d][1:]
					m.deliver(c, d, raw)
				}
			} else if len(m.pending[d]) > 0 {
				c.Branch("ev-asg-left-pending")
			}
		case "deliver", "deliverlast":
			d := e.a
			q := m.pending[d]
			if len(q) == 0 {
				c.Branch("ev-deliver-nothing-pending")
				continue
			}
			var raw []byte
			if e.kind == "deliver" || len(q) == 1 {
				raw, m.pending[d] = q[0], q[1:]
			} else {
				raw, m.pending[d] = q[len(q)-1], q[:len(q)-1]
				c.Branch("ev-asg-out-of-order")
			}
			switch _, known := m.dbs[d]; {
			case !known:
				c.Branch("ev-asg-late-after-drop")
			case string(raw) != m.persistedRaw(d):
				c.Branch("ev-asg-late-stale")
			default:
				c.Branch("ev-asg-late-current")
			}
			m.deliver(c, d, raw)
		case "dup":
			d := e.a
			if raw, ok := m.lastRaw[d]; ok {
				c.Branch("ev-asg-duplicate")
				m.deliver(c, d, raw)
			}
		case "drop":
			d := e.a
			name := dbName(d)
			repo.del(constants.GetDatabaseAssignPath(name))
			repo.del(constants.GetDatabaseConfigPath(name))
			delete(m.lastPersisted, d)
			others := repo.snapshot(constants.ShardAssignmentPath + "/")
			_, known := m.dbs[d]
			delete(m.dbs, d)
			if known {
				// onDatabaseCfgDelete forgets the database's assignment and shard states
				if prev := m.delivered[d]; prev != nil {
					if m.dropped == nil {
						m.dropped = map[int]*models.ShardAssignment{}
					}
					m.dropped[d] = prev // the incarnation that ends here (evidence counters only)
				}
				delete(m.delivered, d)
				c.Branch("ev-drop-db")
			} else {
				c.Branch("ev-drop-unknown-db")
			}
			m.event(c, fmt.Sprintf("dropdb %d", d), &discovery.Event{Type: discovery.DatabaseConfigDeletion, Key: constants.GetDatabaseConfigPath(name)}, known)
			// dropping one database leaves every other database's persisted assignment as it is
			now := repo.snapshot(constants.ShardAssignmentPath + "/")
			for k, v := range others {
				if len(others) > 0 {
					c.Branch("ev-drop-with-other-databases")
				}
				if v2, ok := now[k]; !ok || v2 != v {
					c.Fail("drop-disturbs-other-database", fmt.Sprintf("dropdb %d (%s): persisted assignment %s was %q, now %q (present=%v)", d, name, k, v, v2, ok))
				}
			}
		}
	}
}

const sentinelDB = 900

// markerAsgKey: the assignment key of the quiescence marker database (never subject to read faults)
var markerAsgKey = constants.GetDatabaseAssignPath(dbName(sentinelDB))

func markerCfg() *models.Database {
	return &models.Database{Name: dbName(sentinelDB), NumOfShard: 0, ReplicaFactor: 1}
}

// quiesce waits until the manager's consumer goroutine has handled everything emitted so far: it
// emits a marker (a config event of database 900 with 0 shards — nothing is assigned, the handler
// only looks the assignment up in the repository, which is what the harness waits for; idempotent,
// re-emitted only if the manager did not get to it in time) and then takes the manager's read lock.
// The caller has to account for the marker in the op stream (`dbcfg 900`).
func (m *machine) quiesce() bool {
	repo := m.repo
	repo.mu.Lock()
	repo.sentinelKey = constants.GetDatabaseAssignPath(dbName(sentinelDB))
	repo.sentinelSeen = make(chan struct{}, 1)
	seen := repo.sentinelSeen
	repo.mu.Unlock()
	defer func() {
		repo.mu.Lock()
		repo.sentinelKey, repo.sentinelSeen = "", nil
		repo.mu.Unlock()
	}()
	data, _ := json.Marshal(markerCfg())
	marker := &discovery.Event{Type: discovery.DatabaseConfigChanged, Key: constants.GetDatabaseConfigPath(dbName(sentinelDB)), Value: data}
	deadline := time.Now().Add(10 * time.Second)
	for {
		m.mgr.EmitEvent(marker)
		select {
		case <-seen:
			_ = m.mgr.GetStorageState() // read lock: returns after the marker's handler has finished
			return true
		case <-time.After(20 * time.Millisecond):
			if time.Now().After(deadline) {
				return false
			}
		}
	}
}

func (m *machine) stopMaster() {
	if m.fct != nil {
		m.fct.Stop()
		m.fct = nil
	}
	m.mgr.Close()
	m.cancel()
}

// recFactory is the discovery factory the taking-over master is started with: the REAL discovery
// (list the prefix, hand every key to the state machine's listener, start the watch) on the
// in-memory repository, with a listener in between that records what was handed over, and a pause
// after each state machine's initial listing until the manager has handled those events (so that
// what the next state machine lists does not depend on goroutine timing).
type recFactory struct {
	discovery.Factory
	m      *machine
	phases [][]recEvent
}

type recEvent struct {
	prefix, key string
	value       []byte
}

type recDiscovery struct {
	inner discovery.Discovery
	f     *recFactory
}

func (d *recDiscovery) Close() { d.inner.Close() }

type recListener struct {
	discovery.Listener
	f      *recFactory
	prefix string
}

func (l *recListener) OnCreate(key string, resource []byte) {
	n := len(l.f.phases) - 1
	l.f.phases[n] = append(l.f.phases[n], recEvent{l.prefix, key, append([]byte(nil), resource...)})
	l.Listener.OnCreate(key, resource)
}

func (f *recFactory) CreateDiscovery(prefix string, listener discovery.Listener) discovery.Discovery {
	f.phases = append(f.phases, nil)
	return &recDiscovery{inner: f.Factory.CreateDiscovery(prefix, &recListener{Listener: listener, f: f, prefix: prefix}), f: f}
}

func (d *recDiscovery) Discovery(init bool) error {
	if err := d.inner.Discovery(init); err != nil {
		return err
	}
	if !d.f.m.quiesce() {
		return fmt.Errorf("manager did not reach the marker")
	}
	return nil
}

// failover: the running master goes away (Close), things happen to the repository while no master
// is watching (storage nodes die or register: their ephemeral keys vanish / appear; a database is
// dropped: its config and assignment keys are removed), a new master is built on the same
// repository and started the way production starts it: StateMachineFactory.Start lists the live
// nodes, the database configs, the shard assignments and the limits, in this order, and emits
// one event per key. Nothing of the old master's memory may survive: what the new master reports
// is a function of the repository alone.
func (m *machine) failover(c *core.Ctx, silent []evStep, shuffle int) {
	repo := m.repo
	c.Branch("ev-failover")
	m.stopMaster()
	for _, e := range silent {
		switch e.kind {
		case "down":
			if m.live[e.a] {
				c.Branch("failover-silent-node-death")
			}
			repo.del(constants.GetStorageLiveNodePath(strconv.Itoa(e.a)))
			delete(m.live, e.a)
		case "up":
			node := models.StatefulNode{ID: models.NodeID(e.a)}
			node.HostIP = "10.0.0." + strconv.Itoa(e.a)
			data, _ := json.Marshal(&node)
			repo.set(constants.GetStorageLiveNodePath(strconv.Itoa(e.a)), data)
			if !m.live[e.a] {
				c.Branch("failover-silent-node-join")
			}
			m.live[e.a] = true
		case "drop":
			if _, ok := m.dbs[e.a]; ok {
				c.Branch("failover-silent-db-drop")
			}
			repo.del(constants.GetDatabaseAssignPath(dbName(e.a)))
			repo.del(constants.GetDatabaseConfigPath(dbName(e.a)))
			delete(m.dbs, e.a)
			delete(m.lastPersisted, e.a)
		}
	}
	// the old master's watches are gone with it (also node events it had not been given yet); what
	// the new master is told about the nodes is the registrations
	if len(m.nodePending) > 0 {
		c.Branch("failover-with-undelivered-node-events")
	}
	m.nodePending = nil
	m.live = m.registered()
	m.pending, m.lastRaw = map[int][][]byte{}, map[int][]byte{}
	m.delivered = map[int]*models.ShardAssignment{}
	known := m.dbs // the configs in the repository; the new master learns them from the replay
	m.dbs = map[int]*models.Database{}
	getFault := false
	for _, e := range silent {
		getFault = getFault || e.kind == "getfail"
	}
	repo.mu.Lock()
	repo.failAsgPut, repo.failStatePut = 0, false
	// a read fault during the take-over: the first read of a persisted assignment (config replay) fails
	repo.failAsgGet, repo.failLiveList, repo.faultKey = getFault, false, ""
	repo.mu.Unlock()
	if getFault {
		c.Branch("failover-with-get-fault")
	}
	c.Op("reset", "ok")

	// what is persisted before the new master looks at the configs
	type persistedBefore struct {
		asg    *models.ShardAssignment
		raw    string
		inRepo *models.ShardAssignment
	}
	before := map[int]persistedBefore{}
	for d := range known {
		a, raw := m.persisted(d)
		inRepo := a
		if rec := m.lastPersisted[d]; rec != nil {
			a = rec
		}
		before[d] = persistedBefore{a, raw, inRepo}
	}
	liveNow := m.liveIDs()

	ctx, cancel := context.WithCancel(context.Background())
	m.cancel = cancel
	m.mgr = master.NewStateManager(ctx, repo, nil)
	rf := &recFactory{Factory: discovery.NewFactory(repo), m: m}
	m.fct = master.NewStateMachineFactory(ctx, rf, m.mgr)
	var startErr error
	if shuffle != 0 {
		// ANY ORDER: the new master is handed one event per repository key (registrations, configs,
		// persisted assignments) in a permutation fixed by `shuffle` — e.g. assignments before the
		// nodes that host them — instead of the order StateMachineFactory.Start lists them in; an
		// assignment a replayed config event writes afterwards is delivered last (as its watch would)
		c.Branch("failover-keys-replayed-in-shuffled-order")
		m.fct = nil
		type kind struct {
			prefix string
			typ    discovery.EventType
		}
		var all []recEvent
		typ := map[string]discovery.EventType{}
		for _, k := range []kind{{constants.StorageLiveNodesPath, discovery.NodeStartup}, {constants.DatabaseConfigPath, discovery.DatabaseConfigChanged},
			{constants.ShardAssignmentPath, discovery.ShardAssignmentChanged}} {
			typ[k.prefix] = k.typ
			snap := repo.snapshot(k.prefix)
			var keys []string
			for key := range snap {
				keys = append(keys, key)
			}
			sort.Strings(keys)
			for _, key := range keys {
				all = append(all, recEvent{k.prefix, key, []byte(snap[key])})
			}
		}
		pr := rand.New(rand.NewSource(int64(shuffle)))
		pr.Shuffle(len(all), func(i, j int) { all[i], all[j] = all[j], all[i] })
		firstNode, firstAsg := -1, -1
		for i, ev := range all {
			if ev.prefix == constants.StorageLiveNodesPath && firstNode < 0 {
				firstNode = i
			}
			if ev.prefix == constants.ShardAssignmentPath && firstAsg < 0 {
				firstAsg = i
			}
		}
		if firstAsg >= 0 && (firstNode < 0 || firstAsg < firstNode) {
			c.Branch("failover-assignment-replayed-before-any-node")
		}
		fed := map[string]string{}
		feed := func(ev recEvent) {
			func() {
				defer func() {
					if r := recover(); r != nil {
						startErr = fmt.Errorf("panic: %v", r)
					}
				}()
				master.VerifProcessEvent(m.mgr, &discovery.Event{Type: typ[ev.prefix], Key: ev.key, Value: ev.value})
			}()
			if ev.prefix == constants.ShardAssignmentPath {
				fed[ev.key] = string(ev.value)
			}
		}
		for _, ev := range all {
			feed(ev)
		}
		rf.phases = append(rf.phases, all)
		var late []recEvent
		snap := repo.snapshot(constants.ShardAssignmentPath)
		var keys []string
		for key := range snap {
			keys = append(keys, key)
		}
		sort.Strings(keys)
		for _, key := range keys {
			if fed[key] != snap[key] {
				ev := recEvent{constants.ShardAssignmentPath, key, []byte(snap[key])}
				feed(ev)
				late = append(late, ev)
				c.Branch("failover-shuffled-late-assignment")
			}
		}
		if len(late) > 0 {
			rf.phases = append(rf.phases, late)
		}
	} else {
		func() {
			defer func() {
				if r := recover(); r != nil {
					startErr = fmt.Errorf("panic: %v", r)
				}
			}()
			startErr = m.fct.Start()
		}()
	}
	if startErr != nil {
		c.Fail("failover-start-failed", startErr.Error())
		c.Op("batch", "start-failed")
		return
	}
	// one batch op for the model: every key handed over, in order, with the markers between phases
	var segs []string
	for _, ph := range rf.phases {
		for _, ev := range ph {
			switch ev.prefix {
			case constants.StorageLiveNodesPath:
				node := models.StatefulNode{}
				_ = json.Unmarshal(ev.value, &node)
				segs = append(segs, fmt.Sprintf("up %d", int(node.ID)))
			case constants.DatabaseConfigPath:
				cfg := &models.Database{}
				_ = json.Unmarshal(ev.value, cfg)
				d := dbID(cfg.Name)
				m.dbs[d] = cfg
				segs = append(segs, fmt.Sprintf("dbcfg %d", d))
			case constants.ShardAssignmentPath:
				asg := &models.ShardAssignment{}
				if err := json.Unmarshal(ev.value, asg); err != nil {
					c.Fail("assignment-unmarshal", err.Error())
					continue
				}
				d := dbID(asg.Name)
				m.delivered[d] = asg
				m.lastRaw[d] = ev.value
				segs = append(segs, fmt.Sprintf("asg %d %s", d, showAsg(asg)))
			}
		}
		if shuffle == 0 {
			segs = append(segs, fmt.Sprintf("dbcfg %d", sentinelDB))
		}
	}
	if shuffle == 0 {
		m.dbs[sentinelDB] = markerCfg()
	}
	op := "batch " + strings.Join(segs, " | ")
	c.Op(op, m.dump())
	// the read fault of the take-over: which replayed config it hit (if any)
	repo.mu.Lock()
	faultKey := repo.faultKey
	if getFault && repo.failAsgGet {
		c.Branch("failover-get-fault-not-hit")
	}
	repo.failAsgGet, repo.faultKey = false, ""
	repo.mu.Unlock()
	// the replayed config events may have (re)assigned shards: same placement clauses as for a live config event
	var knownIDs []int
	for d := range known {
		knownIDs = append(knownIDs, d)
	}
	sort.Ints(knownIDs)
	for _, d := range knownIDs {
		cfg := known[d]
		if d != sentinelDB {
			f := ""
			if faultKey == constants.GetDatabaseAssignPath(cfg.Name) {
				f = "g"
				if before[d].inRepo != nil {
					c.Branch("failover-get-fault-hit-existing-db")
				}
			}
			m.cfgh(c, d, cfg, f, liveNow, before[d].inRepo)
		}
		if _, _, ok := m.judgePlacement(c, d, cfg, before[d].asg, before[d].raw, liveNow); !ok {
			continue
		}
		// an assignment written by the config replay is listed by the assignment state machine that
		// starts afterwards; nothing is left for the watch
	}
	m.oracle(c, "failover: "+op)
	// the new master publishes with the first node / assignment event it handles; a replay without
	// such an event (no node registered, no assignment persisted) publishes nothing and the previous
	// master's last copy stays in the repository until the next publishing event — observed on the
	// unchanged tree, counted, not judged
	publishing := 0
	for _, ph := range rf.phases {
		for _, ev := range ph {
			if ev.prefix == constants.StorageLiveNodesPath || ev.prefix == constants.ShardAssignmentPath {
				publishing++
			}
		}
	}
	if publishing > 0 {
		m.publishedOracle(c, "failover: "+op)
	} else {
		c.Branch("failover-nothing-to-publish")
	}
}

// burst hands node events to the manager the way the discovery layer does: through the real
// EmitEvent, from another goroutine, back to back, while the consumer goroutine is held inside the
// first event's repository write (a slow etcd). Then the write is released, a marker event is sent
// after the burst and, once the manager has reached the marker, the leadership clauses are applied
// against the full event history. C18 speaks about what is reported after "any sequence of node
// start and failure events": every event handed to EmitEvent has to take effect, in order.
func (m *machine) burst(c *core.Ctx, evs []evStep) {
	if len(evs) == 0 {
		return
	}
	repo := m.repo
	var ops []string
	var des []*discovery.Event
	for _, e := range evs {
		key := constants.GetStorageLiveNodePath(strconv.Itoa(e.a))
		if e.kind == "up" {
			node := models.StatefulNode{ID: models.NodeID(e.a)}
			node.HostIP = "10.0.0." + strconv.Itoa(e.a)
			data, _ := json.Marshal(&node)
			repo.set(key, data)
			m.live[e.a] = true
			des = append(des, &discovery.Event{Type: discovery.NodeStartup, Key: key, Value: data})
		} else {
			repo.del(key)
			delete(m.live, e.a)
			des = append(des, &discovery.Event{Type: discovery.NodeFailure, Key: key})
		}
		ops = append(ops, e.kind, strconv.Itoa(e.a))
	}
	c.Branch("ev-burst")
	c.Branch(fmt.Sprintf("burst-len-%02d", (len(evs)/4)*4))
	op := "burst " + strings.Join(ops, " ")

	repo.mu.Lock()
	repo.faultFired = false
	stall := make(chan struct{})
	repo.stall = stall
	repo.stalled = make(chan struct{}, 1)
	stalled := repo.stalled
	repo.mu.Unlock()
	release := func() {
		repo.mu.Lock()
		if repo.stall != nil {
			close(repo.stall)
			repo.stall = nil
		}
		repo.mu.Unlock()
	}
	defer release()

	var emitted int64
	done := make(chan struct{})
	go func() {
		defer close(done)
		defer func() { _ = recover() }()
		for _, ev := range des {
			m.mgr.EmitEvent(ev)
			atomic.AddInt64(&emitted, 1)
		}
	}()
	// the consumer is inside the first event's state write ...
	select {
	case <-stalled:
	case <-time.After(5 * time.Second):
		release()
		c.Fail("burst-consumer-never-reached-the-repository", op)
	}
	// ... and the emitter has either handed over everything or is blocked on the full channel
	last, since := int64(-1), time.Now()
	for waiting := true; waiting; {
		select {
		case <-done:
			waiting = false
		default:
			if n := atomic.LoadInt64(&emitted); n != last {
				last, since = n, time.Now()
			} else if time.Since(since) > 1500*time.Microsecond {
				waiting = false
			}
			time.Sleep(100 * time.Microsecond)
		}
	}
	if int(atomic.LoadInt64(&emitted)) < len(des) {
		c.Branch("burst-emitter-blocked-on-full-channel")
	}
	release()
	ok := true
	select {
	case <-done:
	case <-time.After(10 * time.Second):
		ok = false
		c.Fail("burst-emit-timeout", op)
	}
	if ok && !m.quiesce() {
		ok = false
		c.Fail("burst-quiescence-timeout", op)
	}
	repo.mu.Lock()
	repo.stalled = nil
	repo.mu.Unlock()
	if !ok {
		c.Op(op, "timeout")
		return
	}
	// GetStorageState takes the manager's read lock: it returns after the marker's handler has finished
	out := m.dump()
	c.Op(op, out)
	m.oracle(c, op)
	m.publishedOracle(c, op)
	m.dbs[sentinelDB] = markerCfg()
	c.Op(fmt.Sprintf("dbcfg %d", sentinelDB), m.dump())
}

// leads reports whether node id currently leads at least one shard.
func (m *machine) leads(id int) bool {
	for _, ss := range m.mgr.GetStorageState().ShardStates {
		for _, s := range ss {
			if s.State == models.OnlineShard && int(s.Leader) == id {
				return true
			}
		}
	}
	return false
}

func (m *machine) liveIDs() []models.NodeID {
	m.repo.mu.Lock()
	kvs := m.repo.listLocked(constants.StorageLiveNodesPath)
	m.repo.mu.Unlock()
	var out []models.NodeID
	for _, kv := range kvs {
		n := models.StatefulNode{}
		_ = json.Unmarshal(kv.Value, &n)
		out = append(out, n.ID)
	}
	return out
}
