// Area tablescan (C02, round 13): scans of table files through the CACHED reader
// (snapshot.GetReader(f).Iterator(), HasNext/Key/Value), several scans of the same table file overlapping in
// time, interleaved with flushes and level-0 compactions (run whole, or parked inside their merge — the
// compaction scans the same cached readers through compactJob.makeInputIterator).
// Model: lean/LinVerif/Model/TableScan.lean (driver C02Scan).
package c02

import (
	"fmt"
	"math/rand"
	"os"
	"path/filepath"
	"sort"
	"strconv"
	"strings"
	"time"

	"github.com/lindb/common/pkg/ltoml"

	"github.com/lindb/lindb/kv"
	"github.com/lindb/lindb/kv/table"
	"github.com/lindb/lindb/kv/version"

	"github.com/lindb/lindb/zzverif/internal/core"
)

type scanArea struct{}

func init() { core.Register(scanArea{}) }

func (scanArea) Name() string { return "tablescan" }

const scanMerger = "c02-scan-merger"

type sEntry struct {
	key  uint32
	toks []uint32
}

type sScan struct {
	snap version.Snapshot
	it   table.Iterator
	rd   table.Reader
	file int64
	ver  int64
	nk   int // keys handed out
	nv   int // values handed out
}

type sCase struct {
	c         *core.Ctx
	dir       string
	storeName string
	store     kv.Store
	fam       kv.Family
	fv        version.FamilyVersion
	contents  map[int64][]sEntry // harness' own bookkeeping: what every table was written with
	cur       map[int64]bool     // tables of the current version the harness knows
	scans     [4]*sScan
	comp      *oThr
	nextTok   uint32
	verified  int
	overlap   int
}

var sCur *sCase
var scanInstalled bool

type scanMergerT struct{ f kv.Flusher }

func (m *scanMergerT) Init(map[string]interface{}) {}

func (m *scanMergerT) Merge(key uint32, values [][]byte) error {
	if k := sCur; k != nil && k.comp != nil && goid() == k.comp.g {
		k.comp.park("merge")
	}
	var toks []uint32
	for _, v := range values {
		toks = append(toks, decToks(v)...)
	}
	sort.Slice(toks, func(i, j int) bool { return toks[i] < toks[j] })
	var out []byte
	for _, t := range toks {
		out = append(out, encTok(t)...)
	}
	return m.f.Add(key, out)
}

func scanInstall() {
	if scanInstalled {
		return
	}
	scanInstalled = true
	kv.RegisterMerger(scanMerger, func(f kv.Flusher) (kv.Merger, error) { return &scanMergerT{f: f}, nil })
}

func (k *sCase) open() error {
	dir, err := os.MkdirTemp("", "lvh-c02s-*")
	if err != nil {
		return err
	}
	k.dir = dir
	k.storeName = filepath.Join(dir, "store")
	opt := kv.DefaultStoreOption()
	opt.TTL = ltoml.Duration(-time.Hour) // every unreferenced reader-cache entry counts as expired
	st, err := kv.GetStoreManager().CreateStore(k.storeName, opt)
	if err != nil {
		return err
	}
	k.store = st
	fam, err := st.CreateFamily("f", kv.FamilyOption{Merger: scanMerger, CompactThreshold: 2})
	if err != nil {
		return err
	}
	k.fam = fam
	k.fv = kv.VerifC02FamilyVersion(fam)
	k.contents = map[int64][]sEntry{}
	k.cur = map[int64]bool{}
	k.nextTok = 100
	sCur = k
	k.c.Op("reset", "ok")
	return nil
}

func (k *sCase) close() {
	for i := range k.scans {
		k.closeScan(i)
	}
	sCur = nil
	if k.store != nil {
		_ = kv.GetStoreManager().CloseStore(k.storeName)
	}
	if k.dir != "" {
		_ = os.RemoveAll(k.dir)
	}
}

func (k *sCase) closeScan(i int) {
	if s := k.scans[i]; s != nil {
		s.snap.Close()
		k.scans[i] = nil
	}
}

func (k *sCase) curFiles() []int64 {
	snap := k.fv.GetSnapshot()
	defer snap.Close()
	var rs []int64
	for _, fm := range snap.GetCurrent().GetAllFiles() {
		rs = append(rs, fm.GetFileNumber().Int64())
	}
	sort.Slice(rs, func(i, j int) bool { return rs[i] < rs[j] })
	return rs
}

func entsStr(es []sEntry) string {
	var ps []string
	for _, e := range es {
		ps = append(ps, fmt.Sprintf("%d:%s", e.key, joinU32(e.toks)))
	}
	return strings.Join(ps, " ")
}

// announce: the harness tells the model what a new table was written with (its own bookkeeping, never read back
// through an iterator)
func (k *sCase) announce(f int64, es []sEntry) {
	k.contents[f] = es
	k.c.Op(fmt.Sprintf("table %d %s", f, entsStr(es)), "ok")
}

// sync the harness' view of the current version after a commit; merged = content of a new table written by a
// compaction out of the tables that disappeared
func (k *sCase) afterCommit(flushed []sEntry) []int64 {
	now := map[int64]bool{}
	var added []int64
	for _, f := range k.curFiles() {
		now[f] = true
		if !k.cur[f] {
			added = append(added, f)
		}
	}
	var removed []int64
	for f := range k.cur {
		if !now[f] {
			removed = append(removed, f)
		}
	}
	sort.Slice(removed, func(i, j int) bool { return removed[i] < removed[j] })
	k.cur = now
	if flushed != nil {
		if len(added) != 1 {
			k.c.Fail("flush-tables", fmt.Sprintf("a flush commit added tables %v", added))
			return added
		}
		k.announce(added[0], flushed)
		return added
	}
	if len(added) == 0 {
		return nil
	}
	m := map[uint32][]uint32{}
	for _, f := range removed {
		for _, e := range k.contents[f] {
			m[e.key] = append(m[e.key], e.toks...)
		}
	}
	var es []sEntry
	for key, toks := range m {
		sort.Slice(toks, func(i, j int) bool { return toks[i] < toks[j] })
		es = append(es, sEntry{key, toks})
	}
	sort.Slice(es, func(i, j int) bool { return es[i].key < es[j].key })
	if len(added) != 1 {
		k.c.Fail("compaction-tables", fmt.Sprintf("a compaction of %v added tables %v", removed, added))
		return added
	}
	k.announce(added[0], es)
	return added
}

func (k *sCase) flush(rng *rand.Rand) {
	var es []sEntry
	for key := uint32(0); key < 8; key++ {
		if rng.Intn(3) > 0 {
			n := 1 + rng.Intn(2)
			var toks []uint32
			for j := 0; j < n; j++ {
				toks = append(toks, k.nextTok)
				k.nextTok++
			}
			es = append(es, sEntry{key, toks})
		}
	}
	if len(es) == 0 {
		es = append(es, sEntry{3, []uint32{k.nextTok}})
		k.nextTok++
	}
	fl := k.fam.NewFlusher()
	var err error
	for _, e := range es {
		var b []byte
		for _, t := range e.toks {
			b = append(b, encTok(t)...)
		}
		if err = fl.Add(e.key, b); err != nil {
			break
		}
	}
	if err == nil {
		err = fl.Commit()
	}
	fl.Release()
	if err != nil {
		k.c.Fail("flush-error", err.Error())
		return
	}
	k.c.Branch("op:flush")
	k.afterCommit(es)
}

func (k *sCase) openScan(i int, f int64) {
	k.closeScan(i)
	snap := k.fam.GetSnapshot()
	rd, err := snap.GetReader(table.FileNumber(f))
	if err != nil || rd == nil {
		snap.Close()
		k.c.Fail("scan-open-failed", fmt.Sprintf("GetReader(%d): %v", f, err))
		return
	}
	for j, o := range k.scans {
		if o != nil && j != i && o.file == f && o.nk > 0 && o.nk < len(k.contents[f]) {
			k.overlap++
			k.c.Branch("open-inside-another-scan-of-the-table")
		}
	}
	k.scans[i] = &sScan{snap: snap, it: rd.Iterator(), rd: rd, file: f, ver: snap.GetCurrent().ID()}
	if k.comp != nil {
		k.c.Branch("open-inside-parked-compaction")
	}
	k.c.Op(fmt.Sprintf("open %d %d", i, f), "ok")
}

func (k *sCase) has(i int, emit bool) bool {
	s := k.scans[i]
	h := s.it.HasNext()
	want := s.nk < len(k.contents[s.file])
	if h != want {
		if !h {
			k.c.Fail("snapshot-scan-short", fmt.Sprintf("scan %d of table %d (snapshot of version %d, still open) ends after %d entries, the table was written with %d (%s)",
				i, s.file, s.ver, s.nk, len(k.contents[s.file]), entsStr(k.contents[s.file])))
		} else {
			k.c.Fail("snapshot-scan-long", fmt.Sprintf("scan %d of table %d (version %d) has more entries after all %d the table was written with", i, s.file, s.ver, s.nk))
		}
	}
	if emit {
		k.c.Op(fmt.Sprintf("has %d", i), map[bool]string{true: "1", false: "0"}[h])
	}
	return h
}

func (k *sCase) keyStep(i int) string {
	s := k.scans[i]
	key := s.it.Key()
	es := k.contents[s.file]
	if s.nk >= len(es) || es[s.nk].key != key {
		k.c.Fail("snapshot-scan-changed", fmt.Sprintf("scan %d of table %d (snapshot of version %d, still open): entry %d has key %d, the table's content at acquisition is %s",
			i, s.file, s.ver, s.nk, key, entsStr(es)))
	}
	s.nk++
	return fmt.Sprintf("k=%d", key)
}

func (k *sCase) valStep(i int) string {
	s := k.scans[i]
	toks := decToks(s.it.Value())
	es := k.contents[s.file]
	if s.nv >= len(es) || !eqU32(es[s.nv].toks, toks) {
		k.c.Fail("snapshot-scan-changed", fmt.Sprintf("scan %d of table %d (snapshot of version %d, still open): value %d is [%s], the table's content at acquisition is %s",
			i, s.file, s.ver, s.nv, joinU32(toks), entsStr(es)))
	}
	s.nv++
	return "v=" + joinU32(toks)
}

func (k *sCase) next(i int) bool {
	if !k.has(i, false) {
		k.c.Op(fmt.Sprintf("next %d", i), "end")
		return false
	}
	r := k.keyStep(i) + " " + k.valStep(i)
	k.c.Op(fmt.Sprintf("next %d", i), r)
	if k.scans[i].nk > 1 {
		k.c.NonTrivial()
	}
	return true
}

// verify: a reader that starts after the commit scans the new table to its end (scan 3) and reads every key
func (k *sCase) verify(f int64) {
	k.openScan(3, f)
	if k.scans[3] == nil {
		return
	}
	for n := 0; n < 64 && k.next(3); n++ {
	}
	snap := k.fam.GetSnapshot()
	defer snap.Close()
	want := map[uint32][]uint32{}
	for f := range k.cur {
		for _, e := range k.contents[f] {
			want[e.key] = append(want[e.key], e.toks...)
		}
	}
	for key, w := range want {
		var got []uint32
		err := snap.Load(key, func(v []byte) error { got = append(got, decToks(v)...); return nil })
		sort.Slice(got, func(i, j int) bool { return got[i] < got[j] })
		sort.Slice(w, func(i, j int) bool { return w[i] < w[j] })
		if err != nil || !eqU32(got, w) {
			k.c.Fail("later-reader-misses-committed-value", fmt.Sprintf("a reader started after the compaction commit reads key %d = [%s] (err %v), committed = [%s]", key, joinU32(got), err, joinU32(w)))
		}
	}
	k.verified++
	k.closeScan(3)
}

func (k *sCase) compactDone() {
	if k.comp != nil && k.comp.err != nil {
		k.c.Fail("compaction-error", k.comp.err.Error())
	}
	if k.comp != nil && k.comp.panicV != nil {
		k.c.Fail("panic", fmt.Sprint(k.comp.panicV))
	}
	k.comp = nil
	for _, f := range k.afterCommit(nil) {
		k.c.Branch("op:compaction-committed")
		k.verify(f)
	}
}

// compaction run on its own goroutine; parked at every Merge call when park is set
func (k *sCase) startCompaction(park bool) {
	if len(k.cur) < 2 {
		return
	}
	if !park {
		if err := kv.VerifC02CompactSync(k.fam); err != nil {
			k.c.Fail("compaction-error", err.Error())
		}
		k.c.Branch("op:compact-whole")
		k.compactDone()
		return
	}
	spawnO(func(t *oThr) { k.comp = t }, func() error { return kv.VerifC02CompactSync(k.fam) })
	if at := k.comp.wait(); at != "merge" {
		k.compactDone()
		return
	}
	k.c.Branch("op:compact-parked")
}

func (k *sCase) compStep(all bool) {
	for k.comp != nil {
		if at := k.comp.step(); at != "merge" {
			k.compactDone()
			return
		}
		k.c.Branch("op:merge-key")
		if !all {
			return
		}
	}
}

// tick: obsolete-file cleanup and a reader-cache Cleanup (every unreferenced entry expired) between two scan steps.
// The tables under an open scan are retained by the scan's snapshot: they must stay in the directory and stay the
// cache's (mapped) entries. Checked BEFORE the scan goes on (a read through an unmapped reader is never executed).
func (k *sCase) tick() {
	kv.VerifC02DeleteObsoleteFiles(k.fam)
	kv.VerifC02CacheCleanup(k.store)
	k.c.Branch("op:cleanup-tick")
	ents := table.VerifC02CacheEntries(kv.VerifC02Cache(k.store))
	onDisk := map[int64]bool{}
	if des, err := os.ReadDir(kv.VerifC02FamilyPath(k.fam)); err == nil {
		for _, de := range des {
			if n, isT := tableNo(de.Name()); isT {
				onDisk[n] = true
			}
		}
	}
	for i, s := range k.scans {
		if s == nil {
			continue
		}
		ok := false
		for _, e := range ents {
			if n, isT := tableNo(e.FileName); isT && n == s.file && e.Reader == s.rd {
				ok = true
			}
		}
		if !onDisk[s.file] {
			k.c.Fail("scanned-table-deleted", fmt.Sprintf("table %d under scan %d (snapshot of version %d, still open) is no longer in the family's directory", s.file, i, s.ver))
		}
		if !ok {
			k.c.Fail("scanned-reader-unmapped", fmt.Sprintf("the reader of table %d under scan %d (snapshot of version %d, still open) was closed (unmapped) by the cache Cleanup", s.file, i, s.ver))
			s.snap.Close()
			k.scans[i] = nil
		}
	}
}

func (k *sCase) pickFile(rng *rand.Rand) (int64, bool) {
	fs := k.curFiles()
	if len(fs) == 0 {
		return 0, false
	}
	// prefer a table another scan is in the middle of
	if rng.Intn(2) == 0 {
		for _, s := range k.scans[:3] {
			if s != nil && k.cur[s.file] && s.nk < len(k.contents[s.file]) {
				return s.file, true
			}
		}
	}
	return fs[rng.Intn(len(fs))], true
}

func (k *sCase) run(i int, rng *rand.Rand) {
	if err := k.open(); err != nil {
		k.c.Fail("open-store", err.Error())
		return
	}
	switch i {
	case 0: // a held snapshot in the middle of a table, a whole compaction, the scan goes on
		k.flush(rng)
		k.flush(rng)
		f := k.curFiles()[0]
		k.openScan(0, f)
		k.next(0)
		k.startCompaction(false)
		k.tick()
		for k.scans[0] != nil && k.next(0) {
		}
		k.c.Branch("directed:compaction-inside-scan")
		return
	case 1: // a scan of an input table inside a parked compaction's merge
		k.flush(rng)
		k.flush(rng)
		f := k.curFiles()[1]
		k.startCompaction(true)
		k.compStep(false)
		k.openScan(0, f)
		for k.next(0) {
		}
		k.compStep(true)
		k.c.Branch("directed:scan-inside-compaction")
		return
	case 2: // two scans of one table, entry by entry, Key() and Value() apart
		k.flush(rng)
		f := k.curFiles()[0]
		k.openScan(0, f)
		k.next(0)
		k.openScan(1, f)
		for n := 0; n < 16; n++ {
			a := k.has(0, true)
			if a {
				k.c.Op("key 0", k.keyStep(0))
			}
			b := k.has(1, true)
			if b {
				k.c.Op("key 1", k.keyStep(1))
				k.c.Op("val 1", k.valStep(1))
			}
			if a {
				k.c.Op("val 0", k.valStep(0))
			}
			if !a && !b {
				break
			}
		}
		k.c.NonTrivial()
		k.c.Branch("directed:two-scans-one-table")
		return
	}
	k.flush(rng)
	steps := 30 + rng.Intn(40)
	for n := 0; n < steps; n++ {
		switch r := rng.Intn(20); {
		case r < 2:
			if len(k.cur) < 4 {
				k.flush(rng)
			}
		case r < 6:
			if f, ok := k.pickFile(rng); ok {
				k.openScan(rng.Intn(3), f)
			}
		case r < 14:
			j := rng.Intn(3)
			if k.scans[j] == nil {
				continue
			}
			if rng.Intn(4) == 0 && k.scans[j].nk == k.scans[j].nv {
				// Key() and Value() apart, another scan's entry in between
				if k.has(j, true) {
					k.c.Op("key "+strconv.Itoa(j), k.keyStep(j))
					o := (j + 1) % 3
					if k.scans[o] != nil {
						k.next(o)
					}
					k.c.Op("val "+strconv.Itoa(j), k.valStep(j))
					k.c.Branch("op:key-val-apart")
				}
			} else {
				k.next(j)
			}
		case r < 16:
			if k.comp == nil {
				k.startCompaction(rng.Intn(2) == 0)
			}
		case r < 17:
			k.tick()
		default:
			k.compStep(rng.Intn(4) == 0)
		}
	}
	k.compStep(true)
	for j := 0; j < 3; j++ {
		if k.scans[j] != nil {
			for n := 0; n < 64 && k.next(j); n++ {
			}
		}
	}
}

func (scanArea) Run(c *core.Ctx) error {
	scanInstall()
	for i := 0; i < c.N; i++ {
		if !c.Want(i) {
			continue
		}
		rng := c.Rng(i)
		k := &sCase{c: c}
		c.Begin(i)
		func() {
			defer func() {
				if r := recover(); r != nil {
					c.Fail("panic", fmt.Sprintf("case %d: %v", i, r))
				}
			}()
			k.run(i, rng)
		}()
		for t := k.comp; t != nil; {
			if at := t.step(); at == "" || at == "stuck" {
				break
			}
		}
		k.close()
		c.Flush()
	}
	return nil
}
