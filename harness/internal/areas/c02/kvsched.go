// Package c02 is the correspondence stream "kvsched" of property C02: a real kv store + family in
// a temp dir, driven through model-chosen interleavings. Every thread of a case (closing reader,
// flush, compaction, deleteObsoleteFiles, rollup-done commit) runs lindb's real code on its own
// goroutine and is parked at the verif yield points / directory seams; a deterministic scheduler
// lets exactly one of them run from park point to park point. After every step the active version
// ids, refcounts, directory listing, pending outputs and reader-cache entries are printed and
// diffed against the Lean model (Driver/C02.lean), and the property itself is evaluated on the
// implementation's observations (impl-side oracle).
package c02

import (
	"encoding/binary"
	"fmt"
	"math/rand"
	"os"
	"path/filepath"
	"runtime"
	"sort"
	"strconv"
	"strings"
	"sync"
	"time"

	"github.com/lindb/common/pkg/ltoml"

	"github.com/lindb/lindb/internal/verifhook"
	"github.com/lindb/lindb/kv"
	"github.com/lindb/lindb/kv/table"
	"github.com/lindb/lindb/kv/version"
	"github.com/lindb/lindb/pkg/bufioutil"
	"github.com/lindb/lindb/pkg/timeutil"

	"github.com/lindb/lindb/zzverif/internal/core"
)

type area struct{}

func init() { core.Register(area{}) }

func (area) Name() string { return "kvsched" }

const (
	knownRaceKey   = "release-race-stale-removeVersion"
	numKeys        = 5
	rollupInterval = timeutil.Interval(300000)
	hourInterval   = timeutil.Interval(3600000)
	sourceInterval = timeutil.Interval(10000)
	mergerName     = "c02-sorted-concat"
)

// ---------------------------------------------------------------- scheduler

type heldReader struct {
	file int64
	rd   table.Reader
}

type thr struct {
	name   string // r<N> / j<N>
	kind   string // reader | flush | compact | rollup | delobs
	parked chan string
	resume chan struct{}
	at     string // model pc name of the current park point ("" = not started)
	alive  bool   // goroutine exists and is parked
	done   bool
	panicV interface{}

	// reader
	snap    version.Snapshot
	ver     version.Version
	held    []heldReader
	closing bool
	expect  map[uint32][]uint32 // content fixed at acquisition
	sawSwap bool

	// job
	payload    [][2]uint32 // flush
	rollFiles  []int64
	inCommit   bool
	out        int64
	outContent map[uint32][]uint32
	mergeSeen  bool
	gid        int64           // goroutine id while alive
	free       bool            // free-running (a `par` op): yield points do not park it
	staleCand  version.Version // version a resumed removeVersion may drop although it is retained
	blocked    bool            // waiting for the version-set mutex
	relVer     version.Version // version whose Dec the thread is parked after
	zero       bool            // that Dec returned 0
	delPath    string          // table file the thread is about to remove
	commitVer  version.Version // current version when the commit took its snapshot
	ownVer     version.Version // compaction's own snapshot version
	err        error
}

type evt struct {
	t  *thr
	id string
}

// sched: threads are identified by their goroutine id (a thread that blocks on the version-set
// mutex keeps running concurrently with the scheduler; when the holder releases the mutex it runs
// on by itself to its next park point).
type sched struct {
	mu     sync.Mutex
	byG    map[int64]*thr
	events chan evt
	locked func() bool // is the version-set mutex held?
}

var theSched *sched

func newSched() *sched { return &sched{byG: map[int64]*thr{}, events: make(chan evt, 64)} }

func goid() int64 {
	var b [64]byte
	n := runtime.Stack(b[:], false)
	f := strings.Fields(string(b[:n]))
	if len(f) < 2 {
		return -1
	}
	id, _ := strconv.ParseInt(f[1], 10, 64)
	return id
}

// self: the thread whose goroutine is calling (nil: not one of ours, e.g. the scheduler itself).
func (s *sched) self() *thr {
	g := goid()
	s.mu.Lock()
	defer s.mu.Unlock()
	return s.byG[g]
}

// parkIDs: the yield points / seams this area schedules at. Other properties' yield points in
// the same code paths are ignored.
var parkIDs = map[string]bool{
	"version.release.afterDec": true, "snapshot.close.afterRelease": true,
	"familyVersion.appendVersion.enter": true, "familyVersion.appendVersion.afterSwap": true,
	"family.deleteObsoleteFiles.afterPending": true, "family.deleteObsoleteFiles.afterActive": true,
	"family.deleteObsoleteFiles.afterRollup": true,
	"kv.listDir.after":                       true, "kv.removeDir.before": true, "kv.removeDir.after": true,
	"compact.beforeRun": true, "table.newWriter.before": true, "table.newWriter.after": true, "merge.first": true,
	"versionSet.persist.beforeSync": true,
}

func hook(id string) {
	if s := theSched; s != nil && parkIDs[id] {
		s.park(id)
	}
}

func (s *sched) park(id string) {
	t := s.self()
	if t == nil || t.free {
		return
	}
	s.events <- evt{t, id}
	<-t.resume
}

func (s *sched) start(t *thr, f func()) {
	t.alive = true
	go func() {
		g := goid()
		s.mu.Lock()
		s.byG[g] = t
		t.gid = g
		s.mu.Unlock()
		defer func() {
			if r := recover(); r != nil {
				t.panicV = r
			}
			s.mu.Lock()
			delete(s.byG, g)
			s.mu.Unlock()
			s.events <- evt{t, "done"}
		}()
		f()
	}()
}

func (s *sched) resumeT(t *thr) { t.resume <- struct{}{} }

// mutexWaiters: goroutine ids currently waiting in a sync mutex/semaphore acquire.
func mutexWaiters() map[int64]bool {
	buf := make([]byte, 1<<20)
	n := runtime.Stack(buf, true)
	rs := map[int64]bool{}
	for _, line := range strings.Split(string(buf[:n]), "\n") {
		if !strings.HasPrefix(line, "goroutine ") {
			continue
		}
		f := strings.SplitN(line, " ", 3)
		if len(f) < 3 {
			continue
		}
		id, err := strconv.ParseInt(f[1], 10, 64)
		if err != nil {
			continue
		}
		st := f[2]
		if strings.Contains(st, "sync.Mutex.Lock") || strings.Contains(st, "sync.RWMutex.Lock") ||
			strings.Contains(st, "sync.RWMutex.RLock") || strings.Contains(st, "semacquire") {
			rs[id] = true
		}
	}
	return rs
}

// settle waits until every thread in busy has reached a park point (or finished) or is blocked on
// the version-set mutex that a parked thread holds. Returns the park id per settled thread ("" =
// blocked) or ok=false on timeout.
func (s *sched) settle(busy []*thr) (map[*thr]string, bool) {
	res := map[*thr]string{}
	pending := map[*thr]bool{}
	for _, t := range busy {
		pending[t] = true
	}
	deadline := time.Now().Add(20 * time.Second)
	for len(pending) > 0 {
		select {
		case e := <-s.events:
			res[e.t] = e.id
			delete(pending, e.t)
		case <-time.After(300 * time.Microsecond):
			if time.Now().After(deadline) {
				return res, false
			}
			// all remaining threads waiting for a mutex that is (still) held ⇒ the holder is parked
			w := mutexWaiters()
			all := true
			for t := range pending {
				if t.gid == 0 || !w[t.gid] {
					all = false
				}
			}
			if all && s.locked != nil && s.locked() {
				// re-check once: a waiter that was just handed the mutex shows up as an event shortly
				time.Sleep(200 * time.Microsecond)
				select {
				case e := <-s.events:
					res[e.t] = e.id
					delete(pending, e.t)
					continue
				default:
				}
				w = mutexWaiters()
				still := true
				for t := range pending {
					if !w[t.gid] {
						still = false
					}
				}
				if still && s.locked() {
					for t := range pending {
						res[t] = ""
					}
					return res, true
				}
			}
		}
	}
	return res, true
}

// ---------------------------------------------------------------- merger

func encTok(t uint32) []byte {
	b := make([]byte, 4)
	binary.BigEndian.PutUint32(b, t)
	return b
}

func decToks(b []byte) []uint32 {
	var r []uint32
	for i := 0; i+4 <= len(b); i += 4 {
		r = append(r, binary.BigEndian.Uint32(b[i:]))
	}
	return r
}

type merger struct{ f kv.Flusher }

func (m *merger) Init(map[string]interface{}) {}

// Merge concatenates the value tokens of one key and sorts them (independent of iterator order).
func (m *merger) Merge(key uint32, values [][]byte) error {
	var toks []uint32
	for _, v := range values {
		toks = append(toks, decToks(v)...)
	}
	sort.Slice(toks, func(i, j int) bool { return toks[i] < toks[j] })
	if t := selfThr(); t != nil {
		s := theSched
		if !t.mergeSeen {
			t.mergeSeen = true
			s.park("merge.first")
		}
		if t.outContent == nil {
			t.outContent = map[uint32][]uint32{}
		}
		t.outContent[key] = append([]uint32(nil), toks...)
	}
	var out []byte
	for _, t := range toks {
		out = append(out, encTok(t)...)
	}
	return m.f.Add(key, out)
}

func selfThr() *thr {
	if s := theSched; s != nil {
		return s.self()
	}
	return nil
}

var installed bool

func install() {
	if installed {
		return
	}
	installed = true
	kv.RegisterMerger(mergerName, func(f kv.Flusher) (kv.Merger, error) { return &merger{f: f}, nil })
	verifhook.Set(hook)
	kv.VerifC02SetSeams(
		func(string) { hook("kv.listDir.after") },
		func(path string) {
			if t := selfThr(); t != nil {
				t.delPath = path
			}
			hook("kv.removeDir.before")
		},
		func(string) { hook("kv.removeDir.after") })
	kv.VerifC02WrapCompactJob(func() { hook("compact.beforeRun") })
	version.VerifC02WrapManifestWriter(func() { hook("versionSet.persist.beforeSync") })
	// table-writer seam (fires inside table.NewStoreBuilder): park before and after the file is created
	table.VerifC01SetNewWriter(func(fileName string) (bufioutil.BufioWriter, error) {
		if t := selfThr(); t != nil {
			if n, ok := tableNo(filepath.Base(fileName)); ok {
				t.out = n
			}
		}
		hook("table.newWriter.before")
		w, err := bufioutil.NewBufioStreamWriter(fileName)
		hook("table.newWriter.after")
		return w, err
	})
}

func tableNo(name string) (int64, bool) {
	if !strings.HasSuffix(name, ".sst") {
		return 0, false
	}
	n, err := strconv.ParseInt(strings.TrimSuffix(name, ".sst"), 10, 64)
	return n, err == nil
}

// ---------------------------------------------------------------- one case

type fail struct {
	key, desc string
	ver       int64 // version the failure is about (-1: none)
}

type kase struct {
	c         *core.Ctx
	s         *sched
	dir       string
	storeName string
	store     kv.Store
	fam       kv.Family
	fv        version.FamilyVersion
	rollupOn  bool
	nTargets  int // number of rollup target intervals of the source store (0, 1: [5m], 2: [5m, 1h])
	threshold int

	// rollup target stores that are open (interval in minutes -> store name); the harness' own record of
	// which (table, interval) rollups are owed: every mark it ever saw minus those a rollup really did
	targetOpen map[int]string
	seenMarks  map[[2]int64]bool
	doneMarks  map[[2]int64]bool
	toldMarks  map[[2]int64]bool // owed rollups already reported as forgotten (their tables are still watched)

	readers  map[int]*thr
	closers  map[int]*thr // second Close() callers on a shared snapshot
	sparse   bool         // flush payloads have one or two keys
	jobs     []*thr
	nReaders int

	contents  map[int64]map[uint32][]uint32 // table number -> key -> tokens (flushes: as written; compactions: as merged)
	committed map[uint32][]uint32           // tokens of every flush whose version swap completed
	nextTok   uint32
	tainted   map[int64]bool // versions removed from activeVersions by a stale removeVersion (Dec saw 0, ref > 0 at removal)
	fails     []fail
	forced    *thr // racy Release: a thread parked after Dec→0 must run next (random cases)
	racy      bool // random cases keep Release atomic when Dec returned 0
	broken    string
	swaps     int

	// a second family of the same store (shares the version-set mutex, both counters, the reader cache)
	otherFam  kv.Family
	foreign   map[int64]bool
	otherToks map[uint32][]uint32
	otherL0   int
}

func joinU32(xs []uint32) string {
	s := make([]string, len(xs))
	for i, x := range xs {
		s[i] = strconv.FormatUint(uint64(x), 10)
	}
	return strings.Join(s, ",")
}

func (k *kase) failf(key string, ver int64, format string, a ...interface{}) {
	k.fails = append(k.fails, fail{key: key, desc: fmt.Sprintf(format, a...), ver: ver})
}

func (k *kase) open(threshold int, nTargets int) error {
	rollupOn := nTargets > 0
	k.nTargets = nTargets
	k.targetOpen = map[int]string{}
	k.seenMarks = map[[2]int64]bool{}
	k.doneMarks = map[[2]int64]bool{}
	k.toldMarks = map[[2]int64]bool{}
	dir, err := os.MkdirTemp("", "lvh-c02-*")
	if err != nil {
		return err
	}
	k.dir = dir
	// a source segment store as tsdb lays it out: <base>/segment/<interval type>/<yyyymmdd>, family = hour
	k.storeName = filepath.Join(dir, "segment", sourceInterval.Type().String(), "20190702")
	opt := kv.DefaultStoreOption()
	opt.TTL = ltoml.Duration(-time.Hour) // every unreferenced cache entry counts as expired
	opt.Source = sourceInterval
	if rollupOn {
		opt.Rollup = []timeutil.Interval{rollupInterval}
		if nTargets > 1 {
			opt.Rollup = append(opt.Rollup, hourInterval)
		}
	}
	st, err := kv.GetStoreManager().CreateStore(k.storeName, opt)
	if err != nil {
		return err
	}
	k.store = st
	fam, err := st.CreateFamily("13", kv.FamilyOption{Merger: mergerName, CompactThreshold: threshold})
	if err != nil {
		return err
	}
	k.fam = fam
	k.fv = kv.VerifC02FamilyVersion(fam)
	k.rollupOn, k.threshold = rollupOn, threshold
	k.readers = map[int]*thr{}
	k.contents = map[int64]map[uint32][]uint32{}
	k.committed = map[uint32][]uint32{}
	k.tainted = map[int64]bool{}
	k.nextTok = 10
	return nil
}

func (k *kase) close() {
	if k.broken == "" && k.store != nil {
		_ = kv.GetStoreManager().CloseStore(k.storeName)
		for _, name := range k.targetOpen {
			_ = kv.GetStoreManager().CloseStore(name)
		}
	}
	if k.dir != "" {
		os.RemoveAll(k.dir)
	}
}

// cacheEntries: the store's reader-cache entries of THIS family (the cache is shared by the store's
// families and keyed by file name; table numbers are store-unique, the other family's are known).
func (k *kase) cacheEntries() []table.VerifC02Entry {
	ents := table.VerifC02CacheEntries(kv.VerifC02Cache(k.store))
	if len(k.foreign) == 0 {
		return ents
	}
	var rs []table.VerifC02Entry
	for _, e := range ents {
		if n, ok := tableNo(e.FileName); ok && k.foreign[n] {
			continue
		}
		rs = append(rs, e)
	}
	return rs
}

// noteForeign records the table numbers the other family owns (its directory and pending outputs).
func (k *kase) noteForeign() {
	if k.otherFam == nil {
		return
	}
	if k.foreign == nil {
		k.foreign = map[int64]bool{}
	}
	ents, _ := os.ReadDir(kv.VerifC02FamilyPath(k.otherFam))
	for _, e := range ents {
		if n, ok := tableNo(e.Name()); ok {
			k.foreign[n] = true
		}
	}
	for _, p := range kv.VerifC02Pending(k.otherFam) {
		k.foreign[p] = true
	}
}

func (k *kase) diskFiles() []int64 {
	ents, _ := os.ReadDir(kv.VerifC02FamilyPath(k.fam))
	var rs []int64
	for _, e := range ents {
		if n, ok := tableNo(e.Name()); ok {
			rs = append(rs, n)
		}
	}
	sort.Slice(rs, func(i, j int) bool { return rs[i] < rs[j] })
	return rs
}

func joinI64(xs []int64) string {
	s := make([]string, len(xs))
	for i, x := range xs {
		s[i] = strconv.FormatInt(x, 10)
	}
	return strings.Join(s, ",")
}

func showVers(vs []version.Version) string {
	sort.Slice(vs, func(i, j int) bool { return vs[i].ID() < vs[j].ID() })
	var parts []string
	var last int64 = -1
	for _, v := range vs {
		if v.ID() == last {
			continue
		}
		last = v.ID()
		parts = append(parts, fmt.Sprintf("%d:%d", v.ID(), v.NumOfRef()))
	}
	return strings.Join(parts, ",")
}

func (k *kase) state() string {
	cur, act := version.VerifC02State(k.fv)
	var rv []version.Version
	for _, t := range k.readers {
		rv = append(rv, t.ver)
	}
	ents := k.cacheEntries()
	sort.Slice(ents, func(i, j int) bool { return ents[i].FileName < ents[j].FileName })
	var cache []string
	for _, e := range ents {
		n, _ := tableNo(e.FileName)
		cache = append(cache, fmt.Sprintf("%d:%d", n, e.Ref))
	}
	lock, cmp := 0, 0
	if kv.VerifC02CommitLocked(k.store) {
		lock = 1
	}
	if kv.VerifC02Compacting(k.fam) {
		cmp = 1
	}
	var roll []string
	for _, m := range marksOf(cur) {
		roll = append(roll, fmt.Sprintf("%d:%d", m[0], m[1]))
	}
	return fmt.Sprintf("cur=%d act=%s rv=%s disk=%s pend=%s cache=%s lock=%d cmp=%d roll=%s",
		cur.ID(), showVers(act), showVers(rv), joinI64(k.diskFiles()), joinI64(kv.VerifC02Pending(k.fam)),
		strings.Join(cache, ","), lock, cmp, strings.Join(roll, ","))
}

// marksOf: the rollup marks of a version as sorted (table, target interval in minutes) pairs.
func marksOf(v version.Version) [][2]int64 {
	var ms [][2]int64
	for f, ivs := range v.GetRollupFiles() {
		for _, iv := range ivs {
			ms = append(ms, [2]int64{f.Int64(), int64(iv) / 60000})
		}
	}
	sort.Slice(ms, func(i, j int) bool {
		if ms[i][0] != ms[j][0] {
			return ms[i][0] < ms[j][0]
		}
		return ms[i][1] < ms[j][1]
	})
	return ms
}

// openTarget opens the target store of a rollup interval (5 or 60 minutes) the way tsdb lays the
// segments out next to the source segment: <base>/segment/month/201907 resp. <base>/segment/year/2019.
// Harness-only action: the model learns about it through the `rollupjob` op's list of open targets.
func (k *kase) openTarget(iv int) {
	if _, ok := k.targetOpen[iv]; ok || k.broken != "" {
		return
	}
	name := filepath.Join(k.dir, "segment", "month", "201907")
	if iv == 60 {
		name = filepath.Join(k.dir, "segment", "year", "2019")
	}
	if _, err := kv.GetStoreManager().CreateStore(name, kv.DefaultStoreOption()); err != nil {
		k.broken = "cannot open rollup target store: " + err.Error()
		return
	}
	k.targetOpen[iv] = name
	k.branch(fmt.Sprintf("rollup-target-opened:%dm", iv))
}

func pairsStr(ps [][2]int64) string {
	var parts []string
	for _, p := range ps {
		parts = append(parts, fmt.Sprintf("%d:%dm", p[0], p[1]))
	}
	return strings.Join(parts, ",")
}

// versionTokens: the tokens a read of key through version v must return (from the harness' own
// record of what every table holds).
func (k *kase) versionTokens(v version.Version, key uint32) []uint32 {
	var toks []uint32
	for _, fm := range v.GetAllFiles() {
		if key < fm.GetMinKey() || key > fm.GetMaxKey() {
			continue
		}
		toks = append(toks, k.contents[fm.GetFileNumber().Int64()][key]...)
	}
	sort.Slice(toks, func(i, j int) bool { return toks[i] < toks[j] })
	return toks
}

func eqU32(a, b []uint32) bool {
	if len(a) != len(b) {
		return false
	}
	for i := range a {
		if a[i] != b[i] {
			return false
		}
	}
	return true
}

// oracle: evaluated on the implementation after every step.
func (k *kase) oracle() {
	cur, act := version.VerifC02State(k.fv)
	activeIDs := map[int64]bool{}
	for _, v := range act {
		activeIDs[v.ID()] = true
	}
	disk := map[int64]bool{}
	for _, f := range k.diskFiles() {
		disk[f] = true
	}
	// rollups that are owed: every (table, interval) mark ever seen that no rollup has done yet must
	// still be marked in the current version, and its table must be in the directory
	marked := map[[2]int64]bool{}
	for _, m := range marksOf(cur) {
		marked[m] = true
		k.seenMarks[m] = true
	}
	var forgotten, deleted [][2]int64
	for m := range k.seenMarks {
		if k.doneMarks[m] {
			continue
		}
		if !marked[m] && !k.toldMarks[m] {
			forgotten = append(forgotten, m)
		}
		if !disk[m[0]] {
			deleted = append(deleted, m)
		}
	}
	less := func(ps [][2]int64) func(i, j int) bool {
		return func(i, j int) bool { return ps[i][0] < ps[j][0] || (ps[i][0] == ps[j][0] && ps[i][1] < ps[j][1]) }
	}
	sort.Slice(forgotten, less(forgotten))
	sort.Slice(deleted, less(deleted))
	if len(forgotten) > 0 {
		k.failf("pending-rollup-forgotten", -1, "the rollups [%s] (table:target interval) were never done but the current version %d no longer marks them", pairsStr(forgotten), cur.ID())
		for _, m := range forgotten {
			k.toldMarks[m] = true // reported once; the table stays watched
		}
	}
	if len(deleted) > 0 {
		k.failf("pending-rollup-file-deleted", -1, "tables of the pending rollups [%s] (table:target interval; never rolled up into that target) are gone from the directory", pairsStr(deleted))
		for _, m := range deleted {
			k.doneMarks[m] = true // reported once
		}
	}
	ents := k.cacheEntries()
	for _, t := range k.readers {
		if t.snap == nil || t.closing {
			continue
		}
		id := t.ver.ID()
		if !activeIDs[id] {
			k.failf("held-version-not-active", id, "reader %s holds version %d (ref %d) which is no longer in activeVersions", t.name, id, t.ver.NumOfRef())
		}
		for _, fm := range t.ver.GetAllFiles() {
			if n := fm.GetFileNumber().Int64(); !disk[n] {
				k.failf("held-file-missing", id, "table %d of version %d held by reader %s is gone from the directory", n, id, t.name)
			}
		}
		for _, h := range t.held {
			ok := false
			for _, e := range ents {
				if n, _ := tableNo(e.FileName); n == h.file && e.Reader == h.rd {
					ok = true
				}
			}
			if !ok {
				k.failf("held-reader-unmapped", id, "reader %s retains the reader of table %d but the cache closed (unmapped) it", t.name, h.file)
			}
		}
	}
}

// deleteMonitor runs when a thread is parked right before removing a table file.
func (k *kase) deleteMonitor(n int64) {
	for _, t := range k.readers {
		if t.snap == nil || t.closing {
			continue
		}
		for _, fm := range t.ver.GetAllFiles() {
			if fm.GetFileNumber().Int64() == n {
				k.failf("delete-needed-file", t.ver.ID(), "table %d is being deleted while reader %s holds a snapshot of version %d listing it", n, t.name, t.ver.ID())
			}
		}
	}
	_, act := version.VerifC02State(k.fv)
	for _, v := range act {
		for _, fm := range v.GetAllFiles() {
			if fm.GetFileNumber().Int64() == n {
				k.failf("delete-active-version-file", v.ID(), "table %d is being deleted while the active version %d lists it", n, v.ID())
			}
		}
	}
	for _, j := range k.jobs {
		if j.alive && !j.done && j.out == n && (j.kind == "flush" || j.kind == "compact") {
			switch j.at {
			case "ready", "cLocked", "cSnapped", "cSwapped", "cDecd", "cRemoved":
				k.failf("delete-unfinished-writer-table", -1, "table %d is being deleted while job %s (%s, at %s) has created it and not finished its commit", n, j.name, j.kind, j.at)
			}
		}
	}
	for _, p := range kv.VerifC02Pending(k.fam) {
		if p == n {
			k.failf("delete-pending-output", -1, "table %d is being deleted while it is a pending output", n)
		}
	}
	cur, _ := version.VerifC02State(k.fv)
	for f := range cur.GetRollupFiles() {
		if f.Int64() == n {
			k.failf("delete-rollup-file", -1, "table %d is being deleted while the current version still marks it for rollup", n)
		}
	}
	for m := range k.seenMarks {
		if m[0] == n && !k.doneMarks[m] {
			k.failf("delete-pending-rollup-file", -1, "table %d is being deleted while its rollup into the %dm target is still owed (never done)", n, m[1])
		}
	}
}

func (k *kase) pcName(t *thr, id string) string {
	reader := t.kind == "reader"
	switch id {
	case "table.newWriter.before":
		return "allocd"
	case "table.newWriter.after":
		return "ready"
	case "versionSet.persist.beforeSync":
		return "cLocked"
	case "familyVersion.appendVersion.enter":
		t.inCommit = true
		return "cSnapped"
	case "familyVersion.appendVersion.afterSwap":
		return "cSwapped"
	case "version.release.afterDec":
		if reader {
			return "decd"
		}
		if t.inCommit {
			return "cDecd"
		}
		return "oDecd"
	case "snapshot.close.afterRelease":
		if reader {
			return "removed"
		}
		if t.inCommit {
			t.inCommit = false
			return "cRemoved"
		}
		return "oRemoved"
	case "compact.beforeRun":
		return "picked"
	case "merge.first":
		return "merging"
	case "kv.listDir.after":
		return "doListed"
	case "family.deleteObsoleteFiles.afterPending":
		return "doPended"
	case "family.deleteObsoleteFiles.afterActive":
		return "doActived"
	case "family.deleteObsoleteFiles.afterRollup":
		return "doRolled"
	case "kv.removeDir.before":
		return "doEvicted"
	case "kv.removeDir.after":
		return "doRemoved"
	case "done":
		if reader {
			return "closed"
		}
		return "done"
	}
	return "unknown:" + id
}

// afterPark: bookkeeping + oracle pieces tied to the park point thread t just reached.
func (k *kase) afterPark(t *thr, pc string) {
	cur, _ := version.VerifC02State(k.fv)
	switch pc {
	case "cSnapped":
		t.commitVer = cur
	case "cSwapped":
		k.swaps++
		for _, r := range k.readers {
			if r.snap != nil && !r.closing {
				r.sawSwap = true
			}
		}
		switch t.kind {
		case "flush":
			m := map[uint32][]uint32{}
			for _, p := range t.payload {
				m[p[0]] = []uint32{p[1]}
				k.committed[p[0]] = append(k.committed[p[0]], p[1])
			}
			k.contents[t.out] = m
		case "compact":
			if t.outContent != nil {
				k.contents[t.out] = t.outContent
			}
		}
		k.checkCommitted(cur, fmt.Sprintf("after the version swap of %s (%s)", t.name, t.kind))
	case "allocd":
		for _, o := range k.jobs {
			if o != t && o.out != 0 && o.out == t.out {
				k.failf("duplicate-file-number", -1, "job %s was handed table number %d which job %s already owns", t.name, t.out, o.name)
			}
		}
		if t.kind == "flush" { // content is known from the start; readers cannot see it before the swap
			m := map[uint32][]uint32{}
			for _, p := range t.payload {
				m[p[0]] = []uint32{p[1]}
			}
			k.contents[t.out] = m
		}
	case "decd":
		t.relVer = t.ver
	case "cDecd":
		t.relVer = t.commitVer
	case "oDecd":
		t.relVer = t.ownVer
	case "done", "closed":
		t.done, t.alive = true, false
		if t.kind == "flush" && t.err == nil && t.panicV == nil {
			// every returned commit is in the current version afterwards
			k.checkCommitted(cur, fmt.Sprintf("after Commit() of %s returned", t.name))
		}
	}
	if pc == "decd" || pc == "cDecd" || pc == "oDecd" {
		t.zero = t.relVer != nil && t.relVer.NumOfRef() == 0
		if k.racy && t.zero {
			k.forced = t
		}
	}
	if t.panicV != nil {
		k.failf("panic", -1, "thread %s panicked: %v", t.name, t.panicV)
		t.panicV = nil
	}
}

// checkCommitted: the current version shows exactly the tokens of all flush commits whose version
// swap completed (compactions preserve them).
func (k *kase) checkCommitted(cur version.Version, when string) {
	for key := uint32(0); key < numKeys; key++ {
		have := k.versionTokens(cur, key)
		want := append([]uint32(nil), k.committed[key]...)
		sort.Slice(want, func(i, j int) bool { return want[i] < want[j] })
		if !eqU32(have, want) {
			k.failf("commit-lost", -1, "%s the current version %d shows key %d = [%s], completed commits wrote [%s]",
				when, cur.ID(), key, joinU32(have), joinU32(want))
			return
		}
	}
}

// beforeResume: detects the stale removeVersion (Dec returned 0, the version was retained again
// and is no longer current when removeVersion runs).
func (k *kase) beforeResume(t *thr) {
	if t.at == "decd" || t.at == "cDecd" || t.at == "oDecd" {
		if v := t.relVer; v != nil && t.zero {
			cur, _ := version.VerifC02State(k.fv)
			if v.NumOfRef() > 0 && v != cur {
				t.staleCand = v // confirmed after the step: only if removeVersion really dropped it
			}
		}
	}
}

func (k *kase) lockFree() bool { return !kv.VerifC02CommitLocked(k.store) }

func (k *kase) compactionActive() bool {
	for _, j := range k.jobs {
		if j.kind == "compact" && j.alive {
			return true
		}
	}
	return false
}

// enabled: would `run t` make progress without blocking on the version-set mutex?
func (k *kase) enabled(t *thr) bool {
	if t.done || t.blocked {
		return false
	}
	if t.kind == "reader" {
		return t.closing
	}
	switch t.at {
	case "":
		switch t.kind {
		case "flush", "rollup":
			return k.lockFree()
		case "compact":
			return !k.compactionActive() && !kv.VerifC02Compacting(k.fam)
		}
		return true
	case "ready", "picked", "merging":
		return k.lockFree()
	}
	return true
}

// wouldBlock: `run t` would stop at the version-set mutex (held by a thread parked inside a commit).
func (k *kase) wouldBlock(t *thr) bool {
	if t.done || t.blocked || t.kind == "reader" || k.lockFree() {
		return false
	}
	switch t.at {
	case "":
		return t.kind == "flush" || t.kind == "rollup"
	case "ready", "picked", "merging":
		return true
	}
	return false
}

func (k *kase) anyBlocked() bool {
	for _, j := range k.jobs {
		if j.blocked {
			return true
		}
	}
	return false
}

func (k *kase) emit(op, res string) {
	if k.c != nil {
		k.c.Op(op, res+" | "+k.state())
	}
}

func (k *kase) branch(name string) {
	if k.c != nil {
		k.c.Branch(name)
	}
}

func (k *kase) nonTrivial() {
	if k.c != nil {
		k.c.NonTrivial()
	}
}

func (k *kase) body(t *thr) func() {
	switch t.kind {
	case "flush":
		return func() {
			fl := k.fam.NewFlusher()
			defer fl.Release()
			for _, p := range t.payload {
				if err := fl.Add(p[0], encTok(p[1])); err != nil {
					t.err = err
					return
				}
			}
			t.err = fl.Commit()
		}
	case "compact":
		return func() { t.err = kv.VerifC02CompactSync(k.fam) }
	case "delobs":
		return func() { kv.VerifC02DeleteObsoleteFiles(k.fam) }
	case "rollup":
		// stands for "the 5m target merged these tables": those rollups are done
		for _, f := range t.rollFiles {
			k.doneMarks[[2]int64{f, 5}] = true
		}
		return func() {
			if !kv.VerifC02CommitRollupDone(k.fam, t.rollFiles, rollupInterval) {
				t.err = fmt.Errorf("commit failed")
			}
		}
	}
	return func() {}
}

// exec performs one protocol operation on the implementation and records it.
func (k *kase) exec(op string) string {
	ws := strings.Fields(op)
	res := "bad-op"
	num := func(s string) int { n, _ := strconv.Atoi(s); return n }
	switch ws[0] {
	case "acquire":
		r := num(ws[1])
		t := &thr{name: "r" + ws[1], kind: "reader", parked: make(chan string), resume: make(chan struct{})}
		t.snap = k.fam.GetSnapshot()
		t.ver = t.snap.GetCurrent()
		t.expect = map[uint32][]uint32{}
		for key := uint32(0); key < numKeys; key++ {
			t.expect[key] = k.versionTokens(t.ver, key)
			want := append([]uint32(nil), k.committed[key]...)
			sort.Slice(want, func(i, j int) bool { return want[i] < want[j] })
			if !eqU32(t.expect[key], want) {
				k.failf("later-reader-missed-commit", -1, "reader %s started after %d commits completed; its version %d shows key %d = [%s], committed = [%s]",
					t.name, k.swaps, t.ver.ID(), key, joinU32(t.expect[key]), joinU32(want))
			}
		}
		k.readers[r] = t
		res = "ok"
	case "getr":
		t := k.readers[num(ws[1])]
		f := int64(num(ws[2]))
		rd, err := t.snap.GetReader(table.FileNumber(f))
		if err != nil || rd == nil {
			res = "err"
		} else {
			t.held = append(t.held, heldReader{file: f, rd: rd})
			res = "ok"
		}
	case "find", "load", "loadc":
		t := k.readers[num(ws[1])]
		key := uint32(num(ws[2]))
		var toks []uint32
		var err error
		if ws[0] == "loadc" {
			// the loader lets one reader-cache Cleanup tick (every unreferenced entry counts as expired)
			// run before it uses the value it was handed (a slice of the table's mapping)
			covering := map[int64]bool{}
			for _, fm := range t.ver.GetAllFiles() {
				if key >= fm.GetMinKey() && key <= fm.GetMaxKey() {
					covering[fm.GetFileNumber().Int64()] = true
				}
			}
			ticked := false
			var gone []int64
			err = t.snap.Load(key, func(v []byte) error {
				cp := append([]byte(nil), v...)
				if !ticked {
					ticked = true
					before := k.cacheEntries()
					kv.VerifC02CacheCleanup(k.store)
					after := map[string]bool{}
					for _, e := range k.cacheEntries() {
						after[e.FileName] = true
					}
					unmapped := false
					for _, e := range before {
						if !after[e.FileName] {
							n, _ := tableNo(e.FileName)
							if covering[n] {
								// a covering table this Load has not opened yet may be closed (it is re-opened
								// when the loop gets there); the one the value comes from must not be
								if eqU32(decToks(cp), k.contents[n][key]) {
									unmapped = true
									k.failf("value-unmapped-under-loader", t.ver.ID(), "a Cleanup tick inside the loader of Load(%d) by reader %s closed (unmapped) table %d, which the Load is reading from", key, t.name, n)
								}
							} else {
								gone = append(gone, n)
							}
						}
					}
					if !unmapped && string(cp) != string(v) {
						k.failf("value-changed-under-loader", t.ver.ID(), "the value handed to the loader of Load(%d) changed after a Cleanup tick", key)
					}
				}
				toks = append(toks, decToks(cp)...)
				return nil
			})
			sort.Slice(gone, func(i, j int) bool { return gone[i] < gone[j] })
			for _, g := range gone {
				op += " " + strconv.FormatInt(g, 10)
				for _, o := range k.readers {
					if o.snap == nil || o.closing {
						continue
					}
					for _, h := range o.held {
						if h.file == g {
							k.failf("cleanup-closed-held-reader", o.ver.ID(), "Cleanup closed the reader of table %d retained by reader %s", g, o.name)
						}
					}
				}
			}
		} else if ws[0] == "find" {
			var rds []table.Reader
			rds, err = t.snap.FindReaders(key)
			if err == nil {
				for _, rd := range rds {
					if n, ok := tableNo(rd.FileName()); ok {
						t.held = append(t.held, heldReader{file: n, rd: rd})
					}
					v, e := rd.Get(key)
					if e == nil {
						toks = append(toks, decToks(v)...)
					}
				}
			}
		} else {
			err = t.snap.Load(key, func(v []byte) error { toks = append(toks, decToks(v)...); return nil })
		}
		if err != nil {
			res = "err"
			k.failf("snapshot-read-failed", t.ver.ID(), "reader %s (version %d) can no longer read key %d: %v", t.name, t.ver.ID(), key, errShort(err))
		} else {
			sort.Slice(toks, func(i, j int) bool { return toks[i] < toks[j] })
			res = "ok toks=" + joinU32(toks)
			if !eqU32(toks, t.expect[key]) {
				k.failf("snapshot-read-changed", t.ver.ID(), "reader %s (version %d) reads key %d = [%s], at acquisition it was [%s]", t.name, t.ver.ID(), key, joinU32(toks), joinU32(t.expect[key]))
			}
			if t.sawSwap {
				k.nonTrivial()
			}
		}
	case "findfail":
		t := k.readers[num(ws[1])]
		key := uint32(num(ws[2]))
		f := int64(num(ws[3]))
		table.VerifC02FailOpenOnce(version.Table(table.FileNumber(f)))
		_, err := t.snap.FindReaders(key)
		table.VerifC02ClearOpenFaults()
		if err == nil {
			res = "ok-unexpected"
			k.broken = "injected open fault did not fire"
		} else {
			res = "err"
			// the readers opened before the failing table stay recorded in the snapshot (Close releases
			// them): they are retained readers of this snapshot
			lvl := version.VerifC02Level(t.ver, f)
			ents := k.cacheEntries()
			for _, fm := range t.ver.GetAllFiles() {
				n := fm.GetFileNumber().Int64()
				if key < fm.GetMinKey() || key > fm.GetMaxKey() || version.VerifC02Level(t.ver, n) >= lvl {
					continue
				}
				for _, e := range ents {
					if en, _ := tableNo(e.FileName); en == n {
						t.held = append(t.held, heldReader{file: n, rd: e.Reader})
					}
				}
			}
		}
	case "close2", "run2":
		// a second Close() on the SAME snapshot object (tsdb shares one snapshot between several result
		// sets, each closing it) while the first Close() is parked inside; with the CAS guard it
		// returns at once
		r := k.readers[num(ws[1])]
		var c2 *thr
		if ws[0] == "close2" {
			c2 = &thr{name: r.name + "b", kind: "reader", ver: r.ver, parked: make(chan string), resume: make(chan struct{})}
			if k.closers == nil {
				k.closers = map[int]*thr{}
			}
			k.closers[num(ws[1])] = c2
			k.s.start(c2, func() { r.snap.Close() })
		} else {
			c2 = k.closers[num(ws[1])]
			k.beforeResume(c2)
			k.s.resumeT(c2)
		}
		got, ok := k.s.settle([]*thr{c2})
		if !ok {
			k.broken = "second Close() did not return"
			res = "timeout"
			break
		}
		if got[c2] == "done" {
			c2.done, c2.alive = true, false
			if ws[0] == "close2" {
				res = "at=noop"
			} else {
				res = "at=closed"
			}
		} else {
			res = k.parked(c2, got[c2])
		}
	case "parget":
		// two snapshots ask the cache for the same never-opened table at the same time
		a, b := k.readers[num(ws[1])], k.readers[num(ws[2])]
		f := int64(num(ws[3]))
		start := make(chan struct{})
		type rr struct {
			rd  table.Reader
			err error
		}
		outs := make([]chan rr, 2)
		for i, t := range []*thr{a, b} {
			outs[i] = make(chan rr, 1)
			go func(t *thr, ch chan rr) {
				<-start
				rd, err := t.snap.GetReader(table.FileNumber(f))
				ch <- rr{rd, err}
			}(t, outs[i])
		}
		close(start)
		var parts []string
		for i, t := range []*thr{a, b} {
			o := <-outs[i]
			if o.err != nil || o.rd == nil {
				parts = append(parts, "err")
			} else {
				t.held = append(t.held, heldReader{file: f, rd: o.rd})
				parts = append(parts, "ok")
			}
		}
		res = strings.Join(parts, " ")
		k.nonTrivial()
	case "close":
		t := k.readers[num(ws[1])]
		t.closing = true
		k.s.start(t, func() { t.snap.Close() })
		op, res = k.settleOp(op, t)
	case "run":
		var t *thr
		n := num(ws[1][1:])
		if ws[1][0] == 'r' {
			t = k.readers[n]
		} else {
			t = k.jobs[n]
		}
		if !t.alive {
			if t.kind == "compact" {
				cur, _ := version.VerifC02State(k.fv)
				t.ownVer = cur
			}
			k.s.start(t, k.body(t))
		} else {
			k.beforeResume(t)
			if k.forced == t {
				k.forced = nil
			}
			k.s.resumeT(t)
		}
		op, res = k.settleOp(op, t)
	case "spawn":
		t := &thr{name: fmt.Sprintf("j%d", len(k.jobs)), kind: ws[1], parked: make(chan string), resume: make(chan struct{})}
		switch ws[1] {
		case "flush":
			for _, w := range ws[2:] {
				kt := strings.SplitN(w, ":", 2)
				t.payload = append(t.payload, [2]uint32{uint32(num(kt[0])), uint32(num(kt[1]))})
			}
		case "rollup":
			for _, w := range ws[2:] {
				t.rollFiles = append(t.rollFiles, int64(num(w)))
			}
		}
		res = fmt.Sprintf("job=%d", len(k.jobs))
		k.jobs = append(k.jobs, t)
	case "par":
		// the listed jobs (flushes parked before Commit(), rollup-done commits not yet started) run
		// their commits truly concurrently, un-scheduled, released together
		var ts []*thr
		for _, w := range ws[1:] {
			ts = append(ts, k.jobs[num(w[1:])])
		}
		for _, t := range ts {
			t.free = true
		}
		for _, t := range ts {
			if t.alive {
				k.s.resumeT(t)
			} else {
				k.s.start(t, k.body(t))
			}
		}
		got, ok := k.s.settle(ts)
		if !ok {
			k.broken = "concurrent commits did not finish"
			res = "timeout"
			break
		}
		var parts []string
		for _, t := range ts {
			t.free = false
			if got[t] != "done" {
				k.broken = "thread " + t.name + " stopped at " + got[t] + " during a concurrent commit"
			}
			t.at, t.done, t.alive = "done", true, false
			parts = append(parts, "done")
			if t.panicV != nil {
				k.failf("panic", -1, "thread %s panicked: %v", t.name, t.panicV)
				t.panicV = nil
			}
			if t.kind == "flush" && t.err == nil {
				k.swaps++
				for _, p := range t.payload {
					k.committed[p[0]] = append(k.committed[p[0]], p[1])
				}
			}
		}
		for _, r := range k.readers {
			if r.snap != nil && !r.closing {
				r.sawSwap = true
			}
		}
		cur, _ := version.VerifC02State(k.fv)
		k.checkCommitted(cur, fmt.Sprintf("after %d concurrent commits returned (%s)", len(ts), strings.Join(ws[1:], ",")))
		res = "at=" + strings.Join(parts, "+")
		k.nonTrivial()
	case "rollupjob":
		// the real family.rollup() of the source family, unscheduled on lindb's own goroutine. The
		// targets whose store is open (ws[1:], minutes) are rolled up; every other target is skipped:
		// only the marks of the targets that were really rolled up may be committed as done; the
		// deferred deleteObsoleteFiles runs
		okIv := map[int64]bool{}
		for _, w := range ws[1:] {
			okIv[int64(num(w))] = true
		}
		cur0, act0 := version.VerifC02State(k.fv)
		marks0 := marksOf(cur0)
		need := map[int64]bool{}
		for _, m := range marks0 {
			need[m[0]] = true
		}
		for _, v := range act0 {
			for _, fm := range v.GetAllFiles() {
				need[fm.GetFileNumber().Int64()] = true
			}
		}
		for _, p := range kv.VerifC02Pending(k.fam) {
			need[p] = true
		}
		onDisk := map[int64]bool{}
		for _, f := range k.diskFiles() {
			onDisk[f] = true
		}
		if err := kv.VerifC02RollupSync(k.fam); err != nil {
			k.broken = "rollup job did not finish: " + err.Error()
			res = "timeout"
			break
		}
		cur1, act1 := version.VerifC02State(k.fv)
		marks1 := map[[2]int64]bool{}
		for _, m := range marksOf(cur1) {
			marks1[m] = true
		}
		var lost [][2]int64
		for _, m := range marks0 {
			switch {
			case !marks1[m] && !okIv[m[1]]:
				lost = append(lost, m)
			case !marks1[m]:
				k.doneMarks[m] = true // rolled up into its (open) target
				k.branch("rollup-done-for-target")
			default:
				k.branch("rollup-still-pending")
			}
		}
		if len(lost) > 0 {
			k.failf("pending-rollup-forgotten", -1, "a rollup job removed the rollup marks [%s] (table:target interval) although the store of that target is not open, i.e. nothing was rolled up into it", pairsStr(lost))
			for _, m := range lost {
				k.toldMarks[m] = true // reported here; the table stays watched by the state oracle
			}
		}
		now := map[int64]bool{}
		for _, f := range k.diskFiles() {
			now[f] = true
		}
		stillNeed := map[int64]bool{}
		for _, v := range act1 {
			for _, fm := range v.GetAllFiles() {
				stillNeed[fm.GetFileNumber().Int64()] = true
			}
		}
		for _, p := range kv.VerifC02Pending(k.fam) {
			stillNeed[p] = true
		}
		for _, m := range marks0 {
			if !okIv[m[1]] {
				stillNeed[m[0]] = true
			}
		}
		var gone []int64
		for f := range need {
			if onDisk[f] && !now[f] && stillNeed[f] {
				gone = append(gone, f)
			}
		}
		sort.Slice(gone, func(i, j int) bool { return gone[i] < gone[j] })
		if len(gone) > 0 {
			k.failf("rollup-job-cleanup-deleted-needed-file", -1, "the rollup job's cleanup deleted tables [%s] that an active version / a rollup of a skipped target / a pending output still needs", joinI64(gone))
		}
		if len(okIv) > 0 {
			k.nonTrivial()
		}
		// the job has a slot in the model's job table
		k.jobs = append(k.jobs, &thr{name: fmt.Sprintf("j%d", len(k.jobs)), kind: "rollupjob", done: true, at: "done"})
		res = "ok"
	case "cleanup":
		res = "ok"
	case "other":
		// one whole operation of ANOTHER family of the same store, on the scheduler's own goroutine
		// (yield points do not park it); only issued while nobody holds the version-set mutex
		if !k.lockFree() || k.anyBlocked() {
			res = "blocked"
			break
		}
		res = k.other(ws[1])
	}
	k.oracle()
	k.emit(op, res)
	k.branch("op:" + ws[0])
	return res
}

// other performs one operation of the store's second family and checks that family 13's state
// (current / active versions, directory, pending outputs, its cache entries) did not move.
func (k *kase) other(what string) string {
	before := k.state()
	switch what {
	case "create":
		if k.otherFam != nil {
			return "bad-op"
		}
		fam, err := k.store.CreateFamily("14", kv.FamilyOption{Merger: mergerName, CompactThreshold: 2})
		if err != nil {
			k.failf("other-family-op-failed", -1, "CreateFamily of a second family failed: %v", errShort(err))
			return "err"
		}
		k.otherFam = fam
		k.otherToks = map[uint32][]uint32{}
	case "flush":
		if k.otherFam == nil {
			return "bad-op"
		}
		fl := k.otherFam.NewFlusher()
		key := uint32(k.nextTok % numKeys)
		tok := 100000 + k.nextTok
		k.nextTok++
		err := fl.Add(key, encTok(tok))
		if err == nil {
			err = fl.Commit()
		}
		fl.Release()
		if err != nil {
			k.failf("other-family-op-failed", -1, "flush of the second family failed: %v", errShort(err))
			return "err"
		}
		k.otherToks[key] = append(k.otherToks[key], tok)
		k.otherL0++
	case "compact":
		if k.otherFam == nil || k.otherL0 < 2 {
			return "bad-op"
		}
		if err := kv.VerifC02CompactSync(k.otherFam); err != nil {
			k.failf("other-family-op-failed", -1, "compaction of the second family failed: %v", errShort(err))
			return "err"
		}
		k.otherL0 = 0
	case "read":
		if k.otherFam == nil {
			return "bad-op"
		}
		snap := k.otherFam.GetSnapshot()
		for key := uint32(0); key < numKeys; key++ {
			var toks []uint32
			rds, err := snap.FindReaders(key)
			if err != nil {
				k.failf("other-family-read-failed", -1, "a reader of the second family cannot read key %d: %v", key, errShort(err))
				continue
			}
			for _, rd := range rds {
				if v, e := rd.Get(key); e == nil {
					toks = append(toks, decToks(v)...)
				}
			}
			sort.Slice(toks, func(i, j int) bool { return toks[i] < toks[j] })
			want := append([]uint32(nil), k.otherToks[key]...)
			sort.Slice(want, func(i, j int) bool { return want[i] < want[j] })
			if !eqU32(toks, want) {
				k.failf("other-family-read-wrong", -1, "a fresh reader of the second family reads key %d = [%s], its completed flushes wrote [%s]", key, joinU32(toks), joinU32(want))
			}
		}
		snap.Close()
	default:
		return "bad-op"
	}
	k.noteForeign()
	if after := k.state(); after != before {
		k.failf("other-family-moved-family-state", -1, "an operation (%s) of another family of the store changed this family's state: %s -> %s", what, before, after)
	}
	k.nonTrivial()
	return fmt.Sprintf("ok nf=%d", kv.VerifC02NextFileNumber(k.store))
}

// runUntil runs thread name until it is parked at pc (or done / blocked / broken).
func (k *kase) runUntil(name, pc string) bool {
	for i := 0; i < 64 && k.broken == ""; i++ {
		if t := k.thrByName(name); t == nil || t.done || t.blocked {
			return false
		}
		res := k.exec("run " + name)
		first := strings.SplitN(strings.TrimPrefix(res, "at="), "+", 2)[0]
		if first == pc {
			return true
		}
		if first == "done" || first == "closed" || first == "blocked" || res == "timeout" {
			return false
		}
	}
	return false
}

func errShort(err error) string {
	s := err.Error()
	if strings.Contains(s, "no such file") {
		return "table file does not exist"
	}
	if len(s) > 80 {
		s = s[:80]
	}
	return s
}

// settleOp waits for thread t (just started / resumed) and for the threads that were blocked on
// the version-set mutex; returns the final op text (`run X +jK` when X's step released blocked
// thread K, which then ran to its own park point) and the result.
func (k *kase) settleOp(op string, t *thr) (string, string) {
	busy := []*thr{t}
	for _, j := range k.jobs {
		if j.blocked && j != t {
			busy = append(busy, j)
		}
	}
	got, ok := k.s.settle(busy)
	if !ok {
		k.broken = "thread " + t.name + " did not reach a park point (scheduler timeout) at " + t.at
		return op, "timeout"
	}
	res := k.parked(t, got[t])
	if v := t.staleCand; v != nil {
		t.staleCand = nil
		_, act := version.VerifC02State(k.fv)
		still := false
		for _, a := range act {
			if a == v {
				still = true
			}
		}
		if !still && v.NumOfRef() > 0 {
			k.tainted[v.ID()] = true
		}
	}
	// threads released by this step: those that do not end up holding the mutex first (they allocated
	// a file number and went on), ordered by the number they got, then the new holder
	var woken []*thr
	for _, j := range busy[1:] {
		if got[j] != "" {
			woken = append(woken, j)
		}
	}
	sort.Slice(woken, func(a, b int) bool {
		ha, hb := got[woken[a]] == "familyVersion.appendVersion.enter", got[woken[b]] == "familyVersion.appendVersion.enter"
		if ha != hb {
			return hb
		}
		return woken[a].out < woken[b].out
	})
	for _, j := range woken {
		op += " +" + j.name
		res += "+" + strings.TrimPrefix(k.parked(j, got[j]), "at=")
	}
	return op, res
}

func (k *kase) parked(t *thr, id string) string {
	if id == "" {
		t.blocked = true
		k.branch("park:blocked")
		return "at=blocked"
	}
	t.blocked = false
	pc := k.pcName(t, id)
	t.at = pc
	k.afterPark(t, pc)
	if pc == "doEvicted" {
		// parked inside removeDirFunc before the removal: which table?
		if n, ok := tableNo(filepath.Base(t.delPath)); ok {
			k.deleteMonitor(n)
		}
	}
	k.branch("park:" + pc)
	return "at=" + pc
}

// cleanup runs storeCache.Cleanup and reports which entries it closed.
func (k *kase) cleanup() {
	before := k.cacheEntries()
	kv.VerifC02CacheCleanup(k.store)
	after := map[string]bool{}
	for _, e := range k.cacheEntries() {
		after[e.FileName] = true
	}
	var gone []int64
	for _, e := range before {
		if !after[e.FileName] {
			n, _ := tableNo(e.FileName)
			gone = append(gone, n)
			for _, t := range k.readers {
				if t.snap == nil || t.closing {
					continue
				}
				for _, h := range t.held {
					if h.file == n {
						k.failf("cleanup-closed-held-reader", t.ver.ID(), "Cleanup closed the reader of table %d retained by reader %s", n, t.name)
					}
				}
			}
		}
	}
	sort.Slice(gone, func(i, j int) bool { return gone[i] < gone[j] })
	op := "cleanup"
	for _, g := range gone {
		op += " " + strconv.FormatInt(g, 10)
	}
	k.exec(op)
}

// finish drives thread t to its end.
func (k *kase) thrByName(name string) *thr {
	n, _ := strconv.Atoi(name[1:])
	if name[0] == 'r' {
		return k.readers[n]
	}
	return k.jobs[n]
}

func (k *kase) finish(name string) {
	for i := 0; i < 64 && k.broken == ""; i++ {
		if t := k.thrByName(name); t == nil || t.done || t.blocked {
			return
		}
		res := k.exec("run " + name)
		first := strings.SplitN(res, "+", 2)[0]
		if first == "at=done" || first == "at=closed" || first == "at=blocked" || res == "timeout" {
			return
		}
	}
}

// flushFails reports the collected oracle failures: those that are consequences of the known
// Release race (they concern a version that a stale removeVersion deleted) under its stable key,
// everything else under its own key.
func (k *kase) flushFails() {
	var known []string
	seen := map[string]bool{}
	seenKnown := map[string]bool{}
	for _, f := range k.fails {
		if f.ver >= 0 && k.tainted[f.ver] {
			if !seenKnown[f.key] {
				seenKnown[f.key] = true
				known = append(known, f.key+": "+f.desc)
			}
			continue
		}
		if seen[f.key] {
			continue
		}
		seen[f.key] = true
		k.c.Fail(f.key, f.desc)
	}
	if len(known) > 0 {
		k.c.Fail(knownRaceKey, "version.Release ran removeVersion after its Dec returned 0 although the version had been retained again and swapped out: "+strings.Join(known, "; "))
	}
}

// ---------------------------------------------------------------- cases

func (k *kase) begin(i int, threshold int, nTargets int) error {
	if err := k.open(threshold, nTargets); err != nil {
		return err
	}
	k.s.locked = func() bool { return kv.VerifC02CommitLocked(k.store) }
	cur, _ := version.VerifC02State(k.fv)
	k.emit(fmt.Sprintf("init %d %d %d %d", cur.ID(), kv.VerifC02NextFileNumber(k.store), threshold, nTargets), "ok")
	return nil
}

// witness: the Release race, deterministic. variant 0: B's later Load fails; variant 1: B's
// retained readers are unmapped under it and its GetReader fails.
func (k *kase) witness(variant int) {
	k.racy = false
	for _, op := range []string{"spawn flush 1:10 3:11"} {
		k.exec(op)
	}
	k.finish("j0")
	k.exec("spawn flush 1:12 2:13")
	k.finish("j1")
	k.exec("acquire 0")
	k.exec("close 0") // A: Dec → 0, parked before removeVersion
	k.exec("acquire 1")
	if variant == 0 {
		k.exec("load 1 1")
	} else {
		k.exec("find 1 1")
	}
	k.exec("spawn compact")
	k.finish("j2")
	k.exec("run r0") // A resumes: removeVersion(V) although B retains V
	k.exec("run r0")
	k.exec("spawn delobs")
	k.finish("j3")
	if variant == 0 {
		k.exec("load 1 1")
		k.exec("load 1 3")
	} else {
		k.exec("getr 1 " + strconv.FormatInt(k.jobs[0].out, 10))
	}
	k.exec("close 1")
	k.finish("r1")
}

// ---------------------------------------------------------------- directed cases

var doParks = []string{"doListed", "doPended", "doActived", "doRolled"}
var writerStages = []string{"allocd", "ready", "cSnapped", "cSwapped"}

const (
	nWitness  = 2
	nDirectDO = 32 // 4 park points of deleteObsoleteFiles × {flush, compact} × 4 writer stages
	nDirectCC = 16 // overlapping committers (12 scheduled through the mutex, 4 released together)
	nDirectAL = 4  // allocations while a commit is between reading and storing the file counter
	nDirectRU = 4  // real rollup job with an absent target store after the marked tables were compacted away
	nDirectFF = 4  // FindReaders failing at an uncached table while another snapshot retains an earlier one
	nDirectC2 = 4  // one shared snapshot closed twice, the second Close() overlapping the first
	nDirectPG = 2  // rounds of two concurrent GetReader calls on a never-opened table
	nDirectNR = 2  // level-1 tables with nested key ranges, the covering one lacking the inner keys
	nDirected = nWitness + nDirectDO + nDirectCC + nDirectAL + nDirectRU + nDirectFF + nDirectC2 + nDirectPG + nDirectNR
	// appended after the older directed blocks (their case numbers stay what they were)
	nDirect3C = 6 // three committers (flush, compaction, rollup-done): one inside CommitFamilyEditLog, two blocked on the mutex
	nDirectOF = 4 // a second family of the store flushes / compacts / reads between this family's park points
	nDirectR2 = 6 // two rollup targets, one target store missing: rollup job, compaction + cleanup, retried job
	nDirectX  = nDirect3C + nDirectOF + nDirectR2
)

func (k *kase) lastJob() string { return k.jobs[len(k.jobs)-1].name }

func (k *kase) setupFlushes(rng *rand.Rand, n int) {
	for ; n > 0 && k.broken == ""; n-- {
		k.exec("spawn flush " + k.newPayload(rng))
		k.finish(k.lastJob())
	}
}

// directDO: a commit (flush or compaction) lands entirely while deleteObsoleteFiles is parked at
// one of its yield points (after the listing / pending scan / active-version scan / rollup scan);
// the writer is at a given stage when deleteObsoleteFiles starts.
func (k *kase) directDO(rng *rand.Rand, d int) {
	park := doParks[d%4]
	compact := (d/4)%2 == 1
	stage := writerStages[(d/8)%4]
	k.setupFlushes(rng, 2)
	var w string
	if compact {
		k.exec("spawn compact")
	} else {
		k.exec("spawn flush " + k.newPayload(rng))
	}
	w = k.lastJob()
	k.runUntil(w, stage)
	k.exec("spawn delobs")
	do := k.lastJob()
	k.runUntil(do, park)
	k.finish(w) // commit + removePendingOutput (+ the compaction's own cleanup) while the scan is parked
	k.finish(do)
	k.drain(rng)
}

// directCC: two committers overlap: the second calls Commit()/commitEditLog while the first is
// parked inside CommitFamilyEditLog (holding the version-set mutex); it blocks on the mutex and
// goes on when the first releases it. Both returned commits must be in the current version.
func (k *kase) directCC(rng *rand.Rand, d int) {
	kinds := [][2]string{{"flush", "flush"}, {"flush", "compact"}, {"compact", "flush"}, {"flush", "rollup"}, {"rollup", "flush"}, {"compact", "rollup"}}
	if d >= 12 {
		k.directPar(rng, d-12)
		return
	}
	pair := kinds[d%6]
	holdAt := []string{"cSnapped", "cSwapped"}[(d/6)%2]
	k.setupFlushes(rng, 2)
	spawn := func(kind string) string {
		switch kind {
		case "flush":
			k.exec("spawn flush " + k.newPayload(rng))
		case "compact":
			k.exec("spawn compact")
		case "rollup":
			cur, _ := version.VerifC02State(k.fv)
			op := "spawn rollup"
			var fs []int
			for f := range cur.GetRollupFiles() {
				fs = append(fs, int(f.Int64()))
			}
			sort.Ints(fs)
			for _, f := range fs {
				op += " " + strconv.Itoa(f)
			}
			k.exec(op)
		}
		return k.lastJob()
	}
	preLock := func(name, kind string) {
		switch kind {
		case "flush":
			k.runUntil(name, "ready")
		case "compact":
			k.runUntil(name, "ready")
		}
	}
	t1 := spawn(pair[0])
	t2 := spawn(pair[1])
	preLock(t1, pair[0])
	preLock(t2, pair[1])
	k.runUntil(t1, holdAt) // t1 inside CommitFamilyEditLog
	k.exec("run " + t2)    // blocks on vs.mutex
	k.finish(t1)           // releases the mutex on its way: t2 goes on
	k.finish(t2)
	k.finish(t1)
	k.drain(rng)
}

// spawnKind spawns a committer of the given kind (rollup: a rollup-done commit for every mark of the
// current version).
func (k *kase) spawnKind(rng *rand.Rand, kind string) string {
	switch kind {
	case "flush":
		k.exec("spawn flush " + k.newPayload(rng))
	case "compact":
		k.exec("spawn compact")
	case "rollup":
		cur, _ := version.VerifC02State(k.fv)
		op := "spawn rollup"
		var fs []int
		for f := range cur.GetRollupFiles() {
			fs = append(fs, int(f.Int64()))
		}
		sort.Ints(fs)
		for _, f := range fs {
			op += " " + strconv.Itoa(f)
		}
		k.exec(op)
	}
	return k.lastJob()
}

// direct3C: three committers of three kinds overlap: the first is parked inside
// CommitFamilyEditLog (before the manifest sync / before / after the version swap) holding the
// version-set mutex, the two others run into the mutex; they go on one after the other as it is
// released. A reader holds the version from before; a fresh one must see all three commits.
func (k *kase) direct3C(rng *rand.Rand, d int) {
	perms := [][3]string{{"flush", "compact", "rollup"}, {"flush", "rollup", "compact"}, {"compact", "flush", "rollup"},
		{"compact", "rollup", "flush"}, {"rollup", "flush", "compact"}, {"rollup", "compact", "flush"}}
	p := perms[d%6]
	holdAt := []string{"cLocked", "cSnapped", "cSwapped"}[d%3]
	k.setupFlushes(rng, 2)
	k.exec(fmt.Sprintf("acquire %d", k.nReaders))
	held := k.nReaders
	k.nReaders++
	var ts [3]string
	for i, kind := range p {
		ts[i] = k.spawnKind(rng, kind)
	}
	for i, kind := range p {
		if kind != "rollup" {
			k.runUntil(ts[i], "ready")
		}
	}
	k.runUntil(ts[0], holdAt)
	k.exec("run " + ts[1]) // blocks on vs.mutex
	k.exec("run " + ts[2]) // blocks on vs.mutex
	for round := 0; round < 3; round++ {
		for _, t := range ts {
			k.finish(t)
		}
	}
	for key := 0; key < numKeys; key++ {
		k.exec(fmt.Sprintf("find %d %d", held, key))
	}
	k.exec(fmt.Sprintf("acquire %d", k.nReaders))
	k.nReaders++
	k.cleanup()
	k.drain(rng)
}

// directOther: a second family of the same store (shared version-set mutex, file-number and
// version-id counters, reader cache) flushes, reads and compacts (with its own deleteObsoleteFiles
// and cache evictions) while this family has a writer between allocation and commit, a
// deleteObsoleteFiles parked inside its scan, and a reader holding an older version.
func (k *kase) directOther(rng *rand.Rand, d int) {
	k.setupFlushes(rng, 2)
	k.exec("other create")
	k.exec(fmt.Sprintf("acquire %d", k.nReaders))
	held := k.nReaders
	k.nReaders++
	k.exec(fmt.Sprintf("find %d %d", held, d%numKeys))
	k.exec("other flush")
	k.exec("other flush")
	k.exec("spawn flush " + k.newPayload(rng))
	w := k.lastJob()
	k.runUntil(w, []string{"allocd", "ready"}[d%2])
	k.exec("other flush")
	k.exec("other read")
	k.exec("spawn delobs")
	do := k.lastJob()
	k.runUntil(do, doParks[d%4])
	k.exec("other compact")
	k.exec("other read")
	k.cleanup()
	k.finish(w)
	k.finish(do)
	for key := 0; key < numKeys; key++ {
		k.exec(fmt.Sprintf("find %d %d", held, key))
	}
	k.exec("spawn compact")
	c := k.lastJob()
	k.runUntil(c, "merging")
	k.exec("other flush")
	k.finish(c)
	k.exec("other flush")
	k.exec("other compact")
	k.exec("other read")
	k.drain(rng)
}

// directAlloc: commit C is parked inside CommitFamilyEditLog right before the manifest sync (it has
// read the next file number and will store it back when it applies its edit log); two flushers ask
// for table numbers meanwhile (NextFileNumber blocks on the version-set mutex until C is through);
// a further flusher allocates after C returned. No two builders may own one number.
func (k *kase) directAlloc(rng *rand.Rand, d int) {
	k.setupFlushes(rng, 1+d%2)
	k.exec("spawn flush " + k.newPayload(rng))
	c := k.lastJob()
	k.runUntil(c, "ready")
	k.exec("spawn flush " + k.newPayload(rng))
	a := k.lastJob()
	k.exec("spawn flush " + k.newPayload(rng))
	b := k.lastJob()
	k.runUntil(c, "cLocked")
	k.exec("run " + a)
	k.exec("run " + b)
	if d >= 2 {
		k.exec("spawn compact") // a compaction output allocation joins
	}
	k.finish(c)
	k.exec("spawn flush " + k.newPayload(rng))
	dd := k.lastJob()
	k.exec("run " + dd)
	for _, n := range []string{a, b, dd} {
		k.finish(n)
	}
	k.drain(rng)
}

// directRollup: the tables carrying rollup marks are compacted away (only the marks keep them
// alive), then the real rollup job runs with its target store missing.
func (k *kase) directRollup(rng *rand.Rand, d int) {
	k.setupFlushes(rng, 2+d%2)
	k.exec("spawn compact")
	k.finish(k.lastJob())
	if d >= 2 {
		k.exec("acquire 0")
		k.nReaders = 1
	}
	k.exec(k.rollupJobOp())
	k.exec("spawn delobs")
	k.finish(k.lastJob())
	k.exec(k.rollupJobOp())
	k.drain(rng)
}

// rollupJobOp: the `rollupjob` op line: the real rollup job + the configured targets whose store is open.
func (k *kase) rollupJobOp() string {
	op := "rollupjob"
	for _, iv := range []int{5, 60} {
		if _, ok := k.targetOpen[iv]; ok && (iv == 5 && k.nTargets >= 1 || iv == 60 && k.nTargets >= 2) {
			op += " " + strconv.Itoa(iv)
		}
	}
	return op
}

// directRollup2: a source store with TWO rollup targets (5m, 1h) of which one target store is not open
// when the rollup job runs: that target is skipped, its rollups stay owed. Level-0 compactions (which
// merge the marked tables away), their cleanups and stand-alone cleanups follow; the tables of the owed
// rollups must stay until the retried rollup job (its target now open) has read them.
func (k *kase) directRollup2(rng *rand.Rand, d int) {
	first, second := 5, 60
	if d%2 == 1 {
		first, second = 60, 5
	}
	compactAll := func() {
		k.exec("spawn compact")
		k.finish(k.lastJob())
	}
	switch d / 2 {
	case 0:
		// one target open: rollup job, compaction + cleanup, the retried job after the other target opened
		k.openTarget(first)
		k.setupFlushes(rng, 2)
		k.exec(k.rollupJobOp())
		compactAll()
		k.exec("acquire 0")
		k.nReaders = 1
		for key := 0; key < numKeys; key++ {
			k.exec(fmt.Sprintf("load 0 %d", key))
		}
		k.exec("spawn delobs")
		k.finish(k.lastJob())
		k.openTarget(second)
		k.exec(k.rollupJobOp())
		k.exec("spawn delobs")
		k.finish(k.lastJob())
	case 1:
		// no target open at first (everything skipped), then one, the retry BEFORE the compaction (the
		// job really reads the level-0 tables), more flushes, compaction, then the last target
		k.setupFlushes(rng, 2)
		k.exec(k.rollupJobOp())
		k.openTarget(first)
		k.exec(k.rollupJobOp())
		k.setupFlushes(rng, 1)
		k.exec(k.rollupJobOp())
		compactAll()
		k.exec(k.rollupJobOp())
		k.openTarget(second)
		k.exec(k.rollupJobOp())
		compactAll()
	case 2:
		// the rollup job runs while a level-0 compaction of the same family is parked after picking its
		// inputs, and while a deleteObsoleteFiles is parked between the active-version scan and the
		// rollup scan; both then finish (with their cleanups)
		k.openTarget(first)
		k.setupFlushes(rng, 2+d%2)
		k.exec("spawn compact")
		cj := k.lastJob()
		k.exec("run " + cj)
		k.exec("spawn delobs")
		dj := k.lastJob()
		for i := 0; i < 8 && k.broken == ""; i++ {
			if t := k.thrByName(dj); t == nil || t.done || t.at == "doActived" {
				break
			}
			k.exec("run " + dj)
		}
		k.exec(k.rollupJobOp())
		k.finish(dj)
		k.finish(cj)
		k.exec("spawn delobs")
		k.finish(k.lastJob())
		k.openTarget(second)
		k.exec(k.rollupJobOp())
	}
	k.drain(rng)
}

// failTarget: a key and a table of reader t's version such that FindReaders(key) opens at least one
// table of a lower level first and then has to open this one, which is the only covering table
// of its level and is not mapped.
func (k *kase) failTarget(t *thr) (uint32, int64, bool) {
	cached := map[int64]bool{}
	for _, e := range k.cacheEntries() {
		n, _ := tableNo(e.FileName)
		cached[n] = true
	}
	for key := uint32(0); key < numKeys; key++ {
		byLevel := map[int][]int64{}
		for _, fm := range t.ver.GetAllFiles() {
			if key < fm.GetMinKey() || key > fm.GetMaxKey() {
				continue
			}
			n := fm.GetFileNumber().Int64()
			byLevel[version.VerifC02Level(t.ver, n)] = append(byLevel[version.VerifC02Level(t.ver, n)], n)
		}
		if len(byLevel[0]) >= 1 && len(byLevel[1]) == 1 && !cached[byLevel[1][0]] {
			return key, byLevel[1][0], true
		}
	}
	return 0, 0, false
}

// directFindFail: reader B retains a level-0 table; reader A's FindReaders of a key covered by that
// table and by a level-1 table fails at the level-1 table (injected open fault); A closes; the
// cache is cleaned up; B reads on.
func (k *kase) directFindFail(rng *rand.Rand, d int) {
	k.exec(fmt.Sprintf("spawn flush 0:%d 1:%d", k.nextTok, k.nextTok+1))
	k.nextTok += 2
	k.finish(k.lastJob())
	k.exec(fmt.Sprintf("spawn flush 0:%d 2:%d", k.nextTok, k.nextTok+1))
	k.nextTok += 2
	k.finish(k.lastJob())
	k.exec("spawn compact")
	k.finish(k.lastJob())
	for n := 1 + d%2; n > 0; n-- {
		k.exec(fmt.Sprintf("spawn flush 0:%d 3:%d", k.nextTok, k.nextTok+1))
		k.nextTok += 2
		k.finish(k.lastJob())
	}
	k.cleanup()
	k.exec("acquire 0") // B
	k.exec("acquire 1") // A
	k.nReaders = 2
	b, a := k.readers[0], k.readers[1]
	key, f, ok := k.failTarget(a)
	if ok {
		// B retains every level-0 table covering the key
		for _, fm := range b.ver.GetAllFiles() {
			n := fm.GetFileNumber().Int64()
			if version.VerifC02Level(b.ver, n) == 0 && key >= fm.GetMinKey() && key <= fm.GetMaxKey() {
				k.exec(fmt.Sprintf("getr 0 %d", n))
			}
		}
		k.exec(fmt.Sprintf("findfail 1 %d %d", key, f))
		if d >= 2 {
			k.exec(fmt.Sprintf("findfail 1 %d %d", key, f)) // the fault repeats
		}
	}
	k.exec("close 1")
	k.finish("r1")
	k.cleanup()
	k.exec(fmt.Sprintf("find 0 %d", key))
	k.cleanup()
	k.drain(rng)
}

// directClose2: snapshot A is shared and closed twice (the second Close() starts while the first
// is parked after ref.Dec / after version.Release); snapshot B of the same version stays open; a
// compaction then replaces the version and cleans up. B must stay protected.
func (k *kase) directClose2(rng *rand.Rand, d int) {
	k.setupFlushes(rng, 2)
	k.exec("acquire 0") // A (shared)
	k.exec("acquire 1") // B
	k.nReaders = 2
	k.exec("close 0") // first Close(): parked after ref.Dec
	if d%2 == 1 {
		k.exec("run r0") // … parked after version.Release (snapshot.close.afterRelease)
	}
	k.exec("close2 0")
	for i := 0; i < 8 && k.broken == "" && k.closers[0] != nil && !k.closers[0].done; i++ {
		k.exec("run2 0") // only if the second Close() did not return at once
	}
	k.finish("r0")
	if d >= 2 {
		k.exec("close2 0") // a late third Close()
		for i := 0; i < 8 && k.broken == "" && !k.closers[0].done; i++ {
			k.exec("run2 0")
		}
	}
	k.exec("spawn compact")
	k.finish(k.lastJob())
	k.exec("spawn delobs")
	k.finish(k.lastJob())
	for key := 0; key < numKeys; key++ {
		k.exec(fmt.Sprintf("load 1 %d", key))
	}
	k.drain(rng)
}

// directParGet: rounds of two fresh snapshots asking the cache for the same unmapped table at the
// same time (real goroutines, released together); one closes, Cleanup runs, the other must still
// have its reader.
func (k *kase) directParGet(rng *rand.Rand, d int) {
	k.setupFlushes(rng, 1+d)
	for round := 0; round < 30 && k.broken == ""; round++ {
		k.cleanup()
		a, b := k.nReaders, k.nReaders+1
		k.nReaders += 2
		k.exec(fmt.Sprintf("acquire %d", a))
		k.exec(fmt.Sprintf("acquire %d", b))
		cached := map[int64]bool{}
		for _, e := range k.cacheEntries() {
			n, _ := tableNo(e.FileName)
			cached[n] = true
		}
		var f int64 = -1
		for _, fm := range k.readers[a].ver.GetAllFiles() {
			if n := fm.GetFileNumber().Int64(); !cached[n] && (f < 0 || n < f) {
				f = n
			}
		}
		if f >= 0 {
			k.exec(fmt.Sprintf("parget %d %d %d", a, b, f))
		}
		first, second := a, b
		if round%2 == 1 {
			first, second = b, a
		}
		k.exec(fmt.Sprintf("close %d", first))
		k.finish(fmt.Sprintf("r%d", first))
		k.cleanup()
		k.exec(fmt.Sprintf("close %d", second))
		k.finish(fmt.Sprintf("r%d", second))
	}
	k.drain(rng)
}

// directNested (CompactThreshold 1): table [2~2] is moved to level 1 (trivial move); tables [0~1]
// and [3~4] are flushed and merged into the level-1 table [0~4], which covers [2~2] without holding
// key 2. A held and fresh readers then look the inner key up many times (the order in which the
// tables of a level are visited is Go map order).
func (k *kase) directNested(rng *rand.Rand, d int) {
	fl := func(keys ...int) {
		var parts []string
		for _, key := range keys {
			parts = append(parts, fmt.Sprintf("%d:%d", key, k.nextTok))
			k.nextTok++
		}
		k.exec("spawn flush " + strings.Join(parts, " "))
		k.finish(k.lastJob())
	}
	fl(2)
	k.exec("spawn compact") // single level-0 table, nothing overlapping above: trivial move
	k.finish(k.lastJob())
	k.exec("acquire 0")
	k.nReaders = 1
	if d == 0 {
		fl(0, 1)
		fl(3, 4)
	} else {
		fl(0)
		fl(1, 4)
	}
	k.exec("spawn compact")
	k.finish(k.lastJob())
	k.exec("acquire 1") // held across the rest
	k.nReaders = 2
	for i := 0; i < 30 && k.broken == ""; i++ {
		switch i % 3 {
		case 0:
			k.exec("load 1 2")
		case 1:
			k.exec("find 1 2")
		case 2:
			r := k.nReaders
			k.nReaders++
			k.exec(fmt.Sprintf("acquire %d", r))
			k.exec(fmt.Sprintf("loadc %d 2", r))
			k.exec(fmt.Sprintf("close %d", r))
			k.finish(fmt.Sprintf("r%d", r))
		}
	}
	k.exec("load 0 2")
	k.drain(rng)
}

// directPar: several rounds of 2–3 commits (flushes, optionally a rollup-done commit) whose
// Commit() calls are released together and run without the scheduler.
func (k *kase) directPar(rng *rand.Rand, d int) {
	k.setupFlushes(rng, 1)
	for round := 0; round < 4 && k.broken == ""; round++ {
		n := 2 + (d+round)%2
		op := "par"
		for i := 0; i < n; i++ {
			k.exec("spawn flush " + k.newPayload(rng))
			k.runUntil(k.lastJob(), "ready")
			op += " " + k.lastJob()
		}
		if d%2 == 1 {
			cur, _ := version.VerifC02State(k.fv)
			var fs []int
			for f := range cur.GetRollupFiles() {
				fs = append(fs, int(f.Int64()))
			}
			sort.Ints(fs)
			if len(fs) > 0 {
				k.exec("spawn rollup " + strconv.Itoa(fs[0]))
				op += " " + k.lastJob()
			}
		}
		k.exec(op)
	}
	k.drain(rng)
}

func (k *kase) newPayload(rng *rand.Rand) string {
	var parts []string
	if k.sparse { // one or two keys per flush: narrow, nested and disjoint key ranges arise
		a := rng.Intn(numKeys)
		parts = append(parts, fmt.Sprintf("%d:%d", a, k.nextTok))
		k.nextTok++
		if b := a + 1 + rng.Intn(numKeys); b < numKeys && rng.Intn(2) == 0 {
			parts = append(parts, fmt.Sprintf("%d:%d", b, k.nextTok))
			k.nextTok++
		}
		return strings.Join(parts, " ")
	}
	for key := 0; key < numKeys; key++ {
		if rng.Intn(2) == 0 {
			parts = append(parts, fmt.Sprintf("%d:%d", key, k.nextTok))
			k.nextTok++
		}
	}
	if len(parts) == 0 {
		parts = append(parts, fmt.Sprintf("%d:%d", rng.Intn(numKeys), k.nextTok))
		k.nextTok++
	}
	return strings.Join(parts, " ")
}

func (k *kase) random(rng *rand.Rand, steps int) {
	if k.nTargets > 0 && rng.Intn(2) == 0 {
		k.openTarget([]int{5, 60}[rng.Intn(k.nTargets)])
	}
	openReaders := func() []int {
		var rs []int
		for id, t := range k.readers {
			if !t.closing {
				rs = append(rs, id)
			}
		}
		sort.Ints(rs)
		return rs
	}
	runnable := func() []string {
		var rs []string
		var ids []int
		for id := range k.readers {
			ids = append(ids, id)
		}
		sort.Ints(ids)
		for _, id := range ids {
			if t := k.readers[id]; k.enabled(t) {
				rs = append(rs, t.name)
			}
		}
		for _, t := range k.jobs {
			if k.enabled(t) {
				rs = append(rs, t.name)
			}
		}
		return rs
	}
	activeJobs := func() int {
		n := 0
		for _, t := range k.jobs {
			if !t.done {
				n++
			}
		}
		return n
	}
	// prelude: a few completed flushes so that compactions have something to pick
	for n := rng.Intn(4); n > 0 && k.broken == ""; n-- {
		k.exec("spawn flush " + k.newPayload(rng))
		k.finish(k.jobs[len(k.jobs)-1].name)
	}
	for i := 0; i < steps && k.broken == ""; i++ {
		if k.forced != nil {
			k.exec("run " + k.forced.name)
			continue
		}
		run := runnable()
		or := openReaders()
		x := rng.Intn(100)
		// now and then let a thread run into the version-set mutex held by a parked committer
		if !k.anyBlocked() && rng.Intn(6) == 0 {
			var wb []string
			for _, t := range k.jobs {
				if k.wouldBlock(t) && !(t.kind == "compact" && t.at == "" && k.compactionActive()) {
					wb = append(wb, t.name)
				}
			}
			if len(wb) > 0 {
				k.exec("run " + wb[rng.Intn(len(wb))])
				continue
			}
		}
		if !k.anyBlocked() && k.lockFree() && rng.Intn(8) == 0 {
			var ready []string
			for _, t := range k.jobs {
				if t.kind == "flush" && t.at == "ready" && !t.done {
					ready = append(ready, t.name)
				}
			}
			if len(ready) >= 2 {
				k.exec("par " + strings.Join(ready, " "))
				continue
			}
		}
		if k.nTargets > 0 && rng.Intn(30) == 0 {
			k.openTarget([]int{5, 60}[rng.Intn(k.nTargets)])
		}
		if !k.anyBlocked() && k.lockFree() && rng.Intn(25) == 0 {
			k.exec(k.rollupJobOp())
			continue
		}
		if !k.anyBlocked() && k.lockFree() && rng.Intn(12) == 0 {
			switch y := rng.Intn(8); {
			case k.otherFam == nil:
				k.exec("other create")
			case y < 4:
				k.exec("other flush")
			case y < 6:
				k.exec("other read")
			case k.otherL0 >= 2:
				k.exec("other compact")
			default:
				k.exec("other flush")
			}
			continue
		}
		switch {
		case x < 45 && len(run) > 0:
			k.exec("run " + run[rng.Intn(len(run))])
		case x < 55 && activeJobs() < 4:
			k.exec("spawn flush " + k.newPayload(rng))
		case x < 62 && activeJobs() < 4 && !k.compactionActive():
			k.exec("spawn compact")
		case x < 65 && activeJobs() < 4:
			k.exec("spawn delobs")
		case x < 68 && k.rollupOn && activeJobs() < 4:
			cur, _ := version.VerifC02State(k.fv)
			var fs []int
			for f := range cur.GetRollupFiles() {
				fs = append(fs, int(f.Int64()))
			}
			sort.Ints(fs)
			if len(fs) > 0 {
				n := 1 + rng.Intn(len(fs))
				op := "spawn rollup"
				for _, f := range fs[:n] {
					op += " " + strconv.Itoa(f)
				}
				k.exec(op)
			}
		case x < 75 && len(or) < 3:
			k.exec(fmt.Sprintf("acquire %d", k.nReaders))
			k.nReaders++
		case x < 94 && len(or) > 0:
			r := or[rng.Intn(len(or))]
			t := k.readers[r]
			files := t.ver.GetAllFiles()
			if rng.Intn(6) == 0 {
				if key, f, ok := k.failTarget(t); ok {
					k.exec(fmt.Sprintf("findfail %d %d %d", r, key, f))
					continue
				}
			}
			switch y := rng.Intn(10); {
			case y < 3:
				k.exec(fmt.Sprintf("find %d %d", r, rng.Intn(numKeys)))
			case y < 5:
				if rng.Intn(2) == 0 {
					k.exec(fmt.Sprintf("loadc %d %d", r, rng.Intn(numKeys)))
				} else {
					k.exec(fmt.Sprintf("load %d %d", r, rng.Intn(numKeys)))
				}
			case y < 7 && len(files) > 0:
				nos := make([]int, len(files))
				for i, fm := range files {
					nos[i] = int(fm.GetFileNumber().Int64())
				}
				sort.Ints(nos)
				k.exec(fmt.Sprintf("getr %d %d", r, nos[rng.Intn(len(nos))]))
			case y < 8:
				k.exec(fmt.Sprintf("close %d", r))
			}
		case x < 97:
			k.cleanup()
		default:
			if len(run) > 0 {
				k.exec("run " + run[rng.Intn(len(run))])
			}
		}
	}
	k.drain(rng)
}

// drain finishes every thread (random order, still interleaved), re-reads every open snapshot,
// closes the readers, runs a final deleteObsoleteFiles and checks the directory against the
// current version.
func (k *kase) drain(rng *rand.Rand) {
	for guard := 0; guard < 2000 && k.broken == ""; guard++ {
		if k.forced != nil {
			k.exec("run " + k.forced.name)
			continue
		}
		var run []string
		for _, t := range k.jobs {
			if k.enabled(t) {
				run = append(run, t.name)
			}
		}
		if len(run) == 0 {
			break
		}
		k.exec("run " + run[rng.Intn(len(run))])
	}
	var ids []int
	for id := range k.readers {
		ids = append(ids, id)
	}
	sort.Ints(ids)
	for _, id := range ids {
		t := k.readers[id]
		if k.broken != "" {
			return
		}
		if !t.closing {
			for key := 0; key < numKeys; key++ {
				k.exec(fmt.Sprintf("load %d %d", id, key))
			}
			k.exec(fmt.Sprintf("close %d", id))
		}
		if !t.done {
			k.finish(t.name)
		}
	}
	if k.broken != "" {
		return
	}
	// a reader that starts after everything completed sees every commit
	k.exec(fmt.Sprintf("acquire %d", k.nReaders))
	for key := 0; key < numKeys; key++ {
		k.exec(fmt.Sprintf("load %d %d", k.nReaders, key))
	}
	k.exec(fmt.Sprintf("close %d", k.nReaders))
	k.finish(fmt.Sprintf("r%d", k.nReaders))
	k.nReaders++
	if k.broken != "" {
		return
	}
	k.exec("spawn delobs")
	k.finish(k.jobs[len(k.jobs)-1].name)
	k.cleanup()
	// nothing needed is missing, nothing obsolete is left
	cur, act := version.VerifC02State(k.fv)
	need := map[int64]bool{}
	for _, v := range act {
		for _, fm := range v.GetAllFiles() {
			need[fm.GetFileNumber().Int64()] = true
		}
	}
	for f := range cur.GetRollupFiles() {
		need[f.Int64()] = true
	}
	disk := map[int64]bool{}
	for _, f := range k.diskFiles() {
		disk[f] = true
		if !need[f] {
			k.failf("obsolete-file-left", -1, "table %d is in the directory after the final cleanup but no active version, pending output or rollup mark lists it", f)
		}
	}
	for f := range need {
		if !disk[f] {
			k.failf("needed-file-missing-at-end", -1, "table %d is listed by an active version / rollup mark but is not in the directory", f)
		}
	}
	for _, t := range k.jobs {
		if t.err != nil {
			k.failf("job-error", -1, "job %s (%s) returned error: %v", t.name, t.kind, errShort(t.err))
		}
	}
}

func (area) Run(c *core.Ctx) error {
	install()
	s := newSched()
	theSched = s
	defer func() { theSched = nil }()
	// Does the Release race exist in this tree? An unrecorded run of the witness decides whether
	// random schedules may deschedule a thread between a Dec that returned 0 and its removeVersion.
	probe := &kase{s: s}
	if err := probe.begin(0, 2, 0); err != nil {
		probe.close()
		return err
	}
	probe.witness(0)
	racy := len(probe.tainted) > 0
	probe.close()
	for i := 0; i < c.N; i++ {
		if !c.Want(i) {
			continue
		}
		rng := c.Rng(i)
		k := &kase{c: c, s: s}
		c.Begin(i)
		threshold, rollupOn := 2, false
		if i >= nDirected-nDirectNR && i < nDirected {
			threshold = 1
		}
		nTargets := -1
		if i >= nDirected+nDirectX {
			threshold = 1 + rng.Intn(3)
			switch rng.Intn(6) {
			case 0:
				nTargets = 1
			case 1:
				nTargets = 2
			default:
				nTargets = 0
			}
		} else if i >= nDirected+nDirect3C+nDirectOF {
			nTargets = 2
		} else if i >= nDirected {
			rollupOn = true
		} else if i >= nWitness+nDirectDO+nDirectCC+nDirectAL+nDirectRU {
			rollupOn = false
		} else if i >= nWitness+nDirectDO+nDirectCC+nDirectAL {
			rollupOn = true
		} else if i >= nWitness+nDirectDO+nDirectCC {
			rollupOn = i%2 == 0
		} else if i >= nWitness+nDirectDO {
			rollupOn = true
		} else if i >= nWitness {
			rollupOn = i%2 == 0
		}
		if nTargets < 0 {
			nTargets = 0
			if rollupOn {
				nTargets = 1
			}
		}
		if err := k.begin(i, threshold, nTargets); err != nil {
			k.close()
			return err
		}
		if i < nWitness {
			k.witness(i)
			c.NonTrivial()
			c.Branch(fmt.Sprintf("witness:stale-removeVersion=%v", len(k.tainted) > 0))
		} else if i < nWitness+nDirectDO {
			k.racy = racy
			k.directDO(rng, i-nWitness)
			c.NonTrivial()
			c.Branch("directed:commit-inside-deleteObsoleteFiles")
		} else if i < nWitness+nDirectDO+nDirectCC {
			k.racy = racy
			k.directCC(rng, i-nWitness-nDirectDO)
			c.NonTrivial()
			c.Branch("directed:overlapping-committers")
		} else if i < nWitness+nDirectDO+nDirectCC+nDirectAL {
			k.racy = racy
			k.directAlloc(rng, i-nWitness-nDirectDO-nDirectCC)
			c.NonTrivial()
			c.Branch("directed:allocations-inside-commit")
		} else if i < nWitness+nDirectDO+nDirectCC+nDirectAL+nDirectRU {
			k.racy = racy
			k.directRollup(rng, i-nWitness-nDirectDO-nDirectCC-nDirectAL)
			c.NonTrivial()
			c.Branch("directed:rollup-job-absent-target")
		} else if i < nWitness+nDirectDO+nDirectCC+nDirectAL+nDirectRU+nDirectFF {
			k.racy = racy
			k.directFindFail(rng, i-nWitness-nDirectDO-nDirectCC-nDirectAL-nDirectRU)
			c.NonTrivial()
			c.Branch("directed:failing-FindReaders")
		} else if i < nWitness+nDirectDO+nDirectCC+nDirectAL+nDirectRU+nDirectFF+nDirectC2 {
			k.racy = racy
			k.directClose2(rng, i-nWitness-nDirectDO-nDirectCC-nDirectAL-nDirectRU-nDirectFF)
			c.NonTrivial()
			c.Branch("directed:shared-snapshot-closed-twice")
		} else if i < nDirected-nDirectNR {
			k.racy = racy
			k.directParGet(rng, i-nWitness-nDirectDO-nDirectCC-nDirectAL-nDirectRU-nDirectFF-nDirectC2)
			c.NonTrivial()
			c.Branch("directed:concurrent-GetReader")
		} else if i < nDirected {
			k.racy = racy
			k.directNested(rng, i-(nDirected-nDirectNR))
			c.NonTrivial()
			c.Branch("directed:nested-level1-ranges")
		} else if i < nDirected+nDirect3C {
			k.racy = racy
			k.direct3C(rng, i-nDirected)
			c.NonTrivial()
			c.Branch("directed:three-committers")
		} else if i < nDirected+nDirect3C+nDirectOF {
			k.racy = racy
			k.directOther(rng, i-nDirected-nDirect3C)
			c.NonTrivial()
			c.Branch("directed:other-family")
		} else if i < nDirected+nDirectX {
			k.racy = racy
			k.directRollup2(rng, i-nDirected-nDirect3C-nDirectOF)
			c.NonTrivial()
			c.Branch("directed:two-rollup-targets-one-missing")
		} else {
			k.racy = racy
			k.sparse = rng.Intn(3) == 0
			steps := 50 + rng.Intn(70)
			if c.Tier == "thorough" {
				steps = 60 + rng.Intn(160)
			}
			k.random(rng, steps)
		}
		k.flushFails()
		if k.broken != "" {
			c.Fail("harness-blocked", k.broken)
			// goroutines are stuck: do not try to close the store
			os.RemoveAll(k.dir)
			continue
		}
		k.close()
	}
	return nil
}
