// Package c02 is the correspondence stream "kvsched" of property C02: a real kv store + family in
// a temp dir, driven through model-chosen interleavings. Every thread of a case (closing reader,
// flush, compaction, deleteObsoleteFiles, rollup-done commit) runs lindb's real code on its own
// goroutine and is parked at the verif yield points / directory seams; a deterministic scheduler
// lets exactly one of them run from park point to park point. After every step the active version
// ids, refcounts, directory listing, pending outputs and reader-cache entries are printed and
// diffed against the Lean model (Driver/C02.lean), and the property itself is evaluated on the
// implementation's observations (impl-side oracle).
package c02

import (
	"encoding/binary"
	"fmt"
	"math/rand"
	"os"
	"path/filepath"
	"sort"
	"strconv"
	"strings"
	"time"

	"github.com/lindb/common/pkg/ltoml"

	"github.com/lindb/lindb/internal/verifhook"
	"github.com/lindb/lindb/kv"
	"github.com/lindb/lindb/kv/table"
	"github.com/lindb/lindb/kv/version"
	"github.com/lindb/lindb/pkg/timeutil"

	"github.com/lindb/lindb/zzverif/internal/core"
)

type area struct{}

func init() { core.Register(area{}) }

func (area) Name() string { return "kvsched" }

const (
	knownRaceKey   = "release-race-stale-removeVersion"
	numKeys        = 5
	rollupInterval = timeutil.Interval(300000)
	mergerName     = "c02-sorted-concat"
)

// ---------------------------------------------------------------- scheduler

type heldReader struct {
	file int64
	rd   table.Reader
}

type thr struct {
	name   string // r<N> / j<N>
	kind   string // reader | flush | compact | rollup | delobs
	parked chan string
	resume chan struct{}
	at     string // model pc name of the current park point ("" = not started)
	alive  bool   // goroutine exists and is parked
	done   bool
	panicV interface{}

	// reader
	snap    version.Snapshot
	ver     version.Version
	held    []heldReader
	closing bool
	expect  map[uint32][]uint32 // content fixed at acquisition
	sawSwap bool

	// job
	payload    [][2]uint32 // flush
	rollFiles  []int64
	inCommit   bool
	out        int64
	outContent map[uint32][]uint32
	mergeSeen  bool
	relVer     version.Version // version whose Dec the thread is parked after
	zero       bool            // that Dec returned 0
	delPath    string          // table file the thread is about to remove
	commitVer  version.Version // current version when the commit took its snapshot
	ownVer     version.Version // compaction's own snapshot version
	err        error
}

type sched struct {
	cur *thr
}

var theSched *sched

// parkIDs: the yield points / seams this area schedules at. Other properties' yield points in
// the same code paths are ignored.
var parkIDs = map[string]bool{
	"version.release.afterDec": true, "snapshot.close.afterRelease": true,
	"familyVersion.appendVersion.enter": true, "familyVersion.appendVersion.afterSwap": true,
	"family.deleteObsoleteFiles.afterPending": true, "family.deleteObsoleteFiles.afterActive": true,
	"family.deleteObsoleteFiles.afterRollup": true,
	"kv.listDir.after":                       true, "kv.removeDir.before": true, "kv.removeDir.after": true,
	"compact.beforeRun": true, "table.newWriter.before": true, "merge.first": true, "flush.ready": true,
}

func hook(id string) {
	if s := theSched; s != nil && parkIDs[id] {
		s.park(id)
	}
}

func (s *sched) park(id string) {
	t := s.cur
	if t == nil {
		return
	}
	t.parked <- id
	<-t.resume
}

func (s *sched) wait(t *thr) string {
	select {
	case id := <-t.parked:
		s.cur = nil
		return id
	case <-time.After(20 * time.Second):
		s.cur = nil
		return "timeout"
	}
}

func (s *sched) start(t *thr, f func()) string {
	s.cur = t
	t.alive = true
	go func() {
		defer func() {
			if r := recover(); r != nil {
				t.panicV = r
			}
			t.parked <- "done"
		}()
		f()
	}()
	return s.wait(t)
}

func (s *sched) resumeT(t *thr) string {
	s.cur = t
	t.resume <- struct{}{}
	return s.wait(t)
}

// ---------------------------------------------------------------- merger

func encTok(t uint32) []byte {
	b := make([]byte, 4)
	binary.BigEndian.PutUint32(b, t)
	return b
}

func decToks(b []byte) []uint32 {
	var r []uint32
	for i := 0; i+4 <= len(b); i += 4 {
		r = append(r, binary.BigEndian.Uint32(b[i:]))
	}
	return r
}

type merger struct{ f kv.Flusher }

func (m *merger) Init(map[string]interface{}) {}

// Merge concatenates the value tokens of one key and sorts them (independent of iterator order).
func (m *merger) Merge(key uint32, values [][]byte) error {
	var toks []uint32
	for _, v := range values {
		toks = append(toks, decToks(v)...)
	}
	sort.Slice(toks, func(i, j int) bool { return toks[i] < toks[j] })
	if s := theSched; s != nil && s.cur != nil {
		t := s.cur
		if !t.mergeSeen {
			t.mergeSeen = true
			s.park("merge.first")
		}
		if t.outContent == nil {
			t.outContent = map[uint32][]uint32{}
		}
		t.outContent[key] = append([]uint32(nil), toks...)
	}
	var out []byte
	for _, t := range toks {
		out = append(out, encTok(t)...)
	}
	return m.f.Add(key, out)
}

var installed bool

func install() {
	if installed {
		return
	}
	installed = true
	kv.RegisterMerger(mergerName, func(f kv.Flusher) (kv.Merger, error) { return &merger{f: f}, nil })
	verifhook.Set(hook)
	kv.VerifC02SetSeams(
		func(string) { hook("kv.listDir.after") },
		func(path string) {
			if s := theSched; s != nil && s.cur != nil {
				s.cur.delPath = path
			}
			hook("kv.removeDir.before")
		},
		func(string) { hook("kv.removeDir.after") })
	kv.VerifC02WrapCompactJob(func() { hook("compact.beforeRun") })
	table.VerifC02WrapNewWriter(func(fileName string) {
		if s := theSched; s != nil && s.cur != nil {
			if n, ok := tableNo(filepath.Base(fileName)); ok {
				s.cur.out = n
			}
		}
		hook("table.newWriter.before")
	})
}

func tableNo(name string) (int64, bool) {
	if !strings.HasSuffix(name, ".sst") {
		return 0, false
	}
	n, err := strconv.ParseInt(strings.TrimSuffix(name, ".sst"), 10, 64)
	return n, err == nil
}

// ---------------------------------------------------------------- one case

type fail struct {
	key, desc string
	ver       int64 // version the failure is about (-1: none)
}

type kase struct {
	c         *core.Ctx
	s         *sched
	dir       string
	storeName string
	store     kv.Store
	fam       kv.Family
	fv        version.FamilyVersion
	rollupOn  bool
	threshold int

	readers  map[int]*thr
	jobs     []*thr
	nReaders int

	contents  map[int64]map[uint32][]uint32 // table number -> key -> tokens (flushes: as written; compactions: as merged)
	committed map[uint32][]uint32           // tokens of every flush whose version swap completed
	nextTok   uint32
	tainted   map[int64]bool // versions removed from activeVersions by a stale removeVersion (Dec saw 0, ref > 0 at removal)
	fails     []fail
	forced    *thr // racy Release: a thread parked after Dec→0 must run next (random cases)
	racy      bool // random cases keep Release atomic when Dec returned 0
	broken    string
	swaps     int
}

func joinU32(xs []uint32) string {
	s := make([]string, len(xs))
	for i, x := range xs {
		s[i] = strconv.FormatUint(uint64(x), 10)
	}
	return strings.Join(s, ",")
}

func (k *kase) failf(key string, ver int64, format string, a ...interface{}) {
	k.fails = append(k.fails, fail{key: key, desc: fmt.Sprintf(format, a...), ver: ver})
}

func (k *kase) open(threshold int, rollupOn bool) error {
	dir, err := os.MkdirTemp("", "lvh-c02-*")
	if err != nil {
		return err
	}
	k.dir = dir
	k.storeName = filepath.Join(dir, "s")
	opt := kv.DefaultStoreOption()
	opt.TTL = ltoml.Duration(-time.Hour) // every unreferenced cache entry counts as expired
	if rollupOn {
		opt.Rollup = []timeutil.Interval{rollupInterval}
	}
	st, err := kv.GetStoreManager().CreateStore(k.storeName, opt)
	if err != nil {
		return err
	}
	k.store = st
	fam, err := st.CreateFamily("f", kv.FamilyOption{Merger: mergerName, CompactThreshold: threshold})
	if err != nil {
		return err
	}
	k.fam = fam
	k.fv = kv.VerifC02FamilyVersion(fam)
	k.rollupOn, k.threshold = rollupOn, threshold
	k.readers = map[int]*thr{}
	k.contents = map[int64]map[uint32][]uint32{}
	k.committed = map[uint32][]uint32{}
	k.tainted = map[int64]bool{}
	k.nextTok = 10
	return nil
}

func (k *kase) close() {
	if k.broken == "" && k.store != nil {
		_ = kv.GetStoreManager().CloseStore(k.storeName)
	}
	if k.dir != "" {
		os.RemoveAll(k.dir)
	}
}

func (k *kase) diskFiles() []int64 {
	ents, _ := os.ReadDir(kv.VerifC02FamilyPath(k.fam))
	var rs []int64
	for _, e := range ents {
		if n, ok := tableNo(e.Name()); ok {
			rs = append(rs, n)
		}
	}
	sort.Slice(rs, func(i, j int) bool { return rs[i] < rs[j] })
	return rs
}

func joinI64(xs []int64) string {
	s := make([]string, len(xs))
	for i, x := range xs {
		s[i] = strconv.FormatInt(x, 10)
	}
	return strings.Join(s, ",")
}

func showVers(vs []version.Version) string {
	sort.Slice(vs, func(i, j int) bool { return vs[i].ID() < vs[j].ID() })
	var parts []string
	var last int64 = -1
	for _, v := range vs {
		if v.ID() == last {
			continue
		}
		last = v.ID()
		parts = append(parts, fmt.Sprintf("%d:%d", v.ID(), v.NumOfRef()))
	}
	return strings.Join(parts, ",")
}

func (k *kase) state() string {
	cur, act := version.VerifC02State(k.fv)
	var rv []version.Version
	for _, t := range k.readers {
		rv = append(rv, t.ver)
	}
	ents := table.VerifC02CacheEntries(kv.VerifC02Cache(k.store))
	sort.Slice(ents, func(i, j int) bool { return ents[i].FileName < ents[j].FileName })
	var cache []string
	for _, e := range ents {
		n, _ := tableNo(e.FileName)
		cache = append(cache, fmt.Sprintf("%d:%d", n, e.Ref))
	}
	lock, cmp := 0, 0
	if kv.VerifC02CommitLocked(k.store) {
		lock = 1
	}
	if kv.VerifC02Compacting(k.fam) {
		cmp = 1
	}
	return fmt.Sprintf("cur=%d act=%s rv=%s disk=%s pend=%s cache=%s lock=%d cmp=%d",
		cur.ID(), showVers(act), showVers(rv), joinI64(k.diskFiles()), joinI64(kv.VerifC02Pending(k.fam)),
		strings.Join(cache, ","), lock, cmp)
}

// versionTokens: the tokens a read of key through version v must return (from the harness' own
// record of what every table holds).
func (k *kase) versionTokens(v version.Version, key uint32) []uint32 {
	var toks []uint32
	for _, fm := range v.GetAllFiles() {
		if key < fm.GetMinKey() || key > fm.GetMaxKey() {
			continue
		}
		toks = append(toks, k.contents[fm.GetFileNumber().Int64()][key]...)
	}
	sort.Slice(toks, func(i, j int) bool { return toks[i] < toks[j] })
	return toks
}

func eqU32(a, b []uint32) bool {
	if len(a) != len(b) {
		return false
	}
	for i := range a {
		if a[i] != b[i] {
			return false
		}
	}
	return true
}

// oracle: evaluated on the implementation after every step.
func (k *kase) oracle() {
	cur, act := version.VerifC02State(k.fv)
	_ = cur
	activeIDs := map[int64]bool{}
	for _, v := range act {
		activeIDs[v.ID()] = true
	}
	disk := map[int64]bool{}
	for _, f := range k.diskFiles() {
		disk[f] = true
	}
	ents := table.VerifC02CacheEntries(kv.VerifC02Cache(k.store))
	for _, t := range k.readers {
		if t.snap == nil || t.closing {
			continue
		}
		id := t.ver.ID()
		if !activeIDs[id] {
			k.failf("held-version-not-active", id, "reader %s holds version %d (ref %d) which is no longer in activeVersions", t.name, id, t.ver.NumOfRef())
		}
		for _, fm := range t.ver.GetAllFiles() {
			if n := fm.GetFileNumber().Int64(); !disk[n] {
				k.failf("held-file-missing", id, "table %d of version %d held by reader %s is gone from the directory", n, id, t.name)
			}
		}
		for _, h := range t.held {
			ok := false
			for _, e := range ents {
				if n, _ := tableNo(e.FileName); n == h.file && e.Reader == h.rd {
					ok = true
				}
			}
			if !ok {
				k.failf("held-reader-unmapped", id, "reader %s retains the reader of table %d but the cache closed (unmapped) it", t.name, h.file)
			}
		}
	}
}

// deleteMonitor runs when a thread is parked right before removing a table file.
func (k *kase) deleteMonitor(n int64) {
	for _, t := range k.readers {
		if t.snap == nil || t.closing {
			continue
		}
		for _, fm := range t.ver.GetAllFiles() {
			if fm.GetFileNumber().Int64() == n {
				k.failf("delete-needed-file", t.ver.ID(), "table %d is being deleted while reader %s holds a snapshot of version %d listing it", n, t.name, t.ver.ID())
			}
		}
	}
	for _, p := range kv.VerifC02Pending(k.fam) {
		if p == n {
			k.failf("delete-pending-output", -1, "table %d is being deleted while it is a pending output", n)
		}
	}
	cur, _ := version.VerifC02State(k.fv)
	for f := range cur.GetRollupFiles() {
		if f.Int64() == n {
			k.failf("delete-rollup-file", -1, "table %d is being deleted while the current version still marks it for rollup", n)
		}
	}
}

func (k *kase) pcName(t *thr, id string) string {
	reader := t.kind == "reader"
	switch id {
	case "table.newWriter.before":
		return "allocd"
	case "flush.ready":
		return "ready"
	case "familyVersion.appendVersion.enter":
		t.inCommit = true
		return "cSnapped"
	case "familyVersion.appendVersion.afterSwap":
		return "cSwapped"
	case "version.release.afterDec":
		if reader {
			return "decd"
		}
		if t.inCommit {
			return "cDecd"
		}
		return "oDecd"
	case "snapshot.close.afterRelease":
		if reader {
			return "removed"
		}
		if t.inCommit {
			t.inCommit = false
			return "cRemoved"
		}
		return "oRemoved"
	case "compact.beforeRun":
		return "picked"
	case "merge.first":
		return "merging"
	case "kv.listDir.after":
		return "doListed"
	case "family.deleteObsoleteFiles.afterPending":
		return "doPended"
	case "family.deleteObsoleteFiles.afterActive":
		return "doActived"
	case "family.deleteObsoleteFiles.afterRollup":
		return "doRolled"
	case "kv.removeDir.before":
		return "doEvicted"
	case "kv.removeDir.after":
		return "doRemoved"
	case "done":
		if reader {
			return "closed"
		}
		return "done"
	}
	return "unknown:" + id
}

// afterPark: bookkeeping + oracle pieces tied to the park point thread t just reached.
func (k *kase) afterPark(t *thr, pc string) {
	cur, _ := version.VerifC02State(k.fv)
	switch pc {
	case "cSnapped":
		t.commitVer = cur
	case "cSwapped":
		k.swaps++
		for _, r := range k.readers {
			if r.snap != nil && !r.closing {
				r.sawSwap = true
			}
		}
		switch t.kind {
		case "flush":
			m := map[uint32][]uint32{}
			for _, p := range t.payload {
				m[p[0]] = []uint32{p[1]}
				k.committed[p[0]] = append(k.committed[p[0]], p[1])
			}
			k.contents[t.out] = m
		case "compact":
			if t.outContent != nil {
				k.contents[t.out] = t.outContent
			}
		}
	case "allocd":
		if t.kind == "flush" { // content is known from the start; readers cannot see it before the swap
			m := map[uint32][]uint32{}
			for _, p := range t.payload {
				m[p[0]] = []uint32{p[1]}
			}
			k.contents[t.out] = m
		}
	case "decd":
		t.relVer = t.ver
	case "cDecd":
		t.relVer = t.commitVer
	case "oDecd":
		t.relVer = t.ownVer
	case "done", "closed":
		t.done, t.alive = true, false
	}
	if pc == "decd" || pc == "cDecd" || pc == "oDecd" {
		t.zero = t.relVer != nil && t.relVer.NumOfRef() == 0
		if k.racy && t.zero {
			k.forced = t
		}
	}
	if t.panicV != nil {
		k.failf("panic", -1, "thread %s panicked: %v", t.name, t.panicV)
		t.panicV = nil
	}
}

// beforeResume: detects the stale removeVersion (Dec returned 0, the version was retained again
// and is no longer current when removeVersion runs).
func (k *kase) beforeResume(t *thr) {
	if t.at == "decd" || t.at == "cDecd" || t.at == "oDecd" {
		if v := t.relVer; v != nil && t.zero {
			cur, _ := version.VerifC02State(k.fv)
			if v.NumOfRef() > 0 && v != cur {
				k.tainted[v.ID()] = true
			}
		}
	}
}

func (k *kase) lockFree() bool { return !kv.VerifC02CommitLocked(k.store) }

func (k *kase) compactionActive() bool {
	for _, j := range k.jobs {
		if j.kind == "compact" && j.alive {
			return true
		}
	}
	return false
}

// enabled: would `run t` make progress without blocking on the version-set mutex?
func (k *kase) enabled(t *thr) bool {
	if t.done {
		return false
	}
	if t.kind == "reader" {
		return t.closing
	}
	switch t.at {
	case "":
		switch t.kind {
		case "flush", "rollup":
			return k.lockFree()
		case "compact":
			return !k.compactionActive() && !kv.VerifC02Compacting(k.fam)
		}
		return true
	case "ready", "picked", "merging":
		return k.lockFree()
	case "allocd":
		return t.kind == "flush" || k.lockFree()
	}
	return true
}

func (k *kase) emit(op, res string) {
	if k.c != nil {
		k.c.Op(op, res+" | "+k.state())
	}
}

func (k *kase) branch(name string) {
	if k.c != nil {
		k.c.Branch(name)
	}
}

func (k *kase) nonTrivial() {
	if k.c != nil {
		k.c.NonTrivial()
	}
}

func (k *kase) body(t *thr) func() {
	switch t.kind {
	case "flush":
		return func() {
			fl := k.fam.NewFlusher()
			defer fl.Release()
			for _, p := range t.payload {
				if err := fl.Add(p[0], encTok(p[1])); err != nil {
					t.err = err
					return
				}
			}
			k.s.park("flush.ready")
			t.err = fl.Commit()
		}
	case "compact":
		return func() { t.err = kv.VerifC02CompactSync(k.fam) }
	case "delobs":
		return func() { kv.VerifC02DeleteObsoleteFiles(k.fam) }
	case "rollup":
		return func() {
			if !kv.VerifC02CommitRollupDone(k.fam, t.rollFiles, rollupInterval) {
				t.err = fmt.Errorf("commit failed")
			}
		}
	}
	return func() {}
}

// exec performs one protocol operation on the implementation and records it.
func (k *kase) exec(op string) string {
	ws := strings.Fields(op)
	res := "bad-op"
	num := func(s string) int { n, _ := strconv.Atoi(s); return n }
	switch ws[0] {
	case "acquire":
		r := num(ws[1])
		t := &thr{name: "r" + ws[1], kind: "reader", parked: make(chan string), resume: make(chan struct{})}
		t.snap = k.fam.GetSnapshot()
		t.ver = t.snap.GetCurrent()
		t.expect = map[uint32][]uint32{}
		for key := uint32(0); key < numKeys; key++ {
			t.expect[key] = k.versionTokens(t.ver, key)
			want := append([]uint32(nil), k.committed[key]...)
			sort.Slice(want, func(i, j int) bool { return want[i] < want[j] })
			if !eqU32(t.expect[key], want) {
				k.failf("later-reader-missed-commit", -1, "reader %s started after %d commits completed; its version %d shows key %d = [%s], committed = [%s]",
					t.name, k.swaps, t.ver.ID(), key, joinU32(t.expect[key]), joinU32(want))
			}
		}
		k.readers[r] = t
		res = "ok"
	case "getr":
		t := k.readers[num(ws[1])]
		f := int64(num(ws[2]))
		rd, err := t.snap.GetReader(table.FileNumber(f))
		if err != nil || rd == nil {
			res = "err"
		} else {
			t.held = append(t.held, heldReader{file: f, rd: rd})
			res = "ok"
		}
	case "find", "load":
		t := k.readers[num(ws[1])]
		key := uint32(num(ws[2]))
		var toks []uint32
		var err error
		if ws[0] == "find" {
			var rds []table.Reader
			rds, err = t.snap.FindReaders(key)
			if err == nil {
				for _, rd := range rds {
					if n, ok := tableNo(rd.FileName()); ok {
						t.held = append(t.held, heldReader{file: n, rd: rd})
					}
					v, e := rd.Get(key)
					if e == nil {
						toks = append(toks, decToks(v)...)
					}
				}
			}
		} else {
			err = t.snap.Load(key, func(v []byte) error { toks = append(toks, decToks(v)...); return nil })
		}
		if err != nil {
			res = "err"
			k.failf("snapshot-read-failed", t.ver.ID(), "reader %s (version %d) can no longer read key %d: %v", t.name, t.ver.ID(), key, errShort(err))
		} else {
			sort.Slice(toks, func(i, j int) bool { return toks[i] < toks[j] })
			res = "ok toks=" + joinU32(toks)
			if !eqU32(toks, t.expect[key]) {
				k.failf("snapshot-read-changed", t.ver.ID(), "reader %s (version %d) reads key %d = [%s], at acquisition it was [%s]", t.name, t.ver.ID(), key, joinU32(toks), joinU32(t.expect[key]))
			}
			if t.sawSwap {
				k.nonTrivial()
			}
		}
	case "close":
		t := k.readers[num(ws[1])]
		t.closing = true
		id := k.s.start(t, func() { t.snap.Close() })
		res = k.parked(t, id)
	case "run":
		var t *thr
		n := num(ws[1][1:])
		if ws[1][0] == 'r' {
			t = k.readers[n]
		} else {
			t = k.jobs[n]
		}
		var id string
		if !t.alive {
			if t.kind == "compact" {
				cur, _ := version.VerifC02State(k.fv)
				t.ownVer = cur
			}
			id = k.s.start(t, k.body(t))
		} else {
			k.beforeResume(t)
			if k.forced == t {
				k.forced = nil
			}
			id = k.s.resumeT(t)
		}
		res = k.parked(t, id)
	case "spawn":
		t := &thr{name: fmt.Sprintf("j%d", len(k.jobs)), kind: ws[1], parked: make(chan string), resume: make(chan struct{})}
		switch ws[1] {
		case "flush":
			for _, w := range ws[2:] {
				kt := strings.SplitN(w, ":", 2)
				t.payload = append(t.payload, [2]uint32{uint32(num(kt[0])), uint32(num(kt[1]))})
			}
		case "rollup":
			for _, w := range ws[2:] {
				t.rollFiles = append(t.rollFiles, int64(num(w)))
			}
		}
		res = fmt.Sprintf("job=%d", len(k.jobs))
		k.jobs = append(k.jobs, t)
	case "cleanup":
		res = "ok"
	}
	k.oracle()
	k.emit(op, res)
	k.branch("op:" + ws[0])
	return res
}

func errShort(err error) string {
	s := err.Error()
	if strings.Contains(s, "no such file") {
		return "table file does not exist"
	}
	if len(s) > 80 {
		s = s[:80]
	}
	return s
}

func (k *kase) parked(t *thr, id string) string {
	if id == "timeout" {
		k.broken = "thread " + t.name + " blocked (scheduler timeout) at " + t.at
		return "timeout"
	}
	pc := k.pcName(t, id)
	t.at = pc
	k.afterPark(t, pc)
	if pc == "doEvicted" {
		// parked inside removeDirFunc before the removal: which table?
		if n, ok := tableNo(filepath.Base(t.delPath)); ok {
			k.deleteMonitor(n)
		}
	}
	k.branch("park:" + pc)
	return "at=" + pc
}

// cleanup runs storeCache.Cleanup and reports which entries it closed.
func (k *kase) cleanup() {
	before := table.VerifC02CacheEntries(kv.VerifC02Cache(k.store))
	kv.VerifC02CacheCleanup(k.store)
	after := map[string]bool{}
	for _, e := range table.VerifC02CacheEntries(kv.VerifC02Cache(k.store)) {
		after[e.FileName] = true
	}
	var gone []int64
	for _, e := range before {
		if !after[e.FileName] {
			n, _ := tableNo(e.FileName)
			gone = append(gone, n)
			for _, t := range k.readers {
				if t.snap == nil || t.closing {
					continue
				}
				for _, h := range t.held {
					if h.file == n {
						k.failf("cleanup-closed-held-reader", t.ver.ID(), "Cleanup closed the reader of table %d retained by reader %s", n, t.name)
					}
				}
			}
		}
	}
	sort.Slice(gone, func(i, j int) bool { return gone[i] < gone[j] })
	op := "cleanup"
	for _, g := range gone {
		op += " " + strconv.FormatInt(g, 10)
	}
	k.exec(op)
}

// finish drives thread t to its end.
func (k *kase) finish(name string) {
	for i := 0; i < 64 && k.broken == ""; i++ {
		res := k.exec("run " + name)
		if res == "at=done" || res == "at=closed" || res == "timeout" {
			return
		}
	}
}

// flushFails reports the collected oracle failures: those that are consequences of the known
// Release race (they concern a version that a stale removeVersion deleted) under its stable key,
// everything else under its own key.
func (k *kase) flushFails() {
	var known []string
	seen := map[string]bool{}
	seenKnown := map[string]bool{}
	for _, f := range k.fails {
		if f.ver >= 0 && k.tainted[f.ver] {
			if !seenKnown[f.key] {
				seenKnown[f.key] = true
				known = append(known, f.key+": "+f.desc)
			}
			continue
		}
		if seen[f.key] {
			continue
		}
		seen[f.key] = true
		k.c.Fail(f.key, f.desc)
	}
	if len(known) > 0 {
		k.c.Fail(knownRaceKey, "version.Release ran removeVersion after its Dec returned 0 although the version had been retained again and swapped out: "+strings.Join(known, "; "))
	}
}

// ---------------------------------------------------------------- cases

func (k *kase) begin(i int, threshold int, rollupOn bool) error {
	if err := k.open(threshold, rollupOn); err != nil {
		return err
	}
	cur, _ := version.VerifC02State(k.fv)
	ro := 0
	if rollupOn {
		ro = 1
	}
	k.emit(fmt.Sprintf("init %d %d %d %d", cur.ID(), kv.VerifC02NextFileNumber(k.store), threshold, ro), "ok")
	return nil
}

// witness: the Release race, deterministic. variant 0: B's later Load fails; variant 1: B's
// retained readers are unmapped under it and its GetReader fails.
func (k *kase) witness(variant int) {
	k.racy = false
	for _, op := range []string{"spawn flush 1:10 3:11"} {
		k.exec(op)
	}
	k.finish("j0")
	k.exec("spawn flush 1:12 2:13")
	k.finish("j1")
	k.exec("acquire 0")
	k.exec("close 0") // A: Dec → 0, parked before removeVersion
	k.exec("acquire 1")
	if variant == 0 {
		k.exec("load 1 1")
	} else {
		k.exec("find 1 1")
	}
	k.exec("spawn compact")
	k.finish("j2")
	k.exec("run r0") // A resumes: removeVersion(V) although B retains V
	k.exec("run r0")
	k.exec("spawn delobs")
	k.finish("j3")
	if variant == 0 {
		k.exec("load 1 1")
		k.exec("load 1 3")
	} else {
		k.exec("getr 1 " + strconv.FormatInt(k.jobs[0].out, 10))
	}
	k.exec("close 1")
	k.finish("r1")
}

func (k *kase) newPayload(rng *rand.Rand) string {
	var parts []string
	for key := 0; key < numKeys; key++ {
		if rng.Intn(2) == 0 {
			parts = append(parts, fmt.Sprintf("%d:%d", key, k.nextTok))
			k.nextTok++
		}
	}
	if len(parts) == 0 {
		parts = append(parts, fmt.Sprintf("%d:%d", rng.Intn(numKeys), k.nextTok))
		k.nextTok++
	}
	return strings.Join(parts, " ")
}

func (k *kase) random(rng *rand.Rand, steps int) {
	openReaders := func() []int {
		var rs []int
		for id, t := range k.readers {
			if !t.closing {
				rs = append(rs, id)
			}
		}
		sort.Ints(rs)
		return rs
	}
	runnable := func() []string {
		var rs []string
		var ids []int
		for id := range k.readers {
			ids = append(ids, id)
		}
		sort.Ints(ids)
		for _, id := range ids {
			if t := k.readers[id]; k.enabled(t) {
				rs = append(rs, t.name)
			}
		}
		for _, t := range k.jobs {
			if k.enabled(t) {
				rs = append(rs, t.name)
			}
		}
		return rs
	}
	activeJobs := func() int {
		n := 0
		for _, t := range k.jobs {
			if !t.done {
				n++
			}
		}
		return n
	}
	// prelude: a few completed flushes so that compactions have something to pick
	for n := rng.Intn(4); n > 0 && k.broken == ""; n-- {
		k.exec("spawn flush " + k.newPayload(rng))
		k.finish(k.jobs[len(k.jobs)-1].name)
	}
	for i := 0; i < steps && k.broken == ""; i++ {
		if k.forced != nil {
			k.exec("run " + k.forced.name)
			continue
		}
		run := runnable()
		or := openReaders()
		x := rng.Intn(100)
		switch {
		case x < 45 && len(run) > 0:
			k.exec("run " + run[rng.Intn(len(run))])
		case x < 55 && activeJobs() < 4:
			k.exec("spawn flush " + k.newPayload(rng))
		case x < 62 && activeJobs() < 4 && !k.compactionActive():
			k.exec("spawn compact")
		case x < 65 && activeJobs() < 4:
			k.exec("spawn delobs")
		case x < 68 && k.rollupOn && activeJobs() < 4:
			cur, _ := version.VerifC02State(k.fv)
			var fs []int
			for f := range cur.GetRollupFiles() {
				fs = append(fs, int(f.Int64()))
			}
			sort.Ints(fs)
			if len(fs) > 0 {
				n := 1 + rng.Intn(len(fs))
				op := "spawn rollup"
				for _, f := range fs[:n] {
					op += " " + strconv.Itoa(f)
				}
				k.exec(op)
			}
		case x < 75 && len(or) < 3:
			k.exec(fmt.Sprintf("acquire %d", k.nReaders))
			k.nReaders++
		case x < 94 && len(or) > 0:
			r := or[rng.Intn(len(or))]
			t := k.readers[r]
			files := t.ver.GetAllFiles()
			switch y := rng.Intn(10); {
			case y < 3:
				k.exec(fmt.Sprintf("find %d %d", r, rng.Intn(numKeys)))
			case y < 5:
				k.exec(fmt.Sprintf("load %d %d", r, rng.Intn(numKeys)))
			case y < 7 && len(files) > 0:
				nos := make([]int, len(files))
				for i, fm := range files {
					nos[i] = int(fm.GetFileNumber().Int64())
				}
				sort.Ints(nos)
				k.exec(fmt.Sprintf("getr %d %d", r, nos[rng.Intn(len(nos))]))
			case y < 8:
				k.exec(fmt.Sprintf("close %d", r))
			}
		case x < 97:
			k.cleanup()
		default:
			if len(run) > 0 {
				k.exec("run " + run[rng.Intn(len(run))])
			}
		}
	}
	k.drain(rng)
}

// drain finishes every thread (random order, still interleaved), re-reads every open snapshot,
// closes the readers, runs a final deleteObsoleteFiles and checks the directory against the
// current version.
func (k *kase) drain(rng *rand.Rand) {
	for guard := 0; guard < 2000 && k.broken == ""; guard++ {
		if k.forced != nil {
			k.exec("run " + k.forced.name)
			continue
		}
		var run []string
		for _, t := range k.jobs {
			if k.enabled(t) {
				run = append(run, t.name)
			}
		}
		if len(run) == 0 {
			break
		}
		k.exec("run " + run[rng.Intn(len(run))])
	}
	var ids []int
	for id := range k.readers {
		ids = append(ids, id)
	}
	sort.Ints(ids)
	for _, id := range ids {
		t := k.readers[id]
		if k.broken != "" {
			return
		}
		if !t.closing {
			for key := 0; key < numKeys; key++ {
				k.exec(fmt.Sprintf("load %d %d", id, key))
			}
			k.exec(fmt.Sprintf("close %d", id))
		}
		if !t.done {
			k.finish(t.name)
		}
	}
	if k.broken != "" {
		return
	}
	k.exec("spawn delobs")
	k.finish(k.jobs[len(k.jobs)-1].name)
	k.cleanup()
	// nothing needed is missing, nothing obsolete is left
	cur, act := version.VerifC02State(k.fv)
	need := map[int64]bool{}
	for _, v := range act {
		for _, fm := range v.GetAllFiles() {
			need[fm.GetFileNumber().Int64()] = true
		}
	}
	for f := range cur.GetRollupFiles() {
		need[f.Int64()] = true
	}
	disk := map[int64]bool{}
	for _, f := range k.diskFiles() {
		disk[f] = true
		if !need[f] {
			k.failf("obsolete-file-left", -1, "table %d is in the directory after the final cleanup but no active version, pending output or rollup mark lists it", f)
		}
	}
	for f := range need {
		if !disk[f] {
			k.failf("needed-file-missing-at-end", -1, "table %d is listed by an active version / rollup mark but is not in the directory", f)
		}
	}
	for _, t := range k.jobs {
		if t.err != nil {
			k.failf("job-error", -1, "job %s (%s) returned error: %v", t.name, t.kind, errShort(t.err))
		}
	}
}

func (area) Run(c *core.Ctx) error {
	install()
	s := &sched{}
	theSched = s
	defer func() { theSched = nil }()
	// Does the Release race exist in this tree? An unrecorded run of the witness decides whether
	// random schedules may deschedule a thread between a Dec that returned 0 and its removeVersion.
	probe := &kase{s: s}
	if err := probe.begin(0, 2, false); err != nil {
		probe.close()
		return err
	}
	probe.witness(0)
	racy := len(probe.tainted) > 0
	probe.close()
	for i := 0; i < c.N; i++ {
		if !c.Want(i) {
			continue
		}
		rng := c.Rng(i)
		k := &kase{c: c, s: s}
		c.Begin(i)
		threshold, rollupOn := 2, false
		if i >= 2 {
			threshold = 1 + rng.Intn(3)
			rollupOn = rng.Intn(3) == 0
		}
		if err := k.begin(i, threshold, rollupOn); err != nil {
			k.close()
			return err
		}
		if i < 2 {
			k.witness(i)
			c.NonTrivial()
			c.Branch(fmt.Sprintf("witness:stale-removeVersion=%v", len(k.tainted) > 0))
		} else {
			k.racy = racy
			steps := 50 + rng.Intn(70)
			if c.Tier == "thorough" {
				steps = 60 + rng.Intn(160)
			}
			k.random(rng, steps)
		}
		k.flushFails()
		if k.broken != "" {
			c.Fail("harness-blocked", k.broken)
			// goroutines are stuck: do not try to close the store
			os.RemoveAll(k.dir)
			continue
		}
		k.close()
	}
	return nil
}
