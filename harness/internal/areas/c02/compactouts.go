// Area compactouts (C02, round 12): a level-0 compaction whose output rolls over FamilyOption.MaxFileSize
// (several output tables per job), stopped inside its merge after every key, interleaved with the four
// phases of a concurrent family.deleteObsoleteFiles, flushes, a reader holding an older version and
// failing merges. Model: lean/LinVerif/Model/CompactOuts.lean (driver C02Outs).
package c02

import (
	"errors"
	"fmt"
	"math/rand"
	"os"
	"path/filepath"
	"sort"
	"strings"
	"time"

	"github.com/lindb/lindb/internal/verifhook"
	"github.com/lindb/lindb/kv"
	"github.com/lindb/lindb/kv/version"

	"github.com/lindb/lindb/zzverif/internal/core"
)

type outsArea struct{}

func init() { core.Register(outsArea{}) }

func (outsArea) Name() string { return "compactouts" }

const (
	outsMerger      = "c02-outs-merger"
	outsMaxFileSize = 2048
	outsBig         = 4096
	outsSmall       = 8
)

// oThr: one real goroutine the case drives from park point to park point.
type oThr struct {
	g      int64
	parked chan string
	resume chan struct{}
	done   chan struct{}
	err    error
	panicV interface{}
}

func (t *oThr) park(id string) {
	t.parked <- id
	<-t.resume
}

// wait: the thread's next park point, or "" when it returned.
func (t *oThr) wait() string {
	select {
	case id := <-t.parked:
		return id
	case <-t.done:
		return ""
	case <-time.After(60 * time.Second):
		return "stuck"
	}
}

func (t *oThr) step() string {
	t.resume <- struct{}{}
	return t.wait()
}

func spawnO(set func(*oThr), f func() error) *oThr {
	t := &oThr{parked: make(chan string), resume: make(chan struct{}), done: make(chan struct{})}
	ready := make(chan struct{})
	go func() {
		defer close(t.done)
		defer func() {
			if r := recover(); r != nil {
				t.panicV = r
			}
		}()
		t.g = goid()
		set(t) // before the body runs: the hooks recognise the thread by t.g
		close(ready)
		t.err = f()
	}()
	<-ready
	return t
}

type oCase struct {
	c         *core.Ctx
	dir       string
	storeName string
	store     kv.Store
	fam       kv.Family
	fv        version.FamilyVersion
	keys      int

	comp     *oThr
	plan     []byte // per merged key: 's' small value, 'b' value > MaxFileSize, 'f' the merger fails
	keyIdx   int
	builder  bool // harness' own prediction: an output table is open
	finished int  // outputs finished by the running job
	inputs   []int64
	owned    map[int64]bool // tables the running compaction allocated (first seen pending after its start)

	cl       [2]*oThr
	clAt     [2]string
	clDel    [2]int64
	swCalled bool // the job's compactFlusher.StreamWriter() was called (it is cached afterwards)
	count    int  // keys in the open output table

	held      version.Snapshot
	heldFiles map[int64]bool
	broken    bool
	lossy     bool // the harness merger itself dropped a key (kind 'e')
}

var oCur *oCase

type outsMergerT struct{ f kv.Flusher }

func (m *outsMergerT) Init(map[string]interface{}) {}

func (m *outsMergerT) Merge(key uint32, _ [][]byte) error {
	k := oCur
	if k == nil || k.comp == nil || goid() != k.comp.g {
		return m.f.Add(key, make([]byte, outsSmall))
	}
	k.comp.park("merge")
	kind := byte('s')
	if k.keyIdx < len(k.plan) {
		kind = k.plan[k.keyIdx]
	}
	k.keyIdx++
	switch kind {
	case 'f':
		return errors.New("injected merge failure")
	case 'b':
		return m.f.Add(key, make([]byte, outsBig))
	case 'e': // asks for the stream writer and writes nothing
		_, err := m.f.StreamWriter()
		return err
	case 'w', 'W': // the streaming path: Prepare (beforeAdd) / Write / Commit (afterAdd)
		sw, err := m.f.StreamWriter()
		if err != nil {
			return err
		}
		n := outsSmall
		if kind == 'W' {
			n = outsBig
		}
		sw.Prepare(key)
		if _, err := sw.Write(make([]byte, n)); err != nil {
			return err
		}
		return sw.Commit()
	}
	return m.f.Add(key, make([]byte, outsSmall))
}

var outsInstalled bool

func outsInstall() {
	if outsInstalled {
		return
	}
	outsInstalled = true
	kv.RegisterMerger(outsMerger, func(f kv.Flusher) (kv.Merger, error) { return &outsMergerT{f: f}, nil })
	isCleaner := func() (*oCase, int) {
		if k := oCur; k != nil {
			g := goid()
			for j, t := range k.cl {
				if t != nil && t.g == g {
					return k, j
				}
			}
		}
		return nil, -1
	}
	verifhook.Set(func(id string) {
		if k, j := isCleaner(); k != nil && id == "family.deleteObsoleteFiles.afterPending" {
			k.cl[j].park("pended")
		}
	})
	kv.VerifC02SetSeams(
		func(string) {
			if k, j := isCleaner(); k != nil {
				k.cl[j].park("listed")
			}
		},
		func(path string) {
			k := oCur
			if k == nil {
				return
			}
			n, ok := tableNo(filepath.Base(path))
			if !ok {
				return
			}
			k.checkDelete(n)
			if _, j := isCleaner(); j >= 0 {
				k.clDel[j] = n
				k.cl[j].park("del")
			}
		},
		func(string) {})
}

func (k *oCase) curFiles() []int64 {
	snap := k.fv.GetSnapshot()
	defer snap.Close()
	var rs []int64
	for _, fm := range snap.GetCurrent().GetAllFiles() {
		rs = append(rs, fm.GetFileNumber().Int64())
	}
	sort.Slice(rs, func(i, j int) bool { return rs[i] < rs[j] })
	return rs
}

func (k *oCase) activeFiles() []int64 {
	var rs []int64
	for _, fm := range k.fv.GetAllActiveFiles() {
		rs = append(rs, fm.GetFileNumber().Int64())
	}
	sort.Slice(rs, func(i, j int) bool { return rs[i] < rs[j] })
	return rs
}

func (k *oCase) disk() []int64 {
	ents, _ := os.ReadDir(kv.VerifC02FamilyPath(k.fam))
	var rs []int64
	for _, e := range ents {
		if n, ok := tableNo(e.Name()); ok {
			rs = append(rs, n)
		}
	}
	sort.Slice(rs, func(i, j int) bool { return rs[i] < rs[j] })
	return rs
}

// checkDelete: the property at the unlink seam, on the harness' own bookkeeping.
func (k *oCase) checkDelete(n int64) {
	if k.comp != nil && k.owned[n] {
		k.c.Fail("delete-unfinished-compaction-output", fmt.Sprintf(
			"table %d is being deleted while the compaction that wrote it (%d outputs finished, key %d of %d) has not committed",
			n, k.finished, k.keyIdx, len(k.plan)))
	}
	for _, f := range k.activeFiles() {
		if f == n {
			k.c.Fail("delete-active-version-file", fmt.Sprintf("table %d is being deleted while a registered version lists it", n))
		}
	}
	if k.heldFiles[n] {
		k.c.Fail("delete-needed-file", fmt.Sprintf("table %d is being deleted while a reader holds a snapshot listing it", n))
	}
}

func (k *oCase) state() string {
	w := "idle"
	if k.comp != nil {
		w = "merging"
	}
	var cs [2]string
	for j := range cs {
		cs[j] = k.clAt[j]
		if cs[j] == "del" {
			cs[j] = fmt.Sprintf("del:%d", k.clDel[j])
		}
	}
	pend := kv.VerifC02Pending(k.fam)
	if k.comp != nil {
		for _, p := range pend {
			if !k.owned[p] {
				k.owned[p] = true
			}
		}
	}
	disk := k.disk()
	on := map[int64]bool{}
	for _, d := range disk {
		on[d] = true
	}
	cur := k.curFiles()
	for _, f := range cur {
		if !on[f] {
			k.c.Fail("current-version-table-missing", fmt.Sprintf("the current version lists table %d, which is not in the directory", f))
		}
	}
	if k.comp != nil {
		for f := range k.owned {
			if !on[f] {
				k.c.Fail("unfinished-compaction-output-deleted", fmt.Sprintf("table %d of the unfinished compaction is gone from the directory", f))
			}
		}
	}
	for f := range k.heldFiles {
		if !on[f] {
			k.c.Fail("held-version-table-missing", fmt.Sprintf("table %d of the version a reader holds is gone from the directory", f))
		}
	}
	return fmt.Sprintf("nf=%d disk=%s pend=%s cur=%s act=%s w=%s c0=%s c1=%s",
		kv.VerifC02NextFileNumber(k.store), joinI64(disk), joinI64(pend), joinI64(cur), joinI64(k.activeFiles()), w, cs[0], cs[1])
}

func (k *oCase) emit(op string) { k.c.Op(op, k.state()) }

func (k *oCase) open() error {
	dir, err := os.MkdirTemp("", "lvh-c02o-*")
	if err != nil {
		return err
	}
	k.dir = dir
	k.storeName = filepath.Join(dir, "store")
	st, err := kv.GetStoreManager().CreateStore(k.storeName, kv.DefaultStoreOption())
	if err != nil {
		return err
	}
	k.store = st
	fam, err := st.CreateFamily("f", kv.FamilyOption{Merger: outsMerger, CompactThreshold: 2, MaxFileSize: outsMaxFileSize})
	if err != nil {
		return err
	}
	k.fam = fam
	k.fv = kv.VerifC02FamilyVersion(fam)
	k.owned = map[int64]bool{}
	k.clAt = [2]string{"idle", "idle"}
	return nil
}

func (k *oCase) close() {
	oCur = nil
	if k.store != nil {
		_ = kv.GetStoreManager().CloseStore(k.storeName)
	}
	if k.dir != "" {
		_ = os.RemoveAll(k.dir)
	}
}

func (k *oCase) flush() {
	fl := k.fam.NewFlusher()
	var err error
	for key := 0; key < k.keys && err == nil; key++ {
		err = fl.Add(uint32(key), make([]byte, outsSmall))
	}
	if err == nil {
		err = fl.Commit()
	}
	fl.Release()
	if err != nil {
		k.c.Fail("flush-error", err.Error())
	}
	k.c.Branch("op:flush")
	k.emit("start - ; open ; finish ; install ; cleanup")
}

func (k *oCase) startCompaction(plan []byte) {
	k.plan, k.keyIdx, k.builder, k.finished, k.swCalled, k.count = plan, 0, false, 0, false, 0
	k.owned = map[int64]bool{}
	k.inputs = k.curFiles()
	spawnO(func(t *oThr) { k.comp = t }, func() error { return kv.VerifC02CompactSync(k.fam) })
	at := k.comp.wait()
	if at != "merge" {
		k.c.Fail("compaction-did-not-merge", "the compaction did not reach its merger: "+at+fmt.Sprint(k.comp.err))
		k.comp = nil
		k.broken = true
		return
	}
	k.c.Branch("op:start")
	in := joinI64(k.inputs)
	if in == "" {
		in = "-"
	}
	k.emit("start " + in)
}

// key: the parked merger handles one key; after the last one the job runs to its end (install, cleanup,
// snapshot close, its own deleteObsoleteFiles).
func (k *oCase) key() {
	kind := k.plan[k.keyIdx]
	var acts []string
	if kind == 'f' {
		// the job fails at this key: its tables are needed by nobody from here on
		k.owned = map[int64]bool{}
	}
	at := k.comp.step()
	switch kind {
	case 'f':
	case 'e':
		k.lossy = true
		// only the job's FIRST StreamWriter() call runs beforeAdd; later calls return the cached writer
		if !k.swCalled && !k.builder {
			acts = append(acts, "open")
			k.builder, k.count = true, 0
		}
		k.swCalled = true
	default:
		if kind == 'w' || kind == 'W' {
			k.swCalled = true
		}
		if !k.builder {
			acts = append(acts, "open")
			k.builder, k.count = true, 0
		}
		k.count++
		if kind == 'b' || kind == 'W' {
			acts = append(acts, "finish")
			k.builder = false
			k.finished++
		}
	}
	if at == "merge" {
		if k.finished > 0 {
			k.c.Branch("window:finished-output-uncommitted")
		}
		k.c.Branch("op:key-" + string(kind))
		if len(acts) == 0 {
			acts = []string{"nop"}
		}
		k.emit(strings.Join(acts, " ; "))
		return
	}
	// the job returned
	t := k.comp
	k.comp = nil
	if t.panicV != nil {
		k.c.Fail("panic", fmt.Sprintf("compaction panicked: %v", t.panicV))
	}
	if at == "stuck" {
		k.c.Fail("blocked-thread", "the compaction neither parked nor returned")
		k.broken = true
		return
	}
	if kind == 'f' {
		if t.err == nil {
			k.c.Fail("failed-merge-reported-ok", "the merger failed but the compaction returned nil")
		}
		acts = append(acts, "fail", "cleanup", "cfull 2")
		k.c.Branch("op:key-fail")
	} else {
		if t.err != nil {
			k.c.Fail("job-error", "compaction: "+t.err.Error())
		}
		if k.builder {
			if k.count > 0 {
				acts = append(acts, "finish")
				k.finished++
			} else {
				// Count() == 0: the builder is dropped, its table and its pending mark stay (HEAD behaviour)
				acts = append(acts, "finishempty")
				k.c.Branch("empty-output-left-pending")
			}
		}
		acts = append(acts, "install", "cleanup")
		for _, f := range k.inputs {
			if !k.heldFiles[f] {
				acts = append(acts, fmt.Sprintf("drop %d", f))
			}
		}
		acts = append(acts, "cfull 2")
		k.c.Branch(fmt.Sprintf("outputs:%d", k.finished))
	}
	k.builder = false
	k.owned = map[int64]bool{}
	k.emit(strings.Join(acts, " ; "))
}

func (k *oCase) cleaner(j int) {
	var at string
	var op string
	switch k.clAt[j] {
	case "idle":
		spawnO(func(t *oThr) { k.cl[j] = t }, func() error { kv.VerifC02DeleteObsoleteFiles(k.fam); return nil })
		at = k.cl[j].wait()
		op = "clist"
	case "listed":
		at = k.cl[j].step()
		op = "cpend"
	case "pended":
		at = k.cl[j].step()
		op = "cactive"
	case "del":
		at = k.cl[j].step()
		op = "cdel"
	}
	if k.comp != nil && k.finished > 0 {
		k.c.Branch("cleaner-step-inside-window")
		k.c.NonTrivial()
	}
	if k.clAt[1-j] != "idle" {
		k.c.Branch("two-cleaners-parked")
	}
	switch at {
	case "":
		if k.cl[j].panicV != nil {
			k.c.Fail("panic", fmt.Sprintf("deleteObsoleteFiles panicked: %v", k.cl[j].panicV))
		}
		k.cl[j] = nil
		k.clAt[j] = "idle"
	case "stuck":
		k.c.Fail("blocked-thread", "deleteObsoleteFiles neither parked nor returned")
		k.broken = true
		k.cl[j] = nil
		k.clAt[j] = "idle"
	default:
		k.clAt[j] = at
	}
	k.c.Branch("op:" + op)
	k.emit(fmt.Sprintf("%s %d", op, j))
}

func (k *oCase) cleanersIdle() bool { return k.clAt[0] == "idle" && k.clAt[1] == "idle" }

// drainCleaners lets every parked cleaner run to its end, one phase at a time.
func (k *oCase) drainCleaners() {
	for !k.cleanersIdle() && !k.broken {
		for j := range k.clAt {
			if k.clAt[j] != "idle" {
				k.cleaner(j)
			}
		}
	}
}

func (k *oCase) hold() {
	k.held = k.fam.GetSnapshot()
	k.heldFiles = map[int64]bool{}
	for _, fm := range k.held.GetCurrent().GetAllFiles() {
		k.heldFiles[fm.GetFileNumber().Int64()] = true
	}
	k.c.Branch("op:hold")
}

func (k *oCase) unhold() {
	k.held.Close()
	k.held, k.heldFiles = nil, nil
	k.c.Branch("op:unhold")
	k.emit("dropall")
}

// readAll: a reader that starts now must be able to open every table of every key.
func (k *oCase) readAll() {
	snap := k.fam.GetSnapshot()
	defer snap.Close()
	for key := 0; key < k.keys; key++ {
		rs, err := snap.FindReaders(uint32(key))
		if err != nil {
			k.c.Fail("later-reader-cannot-read", fmt.Sprintf("a reader started after the compaction returned cannot read key %d: %v",
				key, strings.ReplaceAll(err.Error(), k.dir, "")))
			return
		}
		found := false
		for _, r := range rs {
			if v, err := r.Get(uint32(key)); err == nil && len(v) > 0 {
				found = true
			}
		}
		if !found && !k.lossy && len(k.curFiles()) > 0 {
			k.c.Fail("later-reader-missed-key", fmt.Sprintf("key %d is in no table of the current version", key))
			return
		}
	}
}

func (k *oCase) randomPlan(rng *rand.Rand) []byte {
	plan := make([]byte, k.keys)
	for i := range plan {
		plan[i] = "bbbsssWw"[rng.Intn(8)]
	}
	if rng.Intn(5) == 0 {
		plan[rng.Intn(k.keys)] = 'e'
	}
	if rng.Intn(8) == 0 { // an empty last output: the stream writer is asked for after the last roll-over
		plan[k.keys-1] = 'e'
		plan[k.keys-2] = 'b'
		for i := 0; i < k.keys-2; i++ {
			if plan[i] == 'w' || plan[i] == 'W' || plan[i] == 'e' {
				plan[i] = 's'
			}
		}
	}
	if rng.Intn(6) == 0 {
		plan[rng.Intn(k.keys)] = 'f'
	}
	return plan
}

func (k *oCase) run(i int, rng *rand.Rand) {
	k.keys = 3 + rng.Intn(4)
	if err := k.open(); err != nil {
		k.c.Fail("setup", err.Error())
		return
	}
	oCur = k
	k.c.Op(fmt.Sprintf("init %d", kv.VerifC02NextFileNumber(k.store)), k.state())
	rounds := 1 + rng.Intn(3)
	directed := i < 2
	if directed {
		rounds = 2
	}
	for r := 0; r < rounds && !k.broken; r++ {
		k.flush()
		if k.held == nil && (rng.Intn(3) == 0 || directed && r == 0) {
			k.hold()
		}
		k.flush()
		if directed {
			plan := []byte(strings.Repeat("b", k.keys)) // every key closes an output table
			if i == 1 {
				plan = []byte("bs" + strings.Repeat("b", k.keys-2))
			}
			k.startCompaction(plan)
			if r == 0 {
				// plain run; the held reader keeps the inputs, which become garbage when it closes
				for k.comp != nil && !k.broken {
					k.key()
				}
				k.unhold()
				continue
			}
			// first output finished, job parked at the next key: a whole deleteObsoleteFiles phase by phase
			// (it has the first round's inputs to unlink), then one cleaner phase between every two keys
			k.key()
			if k.comp != nil && !k.broken {
				k.cleaner(0)
				k.drainCleaners()
			}
			for k.comp != nil && !k.broken {
				k.cleaner(i) // case 1 uses the second cleaner slot
				k.key()
			}
			k.c.NonTrivial()
			continue
		}
		k.startCompaction(k.randomPlan(rng))
		for k.comp != nil && !k.broken {
			if rng.Intn(2) == 0 {
				k.cleaner(rng.Intn(4) / 3) // mostly cleaner 0, now and then a second one beside it
			} else {
				k.key()
			}
		}
		if k.held != nil && rng.Intn(2) == 0 {
			k.unhold()
		}
		if rng.Intn(2) == 0 {
			for n := rng.Intn(4); n > 0 && !k.broken; n-- {
				k.cleaner(rng.Intn(2))
			}
		}
	}
	// drain
	k.drainCleaners()
	if k.held != nil {
		k.unhold()
	}
	if !k.broken {
		k.cleaner(0)
		k.drainCleaners()
		k.readAll()
	}
}

func (outsArea) Run(c *core.Ctx) error {
	outsInstall()
	for i := 0; i < c.N; i++ {
		if !c.Want(i) {
			continue
		}
		rng := c.Rng(i)
		k := &oCase{c: c}
		c.Begin(i)
		func() {
			defer func() {
				if r := recover(); r != nil {
					c.Fail("panic", fmt.Sprintf("case %d: %v", i, r))
				}
			}()
			k.run(i, rng)
		}()
		// never leave a goroutine parked
		for _, t := range []*oThr{k.comp, k.cl[0], k.cl[1]} {
			for t != nil {
				if at := t.step(); at == "" || at == "stuck" {
					break
				}
			}
		}
		k.close()
		c.Flush()
	}
	return nil
}
