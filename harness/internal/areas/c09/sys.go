// Package c09 drives lindb's real name->id machinery (index.MetricMetaDatabase and one
// index.MetricIndexDatabase per shard, all on temp dirs) and mirrors every operation in the
// C09 line protocol (see lean/LinVerif/Driver/C09.lean).
package c09

import (
	"errors"
	"fmt"
	"syscall"

	lindbkv "github.com/lindb/lindb/kv"
	"io"
	"os"
	"path/filepath"
	"sort"
	"strconv"
	"strings"
	"sync/atomic"

	protoMetricsV1 "github.com/lindb/common/proto/gen/v1/linmetrics"
	"github.com/lindb/roaring"

	"github.com/lindb/lindb/index"
	"github.com/lindb/lindb/models"
	"github.com/lindb/lindb/series/field"
	"github.com/lindb/lindb/series/metric"
	"github.com/lindb/lindb/series/tag"
	"github.com/lindb/lindb/sql/stmt"
)

// sys is one node: a metadata database shared by nShards index databases.
type sys struct {
	root    string // scratch dir of the case
	gen     int    // directory generation (a crash image becomes the next generation)
	dbName  string
	nShards int
	meta    index.MetricMetaDatabase
	shards  []index.MetricIndexDatabase
	conv    *metric.BrokerRowProtoConverter

	// Aliasing discipline (what checks that the code copies every name it keeps): every []byte
	// argument of a get-or-create call is a sub-slice of ONE reused buffer (names always start at the
	// same offsets, as rows decoded zero-copy into the replicator's reused decompress buffer do), and
	// the buffer is overwritten right after the call returns. The model treats names as values.
	// crash image inside a real Flush: taken by the kv commit hook just before the (imgWant+1)-th
	// edit-log commit of the store imgStore
	imgStore string
	imgWant  int
	imgCount int
	imgDir   string

	argBuf  []byte
	rowBuf  []byte
	bufBusy atomic.Bool // a second goroutine (witness schedules) gets a private buffer
}

// callArgs lays the strings out one after the other from offset 0 of the reused buffer and returns
// the sub-slices and the function that scribbles over them (to be called when the call has returned).
func (s *sys) callArgs(parts ...string) ([][]byte, func()) {
	n := 0
	for _, p := range parts {
		n += len(p)
	}
	var buf []byte
	shared := s.bufBusy.CompareAndSwap(false, true)
	if shared {
		if cap(s.argBuf) < n {
			s.argBuf = make([]byte, 0, 2*n+64)
		}
		buf = s.argBuf[:n]
	} else {
		buf = make([]byte, n)
	}
	out := make([][]byte, len(parts))
	off := 0
	for i, p := range parts {
		copy(buf[off:], p)
		out[i] = buf[off : off+len(p) : off+len(p)]
		off += len(p)
	}
	return out, func() {
		for i := range buf {
			buf[i] = '#'
		}
		if shared {
			s.bufBusy.Store(false)
		}
	}
}

func newSys(dbName string, nShards int) (*sys, error) {
	root, err := os.MkdirTemp(scratchBase(), "lvh-c09-*")
	if err != nil {
		return nil, harnessError{err}
	}
	s := &sys{root: root, dbName: dbName, nShards: nShards, conv: metric.NewProtoConverter(models.NewDefaultLimits())}
	current.Store(s)
	if err := s.open(); err != nil {
		os.RemoveAll(root)
		return nil, err
	}
	return s, nil
}

// scratchBase: where the case directories live. A crash in this framework is a PROCESS crash (completed
// file operations survive, see DESIGN section 6), so the durability of the scratch file system is irrelevant:
// a memory file system is used when there is one (fsync on a disk made up 85 % of a run's wall time — 30 s
// instead of 4 s per 262 cases; a violation search after a broken proof runs eight times that). $LVH_SCRATCH
// overrides; "" = os.TempDir().
func scratchBase() string {
	if d := os.Getenv("LVH_SCRATCH"); d != "" {
		return d
	}
	const shm = "/dev/shm"
	var fs syscall.Statfs_t
	if st, err := os.Stat(shm); err == nil && st.IsDir() && syscall.Statfs(shm, &fs) == nil && uint64(fs.Bavail)*uint64(fs.Bsize) >= 2<<30 {
		// (a small /dev/shm, e.g. a container's 64 MB default, would fail a run half-way: require 2 GiB free)
		if f, err := os.CreateTemp(shm, "lvh-c09-probe-*"); err == nil {
			f.Close()
			os.Remove(f.Name())
			return shm
		}
	}
	return ""
}

// harnessError marks a failure of the harness's own scratch-file handling (temp dir, directory copy).
// Only these stop the run; every other failure of a case (an error or a panic out of lindb — it never
// happens on the unchanged tree) is an oracle failure of that case, see area.Run.
type harnessError struct{ error }

func (e harnessError) Unwrap() error { return e.error }

func (s *sys) genDir() string        { return filepath.Join(s.root, "g"+strconv.Itoa(s.gen)) }
func (s *sys) metaDir() string       { return filepath.Join(s.genDir(), "meta") }
func (s *sys) shardDir(k int) string { return filepath.Join(s.genDir(), "shard-"+strconv.Itoa(k)) }

func (s *sys) open() error {
	if err := os.MkdirAll(s.genDir(), 0o755); err != nil {
		return harnessError{err}
	}
	m, err := index.NewMetricMetaDatabase(s.dbName, s.metaDir())
	if err != nil {
		return fmt.Errorf("open meta: %w", err)
	}
	s.meta = m
	s.shards = s.shards[:0]
	for k := 0; k < s.nShards; k++ {
		ix, err := index.NewMetricIndexDatabase(s.shardDir(k), m)
		if err != nil {
			return fmt.Errorf("open shard %d: %w", k, err)
		}
		s.shards = append(s.shards, ix)
	}
	return nil
}

func (s *sys) closeDBs() {
	for _, ix := range s.shards {
		if ix != nil {
			_ = ix.Close()
		}
	}
	if s.meta != nil {
		_ = s.meta.Close()
	}
	s.meta, s.shards = nil, s.shards[:0]
}

// reopen = Close() of every database, then open the same directories.
func (s *sys) reopen() error {
	s.closeDBs()
	return s.open()
}

// crash = the process dies now: the directories are copied as they are (completed file-system
// operations and completed stores into the shared mmap page survive), the live databases are
// abandoned (closed only to release resources, after the copy) and the copy is opened.
func (s *sys) crash() error {
	src := s.genDir()
	s.gen++
	dst := s.genDir()
	if err := copyTree(src, dst); err != nil {
		return harnessError{err}
	}
	s.closeDBs()
	_ = os.RemoveAll(src)
	return s.open()
}

// current is the node whose stores report their kv family commits (one case runs at a time)
var current atomic.Pointer[sys]

// onCommit is the kv commit hook: called immediately BEFORE an edit log reaches the manifest.
func onCommit(storePath, _ string) {
	s := current.Load()
	if s == nil || s.imgStore == "" || filepath.Clean(storePath) != filepath.Clean(s.imgStore) {
		return
	}
	if s.imgCount == s.imgWant && s.imgDir == "" {
		dst := filepath.Join(s.root, "img")
		_ = os.RemoveAll(dst)
		if err := copyTree(s.genDir(), dst); err == nil {
			s.imgDir = dst
		}
	}
	s.imgCount++
}

// indexFlushImage runs the real metricIndexDatabase.Flush of one shard; the process "dies" just before
// the (j+1)-th kv family commit of that flush (or at its end, when it makes fewer commits): the
// directory image taken at that point is reopened.
func (s *sys) indexFlushImage(shard, j int) error {
	s.imgStore, s.imgWant, s.imgCount, s.imgDir = s.shardDir(shard), j, 0, ""
	err := s.shards[shard].Flush()
	s.imgStore = ""
	if err != nil {
		return err
	}
	if s.imgDir == "" {
		return s.crash()
	}
	src := s.genDir()
	s.closeDBs()
	_ = os.RemoveAll(src)
	s.gen++
	if err := os.Rename(s.imgDir, s.genDir()); err != nil {
		return harnessError{err}
	}
	s.imgDir = ""
	return s.open()
}

func (s *sys) destroy() {
	current.CompareAndSwap(s, nil)
	s.closeDBs()
	_ = os.RemoveAll(s.root)
}

func copyTree(src, dst string) error {
	return filepath.Walk(src, func(p string, info os.FileInfo, err error) error {
		if err != nil {
			return err
		}
		rel, _ := filepath.Rel(src, p)
		out := filepath.Join(dst, rel)
		if info.IsDir() {
			return os.MkdirAll(out, 0o755)
		}
		if !info.Mode().IsRegular() {
			return nil
		}
		in, err := os.Open(p)
		if err != nil {
			return err
		}
		defer in.Close()
		o, err := os.Create(out)
		if err != nil {
			return err
		}
		if _, err := io.Copy(o, in); err != nil {
			o.Close()
			return err
		}
		return o.Close()
	})
}

// ---- names. Protocol names are small numbers; the real strings are derived from them.

func nsString(k int) string     { return fmt.Sprintf("%cns%d", 'a'+byte(k%3), k) }
func nsBucket(k int) int        { return int(nsString(k)[0]) }
func metricString(k int) string { return "m" + strconv.Itoa(k) }
func tagKeyString(k int) string { return "k" + strconv.Itoa(k) }
func tagValString(k int) string { return "v" + strconv.Itoa(k) }
func fieldString(k int) string  { return "f" + strconv.Itoa(k) }

type kv struct{ k, v int }

// sortTags orders tags the way the row converter does (by key string) and drops duplicate keys
// (the generator never produces them).
func sortTags(t []kv) []kv {
	out := append([]kv(nil), t...)
	sort.Slice(out, func(i, j int) bool { return tagKeyString(out[i].k) < tagKeyString(out[j].k) })
	return out
}

func tagsCanon(t []kv) string {
	p := make([]string, len(t))
	for i, x := range t {
		p[i] = fmt.Sprintf("%d:%d", x.k, x.v)
	}
	return strings.Join(p, " ")
}

func (s *sys) row(ns, name int, tags []kv) (*metric.StorageRow, error) {
	m := &protoMetricsV1.Metric{Namespace: nsString(ns), Name: metricString(name), Timestamp: 1,
		SimpleFields: []*protoMetricsV1.SimpleField{{Name: "f", Type: protoMetricsV1.SimpleFieldType_DELTA_SUM, Value: 1}}}
	for _, t := range tags {
		m.Tags = append(m.Tags, &protoMetricsV1.KeyValue{Key: tagKeyString(t.k), Value: tagValString(t.v)})
	}
	data, err := s.conv.MarshalProtoMetricV1(m)
	if err != nil {
		return nil, err
	}
	// the row is a flat-buffer view into a reused block (scribbled over by genSeries after the call)
	if cap(s.rowBuf) < len(data) {
		s.rowBuf = make([]byte, 0, 2*len(data)+256)
	}
	cp := s.rowBuf[:len(data)]
	copy(cp, data)
	br := metric.NewStorageBatchRows()
	br.UnmarshalRows(cp) // strips the size prefix, as the storage write path does
	if br.Len() != 1 {
		return nil, fmt.Errorf("row block decoded into %d rows", br.Len())
	}
	return br.Rows()[0], nil
}

// rowOwn builds a row in a block of its own (callers that run concurrently)
func (s *sys) rowOwn(ns, name int, tags []kv) (*metric.StorageRow, error) {
	m := &protoMetricsV1.Metric{Namespace: nsString(ns), Name: metricString(name), Timestamp: 1,
		SimpleFields: []*protoMetricsV1.SimpleField{{Name: "f", Type: protoMetricsV1.SimpleFieldType_DELTA_SUM, Value: 1}}}
	for _, t := range sortTags(tags) {
		m.Tags = append(m.Tags, &protoMetricsV1.KeyValue{Key: tagKeyString(t.k), Value: tagValString(t.v)})
	}
	conv := metric.NewProtoConverter(models.NewDefaultLimits())
	data, err := conv.MarshalProtoMetricV1(m)
	if err != nil {
		return nil, err
	}
	br := metric.NewStorageBatchRows()
	br.UnmarshalRows(append([]byte(nil), data...))
	if br.Len() != 1 {
		return nil, fmt.Errorf("row block decoded into %d rows", br.Len())
	}
	return br.Rows()[0], nil
}

// ---- canonical outputs

const harnessPrefix = "err harness:"

func errKind(err error) string {
	m := err.Error()
	var he harnessError
	switch {
	case errors.As(err, &he):
		return harnessPrefix + strings.ReplaceAll(m, "\n", " ")
	case strings.Contains(m, "too many namespace"):
		return "err too-many-namespaces"
	case strings.Contains(m, "too many metric name"):
		return "err too-many-metrics"
	case strings.Contains(m, "too many series"):
		return "err too-many-series"
	case strings.Contains(m, "too many tag keys"), strings.Contains(m, "too many tag"):
		return "err too-many-tags"
	case strings.Contains(m, "too many fields"):
		return "err too-many-fields"
	case strings.Contains(m, "injected kv flush failure"):
		return "err flush-failed"
	case strings.Contains(m, "not found"):
		return "notfound"
	}
	return "err other:" + strings.ReplaceAll(m, "\n", " ")
}

func idOut(id uint32, err error) string {
	if err != nil {
		return errKind(err)
	}
	return "id " + strconv.FormatUint(uint64(id), 10)
}

func bitmapOut(b *roaring.Bitmap, err error) string {
	if err != nil {
		return errKind(err)
	}
	if b == nil {
		return "set"
	}
	vs := b.ToArray()
	p := make([]string, len(vs))
	for i, v := range vs {
		p[i] = strconv.FormatUint(uint64(v), 10)
	}
	return strings.TrimSpace("set " + strings.Join(p, " "))
}

// ---- the operations (each returns the canonical output line)

func (s *sys) genMetric(ns, name int) (uint32, error) {
	a, done := s.callArgs(nsString(ns), metricString(name))
	id, err := s.meta.GenMetricID(a[0], a[1])
	done()
	return uint32(id), err
}

func (s *sys) getMetric(ns, name int) (uint32, error) {
	id, err := s.meta.GetMetricID(nsString(ns), metricString(name))
	return uint32(id), err
}

func (s *sys) genField(metricID, f int) (uint32, error) {
	id, err := s.meta.GenFieldID(metric.ID(metricID), field.Meta{Name: field.Name(fieldString(f)), Type: field.SumField})
	return uint32(id), err
}

func (s *sys) genTagKey(metricID, k int) (uint32, error) {
	a, done := s.callArgs(tagKeyString(k))
	id, err := s.meta.GenTagKeyID(metric.ID(metricID), a[0])
	done()
	return uint32(id), err
}

func (s *sys) genTagValue(tagKeyID, v int) (uint32, error) {
	a, done := s.callArgs(tagValString(v))
	id, err := s.meta.GenTagValueID(tag.KeyID(tagKeyID), a[0])
	done()
	return id, err
}

func (s *sys) findTagValue(tagKeyID, v int) string {
	b, err := s.meta.FindTagValueDsByExpr(tag.KeyID(tagKeyID), &stmt.EqualsExpr{Key: "x", Value: tagValString(v)})
	if err != nil {
		return errKind(err)
	}
	if b.IsEmpty() {
		return "notfound"
	}
	vs := b.ToArray()
	if len(vs) != 1 {
		return bitmapOut(b, nil)
	}
	return "id " + strconv.FormatUint(uint64(vs[0]), 10)
}

func (s *sys) tagValues(tagKeyID int) string {
	return bitmapOut(s.meta.FindTagValueIDsForTag(tag.KeyID(tagKeyID)))
}

// schemaOut prints the schema of a metric ordered by id: "f 3=0,7=1 t 2=5" (name=id), "nil" when absent.
func (s *sys) schemaOut(metricID int) string {
	sc, err := s.meta.GetSchema(metric.ID(metricID))
	if err != nil {
		return errKind(err)
	}
	if sc == nil {
		return "nil"
	}
	// canonical order = by id: the order of the lists depends on the order in which snapshot.Load
	// visits the files of a level, which is the iteration order of a Go map (kv/version/level.go getFiles)
	fl := append(field.Metas(nil), sc.Fields...)
	sort.SliceStable(fl, func(i, j int) bool { return fl[i].ID < fl[j].ID })
	tl := append(tag.Metas(nil), sc.TagKeys...)
	sort.SliceStable(tl, func(i, j int) bool { return tl[i].ID < tl[j].ID })
	var fs, ts []string
	for _, f := range fl {
		fs = append(fs, strings.TrimPrefix(string(f.Name), "f")+"="+strconv.Itoa(int(f.ID)))
	}
	for _, t := range tl {
		ts = append(ts, strings.TrimPrefix(t.Key, "k")+"="+strconv.Itoa(int(t.ID)))
	}
	return "f " + strings.Join(fs, ",") + " t " + strings.Join(ts, ",")
}

func (s *sys) genSeries(shard, ns, name, metricID int, tags []kv) (uint32, error) {
	r, err := s.row(ns, name, tags)
	if err != nil {
		return 0, err
	}
	id, err := s.shards[shard].GenSeriesID(metric.ID(metricID), r)
	for i := range s.rowBuf[:cap(s.rowBuf)] {
		s.rowBuf[:cap(s.rowBuf)][i] = '#'
	}
	return id, err
}

func (s *sys) metricSeries(shard, metricID int) string {
	return bitmapOut(s.shards[shard].GetSeriesIDsForMetric(metric.ID(metricID)))
}

func (s *sys) tagValueSeries(shard, tagValueID int) string {
	return bitmapOut(s.shards[shard].GetSeriesIDsByTagValueIDs(0, roaring.BitmapOf(uint32(tagValueID))))
}

func (s *sys) tagKeySeries(shard, tagKeyID int) string {
	return bitmapOut(s.shards[shard].GetSeriesIDsForTag(tag.KeyID(tagKeyID)))
}

// metaFlushPrefix runs the first k steps of metricMetaDatabase.Flush (k = 5: all of it).
func (s *sys) metaFlushPrefix(k int) error {
	steps := index.VerifMetaFlushSteps(s.meta)
	for i := 0; i < k && i < len(steps); i++ {
		if err := steps[i](); err != nil {
			return err
		}
	}
	return nil
}

// indexFlushPrefix runs the first k steps of metricIndexDatabase.Flush (k = 4: all of it).
func (s *sys) indexFlushPrefix(shard, k int) error {
	steps := index.VerifIndexFlushSteps(s.shards[shard])
	for i := 0; i < k && i < len(steps); i++ {
		if err := steps[i](); err != nil {
			return err
		}
	}
	return nil
}

// metaFlushFail: metricMetaDatabase.Flush during which the first dictionary flush that writes fails
// at its kv family commit (fault seam index.VerifFailNextKVFlush).
func (s *sys) metaFlushFail() error {
	index.VerifFailNextKVFlush(1)
	err := s.meta.Flush()
	index.VerifFailNextKVFlush(0)
	return err
}

// metaFlushFailSchema: metricMetaDatabase.Flush during which the kv commit of the schema family fails.
func (s *sys) metaFlushFailSchema() error {
	index.VerifFailNextSchemaFlush(1)
	err := s.meta.Flush()
	index.VerifFailNextSchemaFlush(0)
	return err
}

// compactStore runs the level-0 compaction job of every family of one kv store (production runs the
// same job in a background goroutine when a family has enough level-0 files).
func compactStore(storeName string, families ...string) error {
	store, ok := lindbkv.GetStoreManager().GetStoreByName(storeName)
	if !ok {
		return fmt.Errorf("kv store %s not open", storeName)
	}
	for _, fn := range families {
		f := store.GetFamily(fn)
		if f == nil {
			return fmt.Errorf("family %s/%s not found", storeName, fn)
		}
		if err := lindbkv.VerifC10CompactSync(f); err != nil {
			return fmt.Errorf("compact %s/%s: %w", storeName, fn, err)
		}
	}
	return nil
}

func (s *sys) metaCompact() error {
	return compactStore(filepath.Join(s.metaDir(), "kv"), "ns", "metric", "schema", "tv")
}

func (s *sys) indexCompact(shard int) error {
	return compactStore(s.shardDir(shard), "metric", "forward", "inverted", "series")
}

// indexFlushFail: the same for one shard's metricIndexDatabase.Flush (its series dictionary).
func (s *sys) indexFlushFail(shard int) error {
	index.VerifFailNextKVFlush(1)
	err := s.shards[shard].Flush()
	index.VerifFailNextKVFlush(0)
	return err
}

// indexFlushFault: the REAL metricIndexDatabase.Flush of one shard during which step `step` (0 postings,
// 1 forward, 2 inverted, 3 series dictionary) fails at its kv family commit — when that step has something
// to write; otherwise no fault is placed and the flush is an ordinary one. What Flush does after the failed
// step is lindb's own control flow (fault seam index/zz_verif_c09d.go).
func (s *sys) indexFlushFault(shard, step int) error {
	index.VerifFailIndexFlushStep(s.shards[shard], step)
	err := s.shards[shard].Flush()
	index.VerifClearIndexFlushFault()
	return err
}

// indexEvictSeq: the LRU sequence cache of one shard's index database loses the entry of one metric
// (capacity eviction / TTL expiry; seam index/zz_verif_c09e.go). The next createSeriesID of the metric
// takes the miss branch: max(kv family ∪ mutable ∪ immutable postings) + 1.
func (s *sys) indexEvictSeq(shard, metricID int) string {
	if index.VerifEvictSeriesSequence(s.shards[shard], metric.ID(metricID)) {
		return "evicted"
	}
	return "absent"
}

func okOut(err error) string {
	if err != nil {
		return errKind(err)
	}
	return "ok"
}
