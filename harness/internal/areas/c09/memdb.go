package c09

import (
	"fmt"
	"os"
	"path/filepath"
	"sync"
	"sync/atomic"
	"time"

	"github.com/lindb/lindb/index"
	"github.com/lindb/lindb/series/metric"

	"github.com/lindb/lindb/internal/verifhook"
	"github.com/lindb/lindb/models"
	"github.com/lindb/lindb/tsdb/memdb"

	"github.com/lindb/lindb/zzverif/internal/core"
)

// tsdb/memdb: the memory index of a metric (indexDatabase.GetOrCreateTimeSeriesIndex) and the memory
// series id of a tag set in it (TimeSeriesIndex.GenMemTimeSeriesID): what the data families of one
// shard call, concurrently, for the first rows of a new metric. Every caller must get one id.

type memEnv struct {
	r    *runner
	meta memdb.MetadataDatabase
	idb  memdb.IndexDatabase
}

func newMemEnv(c *core.Ctx, db string) (*memEnv, error) {
	r, err := newRunner(c, db, 1, 0)
	if err != nil {
		return nil, err
	}
	meta := memdb.NewMetadataDatabase(&models.DatabaseConfig{Name: db}, r.s.meta)
	return &memEnv{r: r, meta: meta, idb: memdb.NewIndexDatabase(meta, r.s.shards[0])}, nil
}

func (e *memEnv) close() {
	e.idb.Close()
	e.meta.Close()
	e.r.close()
}

// memSeriesID is what memoryDatabase.WriteRow does to find the memory series id of a row.
func (e *memEnv) memSeriesID(ns, name int, tags []kv) (uint32, error) {
	row, err := e.r.s.rowOwn(ns, name, tags)
	if err != nil {
		return 0, err
	}
	tsi := e.idb.GetOrCreateTimeSeriesIndex(row)
	id, _ := tsi.GenMemTimeSeriesID(row.TagsHash(), e.idb.GenMemSeriesID)
	return id, nil
}

// witnessMemdbRace: two callers for the first row of one new metric. A is stopped inside the locked
// section of GetOrCreateTimeSeriesIndex, after its second Load and before its Store (yield
// memdb.indexdb.beforeStoreTimeSeriesIndex); B is started; A is released. With the exclusive lock B
// waits for A and finds A's index; both get one memory series id.
func witnessMemdbRace(c *core.Ctx, db string) error {
	e, err := newMemEnv(c, db)
	if err != nil {
		return err
	}
	defer e.close()
	p := newParker("memdb.indexdb.beforeStoreTimeSeriesIndex")
	defer p.done()
	var a, b uint32
	var ea, eb error
	var wg sync.WaitGroup
	out := e.r.guard("mdbrace", func() string {
		wg.Add(1)
		go func() { defer wg.Done(); a, ea = e.memSeriesID(0, 7, []kv{{0, 1}}) }()
		parked := p.waitParked(5 * time.Second)
		bDone := make(chan struct{})
		wg.Add(1)
		go func() { defer wg.Done(); defer close(bDone); b, eb = e.memSeriesID(0, 7, []kv{{0, 1}}) }()
		select { // B completes (shared lock) or waits for A's lock (exclusive lock)
		case <-bDone:
		case <-time.After(300 * time.Millisecond):
		}
		p.release()
		wg.Wait()
		if !parked {
			c.Fail("witness-not-scheduled", "mdbrace: caller A never reached yield point memdb.indexdb.beforeStoreTimeSeriesIndex")
		}
		if ea != nil || eb != nil {
			return fmt.Sprintf("err %v %v", ea, eb)
		}
		if a == b {
			return "same"
		}
		return "differ"
	})
	if out == "differ" {
		c.Fail("memdb-series-two-ids", fmt.Sprintf("mdbrace: two concurrent first writes of one series of a new metric got memory series ids %d and %d", a, b))
	}
	// later callers agree with both
	if id, err := e.memSeriesID(0, 7, []kv{{0, 1}}); err == nil && (id != a || id != b) {
		c.Fail("memdb-series-later-id-differs", fmt.Sprintf("mdbrace: later caller got %d, the racers %d and %d", id, a, b))
	}
	c.Branch("witness-memdb-race")
	c.NonTrivial()
	return e.r.err
}

// memdbBarrierRegion: G goroutines, released together, ask for the memory series id of the same series of
// M brand-new metrics (no yield points, real scheduler): all callers of one series must agree.
func memdbBarrierRegion(c *core.Ctx, db string) error {
	e, err := newMemEnv(c, db)
	if err != nil {
		return err
	}
	defer e.close()
	verifhook.Set(nil)
	const G, M = 8, 400
	ids := make([][]uint32, G)
	start := make(chan struct{})
	var wg sync.WaitGroup
	for g := 0; g < G; g++ {
		ids[g] = make([]uint32, M)
		wg.Add(1)
		go func(g int) {
			defer wg.Done()
			<-start
			for m := 0; m < M; m++ {
				id, err := e.memSeriesID(1, 1000+m, []kv{{0, m % 3}})
				if err != nil {
					id = ^uint32(0)
				}
				ids[g][m] = id
			}
		}(g)
	}
	close(start)
	wg.Wait()
	bad := 0
	for m := 0; m < M; m++ {
		for g := 1; g < G; g++ {
			if ids[g][m] != ids[0][m] {
				bad++
				if bad == 1 {
					c.Fail("memdb-series-two-ids", fmt.Sprintf("barrier region: metric %d: caller 0 got memory series id %d, caller %d got %d", 1000+m, ids[0][m], g, ids[g][m]))
				}
				break
			}
		}
	}
	c.Note(fmt.Sprintf("memdb barrier region: %d goroutines x %d new metrics, %d metrics with disagreeing ids", G, M, bad))
	c.Branch("region-memdb-barrier")
	c.NonTrivial()
	return nil
}

// memdbWorkerRegion drives the real index worker of a shard (memdb indexDatabase.handle): a stream of rows of
// new series of one metric through Notify, with flush requests (FlushEvent) in the middle of the stream, rows
// queued right behind each request. When a flush reports success the directory is copied (the process dies
// there). Every image is opened: a brand-new series and all the old tag sets are asked for; no two tag sets of
// the metric may share a series id (a new series must not get an id the recovered dictionary uses).
//
// Scheduling: while a flush request is pending (sent, callback not yet run) the handler goroutine is held at
// the yield point index.inverted.put.enter, i.e. inside GenSeriesID between the series-dictionary insert and
// the metric→series-ids insert, until the flush has completed. In lindb PrepareFlush runs in the handler
// goroutine itself, between two rows, so this only delays the next row.
func memdbWorkerRegion(c *core.Ctx, db string) error {
	e, err := newMemEnv(c, db)
	if err != nil {
		return err
	}
	closed := false
	var rows []*metric.StorageRow
	next := 0
	defer func() {
		verifhook.Set(nil)
		drained := make(chan struct{})
		go func() { // the handler goroutine must be idle before the stores are closed
			for i := 0; i < next; i++ {
				rows[i].Wait()
			}
			close(drained)
		}()
		select {
		case <-drained:
		case <-time.After(5 * time.Second):
		}
		if !closed {
			e.close()
		} else {
			e.r.close()
		}
	}()
	s := e.r.s
	const ns, name = 0, 42
	mid, err := s.genMetric(ns, name)
	if err != nil {
		return err
	}
	s.meta.PrepareFlush()
	if err := s.meta.Flush(); err != nil {
		return err
	}
	const events, before, behind = 10, 12, 4
	total := events * (before + behind)
	rows = make([]*metric.StorageRow, total)
	for i := range rows {
		row, err := s.rowOwn(ns, name, []kv{{0, 5000 + i}})
		if err != nil {
			return err
		}
		row.Done() // UnmarshalRows registered two consumers (metadata + index worker); only the index worker is fed
		row.Done()
		row.MemSeriesID = uint32(i + 1)
		rows[i] = row
	}
	e.idb.GetOrCreateTimeSeriesIndex(rows[0]) // as memoryDatabase.WriteRow does before it notifies a row

	// Every row is a new series with one tag: GenSeriesID calls invertedIndex.put twice per row, first for
	// metric→series (the call between the two inserts), then for tag value→series. The handler takes rows in
	// channel order, so call number 2i belongs to row i; a row sent behind a flush request is handled after the
	// handler has taken the request.
	var pending, held, calls, behindStart atomic.Int32
	verifhook.Set(func(id string) {
		if id != "index.inverted.put.enter" {
			return
		}
		n := calls.Add(1) - 1
		cur := pending.Load() // number of the pending flush request, 0 = none
		if cur == 0 || n%2 != 0 || n/2 < behindStart.Load() {
			return
		}
		held.Add(1)
		for dl := time.Now().Add(2 * time.Second); pending.Load() == cur && time.Now().Before(dl); {
			time.Sleep(50 * time.Microsecond)
		}
	})
	send := func(i int) {
		rows[i].Add(1)
		e.idb.Notify(rows[i])
	}
	type image struct {
		dir  string
		sent int
	}
	var images []image
	var flushErr error
	t0 := time.Now()
	for ev := 0; ev < events && flushErr == nil; ev++ {
		for k := 0; k < before; k++ {
			send(next)
			next++
		}
		if ev%2 == 1 { // every other request finds the handler idle, the others find it busy with rows
			for i := 0; i < next; i++ {
				rows[i].Wait()
			}
		}
		done := make(chan struct{})
		img := filepath.Join(s.root, fmt.Sprintf("wimg-%d", ev))
		behindStart.Store(int32(next))
		pending.Store(int32(ev + 1))
		e.idb.Notify(&memdb.FlushEvent{Callback: func(err error) {
			if err != nil {
				flushErr = err
			} else if err := copyTree(s.genDir(), img); err != nil {
				flushErr = err
			}
			pending.Store(0)
			close(done)
		}})
		for k := 0; k < behind; k++ {
			send(next)
			next++
		}
		select {
		case <-done:
		case <-time.After(10 * time.Second):
			pending.Store(0)
			return fmt.Errorf("memdb worker region: flush callback never ran")
		}
		images = append(images, image{img, next})
	}
	for i := 0; i < next; i++ {
		rows[i].Wait()
	}
	verifhook.Set(nil)
	if flushErr != nil {
		return fmt.Errorf("memdb worker region: flush: %w", flushErr)
	}
	tStream := time.Since(t0)
	// in the running process: every tag set answers with one id, all different
	live := map[uint32]int{}
	for i := 0; i < next; i++ {
		id, err := s.genSeries(0, ns, name, int(mid), []kv{{0, 5000 + i}})
		if err != nil {
			return err
		}
		if j, dup := live[id]; dup {
			c.Fail("memdb-worker-series-id-shared", fmt.Sprintf("worker region: running process: series {k0=v%d} and {k0=v%d} of one metric share series id %d", 5000+j, 5000+i, id))
			break
		}
		live[id] = i
	}
	e.idb.Close()
	e.meta.Close()
	s.closeDBs()
	closed = true
	bad := 0
	for n, im := range images {
		msg, err := checkWorkerImage(s.dbName, im.dir, int(mid), ns, name, next, s)
		if err != nil {
			return fmt.Errorf("memdb worker region: image %d: %w", n, err)
		}
		if msg != "" {
			bad++
			if bad == 1 {
				c.Fail("memdb-worker-series-id-reused", fmt.Sprintf("worker region: crash right after flush request %d of %d (%d rows notified before it completed) reported success, reopen: %s", n+1, events, im.sent, msg))
			}
		}
		_ = os.RemoveAll(im.dir)
	}
	c.Note(fmt.Sprintf("memdb worker region: %d rows, %d flush requests, handler held %d times inside GenSeriesID, %d bad images (stream %dms, total %dms)", next, events, held.Load(), bad, tStream.Milliseconds(), time.Since(t0).Milliseconds()))
	if held.Load() == 0 {
		c.Fail("witness-not-scheduled", "memdb worker region: the handler never reached index.inverted.put.enter while a flush was pending")
	}
	c.Branch("region-memdb-worker")
	c.NonTrivial()
	return nil
}

// checkWorkerImage opens a crash image and creates a brand-new series, then asks for all old tag sets: the ones
// the flush persisted answer with their old id, the others are created again. Two tag sets with one id = "".
func checkWorkerImage(dbName, dir string, mid, ns, name, n int, s *sys) (string, error) {
	meta, err := index.NewMetricMetaDatabase(dbName, filepath.Join(dir, "meta"))
	if err != nil {
		return "", err
	}
	defer meta.Close()
	ix, err := index.NewMetricIndexDatabase(filepath.Join(dir, "shard-0"), meta)
	if err != nil {
		return "", err
	}
	defer ix.Close()
	gen := func(v int) (uint32, error) {
		row, err := s.rowOwn(ns, name, []kv{{0, v}})
		if err != nil {
			return 0, err
		}
		return ix.GenSeriesID(metric.ID(mid), row)
	}
	persisted, err := ix.GetSeriesIDsForMetric(metric.ID(mid))
	if err != nil {
		return "", err
	}
	newID, err := gen(999999)
	if err != nil {
		return "", err
	}
	seen := map[uint32]int{newID: 999999}
	for i := 0; i < n; i++ {
		id, err := gen(5000 + i)
		if err != nil {
			return "", err
		}
		if j, dup := seen[id]; dup {
			return fmt.Sprintf("series {k0=v%d} and {k0=v%d} of metric %d share series id %d (the first one asked for after recovery was the NEW series {k0=v999999}, it got id %d; the recovered metric=>series-ids index held %d ids)",
				j, 5000+i, mid, id, newID, persisted.GetCardinality()), nil
		}
		seen[id] = 5000 + i
	}
	return "", nil
}
