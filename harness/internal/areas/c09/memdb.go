package c09

import (
	"fmt"
	"sync"
	"time"

	"github.com/lindb/lindb/internal/verifhook"
	"github.com/lindb/lindb/models"
	"github.com/lindb/lindb/tsdb/memdb"

	"github.com/lindb/lindb/zzverif/internal/core"
)

// tsdb/memdb: the memory index of a metric (indexDatabase.GetOrCreateTimeSeriesIndex) and the memory
// series id of a tag set in it (TimeSeriesIndex.GenMemTimeSeriesID): what the data families of one
// shard call, concurrently, for the first rows of a new metric. Every caller must get one id.

type memEnv struct {
	r    *runner
	meta memdb.MetadataDatabase
	idb  memdb.IndexDatabase
}

func newMemEnv(c *core.Ctx, db string) (*memEnv, error) {
	r, err := newRunner(c, db, 1, 0)
	if err != nil {
		return nil, err
	}
	meta := memdb.NewMetadataDatabase(&models.DatabaseConfig{Name: db}, r.s.meta)
	return &memEnv{r: r, meta: meta, idb: memdb.NewIndexDatabase(meta, r.s.shards[0])}, nil
}

func (e *memEnv) close() {
	e.idb.Close()
	e.meta.Close()
	e.r.close()
}

// memSeriesID is what memoryDatabase.WriteRow does to find the memory series id of a row.
func (e *memEnv) memSeriesID(ns, name int, tags []kv) (uint32, error) {
	row, err := e.r.s.rowOwn(ns, name, tags)
	if err != nil {
		return 0, err
	}
	tsi := e.idb.GetOrCreateTimeSeriesIndex(row)
	id, _ := tsi.GenMemTimeSeriesID(row.TagsHash(), e.idb.GenMemSeriesID)
	return id, nil
}

// witnessMemdbRace: two callers for the first row of one new metric. A is stopped inside the locked
// section of GetOrCreateTimeSeriesIndex, after its second Load and before its Store (yield
// memdb.indexdb.beforeStoreTimeSeriesIndex); B is started; A is released. With the exclusive lock B
// waits for A and finds A's index; both get one memory series id.
func witnessMemdbRace(c *core.Ctx, db string) error {
	e, err := newMemEnv(c, db)
	if err != nil {
		return err
	}
	defer e.close()
	p := newParker("memdb.indexdb.beforeStoreTimeSeriesIndex")
	defer p.done()
	var a, b uint32
	var ea, eb error
	var wg sync.WaitGroup
	out := e.r.guard("mdbrace", func() string {
		wg.Add(1)
		go func() { defer wg.Done(); a, ea = e.memSeriesID(0, 7, []kv{{0, 1}}) }()
		parked := p.waitParked(5 * time.Second)
		bDone := make(chan struct{})
		wg.Add(1)
		go func() { defer wg.Done(); defer close(bDone); b, eb = e.memSeriesID(0, 7, []kv{{0, 1}}) }()
		select { // B completes (shared lock) or waits for A's lock (exclusive lock)
		case <-bDone:
		case <-time.After(300 * time.Millisecond):
		}
		p.release()
		wg.Wait()
		if !parked {
			c.Fail("witness-not-scheduled", "mdbrace: caller A never reached yield point memdb.indexdb.beforeStoreTimeSeriesIndex")
		}
		if ea != nil || eb != nil {
			return fmt.Sprintf("err %v %v", ea, eb)
		}
		if a == b {
			return "same"
		}
		return "differ"
	})
	if out == "differ" {
		c.Fail("memdb-series-two-ids", fmt.Sprintf("mdbrace: two concurrent first writes of one series of a new metric got memory series ids %d and %d", a, b))
	}
	// later callers agree with both
	if id, err := e.memSeriesID(0, 7, []kv{{0, 1}}); err == nil && (id != a || id != b) {
		c.Fail("memdb-series-later-id-differs", fmt.Sprintf("mdbrace: later caller got %d, the racers %d and %d", id, a, b))
	}
	c.Branch("witness-memdb-race")
	c.NonTrivial()
	return e.r.err
}

// memdbBarrierRegion: G goroutines, released together, ask for the memory series id of the same series of
// M brand-new metrics (no yield points, real scheduler): all callers of one series must agree.
func memdbBarrierRegion(c *core.Ctx, db string) error {
	e, err := newMemEnv(c, db)
	if err != nil {
		return err
	}
	defer e.close()
	verifhook.Set(nil)
	const G, M = 8, 400
	ids := make([][]uint32, G)
	start := make(chan struct{})
	var wg sync.WaitGroup
	for g := 0; g < G; g++ {
		ids[g] = make([]uint32, M)
		wg.Add(1)
		go func(g int) {
			defer wg.Done()
			<-start
			for m := 0; m < M; m++ {
				id, err := e.memSeriesID(1, 1000+m, []kv{{0, m % 3}})
				if err != nil {
					id = ^uint32(0)
				}
				ids[g][m] = id
			}
		}(g)
	}
	close(start)
	wg.Wait()
	bad := 0
	for m := 0; m < M; m++ {
		for g := 1; g < G; g++ {
			if ids[g][m] != ids[0][m] {
				bad++
				if bad == 1 {
					c.Fail("memdb-series-two-ids", fmt.Sprintf("barrier region: metric %d: caller 0 got memory series id %d, caller %d got %d", 1000+m, ids[0][m], g, ids[g][m]))
				}
				break
			}
		}
	}
	c.Note(fmt.Sprintf("memdb barrier region: %d goroutines x %d new metrics, %d metrics with disagreeing ids", G, M, bad))
	c.Branch("region-memdb-barrier")
	c.NonTrivial()
	return nil
}
