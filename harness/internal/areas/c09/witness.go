package c09

import (
	"fmt"
	"runtime/debug"
	"strconv"
	"sync"
	"sync/atomic"
	"time"

	"github.com/lindb/lindb/internal/verifhook"

	"github.com/lindb/lindb/zzverif/internal/core"
)

// parker is the deterministic two-thread scheduler used by the witness cases: the first goroutine
// that reaches the armed yield point is parked until release(); every other arrival passes.
type parker struct {
	armedID string
	armed   atomic.Bool
	parked  chan struct{}
	gate    chan struct{}
}

func newParker(id string) *parker {
	p := &parker{armedID: id, parked: make(chan struct{}), gate: make(chan struct{})}
	p.armed.Store(true)
	verifhook.Set(func(at string) {
		if at == p.armedID && p.armed.CompareAndSwap(true, false) {
			close(p.parked)
			<-p.gate
		}
	})
	return p
}

func (p *parker) waitParked(d time.Duration) bool {
	select {
	case <-p.parked:
		return true
	case <-time.After(d):
		return false
	}
}

func (p *parker) release() { close(p.gate) }
func (p *parker) done()    { verifhook.Set(nil) }

// raceTwo runs callA in a goroutine until it parks at yield point `at`, then callB to completion,
// then releases A. Returns both outputs; parkedOK=false when A never reached the yield point
// (then A simply ran to completion first and the schedule is the sequential one).
func raceTwo(at string, callA, callB func() string) (a, b string, parkedOK bool) {
	p := newParker(at)
	defer p.done()
	var wg sync.WaitGroup
	wg.Add(1)
	go func() {
		defer wg.Done()
		defer func() {
			if e := recover(); e != nil {
				a = fmt.Sprintf("panic %v", e)
			}
		}()
		a = callA()
	}()
	// A either parks at the yield point or completes without reaching it
	finished := make(chan struct{})
	go func() { wg.Wait(); close(finished) }()
	select {
	case <-p.parked:
		parkedOK = true
	case <-finished:
	case <-time.After(5 * time.Second):
	}
	func() {
		defer func() {
			if e := recover(); e != nil {
				b = fmt.Sprintf("panic %v", e)
			}
		}()
		b = callB()
	}()
	p.release()
	wg.Wait()
	return
}

// witnessKVRace: two callers ask for the id of one new metric name. A is stopped between the
// persisted lookup and createValue (yield point index.kvstore.beforeCreate), B runs to completion,
// A continues. C09: both must get the same id.
//
//	model schedule: A.mem A.disk B.mem B.disk B.create A.create
func witnessKVRace(c *core.Ctx, db string) error {
	r, err := newRunner(c, db, 1, 0)
	if err != nil {
		return err
	}
	defer r.close()
	r.metric(0, 0) // namespace and a first metric exist: only the metric store creates below
	const ns, name = 0, 1
	op := fmt.Sprintf("krace %d %d %d", nsBucket(ns), ns, name)
	var a, b string
	var parked bool
	out := r.guard(op, func() string {
		a, b, parked = raceTwo("index.kvstore.beforeCreate",
			func() string { return idOut(r.s.genMetric(ns, name)) },
			func() string { return idOut(r.s.genMetric(ns, name)) })
		return "A=" + a + " B=" + b
	})
	_ = out
	if !parked {
		c.Fail("witness-not-scheduled", "krace: caller A never reached yield point index.kvstore.beforeCreate")
	}
	ida, oka := parseID(a)
	idb, okb := parseID(b)
	if oka && okb && ida != idb {
		c.Fail("kvstore-create-race-two-ids", fmt.Sprintf("%s: two concurrent GenMetricID calls for one new name returned ids %d and %d", op, ida, idb))
	}
	c.Branch("witness-kv-race")
	c.NonTrivial()
	// what later callers see (sequential, modelled)
	if id, ok := r.metric(ns, name); ok && oka && okb {
		if id != ida && id != idb {
			c.Fail("kvstore-create-race-third-id", fmt.Sprintf("%s: later caller got id %d, the racers %d and %d", op, id, ida, idb))
		}
		if ida != idb {
			c.Branch("witness-kv-race-loser-orphaned")
		}
	}
	// a third name must not collide with either
	r.metric(ns, 2)
	return r.err
}

// witnessSchemaRace: two callers create a tag key (or a field) on a metric that has no schema yet.
// A is stopped after GetSchema (nil) and before the store lock; B runs to completion; A continues.
//
//	tagkey: A and B ask for the SAME key      -> must get the same id (stable)
//	field:  A and B ask for DIFFERENT fields  -> must get different ids (injective), and a later
//	        call for B's... for A's field must return what A was told (stable)
func witnessSchemaRace(c *core.Ctx, db, kind string) error {
	r, err := newRunner(c, db, 1, 0)
	if err != nil {
		return err
	}
	defer r.close()
	mid, ok := r.metric(0, 0)
	if !ok {
		return r.err
	}
	m := int(mid)
	nameA, nameB := 1, 1
	at := "index.schema.genTagKeyID.beforeLock"
	gen := func(n int) string { return idOut(r.s.genTagKey(m, n)) }
	if kind == "field" {
		nameB = 2
		at = "index.schema.genFieldID.beforeLock"
		gen = func(n int) string { return idOut(r.s.genField(m, n)) }
	}
	op := fmt.Sprintf("srace %s %d %d %d", kind, m, nameA, nameB)
	var a, b string
	var parked bool
	r.guard(op, func() string {
		a, b, parked = raceTwo(at, func() string { return gen(nameA) }, func() string { return gen(nameB) })
		return "A=" + a + " B=" + b
	})
	if !parked {
		c.Fail("witness-not-scheduled", "srace: caller A never reached yield point "+at)
	}
	ida, oka := parseID(a)
	idb, okb := parseID(b)
	if oka && okb {
		if kind == "tagkey" && ida != idb {
			c.Fail("schema-create-race-tagkey-two-ids", fmt.Sprintf("%s: two concurrent GenTagKeyID calls for one new key on a metric without schema returned ids %d and %d", op, ida, idb))
		}
		if kind == "field" && ida == idb {
			c.Fail("schema-create-race-field-shared-id", fmt.Sprintf("%s: two concurrent GenFieldID calls for two different new fields on a metric without schema both returned id %d", op, ida))
		}
	}
	c.Branch("witness-schema-race-" + kind)
	c.NonTrivial()
	// later callers (sequential, modelled): which of the two answers survived?
	if kind == "tagkey" {
		if id, ok := r.tagKey(m, nameA); ok && oka && id != ida {
			c.Branch("witness-schema-race-loser-orphaned")
		}
	} else {
		r.o.live = map[nameKey]uint32{} // the stable/injective verdict of the race itself was given above
		r.o.owner = map[string]map[uint32]string{}
		r.field(m, nameB)
		r.field(m, nameA)
	}
	r.schema(m)
	return r.err
}

// witnessUnsyncedCounter: the sequence counters reach the sequence file only in Sequence.Sync(),
// i.e. at the start of a metadata flush. Index entries that use an id handed out after the last
// Sync can be flushed by a shard's index flush; after a crash the counter is back at its synced
// value and the id is handed out again, for another name.
//
//	metric, tagkey, tagvalue v0 ; metadata flush (Sync) ; series with tag value v1 (new id) ;
//	index flush ; crash ; tag value v2 is created -> gets v1's id, which the recovered
//	tag-value->series index entry still uses for v1.
func witnessUnsyncedCounter(c *core.Ctx, db string) error {
	r, err := newRunner(c, db, 1, 0)
	if err != nil {
		return err
	}
	defer r.close()
	mid, _ := r.metric(0, 0)
	m := int(mid)
	tk, _ := r.tagKey(m, 0)
	r.tagValue(int(tk), 0)
	r.mprepare()
	r.mflush()
	sid, _ := r.series(0, 0, 0, m, []kv{{0, 1}}) // tag k0=v1: v1 gets a tag value id above the synced counter
	tv1, _ := r.tagValue(int(tk), 1)
	r.iprepare(0)
	r.iflush(0)
	r.crash()
	// v1 is gone from the dictionary (never flushed), but the index entry tv1 -> series survived
	tv2, ok := r.tagValue(int(tk), 2)
	post := r.tvseries(0, int(tv2))
	if ok && tv2 == tv1 && setHas(post, sid) {
		c.Branch("witness-unsynced-counter-reused")
	}
	c.Branch("witness-unsynced-counter")
	c.NonTrivial()
	return r.err
}

// witnessSeriesLimit: with max-series-per-metric = 2, the series whose id would exceed the limit is
// refused with ErrTooManySeries — after its (tags hash -> id) entry was stored and without advancing
// the per-metric sequence. The next refused series gets the same id, and on the next call each of
// them is returned that id without an error.
func witnessSeriesLimit(c *core.Ctx, db string) error {
	r, err := newRunner(c, db, 1, 2)
	if err != nil {
		return err
	}
	defer r.close()
	r.o.tag = "series-limit-refused-"
	mid, _ := r.metric(0, 0)
	m := int(mid)
	for v := 0; v < 3; v++ { // ids 0,1,2 are within the limit (limit < id is the test)
		r.series(0, 0, 0, m, []kv{{0, v}})
	}
	r.series(0, 0, 0, m, []kv{{0, 3}}) // refused
	r.series(0, 0, 0, m, []kv{{0, 4}}) // refused
	a, oka := r.series(0, 0, 0, m, []kv{{0, 3}})
	b, okb := r.series(0, 0, 0, m, []kv{{0, 4}})
	if oka && okb && a == b {
		c.Branch("witness-series-limit-shared-id")
	}
	r.mseries(0, m)
	c.Branch("witness-series-limit")
	c.NonTrivial()
	return r.err
}

// witnessSchemaFlushWindow: metricSchemaStore.Flush writes the not yet persisted items of every
// schema of the immutable map, commits the kv family, and then (under the lock) marks ALL items of
// those schema objects persisted. The objects are shared with the mutable map, so a field appended
// between the write and the mark is marked persisted without having been written. When the object
// has left memory (next flush) the schema is read from the kv family: the field is gone, and
// len(Fields) hands its id out again.
//
//	field f1 = 0 ; PrepareFlush ; Flush parked before the mark ; field f2 = 1 ; Flush continues ;
//	PrepareFlush + Flush (object leaves memory) ; field f3 -> 1, the id f2 was given in this run.
func witnessSchemaFlushWindow(c *core.Ctx, db string) error {
	r, err := newRunner(c, db, 1, 0)
	if err != nil {
		return err
	}
	defer r.close()
	r.o.tag = "schema-flush-window-"
	mid, _ := r.metric(0, 0)
	m := int(mid)
	r.field(m, 1)
	r.mprepare()
	op := fmt.Sprintf("swindow field %d %d", m, 2)
	var b string
	var parked bool
	r.guard(op, func() string {
		_, b, parked = raceTwo("index.schema.flush.beforeMark",
			func() string { return okOut(r.s.meta.Flush()) },
			func() string { return idOut(r.s.genField(m, 2)) })
		return b
	})
	if !parked {
		c.Fail("witness-not-scheduled", "swindow: Flush never reached yield point index.schema.flush.beforeMark")
	}
	r.o.syncDone()
	if id, ok := parseID(b); ok {
		r.o.observe(nameKey{"field", strconv.Itoa(m), "2"}, id, op)
	}
	r.mprepare()
	r.mflush()
	r.field(m, 3)
	r.schema(m)
	c.Branch("witness-schema-flush-window")
	c.NonTrivial()
	return r.err
}

// witnessLookupVsFlush: a get-or-create for names that exist (the namespace and the metric name sit in
// the immutable maps after PrepareFlush) runs against a whole metadata flush. The caller is stopped
// right after it has taken the store's snapshot (yield index.kvstore.afterSnapshot), the flush runs
// (kv commit, new snapshot, immutable = nil), the caller continues. lindb looks into the memory maps
// first and never gets to the snapshot for a name that is in memory: it answers the old id (and the
// flush runs afterwards). With the persisted bucket first the caller would miss twice and create a
// second id.
func witnessLookupVsFlush(c *core.Ctx, db string) error {
	r, err := newRunner(c, db, 1, 0)
	if err != nil {
		return err
	}
	defer r.close()
	r.o.tag = "lookup-vs-flush-"
	const ns, name = 0, 0
	r.metric(ns, name)
	r.mprepare()
	op := fmt.Sprintf("lflush %d %d %d", nsBucket(ns), ns, name)
	var a string
	var parked bool
	r.guard(op, func() string {
		a, _, parked = raceTwo("index.kvstore.afterSnapshot",
			func() string { return idOut(r.s.genMetric(ns, name)) },
			func() string { return okOut(r.s.meta.Flush()) })
		return a
	})
	r.o.syncDone()
	if parked {
		c.Branch("witness-lookup-vs-flush-parked")
	}
	if id, ok := parseID(a); ok {
		r.o.observe(nameKey{"metric", strconv.Itoa(ns), strconv.Itoa(name)}, id, op)
	}
	r.metric(ns, name)
	r.metric(ns, 1)
	c.Branch("witness-lookup-vs-flush")
	c.NonTrivial()
	return r.err
}

// witnessFailedFlush: names are frozen by PrepareFlush, a new name is created in the same bucket, the
// flush FAILS at its kv family commit. The failed flush must leave every dictionary as it was: the
// first names keep their ids — in this process and after a later successful flush and reopen.
func witnessFailedFlush(c *core.Ctx, db string) error {
	r, err := newRunner(c, db, 1, 0)
	if err != nil {
		return err
	}
	defer r.close()
	r.o.tag = "flush-failed-"
	r.metric(0, 0)
	r.metric(0, 1)
	mid, _ := r.metric(0, 2)
	tk, _ := r.tagKey(int(mid), 0)
	r.tagValue(int(tk), 0)
	r.mprepare()
	r.metric(0, 3) // same bucket (namespace id) as the frozen names
	r.tagValue(int(tk), 1)
	r.mflushfail()
	r.metric(0, 0)
	r.metric(0, 1)
	r.tagValue(int(tk), 0)
	r.mflushfail()
	r.metric(0, 2)
	r.mprepare()
	r.mflush()
	r.reopen()
	r.metric(0, 0)
	r.metric(0, 3)
	r.tagValue(int(tk), 0)
	c.Branch("witness-failed-flush")
	c.NonTrivial()
	return r.err
}

// witnessSchemaCacheRace: reader ‖ writer ‖ flush on a schema that is persisted and not in memory.
// A reader's GetSchema has read the kv family and is stopped before cache.Add (yield
// index.schema.getSchema.beforeCacheAdd); a writer creates field f2; PrepareFlush + Flush (commit,
// purge of the LRU cache); the reader continues and caches its — now stale — schema; a writer creates
// field f3. The create path must not trust the cache: f3 must not get f2's id.
func witnessSchemaCacheRace(c *core.Ctx, db string) error {
	r, err := newRunner(c, db, 1, 0)
	if err != nil {
		return err
	}
	defer r.close()
	r.o.tag = "schema-cache-"
	mid, _ := r.metric(0, 0)
	m := int(mid)
	r.field(m, 1)
	r.mprepare()
	r.mflush() // schema {f1=0} is persisted and has left memory
	op := fmt.Sprintf("scrace %d %d %d", m, 2, 3)
	var b, cc string
	var parked bool
	r.guard(op, func() string {
		_, b, parked = raceTwo("index.schema.getSchema.beforeCacheAdd",
			func() string { return r.s.schemaOut(m) },
			func() string {
				out := idOut(r.s.genField(m, 2))
				r.s.meta.PrepareFlush()
				if err := r.s.meta.Flush(); err != nil {
					return errKind(err)
				}
				return out
			})
		cc = idOut(r.s.genField(m, 3))
		return "B=" + b + " C=" + cc
	})
	if !parked {
		c.Fail("witness-not-scheduled", "scrace: GetSchema never reached yield point index.schema.getSchema.beforeCacheAdd")
	}
	r.o.syncDone()
	if id, ok := parseID(b); ok {
		r.o.observe(nameKey{"field", strconv.Itoa(m), "2"}, id, op)
	}
	if id, ok := parseID(cc); ok {
		r.o.observe(nameKey{"field", strconv.Itoa(m), "3"}, id, op)
	}
	r.field(m, 2)
	r.schema(m)
	c.Branch("witness-schema-cache-race")
	c.NonTrivial()
	return r.err
}

// witnessIndexCommitCrash: series with tags are created, PrepareFlush, the REAL index Flush runs and the
// process dies just before its (j+1)-th kv family commit (j = 0..3: a crash between every pair of family
// commits). After recovery a new tag set and every old tag set are asked for: a new tag set must not get
// a series id that the recovered series dictionary uses for another tag set.
func witnessIndexCommitCrash(c *core.Ctx, db string, j int) error {
	r, err := newRunner(c, db, 1, 0)
	if err != nil {
		return err
	}
	defer r.close()
	r.o.tag = "index-commit-crash-"
	mid, _ := r.metric(0, 0)
	m := int(mid)
	r.mprepare()
	r.mflush()
	for v := 0; v < 3; v++ {
		r.series(0, 0, 0, m, []kv{{0, v}})
	}
	r.iprepare(0)
	r.iflushimg(0, j)
	r.series(0, 0, 0, m, []kv{{0, 7}}) // a new tag set
	for v := 0; v < 3; v++ {
		r.series(0, 0, 0, m, []kv{{0, v}})
	}
	r.mseries(0, m)
	c.Branch("witness-index-commit-crash")
	c.NonTrivial()
	return r.err
}

// witnessIndexFlushFault: fault placement per flush step of the real metricIndexDatabase.Flush.
// Round 1: two series (with tags, so that all four steps write) are created and flushed. Round 2: two more,
// PrepareFlush, Flush with a fault on step `step`; the process dies; a new tag set, the four old ones, another
// new one. Round 3 (on the recovered node): two more series, PrepareFlush, a faulted Flush, then the retry round
// (PrepareFlush + Flush) succeeds, crash, and everything is asked for again. lindb returns from Flush at the
// failed step, so the series dictionary of a round is never committed without that round's postings; a Flush
// that carries on after a failed postings step commits dictionary entries whose ids the recovered postings —
// the seed of new series ids — do not contain.
func witnessIndexFlushFault(c *core.Ctx, db string, step int) error {
	r, err := newRunner(c, db, 1, 0)
	if err != nil {
		return err
	}
	defer r.close()
	r.o.tag = "index-flush-fault-"
	mid, _ := r.metric(0, 0)
	m := int(mid)
	r.mprepare()
	r.mflush()
	ask := func(vs ...int) {
		for _, v := range vs {
			r.series(0, 0, 0, m, []kv{{0, v}})
		}
	}
	ask(0, 1)
	r.iprepare(0)
	r.iflush(0)
	ask(2, 3)
	r.iprepare(0)
	r.iflushfault(0, step)
	r.crash()
	ask(4, 0, 1, 2, 3, 5)
	r.mseries(0, m)
	if r.err != nil {
		return r.err
	}
	ask(6, 7)
	r.iprepare(0)
	r.iflushfault(0, (step+1)%4)
	ask(8)
	r.iprepare(0) // the faulted step's table is still frozen: only the flushed ones swap
	r.iflush(0)
	r.crash()
	ask(9, 0, 1, 2, 3, 4, 5, 6, 7, 8, 10)
	r.mseries(0, m)
	c.Branch("witness-index-flush-fault")
	c.NonTrivial()
	return r.err
}

// witnessBucketRelease: one tag value `v` under five tag keys (five buckets of the tag-value dictionary), flushed.
// Reader: GenTagValueID(tk0, v) misses in memory, takes the bucket of tk0 (loads and caches it) and is parked at
// yield point index.kvstore.beforeBucketGet, before bucket.GetValue. Meanwhile: a new value in tk0's bucket,
// PrepareFlush + Flush (the flush purges the bucket cache; an eviction callback that calls TrieBucket.Release puts
// the reader's tries into the pool), then GenTagValueID(tk1..tk4, v) load the other buckets (they take tries out of
// the pool). The reader continues. C09: it must be answered the id every other caller of (tk0, v) is answered.
// The op line carries which bucket's id the reader answered (the model explains the answer by the content of THAT
// bucket; without a release the model insists on the own id); the oracle key is bucket-released-under-reader.
func witnessBucketRelease(c *core.Ctx, db string) error {
	r, err := newRunner(c, db, 1, 0)
	if err != nil {
		return err
	}
	defer r.close()
	r.o.tag = "bucket-release-"
	const v, fresh, nKeys = 7, 9, 5
	mid, _ := r.metric(0, 0)
	var tks [nKeys]int
	ids := map[uint32]int{}
	for k := 0; k < nKeys; k++ {
		tk, _ := r.tagKey(int(mid), k)
		tks[k] = int(tk)
	}
	for k := 0; k < nKeys; k++ {
		id, _ := r.tagValue(tks[k], v)
		ids[id] = tks[k]
	}
	r.mprepare()
	r.mflush()
	if r.err != nil {
		return r.err
	}
	own, _ := parseID(r.findTV(tks[0], v))
	// no garbage collection inside the window: a collection may empty the pool (then nothing is recycled and the
	// schedule shows nothing)
	gc := debug.SetGCPercent(-1)
	defer debug.SetGCPercent(gc)
	var a string
	var parked bool
	func() {
		p := newParker("index.kvstore.beforeBucketGet")
		defer p.done()
		var wg sync.WaitGroup
		wg.Add(1)
		go func() {
			defer wg.Done()
			defer func() {
				if e := recover(); e != nil {
					a = fmt.Sprintf("panic %v", e)
				}
			}()
			a = idOut(r.s.genTagValue(tks[0], v))
		}()
		parked = p.waitParked(5 * time.Second)
		r.tagValue(tks[0], fresh)
		r.mprepare()
		r.mflush()
		for k := 1; k < nKeys; k++ {
			r.tagValue(tks[k], v)
		}
		p.release()
		wg.Wait()
	}()
	if !parked {
		c.Fail("witness-not-scheduled", "brelease: the reader never reached yield point index.kvstore.beforeBucketGet")
	}
	other := tks[0]
	if id, ok := parseID(a); ok {
		if tk, known := ids[id]; known {
			other = tk
		}
		if id != own {
			c.Fail("bucket-released-under-reader", fmt.Sprintf("GenTagValueID(tag key %d, v%d) parked between the bucket cache hit and bucket.GetValue across a flush was answered id %d (the id of v%d under tag key %d); every other caller is answered %d", tks[0], v, id, v, other, own))
			c.Branch("bucket-release-foreign-id")
		} else {
			c.Branch("bucket-release-own-id")
		}
	}
	r.guard(fmt.Sprintf("brelease %d %d %d", tks[0], v, other), func() string { return "R=" + a })
	// afterwards everybody is answered the own ids again (the cache was purged, buckets are loaded afresh)
	for k := 0; k < nKeys; k++ {
		r.tagValue(tks[k], v)
	}
	c.Branch("witness-bucket-release")
	c.NonTrivial()
	return r.err
}

// witnessSeqCacheEvict: the LRU sequence cache drops the metric before every new series, with the metric's
// postings in every combination of tiers: mutable only; mutable + immutable; kv family + immutable (dictionary
// still frozen after a faulted round) + mutable; kv family only; after a crash. Each time the miss branch of
// createSeriesID must continue after the largest id in ANY tier; all old tag sets are asked for again.
func witnessSeqCacheEvict(c *core.Ctx, db string) error {
	r, err := newRunner(c, db, 2, 0)
	if err != nil {
		return err
	}
	defer r.close()
	r.o.tag = "seq-evict-"
	mid, _ := r.metric(0, 0)
	m := int(mid)
	mid2, _ := r.metric(0, 1)
	m2 := int(mid2)
	r.mprepare()
	r.mflush()
	ask := func(vs ...int) {
		for _, v := range vs {
			r.series(0, 0, 0, m, []kv{{0, v}})
		}
	}
	r.ievict(0, m) // nothing cached yet
	ask(0, 1)
	r.series(0, 0, 1, m2, []kv{{0, 0}}) // another metric of the shard keeps its entry
	r.series(1, 0, 0, m, []kv{{0, 7}})  // the other shard has its own cache
	r.ievict(0, m)
	ask(2) // mutable only
	r.iprepare(0)
	ask(3)
	r.ievict(0, m)
	ask(4, 0, 1, 2, 3) // mutable + immutable
	r.iflushfault(0, 1) // postings committed, forward step fails: inverted and dictionary stay frozen
	r.ievict(0, m)
	ask(5) // kv family + mutable
	r.iprepare(0)
	r.ievict(0, m)
	ask(6)
	r.iflush(0)
	r.ievict(0, m)
	r.ievict(0, m) // second time: absent
	ask(7, 0, 1, 2, 3, 4, 5, 6) // kv family (+ what the retry round left)
	r.series(0, 0, 1, m2, []kv{{0, 1}})
	r.series(1, 0, 0, m, []kv{{0, 8}})
	r.mseries(0, m)
	r.iprepare(0)
	r.iflush(0)
	r.crash()
	if r.err != nil {
		return r.err
	}
	r.ievict(0, m) // a recovered node starts with an empty cache
	ask(8)
	r.ievict(0, m)
	ask(9, 0, 1, 2, 3, 4, 5, 6, 7, 8)
	r.mseries(0, m)
	r.mseries(0, m2)
	r.mseries(1, m)
	c.Branch("witness-seq-cache-evict")
	c.NonTrivial()
	return r.err
}

// witnessNameLimits: max-namespaces = 1, max-metrics = 2 (the tests are `limit < ids handed out`, so two
// namespaces and three metric names are admitted). Refused names are asked for again — before and after a
// metadata flush (the refused createFn left an empty bucket map in the mutable table), after a failed flush,
// after reopen — they stay refused and are not found; every admitted name keeps its id; with the limits
// lifted the refused names get fresh ids.
func witnessNameLimits(c *core.Ctx, db string) error {
	r, err := newRunner(c, db, 1, 0)
	if err != nil {
		return err
	}
	defer r.close()
	r.o.tag = "name-limits-"
	r.limits(1, 2)
	all := func() {
		r.metric(0, 0)
		r.metric(1, 0)
		r.metric(2, 0) // third namespace: refused
		r.metric(0, 1)
		r.metric(0, 2) // fourth metric name: refused
		r.metric(1, 3) // refused, in the other namespace's bucket
	}
	all()
	r.mprepare()
	r.metric(5, 0) // refused between PrepareFlush and Flush: namespace bucket 'c' (nsString(5) = "cns5") is new
	r.mflush()
	all()
	r.mprepare()
	r.mflushfail()
	all()
	r.mprepare()
	r.mflush()
	r.reopen()
	all()
	r.mflushcrash(3)
	all()
	r.limits(0, 0)
	all()
	r.metric(5, 0)
	r.mprepare()
	r.mflush()
	r.reopen()
	all()
	c.Branch("witness-name-limits")
	c.NonTrivial()
	return r.err
}

// witnessBucketCacheRace: three parties on the metric dictionary's LRU bucket cache.
//  1. a first metric is frozen by PrepareFlush, metric x is created (no bucket on disk yet: nothing is
//     cached), the flush persists the first metric: the metric bucket exists on disk, without x; the
//     namespace bucket is put into its cache by a lookup of an unknown namespace with the same first byte;
//  2. x is frozen by the next PrepareFlush;
//  3. a lookup-only GetMetricID of an unknown name takes the metric store's snapshot and is stopped
//     (yield index.kvstore.afterSnapshot) before it reads and caches the bucket;
//  4. the metadata Flush persists x, installs the new snapshot and purges the cache;
//  5. the lookup continues: it caches the bucket of the OLD snapshot (and answers not-found);
//  6. with no concurrency left, GenMetricID(ns, x): the lock-free lookup misses through the stale bucket;
//     createValue must find x in s.snapshot under the lock and answer x's id.
func witnessBucketCacheRace(c *core.Ctx, db string) error {
	r, err := newRunner(c, db, 1, 0)
	if err != nil {
		return err
	}
	defer r.close()
	r.o.tag = "bucket-cache-"
	const ns, x, unknown = 0, 1, 9
	r.metric(ns, 0)
	r.mprepare()
	// x is created while the bucket is not yet on disk: its own lookup finds no bucket and caches nothing
	r.metric(ns, x)
	r.mflush()        // persists the namespace and metric 0: the metric bucket exists on disk now, caches purged
	r.getMetric(3, 0) // unknown namespace "ans3", same first byte: the NAMESPACE bucket is cached now
	r.mprepare()      // x is frozen
	op := fmt.Sprintf("bcrace %d %d %d", nsBucket(ns), ns, x)
	var l, xo string
	var parked bool
	r.guard(op, func() string {
		l, _, parked = raceTwo("index.kvstore.afterSnapshot",
			func() string { return idOut(r.s.getMetric(ns, unknown)) },
			func() string { return okOut(r.s.meta.Flush()) })
		xo = idOut(r.s.genMetric(ns, x))
		return "L=" + l + " X=" + xo
	})
	if !parked {
		c.Fail("witness-not-scheduled", "bcrace: the lookup never reached yield point index.kvstore.afterSnapshot")
	}
	r.o.syncDone()
	if id, ok := parseID(xo); ok {
		r.o.observe(nameKey{"metric", strconv.Itoa(ns), strconv.Itoa(x)}, id, op)
		// the lookup-only path has no createValue behind it: through the stale bucket it would not find
		// x although x has an id (raw call: the sequential model has no bucket cache)
		if id2, err := r.s.getMetric(ns, x); err != nil || id2 != id {
			c.Fail("bucket-cache-stale-lookup-misses-persisted-name",
				fmt.Sprintf("%s: GenMetricID answered id %d for metric %d, GetMetricID afterwards: id=%d err=%v", op, id, x, id2, err))
		}
	}
	c.Branch("witness-bucket-cache-race")
	c.NonTrivial()
	return r.err
}

// witnessSchemaFlushFails: a field is created, PrepareFlush, the kv commit of the schema family FAILS,
// the ordinary retry flush succeeds. Nothing may be marked persisted by the failed flush: once the schema
// object has left memory a new field must not get the first field's id.
func witnessSchemaFlushFails(c *core.Ctx, db string) error {
	r, err := newRunner(c, db, 1, 0)
	if err != nil {
		return err
	}
	defer r.close()
	r.o.tag = "schema-flush-failed-"
	mid, _ := r.metric(0, 0)
	m := int(mid)
	r.field(m, 1)
	r.tagKey(m, 1)
	r.mprepare()
	r.mflushfails()
	r.mflush() // the retry
	r.mprepare()
	r.mflush()
	r.field(m, 2)
	r.tagKey(m, 2)
	r.field(m, 1)
	r.reopen()
	r.field(m, 3)
	r.schema(m)
	c.Branch("witness-schema-flush-fails")
	c.NonTrivial()
	return r.err
}

// witnessCompaction: two flushes, each with names in two buckets of every dictionary (two namespaces, two
// metrics per namespace, two tag keys with the same tag values), then the level-0 compaction of every
// family and a reopen: every name must still have its own id — in particular a name that exists in two
// buckets (the same metric name in both namespaces, the same tag value under both tag keys).
func witnessCompaction(c *core.Ctx, db string) error {
	r, err := newRunner(c, db, 1, 0)
	if err != nil {
		return err
	}
	defer r.close()
	r.o.tag = "compaction-"
	round := func(base int) {
		for ns := 0; ns < 2; ns++ {
			for k := 0; k < 2; k++ {
				id, ok := r.metric(ns, base+k)
				if !ok {
					continue
				}
				tk, _ := r.tagKey(int(id), k)
				r.tagValue(int(tk), base)
				r.tagValue(int(tk), base+1)
				r.series(0, ns, base+k, int(id), []kv{{k, base}})
			}
		}
		r.mprepare()
		r.mflush()
		r.iprepare(0)
		r.iflush(0)
	}
	round(0)
	round(2)
	r.mcompact()
	r.icompact(0)
	r.reopen()
	// names that exist in one bucket only, asked for in the other bucket: must be new ids of their own
	r.metric(1, 0)
	r.metric(0, 0)
	round(4)
	r.mcompact()
	r.reopen()
	c.Branch("witness-compaction")
	c.NonTrivial()
	return r.err
}

// witnessBigBucket: more new names in ONE dictionary bucket within one flush interval than one trie block
// holds (the flushed bucket is split into blocks of at most 32767 keys: 40001 names = 2 blocks, 70001 names
// = 3 blocks, neither count divisible by the block count). Every name is asked for again after the flush (in
// the running process: memory maps are empty, the answer comes from the file) and after a reopen.
func witnessBigBucket(c *core.Ctx, db string) error {
	r, err := newRunner(c, db, 1, 0)
	if err != nil {
		return err
	}
	defer r.close()
	r.o.tag = "bigbucket-"
	id, ok := r.metric(0, 0)
	if !ok {
		return r.err
	}
	tk0, ok0 := r.tagKey(int(id), 0)
	tk1, ok1 := r.tagKey(int(id), 1)
	if !ok0 || !ok1 {
		return r.err
	}
	round := func(tk, lo, n int) { // the bucket of tk holds exactly n names when it is flushed
		r.tvRange(tk, lo, n)
		r.mprepare()
		r.mflush()
		r.tvRange(tk, lo, n)
	}
	round(int(tk0), 1000, 40001)
	round(int(tk1), 1000, 70001)
	r.reopen()
	r.tvRange(int(tk0), 1000, 40001)
	r.tvRange(int(tk1), 1000, 70001)
	r.tagValue(int(tk0), 2) // a new name after all that: a new id
	c.Branch("witness-big-bucket")
	c.NonTrivial()
	return r.err
}
