package c09

import (
	"encoding/hex"
	"fmt"
	"math/rand"
	"strconv"
	"strings"
	"unsafe"

	protoMetricsV1 "github.com/lindb/common/proto/gen/v1/linmetrics"

	"github.com/lindb/lindb/series/field"
	"github.com/lindb/lindb/series/metric"
	"github.com/lindb/lindb/series/tag"

	"github.com/lindb/lindb/zzverif/internal/core"
)

// The reused-block region: names reach the get-or-create calls the way the storage write path delivers them.
//
// One byte buffer (the replica's decode block) is reused for every batch; StorageBatchRows.UnmarshalRows
// points its POOLED rows at sub-slices of it; row.NameSpace(), row.Name(), KeyValueIterator.NextKey/NextValue
// are sub-slices of the block; SimpleFieldIterator.NextName converts (copies) at the caller. The next batch
// overwrites the block: other names land on the offsets the earlier names had. A dictionary that kept a
// reference instead of a copy now holds other bytes.
//
// Protocol: `bload <hex>` gives the model the block; `bmetric`, `bfield`, `btagkey`, `btagvalue`, `bseries`
// carry only (offset, length) views — the model reads the names from ITS copy of the block as it is at the time
// of the call. Every earlier name is asked for again through the value-based operations (getmetric, findtv,
// schema, series with a private row) after each overwrite, after flushes and after a reopen; the oracle
// judges "same name ⇒ same id, different names ⇒ different ids" on the generator's own copies of the names.

type rowSpec struct {
	ns, name int
	tags     []kv
	fields   []int
	shard    int
}

type blockBuf struct {
	buf  []byte                   // allocated once; never grows (a reallocation would leave stale references unharmed)
	n    int                      // length of the current block
	rows *metric.StorageBatchRows // pooled rows, re-pointed by every UnmarshalRows
}

func newBlockBuf() *blockBuf {
	return &blockBuf{buf: make([]byte, 1<<16), rows: metric.NewStorageBatchRows()}
}

// off = where the view begins inside the reused block
func (b *blockBuf) off(v []byte) int {
	if len(v) == 0 {
		return 0
	}
	return int(uintptr(unsafe.Pointer(unsafe.SliceData(v))) - uintptr(unsafe.Pointer(unsafe.SliceData(b.buf))))
}

func (b *blockBuf) inside(v []byte) bool {
	o := b.off(v)
	return len(v) > 0 && o >= 0 && o+len(v) <= b.n
}

// marshalBatch builds the block of a batch: size-prefixed flat-buffer rows one after the other.
func (s *sys) marshalBatch(rows []rowSpec) ([]byte, error) {
	var block []byte
	for _, rs := range rows {
		m := &protoMetricsV1.Metric{Namespace: nsString(rs.ns), Name: metricString(rs.name), Timestamp: 1}
		for _, f := range rs.fields {
			m.SimpleFields = append(m.SimpleFields, &protoMetricsV1.SimpleField{Name: fieldString(f), Type: protoMetricsV1.SimpleFieldType_DELTA_SUM, Value: 1})
		}
		for _, t := range rs.tags {
			m.Tags = append(m.Tags, &protoMetricsV1.KeyValue{Key: tagKeyString(t.k), Value: tagValString(t.v)})
		}
		data, err := s.conv.MarshalProtoMetricV1(m)
		if err != nil {
			return nil, err
		}
		block = append(block, data...)
	}
	return block, nil
}

// bload: the next block is decoded into the reused buffer (what is left of a longer earlier block stays behind it).
func (r *runner) bload(b *blockBuf, block []byte) bool {
	if len(block) > len(b.buf) {
		r.err = harnessError{fmt.Errorf("bufreuse: block of %d bytes does not fit", len(block))}
		return false
	}
	copy(b.buf, block)
	b.n = len(block)
	r.c.Op("bload "+hex.EncodeToString(b.buf[:b.n]), "ok")
	ok := true
	func() {
		defer func() {
			if e := recover(); e != nil {
				r.c.Fail("panic", fmt.Sprintf("UnmarshalRows panicked: %v", e))
				ok = false
			}
		}()
		b.rows.UnmarshalRows(b.buf[:b.n])
	}()
	r.c.Branch("buf-load")
	return ok
}

// scribble: the buffer is handed back and filled with something that is no name at all
func (r *runner) scribble(b *blockBuf) {
	junk := make([]byte, b.n)
	for i := range junk {
		junk[i] = '#'
	}
	copy(b.buf, junk)
	r.c.Op("bload "+hex.EncodeToString(b.buf[:b.n]), "ok")
	r.c.Branch("buf-scribble")
}

func (r *runner) bmetric(b *blockBuf, row *metric.StorageRow, ns, name int) (uint32, bool) {
	nsV, nameV := row.NameSpace(), row.Name()
	if !b.inside(nsV) || !b.inside(nameV) {
		r.err = harnessError{fmt.Errorf("bufreuse: namespace/name of the row are not views of the block")}
		return 0, false
	}
	op := fmt.Sprintf("bmetric %d %d %d %d", b.off(nsV), len(nsV), b.off(nameV), len(nameV))
	out := r.guard(op, func() string { id, err := r.s.meta.GenMetricID(nsV, nameV); return idOut(uint32(id), err) })
	id, ok := parseID(out)
	if ok {
		r.o.observe(nameKey{"metric", strconv.Itoa(ns), strconv.Itoa(name)}, id, op)
		r.metricIDs = addUnique(r.metricIDs, int(id))
		r.c.Branch("buf-gen-metric")
		if id2, ok2 := r.getMetric(ns, name); !ok2 || id2 != id {
			r.c.Fail(r.o.tag+"lookup-after-create-metric", fmt.Sprintf("%s (%s/%s) returned id %d, GetMetricID afterwards: found=%v id=%d", op, nsString(ns), metricString(name), id, ok2, id2))
		}
	}
	return id, ok
}

// bfields: what metadataDatabase.handleRow / memoryDatabase.writeLinField do with the row's simple fields
func (r *runner) bfields(b *blockBuf, row *metric.StorageRow, metricID int, fields []int) {
	itr := row.NewSimpleFieldIterator()
	for i := 0; itr.HasNext(); i++ {
		if i >= len(fields) {
			r.err = harnessError{fmt.Errorf("bufreuse: the row has more fields than were generated")}
			return
		}
		raw := itr.NextRawName()
		if !b.inside(raw) {
			r.err = harnessError{fmt.Errorf("bufreuse: field name is not a view of the block")}
			return
		}
		fm := field.Meta{Name: itr.NextName(), Type: itr.NextType()} // NextName: the caller's copy
		op := fmt.Sprintf("bfield %d %d %d", metricID, b.off(raw), len(raw))
		out := r.guard(op, func() string { id, err := r.s.meta.GenFieldID(metric.ID(metricID), fm); return idOut(uint32(id), err) })
		if id, ok := parseID(out); ok {
			r.o.observe(nameKey{"field", strconv.Itoa(metricID), strconv.Itoa(fields[i])}, id, op)
			r.c.Branch("buf-gen-field")
		}
	}
}

// btags: GenTagKeyID / GenTagValueID with the views the row's tag iterator returns (buildInvertIndex)
func (r *runner) btags(b *blockBuf, row *metric.StorageRow, metricID int, tags []kv) {
	itr := row.NewKeyValueIterator()
	for i := 0; itr.HasNext(); i++ {
		if i >= len(tags) {
			r.err = harnessError{fmt.Errorf("bufreuse: the row has more tags than were generated")}
			return
		}
		kV, vV := itr.NextKey(), itr.NextValue()
		if !b.inside(kV) || !b.inside(vV) {
			r.err = harnessError{fmt.Errorf("bufreuse: tag key/value are not views of the block")}
			return
		}
		op := fmt.Sprintf("btagkey %d %d %d", metricID, b.off(kV), len(kV))
		out := r.guard(op, func() string { id, err := r.s.meta.GenTagKeyID(metric.ID(metricID), kV); return idOut(uint32(id), err) })
		tk, ok := parseID(out)
		if !ok {
			continue
		}
		r.o.observe(nameKey{"tagkey", strconv.Itoa(metricID), strconv.Itoa(tags[i].k)}, tk, op)
		r.tagKeyIDs = addUnique(r.tagKeyIDs, int(tk))
		r.c.Branch("buf-gen-tagkey")
		op = fmt.Sprintf("btagvalue %d %d %d", tk, b.off(vV), len(vV))
		out = r.guard(op, func() string { return idOut(r.s.meta.GenTagValueID(tag.KeyID(tk), vV)) })
		if id, ok := parseID(out); ok {
			r.o.observe(nameKey{"tagvalue", strconv.Itoa(int(tk)), strconv.Itoa(tags[i].v)}, id, op)
			r.c.Branch("buf-gen-tagvalue")
			if id2, ok2 := parseID(r.findTV(int(tk), tags[i].v)); !ok2 || id2 != id {
				r.c.Fail(r.o.tag+"lookup-after-create-tagvalue", fmt.Sprintf("%s (%s) returned id %d, lookup afterwards: found=%v id=%d", op, tagValString(tags[i].v), id, ok2, id2))
			}
		}
	}
}

// bseries: GenSeriesID of a row that is a view of the block (a new series creates its tag keys / values from views)
func (r *runner) bseries(b *blockBuf, row *metric.StorageRow, rs rowSpec, metricID int) {
	ts := r.tagsetID(rs.tags)
	var sb strings.Builder
	fmt.Fprintf(&sb, "bseries %d %d %d", rs.shard, metricID, ts)
	itr := row.NewKeyValueIterator()
	n := 0
	for itr.HasNext() {
		kV, vV := itr.NextKey(), itr.NextValue()
		if !b.inside(kV) || !b.inside(vV) {
			r.err = harnessError{fmt.Errorf("bufreuse: tag key/value are not views of the block")}
			return
		}
		fmt.Fprintf(&sb, " %d %d %d %d", b.off(kV), len(kV), b.off(vV), len(vV))
		n++
	}
	if n != len(rs.tags) {
		r.err = harnessError{fmt.Errorf("bufreuse: the row has %d tags, %d were generated", n, len(rs.tags))}
		return
	}
	op := sb.String()
	out := r.guard(op, func() string { return idOut(r.s.shards[rs.shard].GenSeriesID(metric.ID(metricID), row)) })
	if id, ok := parseID(out); ok {
		k := nameKey{"series", fmt.Sprintf("%d/%d", rs.shard, metricID), strconv.Itoa(ts)}
		r.o.observe(k, id, op)
		r.seriesSeen[k] = [3]int{rs.shard, metricID, ts}
		r.c.Branch("buf-gen-series")
		r.c.NonTrivial()
	}
}

// recheck: every name the oracle knows is asked for again BY VALUE (strings / a private row): whatever has
// happened to the block since, each must answer with the id it has.
func (r *runner) recheck(specs map[nameKey]rowSpec, why string) {
	schemas := map[string]string{}
	for _, k := range sortedKeys(r.o.live) {
		if r.err != nil {
			return
		}
		want := r.o.live[k]
		what := fmt.Sprintf("%s: %s %s/%s", why, k.kind, k.scope, k.name)
		switch k.kind {
		case "metric":
			ns, _ := strconv.Atoi(k.scope)
			name, _ := strconv.Atoi(k.name)
			id, ok := r.getMetric(ns, name)
			if !ok {
				r.c.Fail(r.o.tag+"stable-metric", fmt.Sprintf("%s had id %d, is not found any more", what, want))
			} else {
				r.o.observe(k, id, what)
			}
		case "tagvalue":
			tk, _ := strconv.Atoi(k.scope)
			v, _ := strconv.Atoi(k.name)
			id, ok := parseID(r.findTV(tk, v))
			if !ok {
				r.c.Fail(r.o.tag+"stable-tagvalue", fmt.Sprintf("%s had id %d, is not found any more", what, want))
			} else {
				r.o.observe(k, id, what)
			}
		case "field", "tagkey":
			sc, ok := schemas[k.scope]
			if !ok {
				mid, _ := strconv.Atoi(k.scope)
				sc = r.schema(mid)
				schemas[k.scope] = sc
			}
			id, ok := schemaFind(sc, k.kind, k.name)
			if !ok {
				r.c.Fail(r.o.tag+"stable-"+k.kind, fmt.Sprintf("%s had id %d, is not in the schema any more (%s)", what, want, sc))
			} else {
				r.o.observe(k, id, what)
			}
		case "series":
			if rs, ok := specs[k]; ok {
				x := r.seriesSeen[k]
				r.series(rs.shard, rs.ns, rs.name, x[1], rs.tags)
			}
		}
	}
	r.c.Branch("buf-recheck")
}

// batch: one block through the write path
func (r *runner) batch(b *blockBuf, rows []rowSpec, specs map[nameKey]rowSpec, direct func(i int) bool) {
	for i := range rows {
		rows[i].tags = sortTags(rows[i].tags)
	}
	block, err := r.s.marshalBatch(rows)
	if err != nil {
		r.err = harnessError{err}
		return
	}
	if !r.bload(b, block) {
		return
	}
	if b.rows.Len() != len(rows) {
		r.err = harnessError{fmt.Errorf("bufreuse: block decoded into %d rows, want %d", b.rows.Len(), len(rows))}
		return
	}
	// everything known so far must have survived the overwrite
	r.recheck(specs, "after the block was overwritten")
	for i, row := range b.rows.Rows() {
		if r.err != nil {
			return
		}
		rs := rows[i]
		id, ok := r.bmetric(b, row, rs.ns, rs.name)
		if !ok {
			continue
		}
		r.bfields(b, row, int(id), rs.fields)
		if direct(i) {
			r.btags(b, row, int(id), rs.tags)
		}
		r.bseries(b, row, rs, int(id))
		specs[nameKey{"series", fmt.Sprintf("%d/%d", rs.shard, id), strconv.Itoa(r.tagsetID(rs.tags))}] = rs
		if !direct(i) {
			r.btags(b, row, int(id), rs.tags)
		}
	}
}

func (r *runner) flushAll() {
	r.mprepare()
	r.mflush()
	for sh := 0; sh < r.s.nShards; sh++ {
		r.iprepare(sh)
		r.iflush(sh)
	}
}

// bufReuseRegion: fixed = the deterministic shape (equal-length names, so that the next batch's names land
// exactly on the bytes of the earlier ones); otherwise drawn from rng (names of different lengths, rows of
// different sizes, flush / reopen / crash placed at random between the batches).
func bufReuseRegion(c *core.Ctx, rng *rand.Rand, db string, fixed bool) error {
	r, err := newRunner(c, db, 2, 0)
	if err != nil {
		return err
	}
	defer r.close()
	r.o.tag = "bufreuse-"
	b := newBlockBuf()
	specs := map[nameKey]rowSpec{}
	if fixed {
		mk := func(base int) []rowSpec {
			var rows []rowSpec
			for i := 0; i < 4; i++ {
				rows = append(rows, rowSpec{ns: (base + i) % 3, name: base + i, shard: i % 2,
					tags: []kv{{base % 8, base + i}, {(base + 1) % 8, i}}, fields: []int{base % 8, (base + i + 1) % 8}})
			}
			return rows
		}
		all := func(int) bool { return true }
		r.batch(b, mk(0), specs, all)
		r.batch(b, mk(4), specs, func(i int) bool { return i%2 == 0 }) // same layout, other names on the same offsets
		r.batch(b, mk(0), specs, all)                                  // the first names again: same ids
		r.flushAll()
		r.recheck(specs, "after flush")
		r.batch(b, mk(2), specs, all) // half old, half new names, answered from the files and from memory
		r.scribble(b)
		r.recheck(specs, "after the block was scribbled over")
		r.mprepare()
		r.batch(b, mk(5), specs, func(int) bool { return false })
		r.mflush()
		if r.err == nil {
			r.reopen()
		}
		r.batch(b, mk(1), specs, all)
		r.scribble(b)
		r.recheck(specs, "after reopen")
		c.Branch("region-bufreuse-fixed")
	} else {
		nBatches := 4 + rng.Intn(5)
		metricPool := []int{0, 1, 2, 3, 7, 10, 11, 123}
		valPool := []int{0, 1, 5, 9, 10, 42, 100}
		for bi := 0; bi < nBatches && r.err == nil; bi++ {
			var rows []rowSpec
			for i, n := 0, 1+rng.Intn(5); i < n; i++ {
				rs := rowSpec{ns: rng.Intn(3), name: metricPool[rng.Intn(len(metricPool))], shard: rng.Intn(2)}
				for _, k := range rng.Perm(5)[:rng.Intn(4)] {
					rs.tags = append(rs.tags, kv{k, valPool[rng.Intn(len(valPool))]})
				}
				for _, f := range rng.Perm(6)[:1+rng.Intn(2)] {
					rs.fields = append(rs.fields, f)
				}
				rows = append(rows, rs)
			}
			mode := rng.Intn(3)
			r.batch(b, rows, specs, func(i int) bool { return mode == 0 || (mode == 1 && i%2 == 0) })
			if r.err != nil {
				break
			}
			switch rng.Intn(8) {
			case 0:
				r.flushAll()
			case 1:
				r.mprepare()
			case 2:
				r.scribble(b)
				r.recheck(specs, "after the block was scribbled over")
			case 3:
				r.reopen()
			case 4:
				r.mprepare()
				r.mflushcrash(rng.Intn(6))
			case 5:
				r.mflush()
				r.iflush(rng.Intn(2))
			}
		}
		if r.err == nil {
			r.scribble(b)
			r.recheck(specs, "at the end")
		}
		c.Branch("region-bufreuse-random")
	}
	if r.err == nil {
		r.reopen()
	}
	return r.err
}
