package c09

import (
	"errors"
	"fmt"

	lindbkv "github.com/lindb/lindb/kv"
	"github.com/lindb/lindb/kv/version"
	"math/rand"
	"sort"
	"strconv"
	"strings"

	"github.com/lindb/lindb/models"

	"github.com/lindb/lindb/zzverif/internal/core"
)

type area struct{}

func init() { core.Register(area{}) }

func (area) Name() string { return "ids" }

// runner executes protocol operations on the real node, reports them to the model stream and
// feeds the oracle.
type runner struct {
	c   *core.Ctx
	s   *sys
	o   *oracle
	err error // first harness-level error (cannot continue the case)

	tagsets map[string]int // canonical tag set -> protocol number
	// what the generator may refer to
	metricIDs []int
	tagKeyIDs []int
	// (shard, metricId, tagset) of created series, for the recovery scan
	seriesSeen map[nameKey][3]int
	// how each known series was asked for (for asking again), and a counter for brand-new tag sets
	seriesArgs map[nameKey]seriesArg
	freshTag   int
	lim        *models.Limits // the limits of this case's database (re-registered by limits())
	// big-bucket region: (tag key, first name, count) -> first id
	ranges map[[3]int]uint32
}

type seriesArg struct {
	shard, ns, name, metricID int
	tags                      []kv
}

func newRunner(c *core.Ctx, dbName string, nShards, maxSeries int) (*runner, error) {
	lim := models.NewDefaultLimits()
	if maxSeries > 0 {
		lim.MaxSeriesPerMetric = uint32(maxSeries)
	}
	models.SetDatabaseLimits(dbName, lim)
	s, err := newSys(dbName, nShards)
	if err != nil {
		return nil, err
	}
	r := &runner{c: c, s: s, o: newOracle(c), lim: lim, tagsets: map[string]int{}, seriesSeen: map[nameKey][3]int{}, seriesArgs: map[nameKey]seriesArg{}}
	c.Op(fmt.Sprintf("reset %d %d", nShards, maxSeries), "ok")
	return r, nil
}

func (r *runner) close() { r.s.destroy() }

// abort: the case cannot go on because op did not succeed (reopen / crash recovery / a flush step failed or
// panicked inside lindb). That is a failure of the CASE (area.Run reports it as an oracle failure with the
// case's ops as the failing input), not of the run — unless the harness's own file handling failed.
func (r *runner) abort(op, out string) {
	err := fmt.Errorf("%s: %s", op, out)
	if strings.HasPrefix(out, harnessPrefix) {
		err = harnessError{err}
	}
	if r.err == nil {
		r.err = err
	}
}

// guard runs f; a panic inside lindb becomes an oracle failure and the output "panic".
func (r *runner) guard(op string, f func() string) string {
	var out string
	func() {
		defer func() {
			if e := recover(); e != nil {
				out = "panic"
				r.c.Fail("panic", fmt.Sprintf("op %q panicked: %v", op, e))
			}
		}()
		out = f()
	}()
	out = printable(out)
	r.c.Op(op, out)
	return out
}

// printable keeps an output line a line: a name that lindb hands back with bytes that are no printable
// ASCII (never on the unchanged tree: the harness's names are letters and digits) is shown escaped.
func printable(s string) string {
	clean := true
	for i := 0; i < len(s); i++ {
		if s[i] < 0x20 || s[i] > 0x7e {
			clean = false
			break
		}
	}
	if clean {
		return s
	}
	var sb strings.Builder
	for i := 0; i < len(s); i++ {
		if s[i] < 0x20 || s[i] > 0x7e {
			fmt.Fprintf(&sb, "\\x%02x", s[i])
		} else {
			sb.WriteByte(s[i])
		}
	}
	return sb.String()
}

func addUnique(xs []int, v int) []int {
	for _, x := range xs {
		if x == v {
			return xs
		}
	}
	return append(xs, v)
}

func (r *runner) metric(ns, name int) (uint32, bool) {
	op := fmt.Sprintf("metric %d %d %d", nsBucket(ns), ns, name)
	out := r.guard(op, func() string { return idOut(r.s.genMetric(ns, name)) })
	id, ok := parseID(out)
	if ok {
		r.o.observe(nameKey{"metric", strconv.Itoa(ns), strconv.Itoa(name)}, id, op)
		r.metricIDs = addUnique(r.metricIDs, int(id))
		r.c.Branch("gen-metric")
		// "looking up or creating … returns one and the same id": the lookup-only API must agree
		if id2, ok2 := r.getMetric(ns, name); !ok2 || id2 != id {
			r.c.Fail(r.o.tag+"lookup-after-create-metric", fmt.Sprintf("%s returned id %d, GetMetricID afterwards: found=%v id=%d", op, id, ok2, id2))
		}
	} else {
		r.c.Branch("gen-metric-" + strings.ReplaceAll(out, " ", "-"))
		if out == "err too-many-namespaces" || out == "err too-many-metrics" {
			// a refused name got no id: the lookup-only API must not find one either — unless the name had
			// an id before (never: createFn only runs for a name that is in no table)
			k := nameKey{"metric", strconv.Itoa(ns), strconv.Itoa(name)}
			if prev, had := r.o.live[k]; had {
				r.c.Fail(r.o.tag+"stable-metric", fmt.Sprintf("%s refused (%s) although the name has id %d", op, out, prev))
			}
			if id2, ok2 := r.getMetric(ns, name); ok2 {
				if _, had := r.o.live[k]; !had {
					r.c.Fail(r.o.tag+"refused-metric-has-id", fmt.Sprintf("%s was refused (%s), GetMetricID afterwards answers id %d", op, out, id2))
				}
			}
		}
	}
	return id, ok
}

// limits: max-namespaces / max-metrics of the database (0 = off, the default). genNSID / genMetricID — the
// createFn of the namespace and metric dictionaries — read them on every call.
func (r *runner) limits(maxNS, maxMetrics int) {
	r.guard(fmt.Sprintf("limits %d %d", maxNS, maxMetrics), func() string {
		l := *r.lim
		l.MaxNamespaces, l.MaxMetrics = uint32(maxNS), uint32(maxMetrics)
		r.lim = &l
		models.SetDatabaseLimits(r.s.dbName, r.lim)
		return "ok"
	})
	r.c.Branch("limits")
}

func (r *runner) getMetric(ns, name int) (uint32, bool) {
	op := fmt.Sprintf("getmetric %d %d %d", nsBucket(ns), ns, name)
	out := r.guard(op, func() string { return idOut(r.s.getMetric(ns, name)) })
	return parseID(out)
}

func (r *runner) field(metricID, f int) {
	op := fmt.Sprintf("field %d %d", metricID, f)
	out := r.guard(op, func() string { return idOut(r.s.genField(metricID, f)) })
	if id, ok := parseID(out); ok {
		r.o.observe(nameKey{"field", strconv.Itoa(metricID), strconv.Itoa(f)}, id, op)
		r.c.Branch("gen-field")
	} else {
		r.c.Branch("gen-field-" + strings.ReplaceAll(out, " ", "-"))
	}
}

func (r *runner) tagKey(metricID, k int) (uint32, bool) {
	op := fmt.Sprintf("tagkey %d %d", metricID, k)
	out := r.guard(op, func() string { return idOut(r.s.genTagKey(metricID, k)) })
	id, ok := parseID(out)
	if ok {
		r.o.observe(nameKey{"tagkey", strconv.Itoa(metricID), strconv.Itoa(k)}, id, op)
		r.tagKeyIDs = addUnique(r.tagKeyIDs, int(id))
		r.c.Branch("gen-tagkey")
	} else {
		r.c.Branch("gen-tagkey-" + strings.ReplaceAll(out, " ", "-"))
	}
	return id, ok
}

func (r *runner) tagValue(tagKeyID, v int) (uint32, bool) {
	op := fmt.Sprintf("tagvalue %d %d", tagKeyID, v)
	out := r.guard(op, func() string { return idOut(r.s.genTagValue(tagKeyID, v)) })
	id, ok := parseID(out)
	if ok {
		r.o.observe(nameKey{"tagvalue", strconv.Itoa(tagKeyID), strconv.Itoa(v)}, id, op)
		r.c.Branch("gen-tagvalue")
		if id2, ok2 := parseID(r.findTV(tagKeyID, v)); !ok2 || id2 != id {
			r.c.Fail(r.o.tag+"lookup-after-create-tagvalue", fmt.Sprintf("%s returned id %d, lookup afterwards: found=%v id=%d", op, id, ok2, id2))
		}
	}
	return id, ok
}

// tvRange = GenTagValueID for the count names lo, lo+1, … of one tag key (one dictionary bucket), in a row.
// Asked for the first time the names are new and get consecutive ids; asked again (after a flush, after a
// reopen) every name must answer with the id it got.
func (r *runner) tvRange(tagKeyID, lo, count int) {
	op := fmt.Sprintf("tvrange %d %d %d", tagKeyID, lo, count)
	key := [3]int{tagKeyID, lo, count}
	prev, had := r.ranges[key]
	var base uint32
	changed, changedAt, changedID := 0, -1, uint32(0)
	out := r.guard(op, func() string {
		res := ""
		for k := 0; k < count; k++ {
			id, err := r.s.genTagValue(tagKeyID, lo+k)
			if err != nil {
				return fmt.Sprintf("range error at=%d %s", k, errKind(err))
			}
			if k == 0 {
				base = id
			}
			if had && id != prev+uint32(k) {
				if changed == 0 {
					changedAt, changedID = k, id
				}
				changed++
			}
			if id != base+uint32(k) && res == "" {
				res = fmt.Sprintf("range broken at=%d id=%d base=%d", k, id, base)
			}
		}
		if res != "" {
			return res
		}
		return fmt.Sprintf("range base=%d n=%d", base, count)
	})
	if changed > 0 {
		r.c.Fail(r.o.tag+"stable-tagvalue", fmt.Sprintf("%s: %d of the %d tag values of tag key %d answer with another id than before; first: %q had id %d, now %d",
			op, changed, count, tagKeyID, tagValString(lo+changedAt), prev+uint32(changedAt), changedID))
	}
	if !had && strings.HasPrefix(out, "range base=") {
		if r.ranges == nil {
			r.ranges = map[[3]int]uint32{}
		}
		for k2, b2 := range r.ranges { // ids are unique across tag keys (one counter)
			if base < b2+uint32(k2[2]) && b2 < base+uint32(count) {
				r.c.Fail(r.o.tag+"injective-tagvalue", fmt.Sprintf("%s: ids %d.. overlap the ids %d.. of tvrange %v", op, base, b2, k2))
			}
		}
		r.ranges[key] = base
	}
	r.c.Branch("gen-tagvalue-range")
}

func (r *runner) tagsetID(tags []kv) int {
	cn := tagsCanon(tags)
	if id, ok := r.tagsets[cn]; ok {
		return id
	}
	id := len(r.tagsets)
	r.tagsets[cn] = id
	return id
}

// series: GenSeriesID on one shard. ns/name only select the row's metric name (limits lookup).
func (r *runner) series(shard, ns, name, metricID int, tags []kv) (uint32, bool) {
	tags = sortTags(tags)
	ts := r.tagsetID(tags)
	op := strings.TrimSpace(fmt.Sprintf("series %d %d %d %s", shard, metricID, ts, tagsCanon(tags)))
	out := r.guard(op, func() string { return idOut(r.s.genSeries(shard, ns, name, metricID, tags)) })
	id, ok := parseID(out)
	if ok {
		k := nameKey{"series", fmt.Sprintf("%d/%d", shard, metricID), strconv.Itoa(ts)}
		r.o.observe(k, id, op)
		r.seriesSeen[k] = [3]int{shard, metricID, ts}
		r.seriesArgs[k] = seriesArg{shard, ns, name, metricID, tags}
		r.c.Branch("gen-series")
		r.c.NonTrivial()
	} else {
		r.c.Branch("gen-series-" + strings.ReplaceAll(out, " ", "-"))
	}
	return id, ok
}

func (r *runner) lookup(op string, f func() string) string { return r.guard(op, f) }

func (r *runner) schema(metricID int) string {
	return r.lookup(fmt.Sprintf("schema %d", metricID), func() string { return r.s.schemaOut(metricID) })
}
func (r *runner) findTV(tagKeyID, v int) string {
	return r.lookup(fmt.Sprintf("findtv %d %d", tagKeyID, v), func() string { return r.s.findTagValue(tagKeyID, v) })
}
func (r *runner) mseries(shard, metricID int) string {
	return r.lookup(fmt.Sprintf("mseries %d %d", shard, metricID), func() string { return r.s.metricSeries(shard, metricID) })
}
func (r *runner) tvseries(shard, tv int) string {
	return r.lookup(fmt.Sprintf("tvseries %d %d", shard, tv), func() string { return r.s.tagValueSeries(shard, tv) })
}
func (r *runner) tkseries(shard, tk int) string {
	return r.lookup(fmt.Sprintf("tkseries %d %d", shard, tk), func() string { return r.s.tagKeySeries(shard, tk) })
}

func (r *runner) mprepare() {
	r.guard("mprepare", func() string { r.s.meta.PrepareFlush(); return "ok" })
	r.c.Branch("meta-prepare")
}

func (r *runner) mflush() {
	out := r.guard("mflush", func() string { return okOut(r.s.meta.Flush()) })
	if out == "ok" {
		r.o.syncDone()
	}
	r.c.Branch("meta-flush")
}

// mflushfail / iflushfail: a flush that returns an error (kv family commit of a dictionary fails);
// nothing may change for the callers: every name keeps its id.
func (r *runner) mflushfail() {
	out := r.guard("mflushfail", func() string { return okOut(r.s.metaFlushFail()) })
	r.o.syncDone() // Sequence.Sync() is the first step and succeeded
	r.c.Branch("meta-flush-" + strings.ReplaceAll(out, " ", "-"))
}

// mflushfails: the kv commit of the schema family's flush fails (ns and metric dictionaries flushed before it)
func (r *runner) mflushfails() {
	out := r.guard("mflushfails", func() string { return okOut(r.s.metaFlushFailSchema()) })
	r.o.syncDone()
	r.c.Branch("meta-flush-schema-" + strings.ReplaceAll(out, " ", "-"))
}

// mcompact / icompact: level-0 compaction of every family of the metadata store / of one index store.
// Nothing may change for the callers; the stores switch to the compacted files at their next flush or reopen.
func (r *runner) mcompact() {
	out := r.guard("mcompact", func() string { return okOut(r.s.metaCompact()) })
	if out != "ok" {
		r.c.Fail("compaction-failed", "mcompact: "+out)
	}
	r.c.Branch("meta-compact")
}

func (r *runner) icompact(shard int) {
	out := r.guard(fmt.Sprintf("icompact %d", shard), func() string { return okOut(r.s.indexCompact(shard)) })
	if out != "ok" {
		r.c.Fail("compaction-failed", fmt.Sprintf("icompact %d: %s", shard, out))
	}
	r.c.Branch("index-compact")
}

func (r *runner) iflushfail(shard int) {
	out := r.guard(fmt.Sprintf("iflushfail %d", shard), func() string { return okOut(r.s.indexFlushFail(shard)) })
	r.c.Branch("index-flush-" + strings.ReplaceAll(out, " ", "-"))
}

// iflushfault: the real index Flush of one shard with a fault placed on one of its four steps.
func (r *runner) iflushfault(shard, step int) {
	out := r.guard(fmt.Sprintf("iflushfault %d %d", shard, step), func() string { return okOut(r.s.indexFlushFault(shard, step)) })
	r.c.Branch(fmt.Sprintf("index-flush-fault-%d-%s", step, strings.ReplaceAll(out, " ", "-")))
}

// ievict: one shard's sequence cache drops a metric's entry. The answer (was there an entry?) is compared with
// the model's cache, the effect shows in the ids of the next new series of that metric.
func (r *runner) ievict(shard, metricID int) {
	out := r.guard(fmt.Sprintf("ievict %d %d", shard, metricID), func() string { return r.s.indexEvictSeq(shard, metricID) })
	r.c.Branch("seq-cache-" + out)
}

// seriesAudit: for every (shard, metric) that has known series: one series with a brand-new tag set is
// created, then every known tag set is asked for again. Whatever happened before (failed flush steps, crashes,
// reopen): the new series must not get an id that the dictionary — recovered or not — answers for an old one
// (injective-series), and within one run of the node an old one keeps its id (stable-series).
func (r *runner) seriesAudit() {
	type sm struct{ shard, metricID int }
	groups := map[sm][]nameKey{}
	var order []sm
	for _, k := range sortedSeriesKeys(r.seriesArgs) {
		a := r.seriesArgs[k]
		g := sm{a.shard, a.metricID}
		if _, ok := groups[g]; !ok {
			order = append(order, g)
		}
		groups[g] = append(groups[g], k)
	}
	for _, g := range order {
		if r.err != nil {
			return
		}
		a := r.seriesArgs[groups[g][0]]
		r.freshTag++
		r.series(g.shard, a.ns, a.name, g.metricID, []kv{{9, 1000 + r.freshTag}})
		for _, k := range groups[g] {
			b := r.seriesArgs[k]
			r.series(b.shard, b.ns, b.name, b.metricID, b.tags)
		}
	}
	r.c.Branch("series-audit")
}

func sortedSeriesKeys(m map[nameKey]seriesArg) []nameKey {
	ks := make([]nameKey, 0, len(m))
	for k := range m {
		ks = append(ks, k)
	}
	sort.Slice(ks, func(i, j int) bool {
		if ks[i].scope != ks[j].scope {
			return ks[i].scope < ks[j].scope
		}
		return ks[i].name < ks[j].name
	})
	return ks
}

func (r *runner) iprepare(shard int) {
	r.guard(fmt.Sprintf("iprepare %d", shard), func() string { r.s.shards[shard].PrepareFlush(); return "ok" })
	r.c.Branch("index-prepare")
}

func (r *runner) iflush(shard int) {
	r.guard(fmt.Sprintf("iflush %d", shard), func() string { return okOut(r.s.shards[shard].Flush()) })
	r.c.Branch("index-flush")
}

func (r *runner) reopen() {
	out := r.guard("reopen", func() string { return okOut(r.s.reopen()) })
	if out != "ok" {
		r.abort("reopen", out)
		return
	}
	r.c.Branch("reopen")
	r.recovered("reopen")
}

func (r *runner) crash() {
	out := r.guard("crash", func() string { return okOut(r.s.crash()) })
	if out != "ok" {
		r.abort("crash", out)
		return
	}
	r.c.Branch("crash")
	r.recovered("crash")
}

// mflushcrash: the process dies after the first k steps of a metadata flush.
func (r *runner) mflushcrash(k int) {
	op := fmt.Sprintf("mflushcrash %d", k)
	out := r.guard(op, func() string {
		if err := r.s.metaFlushPrefix(k); err != nil {
			return errKind(err)
		}
		return okOut(r.s.crash())
	})
	if out != "ok" {
		r.abort(op, out)
		return
	}
	if k >= 1 {
		r.o.syncDone()
	}
	r.c.Branch(fmt.Sprintf("crash-in-meta-flush-%d", k))
	r.recovered(op)
}

// iflushcrash: the process dies after the first k steps of one shard's index flush.
func (r *runner) iflushcrash(shard, k int) {
	op := fmt.Sprintf("iflushcrash %d %d", shard, k)
	out := r.guard(op, func() string {
		if err := r.s.indexFlushPrefix(shard, k); err != nil {
			return errKind(err)
		}
		return okOut(r.s.crash())
	})
	if out != "ok" {
		r.abort(op, out)
		return
	}
	r.c.Branch(fmt.Sprintf("crash-in-index-flush-%d", k))
	r.recovered(op)
}

// iflushimg: the real index Flush of one shard; the process dies just before its (j+1)-th family commit.
func (r *runner) iflushimg(shard, j int) {
	op := fmt.Sprintf("iflushimg %d %d", shard, j)
	out := r.guard(op, func() string { return okOut(r.s.indexFlushImage(shard, j)) })
	if out != "ok" {
		r.abort(op, out)
		return
	}
	r.c.Branch(fmt.Sprintf("crash-before-index-commit-%d", j))
	r.recovered(op)
}

// recovered: the node was reopened (or recovered from a crash image). Every name known before is
// looked up (lookup-only calls, mirrored to the model): a name that is found must have its old id;
// ids that recovered index entries still use are remembered for the freshness check.
func (r *runner) recovered(op string) {
	old := r.o.live
	r.o.live = map[nameKey]uint32{}
	r.o.owner = map[string]map[uint32]string{}
	r.o.used = map[string]map[uint32]string{}
	// ids above the synced counters are no longer allocated: forget that they were observed
	r.o.observed = map[string]map[uint32]bool{}
	for kind, ids := range r.o.synced {
		r.o.observed[kind] = map[uint32]bool{}
		for id := range ids {
			r.o.observed[kind][id] = true
		}
	}
	setUsed := func(k nameKey, id uint32) {
		ks := k.ks()
		if r.o.used[ks] == nil {
			r.o.used[ks] = map[uint32]string{}
		}
		r.o.used[ks][id] = k.name
	}
	confirm := func(k nameKey, oldID, got uint32) {
		if got != oldID {
			r.c.Fail("recover-id-changed-"+k.kind, fmt.Sprintf("after %s: %s %s/%s had id %d, recovered dictionary says %d", op, k.kind, k.scope, k.name, oldID, got))
		}
		r.o.observe(k, got, "lookup after "+op)
	}
	schemas := map[string]string{}
	for _, k := range sortedKeys(old) {
		oldID := old[k]
		switch k.kind {
		case "metric":
			ns, _ := strconv.Atoi(k.scope)
			name, _ := strconv.Atoi(k.name)
			if id, ok := r.getMetric(ns, name); ok {
				confirm(k, oldID, id)
			}
			for sh := 0; sh < r.s.nShards; sh++ {
				if setNonEmpty(r.mseries(sh, int(oldID))) {
					setUsed(k, oldID)
				}
			}
		case "field", "tagkey":
			sc, ok := schemas[k.scope]
			if !ok {
				mid, _ := strconv.Atoi(k.scope)
				sc = r.schema(mid)
				schemas[k.scope] = sc
			}
			if id, ok := schemaFind(sc, k.kind, k.name); ok {
				confirm(k, oldID, id)
			}
			if k.kind == "tagkey" {
				for sh := 0; sh < r.s.nShards; sh++ {
					if setNonEmpty(r.tkseries(sh, int(oldID))) {
						setUsed(k, oldID)
					}
				}
			}
		case "tagvalue":
			tk, _ := strconv.Atoi(k.scope)
			v, _ := strconv.Atoi(k.name)
			if id, ok := parseID(r.findTV(tk, v)); ok {
				confirm(k, oldID, id)
			}
			for sh := 0; sh < r.s.nShards; sh++ {
				if setNonEmpty(r.tvseries(sh, int(oldID))) {
					setUsed(k, oldID)
				}
			}
		case "series":
			x := r.seriesSeen[k]
			if setHas(r.mseries(x[0], x[1]), oldID) {
				setUsed(k, oldID)
			}
		}
	}
}

// schemaFind looks a field ("f") or tag key ("t") name up in a canonical schema line.
func schemaFind(sc, kind, name string) (uint32, bool) {
	if !strings.HasPrefix(sc, "f ") {
		return 0, false
	}
	parts := strings.SplitN(sc[2:], " t ", 2)
	if len(parts) != 2 {
		// "f a=0 t " trims to "f a=0 t"
		parts = []string{strings.TrimSuffix(sc[2:], " t"), ""}
	}
	sec := parts[0]
	if kind == "tagkey" {
		sec = parts[1]
	}
	for _, e := range strings.Split(strings.TrimSpace(sec), ",") {
		nv := strings.SplitN(e, "=", 2)
		if len(nv) == 2 && nv[0] == name {
			v, err := strconv.ParseUint(nv[1], 10, 32)
			return uint32(v), err == nil
		}
	}
	return 0, false
}

// ------------------------------------------------------------------ cases

const nWitness = 6

func (area) Run(c *core.Ctx) error {
	// every kv store opened from now on reports its edit-log commits (crash images inside a real Flush)
	lindbkv.VerifInstallCommitHook(func(storePath, family string, _ version.FamilyID, _ []version.Log) { onCommit(storePath, family) })
	for i := 0; i < c.N; i++ {
		if !c.Want(i) {
			continue
		}
		rng := c.Rng(i)
		c.Begin(i)
		db := fmt.Sprintf("c09-%d-%d", c.Seed, i)
		var err error
		func() {
			// a panic on this goroutine outside a guarded call (e.g. while the harness digests what lindb
			// handed back) ends the case, not the run
			defer func() {
				if e := recover(); e != nil {
					err = fmt.Errorf("panic outside a guarded call: %v", e)
				}
			}()
			switch i {
			case 0:
				err = witnessKVRace(c, db)
			case 1:
				err = witnessSchemaRace(c, db, "tagkey")
			case 2:
				err = witnessSchemaRace(c, db, "field")
			case 3:
				err = witnessUnsyncedCounter(c, db)
			case 4:
				err = witnessSeriesLimit(c, db)
			case 5:
				err = witnessSchemaFlushWindow(c, db)
			case 6:
				err = witnessLookupVsFlush(c, db)
			case 7:
				err = witnessFailedFlush(c, db)
			case 8:
				err = witnessSchemaCacheRace(c, db)
			case 9, 10, 11, 12:
				err = witnessIndexCommitCrash(c, db, i-9)
			case 13:
				err = witnessBucketCacheRace(c, db)
			case 14:
				err = witnessSchemaFlushFails(c, db)
			case 15:
				err = witnessCompaction(c, db)
			case 16:
				err = witnessMemdbRace(c, db)
			case 17:
				err = memdbBarrierRegion(c, db)
			case 18:
				err = witnessBigBucket(c, db)
			case 19:
				err = memdbWorkerRegion(c, db)
			case 20:
				err = bufReuseRegion(c, rng, db, true)
			case 21:
				err = bufReuseRegion(c, rng, db, false)
			case 22, 23, 24, 25:
				err = witnessIndexFlushFault(c, db, i-22)
			case 26:
				err = witnessNameLimits(c, db)
			case 27:
				err = witnessSeqCacheEvict(c, db)
			case 28:
				err = witnessBucketRelease(c, db)
			default:
				if rng.Intn(12) == 0 {
					err = bufReuseRegion(c, rng, db, false)
				} else {
					err = randomCase(c, rng, db)
				}
			}
		}()
		if err != nil {
			var he harnessError
			if errors.As(err, &he) {
				return fmt.Errorf("case %d: %w", i, err)
			}
			// lindb failed where it never does on the unchanged tree (open / recovery / flush error, panic):
			// the case is the failing input. (A panic has its own "panic" line already.)
			c.Fail("case-aborted", fmt.Sprintf("case %d could not go on: %v", i, err))
			c.Branch("case-aborted")
		}
		c.Flush()
	}
	return nil
}

func pick(rng *rand.Rand, xs []int, dflt int) int {
	if len(xs) == 0 || rng.Intn(8) == 0 {
		return rng.Intn(dflt + 1)
	}
	return xs[rng.Intn(len(xs))]
}

func randTags(rng *rand.Rand, nKeys, nVals int) []kv {
	n := rng.Intn(4)
	p := rng.Perm(nKeys)
	var t []kv
	for i := 0; i < n && i < nKeys; i++ {
		t = append(t, kv{p[i], rng.Intn(nVals)})
	}
	return t
}

// randomCase: a random sequential history of get-or-create calls of every kind over several shards
// sharing one metadata database, with prepare-flush / flush / crash-inside-a-flush / reopen / crash
// placed at random.
func randomCase(c *core.Ctx, rng *rand.Rand, db string) error {
	nShards := 1 + rng.Intn(3)
	r, err := newRunner(c, db, nShards, 0)
	if err != nil {
		return err
	}
	defer r.close()
	steps := 15 + rng.Intn(35)
	if c.Tier == "thorough" {
		steps = 20 + rng.Intn(100)
	}
	const nNS, nMetric, nKeys, nVals, nFields = 3, 5, 5, 6, 5
	// flushes become more likely in "flushy" cases so that several generations of files exist
	flushy := 1 + rng.Intn(3)
	// region: namespace / metric-name limits on (createFn of the two dictionaries refuses new names)
	limited := rng.Intn(8) == 0
	if limited {
		r.limits(1+rng.Intn(2), 1+rng.Intn(4))
		c.Branch("region-name-limits")
	}
	for st := 0; st < steps && r.err == nil; st++ {
		k := rng.Intn(100)
		switch {
		case k < 18:
			r.metric(rng.Intn(nNS), rng.Intn(nMetric))
		case k < 26:
			r.field(pick(rng, r.metricIDs, 6), rng.Intn(nFields))
		case k < 34:
			r.tagKey(pick(rng, r.metricIDs, 6), rng.Intn(nKeys))
		case k < 42:
			r.tagValue(pick(rng, r.tagKeyIDs, 6), rng.Intn(nVals))
		case k < 62:
			// what an index worker does for one row: metric id, then series id
			ns, name := rng.Intn(nNS), rng.Intn(nMetric)
			if len(r.seriesArgs) > 0 && rng.Intn(5) == 0 {
				// a metric that has series in a shard (so, most of the time, an entry in that shard's sequence
				// cache) is dropped by the LRU; the next rows of that metric bring (mostly new) tag sets
				ks := sortedSeriesKeys(r.seriesArgs)
				a := r.seriesArgs[ks[rng.Intn(len(ks))]]
				r.ievict(a.shard, a.metricID)
				r.series(a.shard, a.ns, a.name, a.metricID, randTags(rng, nKeys, nVals))
				r.series(a.shard, a.ns, a.name, a.metricID, randTags(rng, nKeys, nVals))
			} else if id, ok := r.metric(ns, name); ok {
				sh := rng.Intn(nShards)
				if rng.Intn(4) == 0 {
					// the LRU sequence cache has dropped the metric by the time the row arrives
					r.ievict(sh, int(id))
				}
				r.series(sh, ns, name, int(id), randTags(rng, nKeys, nVals))
			}
		case k < 62+4*flushy:
			switch rng.Intn(4) {
			case 0:
				r.mprepare()
			case 1:
				r.mflush()
			default: // what the metadata worker does on a FlushEvent
				r.mprepare()
				r.mflush()
			}
		case k < 62+8*flushy:
			sh := rng.Intn(nShards)
			switch rng.Intn(4) {
			case 0:
				r.iprepare(sh)
			case 1:
				r.iflush(sh)
			default:
				r.iprepare(sh)
				r.iflush(sh)
			}
		case k < 88:
			switch rng.Intn(4) {
			case 0:
				r.getMetric(rng.Intn(nNS), rng.Intn(nMetric))
			case 1:
				r.schema(pick(rng, r.metricIDs, 6))
			case 2:
				r.mseries(rng.Intn(nShards), pick(rng, r.metricIDs, 6))
			default:
				r.findTV(pick(rng, r.tagKeyIDs, 6), rng.Intn(nVals))
			}
		case k < 91:
			// mostly the realistic shape: PrepareFlush, some more names, then the flush fails
			if w := rng.Intn(5); w == 0 {
				r.mcompact()
			} else if w == 1 {
				r.icompact(rng.Intn(nShards))
			} else if w == 2 {
				if rng.Intn(3) != 0 {
					r.field(pick(rng, r.metricIDs, 6), rng.Intn(nFields))
					r.mprepare()
				}
				r.mflushfails()
			} else if w == 3 {
				if rng.Intn(3) != 0 {
					r.mprepare()
					r.metric(rng.Intn(nNS), rng.Intn(nMetric))
				}
				r.mflushfail()
			} else if rng.Intn(3) == 0 {
				sh := rng.Intn(nShards)
				if rng.Intn(3) != 0 {
					r.iprepare(sh)
				}
				r.iflushfail(sh)
			} else {
				// fault placement per flush STEP x crash / reopen / retry x new series afterwards
				sh := rng.Intn(nShards)
				if rng.Intn(4) != 0 {
					r.iprepare(sh)
				}
				r.iflushfault(sh, rng.Intn(4))
				switch rng.Intn(5) {
				case 0:
					r.crash()
				case 1:
					r.reopen()
				case 2: // the retry round (what the next FlushEvent does), then the crash
					r.iprepare(sh)
					r.iflush(sh)
					r.crash()
				case 3: // a second fault somewhere else before the retry
					r.iprepare(sh)
					r.iflushfault(sh, rng.Intn(4))
				}
				if r.err == nil && rng.Intn(2) == 0 {
					r.seriesAudit()
				}
			}
		case k < 92:
			r.reopen()
		case k < 94:
			r.crash()
		case k < 97:
			if rng.Intn(2) == 0 {
				r.mprepare()
			}
			r.mflushcrash(rng.Intn(6))
		default:
			sh := rng.Intn(nShards)
			if rng.Intn(2) == 0 {
				r.iprepare(sh)
			}
			if rng.Intn(2) == 0 {
				r.iflushcrash(sh, rng.Intn(5))
			} else {
				r.iflushimg(sh, rng.Intn(4))
			}
		}
	}
	// rare region: run one metric into the tag-key / field limits
	if r.err == nil && rng.Intn(12) == 0 {
		mid := pick(rng, r.metricIDs, 6)
		if rng.Intn(2) == 0 {
			for k := 100; k < 136; k++ {
				r.tagKey(mid, k)
			}
			c.Branch("region-tagkey-limit")
		} else {
			for f := 100; f < 358; f++ {
				r.field(mid, f)
			}
			c.Branch("region-field-limit")
		}
	}
	// end of case: everything is looked up once more on a reopened node, and every metric gets one more
	// series before all its known tag sets are asked for again
	if r.err == nil {
		r.reopen()
	}
	if r.err == nil {
		r.seriesAudit()
	}
	return r.err
}

func sortedInts(m map[int]bool) []int {
	var xs []int
	for k := range m {
		xs = append(xs, k)
	}
	sort.Ints(xs)
	return xs
}
