package c09

import (
	"fmt"
	"sort"
	"strconv"
	"strings"

	"github.com/lindb/lindb/zzverif/internal/core"
)

// The impl-side oracle: C09 evaluated on what the real code returned.
//
//   stable     a name's id never changes within one run of the node (between two recoveries);
//   injective  two names of one kind and scope never share an id;
//   recover    a name found after reopen / crash recovery has the id it had before;
//   fresh      a name created after recovery never gets an id that a recovered dictionary or a
//              recovered index entry (metric->series, tag value->series, tag key->series)
//              still uses for another name of the same kind and scope.
//
// Kinds and scopes: metric (scope = namespace), field (metric id), tagkey (metric id),
// tagvalue (tag key id), series (shard/metric id; the name is the tag set).
// Namespace ids are not observable through the API; they are covered by the model diff only.

type nameKey struct{ kind, scope, name string }

func (k nameKey) ks() string { return k.kind + "|" + k.scope }

type oracle struct {
	c     *core.Ctx
	tag   string                       // prefix of every failure key (witness cases name the shape they replay)
	live  map[nameKey]uint32           // ids handed out or confirmed by lookup since the last recovery
	owner map[string]map[uint32]string // kind|scope -> id -> name (same epoch)
	used  map[string]map[uint32]string // kind|scope -> id -> name still used by recovered index entries
	// ids of counter-allocated kinds observed before the last completed Sequence.Sync: those are
	// below the counter in the mmap page whatever happens later.
	synced   map[string]map[uint32]bool // kind -> id
	observed map[string]map[uint32]bool // kind -> id (all ids seen so far)
}

func newOracle(c *core.Ctx) *oracle {
	return &oracle{c: c, live: map[nameKey]uint32{}, owner: map[string]map[uint32]string{}, used: map[string]map[uint32]string{},
		synced: map[string]map[uint32]bool{}, observed: map[string]map[uint32]bool{}}
}

func counterKind(kind string) bool { return kind == "metric" || kind == "tagkey" || kind == "tagvalue" }

// observe records one completed get-or-create and checks stable / injective / fresh.
func (o *oracle) observe(k nameKey, id uint32, op string) {
	prev, seen := o.live[k]
	if seen && prev != id {
		o.c.Fail(o.tag+"stable-"+k.kind, fmt.Sprintf("%s: %s %s/%s had id %d, now %d", op, k.kind, k.scope, k.name, prev, id))
	}
	ks := k.ks()
	if other, ok := o.owner[ks][id]; ok && other != k.name {
		o.c.Fail(o.tag+"injective-"+k.kind, fmt.Sprintf("%s: %s scope %s: id %d given to %s and to %s", op, k.kind, k.scope, id, other, k.name))
	}
	if !seen {
		if other, ok := o.used[ks][id]; ok && other != k.name {
			key := "fresh-" + k.kind
			if counterKind(k.kind) && !o.synced[k.kind][id] {
				// the id lies above the counter value that had reached the sequence file
				key += "-id-above-synced-counter"
			}
			o.c.Fail(o.tag+key, fmt.Sprintf("%s: new %s %s/%s got id %d, which recovered index entries still use for %s", op, k.kind, k.scope, k.name, id, other))
		}
	}
	o.live[k] = id
	if o.owner[ks] == nil {
		o.owner[ks] = map[uint32]string{}
	}
	if _, ok := o.owner[ks][id]; !ok {
		o.owner[ks][id] = k.name
	}
	if counterKind(k.kind) {
		if o.observed[k.kind] == nil {
			o.observed[k.kind] = map[uint32]bool{}
		}
		o.observed[k.kind][id] = true
	}
}

// syncDone: Sequence.Sync() completed — every id handed out so far is below the persisted counter.
func (o *oracle) syncDone() {
	for kind, ids := range o.observed {
		if o.synced[kind] == nil {
			o.synced[kind] = map[uint32]bool{}
		}
		for id := range ids {
			o.synced[kind][id] = true
		}
	}
}

func sortedKeys(m map[nameKey]uint32) []nameKey {
	ks := make([]nameKey, 0, len(m))
	for k := range m {
		ks = append(ks, k)
	}
	sort.Slice(ks, func(i, j int) bool {
		a, b := ks[i], ks[j]
		if a.kind != b.kind {
			return a.kind < b.kind
		}
		if a.scope != b.scope {
			return a.scope < b.scope
		}
		return a.name < b.name
	})
	return ks
}

func parseID(out string) (uint32, bool) {
	if !strings.HasPrefix(out, "id ") {
		return 0, false
	}
	v, err := strconv.ParseUint(out[3:], 10, 32)
	return uint32(v), err == nil
}

func setNonEmpty(out string) bool { return strings.HasPrefix(out, "set ") }

func setHas(out string, id uint32) bool {
	if !strings.HasPrefix(out, "set") {
		return false
	}
	for _, w := range strings.Fields(out)[1:] {
		if w == strconv.FormatUint(uint64(id), 10) {
			return true
		}
	}
	return false
}
