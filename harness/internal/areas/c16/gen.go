// Package c16 is the correspondence stream "ingest" of property C16: it runs lindb's real
// ingestion code (proto converter, flat decoder, influx line parser, broker batch iterators,
// databaseChannel.Write) on generated metrics and batches and mirrors every operation in the C16
// line protocol of the Lean model driver.
package c16

import (
	"encoding/hex"
	"fmt"
	"math"
	"math/rand"
	"strconv"
	"strings"

	flatbuffers "github.com/google/flatbuffers/go"
	"github.com/lindb/common/proto/gen/v1/flatMetricsV1"
	protoMetricsV1 "github.com/lindb/common/proto/gen/v1/linmetrics"
)

// ---------------------------------------------------------------- logical metrics

type fval struct {
	kind int // 0 number (integer valued), 1 NaN, 2 +Inf, 3 -Inf
	n    int64
}

func (v fval) float() float64 {
	switch v.kind {
	case 1:
		return math.NaN()
	case 2:
		return math.Inf(1)
	case 3:
		return math.Inf(-1)
	}
	return float64(v.n)
}

func (v fval) String() string {
	switch v.kind {
	case 1:
		return "nan"
	case 2:
		return "+inf"
	case 3:
		return "-inf"
	}
	return strconv.FormatInt(v.n, 10)
}

func showFloat(f float64) string {
	switch {
	case math.IsNaN(f):
		return "nan"
	case math.IsInf(f, 1):
		return "+inf"
	case math.IsInf(f, -1):
		return "-inf"
	case f == math.Trunc(f) && math.Abs(f) < 1e15:
		return strconv.FormatInt(int64(f), 10)
	}
	return "float(" + strconv.FormatFloat(f, 'g', -1, 64) + ")"
}

type ltag struct{ k, v string }

type lfield struct {
	name string
	typ  int32
	val  fval
}

type lcompound struct {
	min, max, sum, count fval
	values, bounds       []fval
}

// lmetric is a metric independent of its wire format. nil entries of tags / fields are nil
// pointers in the protobuf form.
type lmetric struct {
	isNil  bool
	name   string
	ns     string
	ts     int64
	tags   []*ltag
	fields []*lfield
	cf     *lcompound
}

func (m *lmetric) clone() *lmetric {
	c := *m
	c.tags = append([]*ltag(nil), m.tags...)
	c.fields = append([]*lfield(nil), m.fields...)
	return &c
}

type limits struct {
	maxName, maxField, maxTagKey, maxTagVal, maxTags, maxFields int
	isDefault                                                   bool
}

type cfg struct {
	lim      limits
	reqNs    string
	enriched []ltag
}

// ---------------------------------------------------------------- line protocol encoding

func hx(s string) string {
	if s == "" {
		return "-"
	}
	return hex.EncodeToString([]byte(s))
}

func encFList(xs []fval) string {
	if len(xs) == 0 {
		return "_"
	}
	p := make([]string, len(xs))
	for i, x := range xs {
		p[i] = x.String()
	}
	return strings.Join(p, ";")
}

func (m *lmetric) enc() string {
	if m.isNil {
		return "nil"
	}
	tags := "-"
	if len(m.tags) > 0 {
		p := make([]string, len(m.tags))
		for i, t := range m.tags {
			if t == nil {
				p[i] = "nil"
			} else {
				p[i] = hx(t.k) + ":" + hx(t.v)
			}
		}
		tags = strings.Join(p, ",")
	}
	fs := "-"
	if len(m.fields) > 0 {
		p := make([]string, len(m.fields))
		for i, f := range m.fields {
			if f == nil {
				p[i] = "nil"
			} else {
				p[i] = fmt.Sprintf("%s:%d:%s", hx(f.name), f.typ, f.val)
			}
		}
		fs = strings.Join(p, ",")
	}
	cf := "-"
	if m.cf != nil {
		cf = fmt.Sprintf("%s:%s:%s:%s:%s:%s", m.cf.min, m.cf.max, m.cf.sum, m.cf.count, encFList(m.cf.values), encFList(m.cf.bounds))
	}
	return fmt.Sprintf("n=%s ns=%s ts=%d tags=%s f=%s cf=%s", hx(m.name), hx(m.ns), m.ts, tags, fs, cf)
}

func (c *cfg) enc() string {
	l := "default"
	if !c.lim.isDefault {
		l = fmt.Sprintf("%d %d %d %d %d %d", c.lim.maxName, c.lim.maxField, c.lim.maxTagKey, c.lim.maxTagVal, c.lim.maxTags, c.lim.maxFields)
	}
	enr := "-"
	if len(c.enriched) > 0 {
		p := make([]string, len(c.enriched))
		for i, t := range c.enriched {
			p[i] = hx(t.k) + ":" + hx(t.v)
		}
		enr = strings.Join(p, ",")
	}
	return fmt.Sprintf("cfg %s %s %s", l, hx(c.reqNs), enr)
}

// ---------------------------------------------------------------- wire formats

func (m *lmetric) toProto() *protoMetricsV1.Metric {
	if m.isNil {
		return nil
	}
	p := &protoMetricsV1.Metric{Name: m.name, Namespace: m.ns, Timestamp: m.ts}
	for _, t := range m.tags {
		if t == nil {
			p.Tags = append(p.Tags, nil)
		} else {
			p.Tags = append(p.Tags, &protoMetricsV1.KeyValue{Key: t.k, Value: t.v})
		}
	}
	for _, f := range m.fields {
		if f == nil {
			p.SimpleFields = append(p.SimpleFields, nil)
		} else {
			p.SimpleFields = append(p.SimpleFields, &protoMetricsV1.SimpleField{Name: f.name, Type: protoMetricsV1.SimpleFieldType(f.typ), Value: f.val.float()})
		}
	}
	if m.cf != nil {
		c := &protoMetricsV1.CompoundField{Min: m.cf.min.float(), Max: m.cf.max.float(), Sum: m.cf.sum.float(), Count: m.cf.count.float()}
		for _, v := range m.cf.values {
			c.Values = append(c.Values, v.float())
		}
		for _, b := range m.cf.bounds {
			c.ExplicitBounds = append(c.ExplicitBounds, b.float())
		}
		p.CompoundField = c
	}
	return p
}

// flatExpressible: no nil pointers (a flat row has none).
func (m *lmetric) flatExpressible() bool {
	if m.isNil {
		return false
	}
	for _, t := range m.tags {
		if t == nil {
			return false
		}
	}
	for _, f := range m.fields {
		if f == nil {
			return false
		}
	}
	return true
}

// toFlatRaw serialises the metric as a size-prefixed flat row exactly as sent — no validation,
// no sorting, no de-duplication (a client-side RowBuilder would do those; the broker must not rely on it).
func (m *lmetric) toFlatRaw() []byte {
	b := flatbuffers.NewBuilder(1024)
	var kvs, fields []flatbuffers.UOffsetT
	for _, t := range m.tags {
		k := b.CreateString(t.k)
		v := b.CreateString(t.v)
		flatMetricsV1.KeyValueStart(b)
		flatMetricsV1.KeyValueAddKey(b, k)
		flatMetricsV1.KeyValueAddValue(b, v)
		kvs = append(kvs, flatMetricsV1.KeyValueEnd(b))
	}
	for _, f := range m.fields {
		n := b.CreateString(f.name)
		flatMetricsV1.SimpleFieldStart(b)
		flatMetricsV1.SimpleFieldAddName(b, n)
		flatMetricsV1.SimpleFieldAddType(b, flatMetricsV1.SimpleFieldType(f.typ))
		flatMetricsV1.SimpleFieldAddValue(b, f.val.float())
		fields = append(fields, flatMetricsV1.SimpleFieldEnd(b))
	}
	flatMetricsV1.MetricStartKeyValuesVector(b, len(kvs))
	for i := len(kvs) - 1; i >= 0; i-- {
		b.PrependUOffsetT(kvs[i])
	}
	kvv := b.EndVector(len(kvs))
	flatMetricsV1.MetricStartSimpleFieldsVector(b, len(fields))
	for i := len(fields) - 1; i >= 0; i-- {
		b.PrependUOffsetT(fields[i])
	}
	fv := b.EndVector(len(fields))
	var cf flatbuffers.UOffsetT
	if m.cf != nil {
		flatMetricsV1.CompoundFieldStartValuesVector(b, len(m.cf.values))
		for i := len(m.cf.values) - 1; i >= 0; i-- {
			b.PrependFloat64(m.cf.values[i].float())
		}
		vs := b.EndVector(len(m.cf.values))
		flatMetricsV1.CompoundFieldStartExplicitBoundsVector(b, len(m.cf.bounds))
		for i := len(m.cf.bounds) - 1; i >= 0; i-- {
			b.PrependFloat64(m.cf.bounds[i].float())
		}
		bs := b.EndVector(len(m.cf.bounds))
		flatMetricsV1.CompoundFieldStart(b)
		flatMetricsV1.CompoundFieldAddCount(b, m.cf.count.float())
		flatMetricsV1.CompoundFieldAddSum(b, m.cf.sum.float())
		flatMetricsV1.CompoundFieldAddMin(b, m.cf.min.float())
		flatMetricsV1.CompoundFieldAddMax(b, m.cf.max.float())
		flatMetricsV1.CompoundFieldAddValues(b, vs)
		flatMetricsV1.CompoundFieldAddExplicitBounds(b, bs)
		cf = flatMetricsV1.CompoundFieldEnd(b)
	}
	name := b.CreateString(m.name)
	ns := b.CreateString(m.ns)
	flatMetricsV1.MetricStart(b)
	flatMetricsV1.MetricAddNamespace(b, ns)
	flatMetricsV1.MetricAddName(b, name)
	flatMetricsV1.MetricAddTimestamp(b, m.ts)
	flatMetricsV1.MetricAddKeyValues(b, kvv)
	flatMetricsV1.MetricAddSimpleFields(b, fv)
	if cf != 0 {
		flatMetricsV1.MetricAddCompoundField(b, cf)
	}
	b.FinishSizePrefixed(flatMetricsV1.MetricEnd(b))
	return append([]byte(nil), b.FinishedBytes()...)
}

var influxSuffix = map[int32]string{1: "last", 2: "sum", 5: "first"}

// Line-protocol escaping, derived from the unchanged parser (ingestion/influx/parser.go):
//   - the scanner (walkToUnescapedChar) treats a delimiter as escaped iff the run of backslashes
//     directly before it is ODD; measurement delimiters are ',' and ' ', tag key/value and field key
//     delimiters are ',' ' ' '=';
//   - unescape (unescapeMetricName / unescapeTag) only turns `\<delimiter>` into `<delimiter>`;
//     every other backslash (also `\\`) is kept literally.
//
// So the text of a string is the string with one backslash put before each delimiter character, and
// a string is REPRESENTABLE iff every backslash run that directly precedes a delimiter character of
// the string, and the run at the end of the string (a structural delimiter follows), is EVEN:
// then each delimiter of the string ends up behind an odd run (escaped) and the structural one
// behind an even run (a real delimiter).
func influxEscape(s string, delims string) string {
	var sb strings.Builder
	for i := 0; i < len(s); i++ {
		if strings.IndexByte(delims, s[i]) >= 0 {
			sb.WriteByte('\\')
		}
		sb.WriteByte(s[i])
	}
	return sb.String()
}

func influxRepresentable(s string, delims string) bool {
	if s == "" || strings.ContainsAny(s, "\n\r") {
		return false
	}
	run := 0
	for i := 0; i < len(s); i++ {
		switch {
		case s[i] == '\\':
			run++
		case strings.IndexByte(delims, s[i]) >= 0:
			if run%2 == 1 {
				return false
			}
			run = 0
		default:
			run = 0
		}
	}
	return run%2 == 0
}

const (
	influxNameDelims = ", "
	influxTagDelims  = ", ="
)

// toInflux renders the metric as one influx line (precision ms) when the line protocol can say
// it: no histogram, at least one field, field types Last/Sum/First named with the matching suffix,
// integer values, representable strings (see above), measurement not starting with '#'.
func (m *lmetric) toInflux() (string, bool) { return m.toInfluxSp(nil) }

// toInfluxSp: like toInflux; non-finite field values are written with spell (nil: not renderable).
func (m *lmetric) toInfluxSp(spell func(fval) string) (string, bool) {
	if m.isNil || m.cf != nil || len(m.fields) == 0 || m.name == "" || m.ts < 0 {
		return "", false
	}
	if !influxRepresentable(m.name, influxNameDelims) || strings.HasPrefix(m.name, "#") {
		return "", false
	}
	var sb strings.Builder
	sb.WriteString(influxEscape(m.name, influxNameDelims))
	for _, t := range m.tags {
		if t == nil || !influxRepresentable(t.k, influxTagDelims) || !influxRepresentable(t.v, influxTagDelims) {
			return "", false
		}
		sb.WriteString("," + influxEscape(t.k, influxTagDelims) + "=" + influxEscape(t.v, influxTagDelims))
	}
	sb.WriteString(" ")
	for i, f := range m.fields {
		if f == nil || !influxRepresentable(f.name, influxTagDelims) || f.val.kind != 0 && spell == nil {
			return "", false
		}
		suf, ok := influxSuffix[f.typ]
		if !ok || !strings.HasSuffix(f.name, suf) {
			return "", false
		}
		if i > 0 {
			sb.WriteString(",")
		}
		if f.val.kind != 0 {
			sb.WriteString(influxEscape(f.name, influxTagDelims) + "=" + spell(f.val))
		} else {
			sb.WriteString(influxEscape(f.name, influxTagDelims) + "=" + strconv.FormatInt(f.val.n, 10))
		}
	}
	if m.ts != 0 {
		sb.WriteString(" " + strconv.FormatInt(m.ts, 10))
	}
	return sb.String(), true
}

// genEscStr: a short string made of letters, unicode, quotes, delimiter characters and backslash
// runs of length 1..4 (before delimiters, before ordinary characters, at the end); with fix it is
// made representable by lengthening every odd run that matters by one backslash.
func genEscStr(r *rand.Rand, delims string, fix bool) string {
	chunks := []string{"a", "b", "C:", "x1", "é", "键", "\"", ",", " ", "=", ",", " ", "="}
	var sb strings.Builder
	sb.WriteString(chunks[r.Intn(6)])
	for n := 1 + r.Intn(4); n > 0; n-- {
		if r.Intn(2) == 0 {
			sb.WriteString(strings.Repeat("\\", 1+r.Intn(4)))
		}
		sb.WriteString(chunks[r.Intn(len(chunks))])
	}
	if r.Intn(3) == 0 {
		sb.WriteString(strings.Repeat("\\", 1+r.Intn(4)))
	}
	s := sb.String()
	if !fix {
		return s
	}
	var out strings.Builder
	run := 0
	for i := 0; i < len(s); i++ {
		if s[i] == '\\' {
			run++
		} else {
			if strings.IndexByte(delims, s[i]) >= 0 && run%2 == 1 {
				out.WriteByte('\\')
			}
			run = 0
		}
		out.WriteByte(s[i])
	}
	if run%2 == 1 {
		out.WriteByte('\\')
	}
	return out.String()
}

// ---------------------------------------------------------------- generators

var keyPool = []string{"host", "dc", "zone", "app", "a", "b", "ab", "a b", "k,1", "k=2", "ключ", "键", "é", "z", "Host", "ho", "hostname", "ip", "az", "pod"}
var valPool = []string{"1", "2", "h1", "eu-west", "a=b", "x,y", "v w", "значение", "值", "üñí", "|pipe|", "0", "long-value-long-value-long-value-0123456789", "\"q\"", "tab\tx", "back\\slash"}
var fieldPool = []string{"f", "count_sum", "v_last", "t_first", "HistogramSum", "Histogram", "__bucket_1", "__bucket_+Inf", "max", "min", "lat|ency", "поле", "x sum", "cpu.user_last"}
var namePool = []string{"cpu", "mem.used", "a|b", "disk io", "net,rx", "метрика", "指标", "x", "lindb.ingest.rows"}
var nsPool = []string{"", "ns", "default-ns", "n|s", "prod", "空间"}

func pick(r *rand.Rand, xs []string) string { return xs[r.Intn(len(xs))] }

func genStr(r *rand.Rand, n int) string {
	const al = "abcdefghijklmnopqrstuvwxyz0123456789_-"
	b := make([]byte, n)
	for i := range b {
		b[i] = al[r.Intn(len(al))]
	}
	return string(b)
}

func num(n int64) fval { return fval{n: n} }

func genFVal(r *rand.Rand, special int) fval {
	if r.Intn(100) < special {
		return fval{kind: 1 + r.Intn(3)}
	}
	return num(int64(r.Intn(2001) - 200))
}

// genCompound produces a mostly valid histogram (bad is the per-mille rate of each defect).
func genCompound(r *rand.Rand, bad int) *lcompound {
	n := 3 + r.Intn(4)
	if r.Intn(1000) < bad*3 {
		n = r.Intn(3) // 0,1,2 buckets: rejected by the proto path
	}
	c := &lcompound{min: num(int64(r.Intn(5))), max: num(int64(10 + r.Intn(90))), sum: num(int64(r.Intn(1000))), count: num(int64(r.Intn(100)))}
	b := int64(r.Intn(3))
	for i := 0; i < n; i++ {
		c.values = append(c.values, num(int64(r.Intn(50))))
		if i == n-1 {
			c.bounds = append(c.bounds, fval{kind: 2})
		} else {
			c.bounds = append(c.bounds, num(b))
			b += int64(r.Intn(10)) // equal neighbours are allowed
		}
	}
	hit := func() bool { return r.Intn(1000) < bad }
	if hit() && n > 0 {
		c.values[r.Intn(n)] = fval{kind: 1 + r.Intn(3)} // NaN / ±Inf bucket value
	}
	if hit() && n > 0 {
		c.values[r.Intn(n)] = num(-1 - int64(r.Intn(5)))
	}
	if hit() && n > 1 {
		i := r.Intn(n - 1)
		c.bounds[i] = num(-3)
	}
	if hit() && n > 2 {
		c.bounds[0], c.bounds[1] = c.bounds[1], c.bounds[0] // may break the order
	}
	if hit() && n > 0 {
		c.bounds[n-1] = num(1000) // last bound not +Inf
	}
	if hit() {
		c.bounds = append(c.bounds, fval{kind: 2}) // length mismatch
	}
	if hit() {
		switch r.Intn(4) {
		case 0:
			c.min = genFVal(r, 60)
		case 1:
			c.max = num(-1)
		case 2:
			c.sum = fval{kind: 1}
		default:
			c.count = fval{kind: 3}
		}
	}
	return c
}

// genMetric: a structured, mostly valid metric. bad = per-mille rate of each kind of defect.
func genMetric(r *rand.Rand, bad int, ts int64) *lmetric {
	hit := func() bool { return r.Intn(1000) < bad }
	m := &lmetric{name: pick(r, namePool), ns: pick(r, nsPool), ts: ts}
	if hit() {
		m.name = ""
	}
	nt := r.Intn(6)
	if r.Intn(10) == 0 {
		nt = 6 + r.Intn(10)
	}
	keys := r.Perm(len(keyPool))
	for i := 0; i < nt; i++ {
		var k string
		if i < len(keys) {
			k = keyPool[keys[i]]
		} else {
			k = genStr(r, 1+r.Intn(6))
		}
		m.tags = append(m.tags, &ltag{k, pick(r, valPool)})
	}
	// duplicates: same key, same value (consistent) …
	if len(m.tags) > 0 && r.Intn(4) == 0 {
		for j := r.Intn(3) + 1; j > 0; j-- {
			t := m.tags[r.Intn(len(m.tags))]
			m.tags = append(m.tags, &ltag{t.k, t.v})
		}
	}
	// … or same key, different value (only while sort.Sort is still insertion sort: ≤ 12 tags)
	if len(m.tags) > 0 && len(m.tags) < 9 && r.Intn(5) == 0 {
		for j := r.Intn(2) + 1; j > 0; j-- {
			t := m.tags[r.Intn(len(m.tags))]
			m.tags = append(m.tags, &ltag{t.k, pick(r, valPool)})
		}
	}
	r.Shuffle(len(m.tags), func(i, j int) { m.tags[i], m.tags[j] = m.tags[j], m.tags[i] })
	// escape-heavy variant: names, keys and values with delimiter characters and backslash runs
	escHeavy := r.Intn(4) == 0
	if escHeavy {
		fix := r.Intn(8) != 0
		if r.Intn(2) == 0 {
			m.name = genEscStr(r, influxNameDelims, fix)
		}
		for _, t := range m.tags {
			if r.Intn(2) == 0 {
				t.k = genEscStr(r, influxTagDelims, fix)
			}
			if r.Intn(2) == 0 {
				t.v = genEscStr(r, influxTagDelims, fix)
			}
		}
	}
	if hit() && len(m.tags) > 0 {
		m.tags[r.Intn(len(m.tags))] = nil
	}
	if hit() && len(m.tags) > 0 {
		m.tags[r.Intn(len(m.tags))] = &ltag{"", "v"}
	}
	if hit() && len(m.tags) > 0 {
		m.tags[r.Intn(len(m.tags))] = &ltag{"k", ""}
	}
	nf := 1 + r.Intn(3)
	if r.Intn(8) == 0 {
		nf = 0
	}
	influxish := r.Intn(3) == 0 || escHeavy && r.Intn(4) != 0
	for i := 0; i < nf; i++ {
		f := &lfield{name: pick(r, fieldPool), typ: int32(1 + r.Intn(5)), val: num(int64(r.Intn(2001) - 200))}
		if influxish {
			f.typ = []int32{1, 2, 5}[r.Intn(3)]
			f.name = genStr(r, 1+r.Intn(4)) + "_" + influxSuffix[f.typ]
			if escHeavy && r.Intn(2) == 0 {
				f.name = genEscStr(r, influxTagDelims, true) + "_" + influxSuffix[f.typ]
			}
		}
		if hit() {
			f.typ = 0
		}
		if hit() {
			f.typ = int32(6 + r.Intn(3)) // outside the enum
		}
		if hit() {
			f.val = fval{kind: 1 + r.Intn(3)}
		}
		if hit() {
			f.name = ""
		}
		m.fields = append(m.fields, f)
	}
	if hit() && len(m.fields) > 0 {
		m.fields[r.Intn(len(m.fields))] = nil
	}
	if nf == 0 && !hit() || !influxish && r.Intn(5) == 0 {
		m.cf = genCompound(r, bad)
	}
	if hit() {
		m.isNil = true
	}
	return m
}

// consistent reports whether tags with the same key always carry the same value.
func consistent(tags []ltag) bool {
	seen := map[string]string{}
	for _, t := range tags {
		if v, ok := seen[t.k]; ok && v != t.v {
			return false
		}
		seen[t.k] = t.v
	}
	return true
}
