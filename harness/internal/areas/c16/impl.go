package c16

import (
	"bytes"
	"errors"
	"fmt"
	"io"
	"net/http"
	"net/url"
	"strings"

	"github.com/cespare/xxhash/v2"
	"github.com/lindb/common/pkg/fasttime"

	"github.com/lindb/lindb/constants"
	"github.com/lindb/lindb/ingestion/flat"
	"github.com/lindb/lindb/ingestion/influx"
	ingestproto "github.com/lindb/lindb/ingestion/proto"
	"github.com/lindb/lindb/models"
	"github.com/lindb/lindb/series/metric"
	"github.com/lindb/lindb/series/tag"

	protoMetricsV1 "github.com/lindb/common/proto/gen/v1/linmetrics"
)

func (l limits) real() *models.Limits {
	lm := models.NewDefaultLimits()
	if l.isDefault {
		return lm
	}
	lm.MaxMetricNameLength = l.maxName
	lm.MaxFieldNameLength = l.maxField
	lm.MaxTagNameLength = l.maxTagKey
	lm.MaxTagValueLength = l.maxTagVal
	lm.MaxTagsPerMetric = l.maxTags
	lm.MaxFieldsPerMetric = l.maxFields
	return lm
}

func (c *cfg) realEnriched() tag.Tags {
	var ts tag.Tags
	for _, t := range c.enriched {
		ts = append(ts, tag.NewTag([]byte(t.k), []byte(t.v)))
	}
	return ts
}

func errKind(err error) string {
	switch {
	case err == metric.ErrMetricPBNilMetric:
		return "nil-metric"
	case err == metric.ErrMetricPBEmptyMetricName:
		return "empty-name"
	case err == constants.ErrMetricNameTooLong:
		return "name-too-long"
	case err == metric.ErrMetricPBEmptyField:
		return "empty-field"
	case err == constants.ErrTooManyTagKeys:
		return "too-many-tags"
	case err == metric.ErrMetricEmptyTagKeyValue:
		return "empty-tag"
	case err == constants.ErrTagKeyTooLong:
		return "tag-key-too-long"
	case err == constants.ErrTagValueTooLong:
		return "tag-value-too-long"
	case err == constants.ErrTooManyFields:
		return "too-many-fields"
	case err == metric.ErrMetricEmptyFieldName:
		return "empty-field-name"
	case err == constants.ErrFieldNameTooLong:
		return "field-name-too-long"
	case err == metric.ErrMetricNanField:
		return "nan-field"
	case err == metric.ErrMetricInfField:
		return "inf-field"
	case err == metric.ErrBadMetricPBFormat:
		return "bad-format"
	case errors.Is(err, metric.ErrBadMetricPBFormat):
		return "bad-format-other"
	}
	return "other:" + err.Error()
}

// obs is what the accessors of a stored row say.
type obs struct {
	name, rawNs, ns string
	ts              int64
	tags            []ltag
	fields          []lfield // value kind 0 only when integer valued; otherwise see fraw
	fshow           []string
	cf              string
	hash, nameHash  uint64
	shards          [3]int // shard per shardCounts entry, from the real shard iterator (single-row batches only)
}

func (o *obs) line(sentTs, t0, t1 int64) string {
	ts := fmt.Sprint(o.ts)
	if sentTs == 0 && o.ts >= t0-2000 && o.ts <= t1+2000 {
		ts = "now"
	}
	tags := "-"
	if len(o.tags) > 0 {
		p := make([]string, len(o.tags))
		for i, t := range o.tags {
			p[i] = hx(t.k) + ":" + hx(t.v)
		}
		tags = strings.Join(p, ",")
	}
	fs := "-"
	if len(o.fshow) > 0 {
		fs = strings.Join(o.fshow, ",")
	}
	return fmt.Sprintf("ok n=%s ns=%s ts=%s tags=%s f=%s cf=%s hash=%d nhash=%d", hx(o.name), hx(o.rawNs), ts, tags, fs, o.cf, o.hash, o.nameHash)
}

// observe reads a BrokerRow the way the storage side does: WriteTo → StorageBatchRows.UnmarshalRows
// → StorageRow accessors; the BrokerRow's own accessors must say the same (returned as a mismatch text).
func observe(row *metric.BrokerRow) (*obs, string) {
	var buf bytes.Buffer
	if _, err := row.WriteTo(&buf); err != nil {
		return nil, "WriteTo: " + err.Error()
	}
	if buf.Len() == 0 {
		return nil, "WriteTo wrote nothing"
	}
	sb := metric.NewStorageBatchRows()
	sb.UnmarshalRows(buf.Bytes())
	if sb.Len() != 1 {
		return nil, fmt.Sprintf("UnmarshalRows gave %d rows", sb.Len())
	}
	sr := sb.Rows()[0]
	o := &obs{name: string(sr.Name()), ns: string(sr.NameSpace()), ts: sr.Timestamp(), hash: sr.TagsHash(), nameHash: sr.NameHash()}
	kv := sr.NewKeyValueIterator()
	for kv.HasNext() {
		o.tags = append(o.tags, ltag{string(kv.NextKey()), string(kv.NextValue())})
	}
	fi := sr.NewSimpleFieldIterator()
	for fi.HasNext() {
		o.fshow = append(o.fshow, fmt.Sprintf("%s:%d:%s", hx(string(fi.NextRawName())), int(fi.NextRawType()), showFloat(fi.NextValue())))
		o.fields = append(o.fields, lfield{name: string(fi.NextRawName()), typ: int32(fi.NextRawType())})
	}
	o.cf = "-"
	if ci, ok := sr.NewCompoundFieldIterator(); ok {
		var vs, bs []string
		for ci.HasNextBucket() {
			vs = append(vs, showFloat(ci.NextValue()))
			bs = append(bs, showFloat(ci.NextExplicitBound()))
		}
		j := func(x []string) string {
			if len(x) == 0 {
				return "_"
			}
			return strings.Join(x, ";")
		}
		o.cf = fmt.Sprintf("%s:%s:%s:%s:%s:%s", showFloat(ci.Min()), showFloat(ci.Max()), showFloat(ci.Sum()), showFloat(ci.Count()), j(vs), j(bs))
	}
	// the broker-side view of the same block
	bm := row.Metric()
	o.rawNs = string(bm.Namespace())
	var mism []string
	if string(bm.Name()) != o.name || bm.Timestamp() != o.ts || bm.KvsHash() != o.hash || bm.KeyValuesLength() != len(o.tags) || bm.SimpleFieldsLength() != len(o.fshow) {
		mism = append(mism, "BrokerRow.Metric() and StorageRow accessors disagree")
	}
	wantNs := o.rawNs
	if wantNs == "" {
		wantNs = "default-ns"
	}
	if o.ns != wantNs {
		mism = append(mism, fmt.Sprintf("StorageRow.NameSpace()=%q for stored namespace %q", o.ns, o.rawNs))
	}
	return o, strings.Join(mism, "; ")
}

func concatTags(ts []ltag) string {
	p := make([]string, len(ts))
	for i, t := range ts {
		p[i] = t.k + "=" + t.v
	}
	return strings.Join(p, ",")
}

func hashOfTags(ts []ltag) uint64 { return xxhash.Sum64String(concatTags(ts)) }

// convertProto runs the real converter on a fresh protobuf copy of m.
func convertProto(c *cfg, m *lmetric, row *metric.BrokerRow) (err error, t0, t1 int64) {
	cv, release := metric.NewBrokerRowProtoConverter([]byte(c.reqNs), c.realEnriched(), c.lim.real())
	defer release(cv)
	t0 = fasttime.UnixMilliseconds()
	err = cv.ConvertTo(m.toProto(), row)
	t1 = fasttime.UnixMilliseconds()
	return
}

// parseProtoBytes: the public entry point ingestion/proto.Parse on a marshalled MetricList.
func parseProtoBytes(c *cfg, ms []*lmetric) (*metric.BrokerBatchRows, error) {
	var ml protoMetricsV1.MetricList
	for _, m := range ms {
		ml.Metrics = append(ml.Metrics, m.toProto())
	}
	data, err := ml.Marshal()
	if err != nil {
		return nil, err
	}
	req := &http.Request{Header: http.Header{}, Body: io.NopCloser(bytes.NewReader(data)), URL: &url.URL{}}
	return ingestproto.Parse(req, c.realEnriched(), heapCopy(c.reqNs), c.lim.real())
}

// heapCopy: the flat and influx paths sanitize the request namespace IN PLACE through
// strutil.String2ByteSlice (RowBuilder.AddNameSpace → SanitizeNamespaceOrMetricName writes into the
// string's bytes); a namespace containing '|' that is backed by a string literal faults the
// process. In the server the namespace comes from the request (heap), so the harness does the same.
func heapCopy(s string) string { return string(append([]byte(nil), s...)) }

// parseFlat: ingestion/flat.ParseReader on raw flat rows.
func parseFlat(c *cfg, ms []*lmetric) (*metric.BrokerBatchRows, error) {
	var buf bytes.Buffer
	for _, m := range ms {
		buf.Write(m.toFlatRaw())
	}
	return flat.ParseReader(&buf, c.realEnriched(), heapCopy(c.reqNs), c.lim.real())
}

// parseInflux: ingestion/influx.Parse on line protocol text with precision=ms.
func parseInflux(c *cfg, ns string, lines []string) (*metric.BrokerBatchRows, error) {
	return parseInfluxP(c, ns, lines, "ms")
}

// parseInfluxP: the same with the request's precision parameter.
func parseInfluxP(c *cfg, ns string, lines []string, precision string) (*metric.BrokerBatchRows, error) {
	body := strings.Join(lines, "\n") + "\n"
	req := &http.Request{Header: http.Header{}, Body: io.NopCloser(strings.NewReader(body)), URL: &url.URL{RawQuery: "precision=" + precision}}
	return influx.Parse(req, c.realEnriched(), heapCopy(ns), c.lim.real())
}
