package c16

// Round 12:
//   - caseInfluxStream: a line-protocol REQUEST of several lines (valid lines, lines rejected at every
//     stage of parseInfluxLine — before any tag was added, after the tags, after the fields —, comment
//     lines) through the real influx.Parse, which builds every row in ONE shared commonseries.RowBuilder;
//     each line also alone. C16: an accepted metric's stored form does not depend on the other rows of
//     the batch, invalid metrics are rejected as a whole.
//   - caseDSTFamilies: the shard / family iterators with the process zone (time.Local) set to a zone
//     with daylight saving, rows around the 23-hour and 25-hour local days.

import (
	"fmt"
	"math/rand"
	"sort"
	"strconv"
	"strings"
	"time"
	_ "time/tzdata" // the harness must not depend on the machine's zoneinfo

	jump "github.com/lithammer/go-jump-consistent-hash"

	"github.com/lindb/lindb/pkg/timeutil"
	"github.com/lindb/lindb/series/metric"

	"github.com/lindb/lindb/zzverif/internal/core"
)

var influxLineTagKeys = []string{"host", "region", "rack", "k,1", "k=2", "sp ace", "ключ", "键", "leak", "zz"}

// genInfluxLineMetric: a metric that the line protocol can carry and every format accepts under default
// limits: unique measurement, 0-4 tags with pairwise distinct keys (none of them a request tag key),
// 1-3 typed fields.
func genInfluxLineMetric(r *rand.Rand, cf *cfg, idx int) *lmetric {
	m := &lmetric{name: pick(r, namePool) + ".L" + strconv.Itoa(idx), ns: "", ts: int64(1600000000000 + r.Int63n(200000000000))}
	enr := map[string]bool{}
	for _, e := range cf.enriched {
		enr[e.k] = true
	}
	perm := r.Perm(len(influxLineTagKeys))
	nt := r.Intn(5)
	for i := 0; i < nt; i++ {
		k := influxLineTagKeys[perm[i]]
		if enr[k] {
			continue
		}
		m.tags = append(m.tags, &ltag{k, pick(r, valPool)})
	}
	nf := 1 + r.Intn(3)
	if len(m.tags) == 0 {
		nf = 1 // recorded observation: a tagless line with ≥ 2 fields is rejected
	}
	used := map[string]bool{}
	for i := 0; i < nf; i++ {
		typ := []int32{1, 2, 5}[r.Intn(3)]
		name := genStr(r, 1+r.Intn(4)) + strconv.Itoa(i) + "_" + influxSuffix[typ]
		if used[name] {
			continue
		}
		used[name] = true
		m.fields = append(m.fields, &lfield{name: name, typ: typ, val: num(int64(r.Intn(2001) - 200))})
	}
	if _, ok := m.toInflux(); !ok {
		m.name = "cpu.L" + strconv.Itoa(idx)
		m.tags = []*ltag{{"host", "h" + strconv.Itoa(idx)}}
	}
	return m
}

// influxPrecisions: the request's precision parameter and the number of milliseconds (positive) or the
// number of units per millisecond (negative) of one unit — the harness's own table, from the line
// protocol's definition, not from lindb.
var influxPrecisions = []struct {
	name string
	unit int64
}{{"ms", 1}, {"ms", 1}, {"ms", 1}, {"ns", -1000000}, {"us", -1000}, {"s", 1000}, {"m", 60000}, {"h", 3600000}, {"S", 1000}, {"Ns", -1000000}}

// renderTs: the literal that stands for the millisecond timestamp ts (a multiple of the unit) in the given
// precision; finer precisions carry a random sub-millisecond remainder.
func renderTs(r *rand.Rand, ts int64, unit int64) string {
	if unit > 0 {
		return strconv.FormatInt(ts/unit, 10)
	}
	return strconv.FormatInt(ts*(-unit)+r.Int63n(-unit), 10)
}

type influxLine struct {
	kind string // ok | badts | strfields | badtags | comment   (what the scanning layer makes of it)
	m    *lmetric
	text string
}

// genInfluxLine: the line of a generated metric, valid or made invalid at a chosen stage.
func genInfluxLine(r *rand.Rand, cf *cfg, idx int, unit int64) influxLine {
	m := genInfluxLineMetric(r, cf, idx)
	if unit > 1 {
		m.ts -= m.ts % unit
	}
	l := genInfluxLineMs(r, cf, m)
	if unit != 1 {
		// the timestamp literal in the request's precision
		if sp := strings.LastIndex(l.text, " "); sp >= 0 && l.text[sp+1:] == strconv.FormatInt(m.ts, 10) {
			l.text = l.text[:sp+1] + renderTs(r, m.ts, unit)
		} else if strings.HasSuffix(l.text, strconv.FormatInt(m.ts, 10)+"x") {
			l.text = strings.TrimSuffix(l.text, strconv.FormatInt(m.ts, 10)+"x") + renderTs(r, m.ts, unit) + "x"
		}
	}
	return l
}

func genInfluxLineMs(r *rand.Rand, cf *cfg, m *lmetric) influxLine {
	spell := func(v fval) string { return nonFiniteSpellings[v.kind][map[int]int{1: 0, 2: 5, 3: 3}[v.kind]] } // NaN, Infinity, -Infinity
	line, _ := m.toInfluxSp(spell)
	sp1 := strings.LastIndex(line, " ")
	head, ts := line[:sp1], line[sp1+1:]
	switch d := r.Intn(20); {
	case d < 9:
		return influxLine{"ok", m, line}
	case d < 11: // rejected by parseTimestamp, after the tags and the fields went into the builder
		return influxLine{"badts", m, head + " " + ts + "x"}
	case d < 13: // only a string field: parseFields gives nothing, after the tags went into the builder
		sp0 := strings.LastIndex(head, " ")
		return influxLine{"strfields", m, head[:sp0] + ` msg="hello" ` + ts}
	case d < 15: // a NaN / ±Inf field after valid ones: AddSimpleField rejects it, the earlier fields are in the builder
		m.fields = append(m.fields, &lfield{name: "zz_last", typ: 1, val: fval{kind: 1 + r.Intn(3)}})
		line, _ = m.toInfluxSp(spell)
		return influxLine{"ok", m, line}
	case d < 16: // over-long field name after valid ones (when that limit is on)
		n := cf.lim.maxField
		if n <= 0 || n > 300 {
			return influxLine{"ok", m, line}
		}
		m.fields = append(m.fields, &lfield{name: strings.Repeat("w", n) + "_sum", typ: 2, val: num(3)})
		line, _ = m.toInflux()
		return influxLine{"ok", m, line}
	case d < 17: // more fields than allowed (when that limit is on): rejected after the tags went in
		n := cf.lim.maxFields
		if n <= 0 || n > 8 || len(m.tags) == 0 {
			return influxLine{"ok", m, line}
		}
		for i := len(m.fields); i <= n; i++ {
			m.fields = append(m.fields, &lfield{name: "x" + strconv.Itoa(i) + "_sum", typ: 2, val: num(int64(i))})
		}
		line, _ = m.toInflux()
		return influxLine{"ok", m, line}
	case d < 18: // tag section broken: rejected before any tag is added (control)
		sp0 := strings.LastIndex(head, " ")
		sec := head[:sp0]
		if len(m.tags) == 0 {
			return influxLine{"ok", m, line}
		}
		return influxLine{"badtags", m, sec + ",broken " + head[sp0+1:] + " " + ts}
	default:
		return influxLine{"comment", m, "# " + line}
	}
}

func caseInfluxStream(c *core.Ctx, r *rand.Rand) {
	cf := genCfg(r)
	if cf.reqNs == "" {
		cf.reqNs = []string{"ns", "prod", "n|s"}[r.Intn(3)]
	}
	ns := cf.reqNs
	n := 2 + r.Intn(7)
	prec := influxPrecisions[r.Intn(len(influxPrecisions))]
	var lines []influxLine
	for i := 0; i < n; i++ {
		lines = append(lines, genInfluxLine(r, cf, i, prec.unit))
	}
	c.Branch("influx-stream/precision-" + strings.ToLower(prec.name))
	c.Op(cf.enc(), "ok")
	// every line alone: what the line is stored as when nothing else is in the request
	alone := make([]string, n)
	for i, l := range lines {
		alone[i] = "rej"
		b, err := parseInfluxP(cf, ns, []string{l.text}, prec.name)
		if err != nil || b == nil {
			continue
		}
		switch b.Len() {
		case 0:
		case 1:
			if o, _ := observe(&b.Rows()[0]); o != nil {
				alone[i] = o.line(l.m.ts, 0, 0)
				checkIdentity(c, "influx", o)
				if o.ts != l.m.ts {
					c.Fail("influx-timestamp-not-as-sent", fmt.Sprintf("line %q with precision=%s stands for %d ms, stored timestamp %d", l.text, prec.name, l.m.ts, o.ts))
				}
				if sp := strings.LastIndex(l.text, " "); sp >= 0 {
					c.Op("its "+strings.ToLower(prec.name)+" "+l.text[sp+1:], strconv.FormatInt(o.ts, 10))
				}
			} else {
				alone[i] = "unreadable"
			}
		default:
			c.Fail("influx-line-stored-more-than-once", fmt.Sprintf("the single line %q gives %d rows", l.text, b.Len()))
		}
		if l.kind != "ok" && alone[i] != "rej" {
			c.Fail("influx-invalid-line-stored", fmt.Sprintf("line %q (%s) is stored as %s", l.text, l.kind, alone[i]))
		}
	}
	// the request: all lines at once, or two requests (the RowBuilder comes from a pool)
	cut := n
	if r.Intn(3) == 0 {
		cut = 1 + r.Intn(n-1)
	}
	for pi, part := range [][]influxLine{lines[:cut], lines[cut:]} {
		if len(part) == 0 {
			continue
		}
		off := 0
		if pi == 1 {
			off = cut
		}
		var texts []string
		for _, l := range part {
			texts = append(texts, l.text)
		}
		c.Op("inew", "ok")
		b, err := parseInfluxP(cf, ns, texts, prec.name)
		if err != nil || b == nil {
			c.Fail("influx-request-failed", fmt.Sprintf("request %q: %v", texts, err))
			return
		}
		rows := b.Rows()
		byName := map[string][]string{}
		var stored []string
		for k := range rows {
			o, mism := observe(&rows[k])
			if o == nil {
				c.Fail("row-unreadable", "influx stream: "+mism)
				continue
			}
			checkIdentity(c, "influx", o)
			byName[o.name] = append(byName[o.name], o.line(1, 0, 0))
			stored = append(stored, o.line(1, 0, 0))
		}
		var want []string
		prev := "(first line of the request)"
		for i, l := range part {
			a := alone[off+i]
			got := byName[sanitizeName(l.m.name)]
			out := "rej"
			if len(got) > 0 {
				out = got[0]
			}
			c.Op("iline "+l.kind+" "+l.m.enc(), out)
			c.Branch("influx-stream/" + l.kind + "/" + map[bool]string{true: "rejected", false: "stored"}[a == "rej"])
			switch {
			case len(got) > 1:
				c.Fail("influx-line-stored-more-than-once", fmt.Sprintf("line %q is stored %d times in request %q", l.text, len(got), texts))
			case a == "rej" && len(got) == 1:
				c.Fail("influx-invalid-line-stored-in-stream", fmt.Sprintf("line %q is rejected when sent alone but stored as %s in request %q", l.text, got[0], texts))
			case a != "rej" && len(got) == 0:
				c.Fail("influx-valid-line-dropped-in-stream", fmt.Sprintf("line %q is stored when sent alone (%s) but dropped in request %q", l.text, a, texts))
			case a != "rej" && got[0] != a:
				c.Fail("influx-row-depends-on-other-lines", fmt.Sprintf("line %q sent alone is stored as\n  %s\nafter line %q in one request (namespace %q, request tags %v) it is stored as\n  %s", l.text, a, prev, ns, cf.enriched, got[0]))
			}
			if a != "rej" {
				want = append(want, a)
			}
			prev = l.text
		}
		if len(stored) == len(want) {
			for k := range want {
				if stored[k] != want[k] {
					c.Fail("influx-rows-out-of-order", fmt.Sprintf("request %q: row %d is %s, expected %s", texts, k, stored[k], want[k]))
					break
				}
			}
		} else if len(stored) > len(want) {
			c.Fail("influx-rows-not-of-this-request", fmt.Sprintf("request %q stores %d rows, its accepted lines are %d", texts, len(stored), len(want)))
		}
		c.NonTrivial()
		b.Release()
	}
}

// ---------------------------------------------------------------- families on days that are not 24 hours long

type dstZone struct {
	name string
	// local days (y, m, d) on which the clock is moved
	days [][3]int
}

var dstZones = []dstZone{
	{"America/New_York", [][3]int{{2024, 3, 10}, {2024, 11, 3}, {2023, 3, 12}, {2023, 11, 5}}},
	{"Europe/Berlin", [][3]int{{2024, 3, 31}, {2024, 10, 27}, {2022, 3, 27}, {2022, 10, 30}}},
	{"Australia/Sydney", [][3]int{{2024, 4, 7}, {2024, 10, 6}}},
	{"America/Santiago", [][3]int{{2024, 4, 7}, {2024, 9, 8}}}, // the switch happens at local midnight
	{"Asia/Shanghai", [][3]int{{2024, 3, 10}}},                 // no daylight saving, not UTC
}

// independentFamily: the family of a timestamp from the interval's definition, computed with time.Date only
// (never with lindb's calculators): storage interval < 5m → one family per local hour; < 1h → one per
// local day; otherwise one per local month. Returns [start, end] in ms.
func independentFamily(iv timeutil.Interval, ts int64, loc *time.Location) (start, end int64) {
	t := time.UnixMilli(ts).In(loc)
	var a, b time.Time
	switch iv.Type() {
	case timeutil.Day:
		// an hour of the wall clock may exist twice / not at all: take the absolute hour the instant is in
		a = t.Truncate(time.Hour)
		b = a.Add(time.Hour)
	case timeutil.Month:
		a = time.Date(t.Year(), t.Month(), t.Day(), 0, 0, 0, 0, loc)
		b = time.Date(t.Year(), t.Month(), t.Day()+1, 0, 0, 0, 0, loc)
	default:
		a = time.Date(t.Year(), t.Month(), 1, 0, 0, 0, 0, loc)
		b = time.Date(t.Year(), t.Month()+1, 1, 0, 0, 0, 0, loc)
	}
	return a.UnixMilli(), b.UnixMilli() - 1
}

// keyNoMidnight: recorded finding (round 12). In a zone that moves the clock AT local midnight
// (America/Santiago, Havana, Beirut, …) the day of the switch to summer time has no 00:00. For a
// month-type interval (5m..59m) month.CalcFamilyEndTime computes time.Date(y, m, d+1, 0, …) from the
// family START, which time.Date already normalised to 23:00 of the day before — so "d+1 00:00" is
// that same instant again, the range is [start, start-1], no timestamp is inside it, HasNextFamily
// stops: every row of that local day (and the rest of the shard group) is silently not written.
const keyNoMidnight = "month-family-of-a-local-day-without-midnight-has-an-empty-range-rows-not-written"

// keyBeforeNoMidnight: the same time.Date(y, m, d+1, 0, …) seen from the day BEFORE: the end of that day's
// family is computed as "one ms before the next local midnight", the next midnight does not exist and is
// normalised to 23:00 of this day — the range ends an hour early, a row of the last local hour is not
// inside the range computed from its own timestamp and HasNextFamily stops at it.
const keyBeforeNoMidnight = "month-family-before-a-local-day-without-midnight-ends-an-hour-early-rows-not-written"

// nextDayNoMidnight: the local day after the day of ts does not begin at 00:00.
func nextDayNoMidnight(ts int64, loc *time.Location) bool {
	t := time.UnixMilli(ts).In(loc)
	return noLocalMidnight(time.Date(t.Year(), t.Month(), t.Day()+1, 12, 0, 0, 0, loc).UnixMilli(), loc)
}

// noLocalMidnight: the local day of ts does not begin at 00:00.
func noLocalMidnight(ts int64, loc *time.Location) bool {
	t := time.UnixMilli(ts).In(loc)
	return time.Date(t.Year(), t.Month(), t.Day(), 0, 0, 0, 0, loc).Day() != t.Day() || time.Date(t.Year(), t.Month(), t.Day(), 0, 0, 0, 0, loc).Hour() != 0
}

// witnessNoMidnight: the recorded finding on its smallest input, every run.
func witnessNoMidnight(c *core.Ctx) {
	loc, err := time.LoadLocation("America/Santiago")
	if err != nil {
		c.Fail("harness-no-tzdata", err.Error())
		return
	}
	old := time.Local
	time.Local = loc
	defer func() { time.Local = old }()
	ts := time.Date(2024, 9, 8, 12, 0, 0, 0, loc).UnixMilli()
	ts2 := time.Date(2024, 9, 9, 12, 0, 0, 0, loc).UnixMilli()
	cf := &cfg{lim: limits{isDefault: true, maxName: 256, maxField: 128, maxTagKey: 128, maxTagVal: 1024, maxTags: 32, maxFields: 256}}
	b := metric.NewBrokerBatchRows()
	for i, t := range []int64{ts2, ts} {
		m := simpleMetric(i, t)
		m.tags = []*ltag{{"id", "same"}}
		_ = b.TryAppend(func(row *metric.BrokerRow) error {
			err, _, _ := convertProto(cf, m, row)
			return err
		})
	}
	iv := timeutil.Interval(5 * 60 * 1000)
	_, rg := familyRange(iv, ts)
	h := handedOut(b, 1, iv)
	if h != 2 || !rg.Contains(ts) {
		c.Fail(keyNoMidnight, fmt.Sprintf("zone America/Santiago, interval 5m, one series, rows at 2024-09-09 12:00 and 2024-09-08 12:00 local: family range of the second [%d, %d] (end before start), the iterators hand out %d of 2 rows", rg.Start, rg.End, h))
	} else {
		c.Note("finding " + keyNoMidnight + " does not reproduce (repaired?)")
	}
	// the day before: last local hour
	tsA := time.Date(2024, 9, 6, 12, 0, 0, 0, loc).UnixMilli()
	tsB := time.Date(2024, 9, 7, 23, 30, 0, 0, loc).UnixMilli()
	b2 := metric.NewBrokerBatchRows()
	for i, t := range []int64{tsA, tsB} {
		m := simpleMetric(i, t)
		m.tags = []*ltag{{"id", "same"}}
		_ = b2.TryAppend(func(row *metric.BrokerRow) error {
			err, _, _ := convertProto(cf, m, row)
			return err
		})
	}
	_, rgB := familyRange(iv, tsB)
	h2 := handedOut(b2, 1, iv)
	if h2 != 2 || !rgB.Contains(tsB) {
		c.Fail(keyBeforeNoMidnight, fmt.Sprintf("zone America/Santiago, interval 5m, one series, rows at 2024-09-06 12:00 and 2024-09-07 23:30 local: family range of the second [%d, %d] ends at 22:59:59.999, the iterators hand out %d of 2 rows", rgB.Start, rgB.End, h2))
	} else {
		c.Note("finding " + keyBeforeNoMidnight + " does not reproduce (repaired?)")
	}
}

// famGroups: the (family time, rows) groups the real iterators hand out for a one-shard batch of rows r<i>.
func famGroups(b *metric.BrokerBatchRows, iv timeutil.Interval) (out string) {
	defer func() {
		if recover() != nil {
			out = "panic"
		}
	}()
	var gs []string
	it := b.NewShardGroupIterator(1)
	for it.HasRowsForNextShard() {
		_, fit := it.FamilyRowsForNextShard(iv)
		for fit.HasNextFamily() {
			ft, rs := fit.NextFamily()
			var ids []int
			for k := range rs {
				fm := rs[k].Metric()
				id, _ := strconv.Atoi(strings.TrimPrefix(string(fm.Name()), "r"))
				ids = append(ids, id)
			}
			sort.Ints(ids)
			p := make([]string, len(ids))
			for k, id := range ids {
				p[k] = strconv.Itoa(id)
			}
			gs = append(gs, fmt.Sprintf("%d:%s", ft, strings.Join(p, ",")))
		}
	}
	if len(gs) == 0 {
		return "groups -"
	}
	return "groups " + strings.Join(gs, " ")
}

func caseDSTFamilies(c *core.Ctx, r *rand.Rand) {
	z := dstZones[r.Intn(len(dstZones))]
	loc, err := time.LoadLocation(z.name)
	if err != nil {
		c.Fail("harness-no-tzdata", err.Error())
		return
	}
	old := time.Local
	time.Local = loc
	defer func() { time.Local = old }()

	iv := timeutil.Interval([]int64{5 * 60 * 1000, 10 * 60 * 1000, 30 * 60 * 1000, 5 * 60 * 1000, 10 * 1000, 3600 * 1000}[r.Intn(6)])
	d := z.days[r.Intn(len(z.days))]
	day0 := time.Date(d[0], time.Month(d[1]), d[2], 0, 0, 0, 0, loc)
	n := 2 + r.Intn(7)
	numShards := []int{1, 1, 2, 3}[r.Intn(4)]
	cf := &cfg{lim: limits{isDefault: true, maxName: 256, maxField: 128, maxTagKey: 128, maxTagVal: 1024, maxTags: 32, maxFields: 256}}
	b := metric.NewBrokerBatchRows()
	type sentRow struct {
		name string
		ts   int64
		hash uint64
	}
	var sentRows []sentRow
	for i := 0; i < n; i++ {
		// minutes from the local midnight of the day of the switch: the day before … the day after,
		// with weight on the first and last hours of each day
		var mins int
		switch r.Intn(4) {
		case 0:
			mins = r.Intn(3*24*60) - 24*60
		case 1:
			mins = []int{-24, 0, 23, 24, 25, 47, 48, 49}[r.Intn(8)]*60 + r.Intn(60)
		case 2:
			mins = []int{-1, 0, 1, 2, 3, 22, 23, 24, 25}[r.Intn(9)]*60 + r.Intn(60)
		default:
			mins = 12*60 + r.Intn(60)
		}
		ts := day0.Add(time.Duration(mins) * time.Minute).UnixMilli()
		m := simpleMetric(i, ts)
		if numShards == 1 || r.Intn(2) == 0 {
			m.tags = []*ltag{{"id", "same"}} // one series: one shard group
		}
		if err := b.TryAppend(func(row *metric.BrokerRow) error {
			err, _, _ := convertProto(cf, m, row)
			return err
		}); err != nil {
			c.Fail("dst-row-rejected", err.Error())
			return
		}
		o, _ := observe(&b.Rows()[b.Len()-1])
		if o == nil {
			c.Fail("row-unreadable", "dst batch")
			return
		}
		sentRows = append(sentRows, sentRow{m.name, ts, o.hash})
	}
	desc := func() string {
		var p []string
		for _, s := range sentRows {
			p = append(p, fmt.Sprintf("%s@%s", s.name, time.UnixMilli(s.ts).In(loc).Format("2006-01-02T15:04Z07:00")))
		}
		return fmt.Sprintf("zone %s, interval %dms, %d shards, rows %s", z.name, int64(iv), numShards, strings.Join(p, " "))
	}
	c.Branch("dst/" + z.name + "/" + string(iv.Type()))
	if numShards == 1 {
		// correspondence: the real family iterator over this one shard group against Route.familyGroupsCode,
		// the calculator's answers for the batch's timestamps passed in (the model runs for ANY calculator,
		// also one whose range excludes the timestamp it was computed from)
		var ws []string
		for _, s := range sentRows {
			ft, rg := familyRange(iv, s.ts)
			ws = append(ws, fmt.Sprintf("%d:%d:%d:%d", s.ts, ft, rg.Start, rg.End))
		}
		c.Op("famscan "+strings.Join(ws, " "), famGroups(b, iv))
	}
	if iv.Type() == timeutil.Month {
		for _, s := range sentRows {
			if _, rg := familyRange(iv, s.ts); !noLocalMidnight(s.ts, loc) && nextDayNoMidnight(s.ts, loc) && !rg.Contains(s.ts) {
				c.Fail(keyBeforeNoMidnight, fmt.Sprintf("timestamp %s lies in the last hour before a local day without 00:00: calculator range [%d, %d] ends before it; the iterators hand out %d of %d rows (%s)",
					time.UnixMilli(s.ts).In(loc), rg.Start, rg.End, handedOut(b, numShards, iv), b.Len(), desc()))
				c.NonTrivial()
				return
			} else if noLocalMidnight(s.ts, loc) && !rg.Contains(s.ts) {
				// the recorded finding's region: judged by its own key only
				c.Fail(keyNoMidnight, fmt.Sprintf("timestamp %s lies on a local day without 00:00: calculator range [%d, %d] is empty; the iterators hand out %d of %d rows (%s)",
					time.UnixMilli(s.ts).In(loc), rg.Start, rg.End, handedOut(b, numShards, iv), b.Len(), desc()))
				c.NonTrivial()
				return
			}
		}
	}
	seen := map[string]int{}
	func() {
		defer func() {
			if p := recover(); p != nil {
				c.Fail("panic", fmt.Sprintf("family iteration panicked: %v (%s)", p, desc()))
			}
		}()
		it := b.NewShardGroupIterator(int32(numShards))
		for it.HasRowsForNextShard() {
			shardIdx, fit := it.FamilyRowsForNextShard(iv)
			for fit.HasNextFamily() {
				ft, rs := fit.NextFamily()
				for k := range rs {
					fm := rs[k].Metric()
					name := string(fm.Name())
					ts := fm.Timestamp()
					seen[name]++
					start, end := independentFamily(iv, ts, loc)
					if ft != start {
						c.Fail("row-in-wrong-family", fmt.Sprintf("row %s with timestamp %s is handed to family %s; the family containing it is [%s, %s] (%s)", name,
							time.UnixMilli(ts).In(loc), time.UnixMilli(ft).In(loc), time.UnixMilli(start).In(loc), time.UnixMilli(end).In(loc), desc()))
					}
					if want := int(jump.Hash(fm.KvsHash(), int32(numShards))); want != shardIdx {
						c.Fail("row-in-wrong-shard", fmt.Sprintf("row %s in shard %d, jump hash says %d (%s)", name, shardIdx, want, desc()))
					}
				}
			}
		}
	}()
	var lost []string
	for _, s := range sentRows {
		switch seen[s.name] {
		case 1:
		case 0:
			lost = append(lost, s.name)
		default:
			c.Fail("row-not-in-exactly-one-group", fmt.Sprintf("row %s handed out %d times (%s)", s.name, seen[s.name], desc()))
		}
		// the calculator's own range of the timestamp must be the family's range
		ft, rg := familyRange(iv, s.ts)
		start, end := independentFamily(iv, s.ts, loc)
		if ft != start || rg.Start != start || rg.End != end {
			c.Fail("family-range-not-the-family", fmt.Sprintf("timestamp %s: the calculator gives family %s with range [%s, %s], the family is [%s, %s] (zone %s, interval %dms)",
				time.UnixMilli(s.ts).In(loc), time.UnixMilli(ft).In(loc), time.UnixMilli(rg.Start).In(loc), time.UnixMilli(rg.End).In(loc),
				time.UnixMilli(start).In(loc), time.UnixMilli(end).In(loc), z.name, int64(iv)))
		}
	}
	if len(lost) > 0 {
		sort.Strings(lost)
		c.Fail("rows-not-handed-to-any-family", fmt.Sprintf("%d rows were sent, rows %v are in no family group: silently not written (%s)", len(sentRows), lost, desc()))
	}
	c.NonTrivial()
}
